import Driver.Common
import EgVerif.Spec.Mux
import EgVerif.Spec.IPFilter
/-!
Shared judge for the mux harness (`pkg/object/httpserver/zz_verif_c01_mux_test.go`), used by
`egjudge-C01` (routing) and `egjudge-C05` (IP filters in the router, and the ipfilter package).

The harness ships, next to what `mux.ServeHTTP` did, the answers of everything the model treats as
an oracle, computed with the Go standard library only: `net.SplitHostPort`, `Header.Get`,
`regexp.MatchString` / `ReplaceAllString` for every (pattern, subject) at hand,
`net.ParseIP` / `net.ParseCIDR` of every filter entry and of the client address, `realip`.
-/
open Lean EgVerif

namespace Driver.MuxJudge

/-! ### IP filter data -/

def natOfBytes (bs : List Nat) : Nat := bs.foldl (fun acc b => acc * 256 + b % 256) 0

def getNatList (j : Json) (k : String) : Except String (List Nat) := do
  let a ← getArr j k
  a.toList.mapM (·.getNat?)

def parseAddr (j : Json) : Except String IPFilter.Addr := do
  let fam ← getNat j "fam"
  let b ← getNatList j "b"
  if fam == 4 && b.length == 4 then pure (.v4 (natOfBytes b))
  else if fam == 6 && b.length == 16 then pure (.v6 (natOfBytes b))
  else throw "addr: bad family/length"

def parseOptAddr (j : Json) : Except String (Option IPFilter.Addr) :=
  match j with
  | .null => pure none
  | _ => do pure (some (← parseAddr j))

def parseRaw (j : Json) : Except String IPFilter.RawEntry := do
  let k ← getStr j "k"
  if k == "ip" then pure (.ip (← parseAddr j))
  else if k == "cidr" then pure (.cidr (← parseAddr j) (← getNat j "ones") (← getNat j "bits"))
  else pure .bad

def parseFilter (j : Json) : Except String IPFilter.Filter := do
  let bbd ← getBool j "bbd"
  let al ← (← getArr j "allow").toList.mapM parseRaw
  let bl ← (← getArr j "block").toList.mapM parseRaw
  pure (IPFilter.new bbd al bl)

/-! ### Mux configuration -/

structure Tables where
  pats : List String                         -- distinct non-empty patterns, id = position
  re : List (String × String × Bool)         -- (pattern, subject, MatchString)
  rep : List (String × String × String × String)   -- (pattern, path, target, ReplaceAllString)
  filters : List IPFilter.Filter
  ip : Option IPFilter.Addr

def reId (pats : List String) (p : String) : Option Nat :=
  if p == "" then none else
  match pats.findIdx? (· == p) with
  | some i => some i
  | none => some pats.length      -- unknown pattern: an id no table answers (⇒ false)

def Tables.ρ (t : Tables) (i : Nat) (s : String) : Bool :=
  match t.pats[i]? with
  | none => false
  | some p => match t.re.find? (fun x => x.1 == p && x.2.1 == s) with
    | some x => x.2.2
    | none => false

def Tables.σ (t : Tables) (i : Nat) (path target : String) : String :=
  match t.pats[i]? with
  | none => path
  | some p => match t.rep.find? (fun x => x.1 == p && x.2.1 == path && x.2.2.1 == target) with
    | some x => x.2.2.2
    | none => path

def Tables.oracle (t : Tables) : Mux.Oracle := IPFilter.muxOracle t.ρ t.filters t.ip

def isNullOrMissing (j : Json) (k : String) : Bool :=
  match j.getObjVal? k with
  | .ok .null => true
  | .ok _ => false
  | .error _ => true

/-- Collect patterns in traversal order. -/
def collectPats (inp : Json) : List String := Id.run do
  let mut ps : List String := []
  let add := fun (ps : List String) (p : String) => if p == "" || ps.contains p then ps else ps ++ [p]
  for r in (getArr inp "rules").toOption.getD #[] do
    ps := add ps (optStr r "hostRegexp")
    for e in (getArr r "paths").toOption.getD #[] do
      ps := add ps (optStr e "pathRegexp")
      for h in (getArr e "headers").toOption.getD #[] do
        ps := add ps (optStr h "regexp")
  return ps

/-- Build the model configuration; filter ids are assigned in traversal order
(server, then per rule: the rule's filter, then its paths' filters). -/
def buildCfg (pats : List String) (inp : Json) : Mux.Cfg := Id.run do
  let mut next : Nat := 0
  let mut sf : Option Nat := none
  if !isNullOrMissing inp "ipFilter" then
    sf := some next; next := next + 1
  let mut rules : List Mux.Rule := []
  for r in (getArr inp "rules").toOption.getD #[] do
    let mut rf : Option Nat := none
    if !isNullOrMissing r "ipFilter" then
      rf := some next; next := next + 1
    let mut paths : List Mux.PathEntry := []
    for e in (getArr r "paths").toOption.getD #[] do
      let mut pf : Option Nat := none
      if !isNullOrMissing e "ipFilter" then
        pf := some next; next := next + 1
      let hs : List Mux.HeaderCond := ((getArr e "headers").toOption.getD #[]).toList.map fun h =>
        ⟨optStr h "key", (getStrList h "values").toOption.getD [], reId pats (optStr h "regexp")⟩
      let pe : Mux.PathEntry :=
        { path := optStr e "path", pathPrefix := optStr e "pathPrefix",
          pathRE := reId pats (optStr e "pathRegexp"),
          methods := (getStrList e "methods").toOption.getD [], headers := hs,
          matchAll := optBool e "matchAllHeader", rewriteTarget := optStr e "rewriteTarget",
          backend := optStr e "backend", ipFilter := pf }
      paths := paths ++ [pe]
    rules := rules ++ [{ host := optStr r "host", hostRE := reId pats (optStr r "hostRegexp"),
                         ipFilter := rf, paths := paths }]
  return { ipFilter := sf, rules := rules }

def parseTables (pats : List String) (orc : Json) : Except String Tables := do
  let re ← (← getArr orc "re").toList.mapM fun x => do
    let a ← x.getArr?
    unless a.size == 3 do throw "re entry"
    pure ((← a[0]!.getStr?), (← a[1]!.getStr?), (← a[2]!.getBool?))
  let rep ← (← getArr orc "rep").toList.mapM fun x => do
    let a ← x.getArr?
    unless a.size == 4 do throw "rep entry"
    pure ((← a[0]!.getStr?), (← a[1]!.getStr?), (← a[2]!.getStr?), (← a[3]!.getStr?))
  let fs ← (← getArr orc "filters").toList.mapM parseFilter
  let ip ← parseOptAddr ((orc.getObjVal? "ipParsed").toOption.getD .null)
  pure { pats := pats, re := re, rep := rep, filters := fs, ip := ip }

def parseReq (inp orc : Json) : Except String Mux.Req := do
  let rq ← inp.getObjVal? "req"
  let hdr ← (← getArr orc "hdr").toList.mapM fun x => do
    let a ← x.getArr?
    unless a.size == 2 do throw "hdr entry"
    pure ((← a[0]!.getStr?), (← a[1]!.getStr?))
  pure { host := optStr rq "host", hostNoPort := ← getStr orc "hostNoPort", method := optStr rq "method",
         path := optStr rq "path", hdr := hdr, ip := ← getStr orc "ip" }

def outcomeJson : Mux.Outcome → Json
  | .status c => Json.mkObj [("status", c)]
  | .handled b p h x => Json.mkObj [("handler", b), ("path", p), ("host", h), ("xff", x)]
  | .panic => Json.mkObj [("panic", "rewrite: nil pathRE")]

def routeTag : Mux.Route → String
  | .code c => s!"route:{c}"
  | .path _ _ _ => "route:matched"

/-- Status the recording handler answers with. -/
def handlerStatus : Nat := 299

structure Parsed where
  cfg : Mux.Cfg
  q : Mux.Req
  t : Tables
  xff : Bool
  backends : List String

def parseCase (input obs : Json) : Except String Parsed := do
  let orc ← obs.getObjVal? "or"
  let pats := collectPats input
  let t ← parseTables pats orc
  let cfg := buildCfg pats input
  let q ← parseReq input orc
  pure { cfg := cfg, q := q, t := t, xff := optBool input "xff",
         backends := (getStrList input "backends").toOption.getD [] }

def parseObserved (obs : Json) : Except String Mux.Outcome := do
  let st ← getNat obs "status"
  if optBool obs "called" then
    unless st == handlerStatus do throw s!"handler invoked but status {st}"
    pure (.handled (← getStr obs "handler") (← getStr obs "path") (← getStr obs "host") (← getStr obs "xffSeen"))
  else pure (.status st)

/-- The judge. `wantFilters` only changes tags / the non-triviality rule. -/
def judge (c05 : Bool) : Judge := liftJudge fun input obs => do
  match obsPanic obs with
  | some m =>
    -- no property in scope allows the router (or reload on a valid spec) to panic
    let sg := if (m.splitOn "index out of range").length > 1 then "panic:ipfilter.New:v4-mapped"
              else "panic:mux"
    pure { agree := false, spec := false, sig := sg, note := m }
  | none =>
  if optStr obs "invalid" != "" then
    -- the product's own validation rejected the spec (or an ACME path): nothing was served
    pure { agree := true, spec := true, tags := ["skipped:" ++ optStr obs "invalid"], nontrivial := false }
  else
  let p ← parseCase input obs
  let got ← parseObserved obs
  let o := p.t.oracle
  let want := Mux.serve o p.t.σ p.cfg p.xff p.backends p.q
  let exp := Mux.Spec.expect o p.t.σ p.cfg p.backends p.q
  let agree := decide (got = want)
  let spec := Mux.Spec.satisfies exp got
  let es := Mux.Spec.entries o p.cfg p.q
  let r0 := Mux.Spec.route o p.cfg p.q
  let den := Mux.Spec.denied o p.cfg p.q
  let nFull := (es.filter (Mux.Spec.full o p.q)).length
  let firstIdx := es.findIdx? (Mux.Spec.full o p.q)
  let hasF := p.t.filters.length > 0
  let rewrote := match got with
    | .handled _ pth _ _ => pth != p.q.path
    | _ => false
  let tags := [routeTag r0, s!"rules:{p.cfg.rules.length}",
      s!"hostmatch:{min 3 ((p.cfg.rules.filter (fun r => Mux.Spec.hostOK o r p.q)).length)}"]
    ++ (if nFull > 1 then ["multi-full-match"] else [])
    ++ (match firstIdx with | some i => if i > 0 then ["match-not-first-entry"] else [] | none => [])
    ++ (if es.any (Mux.Spec.hdrFail o p.q) then ["hdr-mismatch-seen"] else [])
    ++ (if es.any (Mux.Spec.methFail o p.q) then ["method-mismatch-seen"] else [])
    ++ (if rewrote then ["rewritten"] else [])
    ++ (match got with | .status 503 => ["503"] | _ => [])
    ++ (if p.q.host != p.q.hostNoPort then ["host-with-port"] else [])
    ++ (if hasF then [s!"filters:{min 4 p.t.filters.length}", if den then "denied" else "not-denied",
          match p.t.ip with | none => "ip:unparsable" | some (.v4 _) => "ip:v4" | some (.v6 _) => "ip:v6"]
        else ["no-filters"])
    ++ (if den then [match r0 with | .code c => s!"denied-over:{c}" | .path .. => "denied-over:match"] else [])
  let nontrivial := if c05 then hasF && (den || (Mux.Spec.applying o p.cfg p.q).any (·.isSome))
                    else es.length ≥ 2 && (nFull ≥ 1 || es.any (Mux.Spec.hdrFail o p.q) || es.any (Mux.Spec.methFail o p.q))
  let sig :=
    if spec then "" else
    match got, exp with
    | .handled .., .status 403 => "ipfilter:denied-client-reached-handler"
    | .status 403, _ => "ipfilter:undenied-client-refused"
    | _, .status 403 => "ipfilter:denied-client-not-403"
    | .handled b _ _ _, .handled b' _ _ => if b != b' then "route:wrong-backend" else "route:wrong-rewrite-or-host"
    | .handled .., .status c => s!"route:handled-instead-of-{c}"
    | .status c, .handled .. => s!"route:{c}-instead-of-handled"
    | .status c, .status c' => s!"route:{c}-instead-of-{c'}"
    | .panic, _ => "panic:mux"
  pure { agree := agree, spec := spec, expected := outcomeJson want, tags := tags,
         nontrivial := nontrivial, sig := sig,
         note := if agree then "" else "model expects " ++ (outcomeJson want).compress }

/-! ### ipfilter package judge (C05 harness `ipfilter`) -/

def ipfJudge : Judge := liftJudge fun input obs => do
  match obsPanic obs with
  | some m =>
    let sg := if (m.splitOn "index out of range").length > 1 then "panic:ipfilter.New:v4-mapped"
              else "panic:ipfilter"
    pure { agree := false, spec := false, sig := sg, note := m }
  | none =>
  let f ← parseFilter (← obs.getObjVal? "filter")
  let ips ← (← getArr obs "ips").toList.mapM parseOptAddr
  let res ← (← getArr obs "res").toList.mapM (·.getBool?)
  -- membership according to net.IPNet.Contains, per address: [in some allow entry, in some block entry]
  let std ← (← getArr obs "std").toList.mapM fun x => do
    let a ← x.getArr?
    unless a.size == 2 do throw "std entry"
    pure ((← a[0]!.getBool?), (← a[1]!.getBool?))
  unless ips.length == res.length && std.length == res.length do throw "length mismatch"
  let want := ips.map (IPFilter.allow f)
  let agree := decide (res = want)
  let bbd := f.blockByDefault
  -- spec on the implementation's answers: allowed iff not denied by the statement's table,
  -- membership decided by the standard library; an unparsable address gets the default
  let specOne := fun (x : (Option IPFilter.Addr × Bool) × (Bool × Bool)) =>
    match x.1.1 with
    | none => x.1.2 == !bbd
    | some _ => x.1.2 == !IPFilter.deniedTable bbd x.2.1 x.2.2
  let rows := (ips.zip res).zip std
  let spec := rows.all specOne
  -- the model's own membership against the standard library's
  let stdAgree := (ips.zip std).all fun (a, s) => match a with
    | none => true
    | some a => IPFilter.rangerContains f.allow a == s.1 && IPFilter.rangerContains f.block a == s.2
  let anyBoth := std.any (fun s => s.1 && s.2)
  let anyA := std.any (fun s => s.1 && !s.2)
  let anyB := std.any (fun s => !s.1 && s.2)
  let anyN := std.any (fun s => !s.1 && !s.2)
  let mapped := optBool obs "hasMapped"
  let tags := (if bbd then ["blockByDefault"] else ["allowByDefault"])
    ++ (if anyBoth then ["in-both"] else []) ++ (if anyA then ["in-allow-only"] else [])
    ++ (if anyB then ["in-block-only"] else []) ++ (if anyN then ["in-neither"] else [])
    ++ (if ips.any (·.isNone) then ["unparsable-ip"] else [])
    ++ (if ips.any (fun a => match a with | some (.v6 _) => true | _ => false) then ["v6-client"] else [])
    ++ (if (f.allow ++ f.block).any (fun c => match c.addr with | .v6 _ => true | _ => false) then ["v6-entry"] else [])
    ++ (if mapped then ["v4-mapped-entry"] else [])
    ++ (if (f.allow ++ f.block).any (fun c => c.len == 0) then ["len0"] else [])
    ++ (if (f.allow ++ f.block).any (fun c => c.len == c.addr.width) then ["host-entry"] else [])
  let badRow := rows.find? (fun x => !specOne x)
  let sig := if spec then "" else
    match badRow with
    | some ((_, r), (a, b)) =>
      (if mapped then "ipfilter:v4-mapped:" else "ipfilter:") ++
      (if r then "allowed-but-denied-by-table" else "denied-but-allowed-by-table") ++
      (if a && b then ":both" else if a then ":allow-only" else if b then ":block-only" else ":neither")
    | none => "ipfilter:?"
  pure { agree := agree && stdAgree, spec := spec,
         expected := Json.arr (want.map Json.bool).toArray, tags := tags,
         nontrivial := anyBoth || anyA || anyB, sig := sig,
         note := if !stdAgree then "model contains ≠ net.IPNet.Contains" else "" }

end Driver.MuxJudge
