import Driver.Common
import EgVerif.Spec.Retry
/-! Judge for C10: runs `Model.Retry` and `Spec.Retry` on every harness case. -/
open Lean Driver EgVerif.Retry

namespace Driver.C10

def parseBackend (s : String) : Backend :=
  if s == "ok" then .respond 200
  else if s.startsWith "s:" then
    let c := ((s.drop 2).toString.toNat?).getD 200
    .respond (if c < 100 || c > 599 then 200 else c)
  else if s == "bad" then .badResp
  else if s == "hang" then .hang
  else .netErr

structure Req where
  stream : Bool
  script : List String
  cancel : String
  at_ : Nat
  /-- the client's request body ("" in the input = the historical "payload", "-" = empty) -/
  payload : String := "payload"
  skind : String := ""

def parseReq (j : Json) : Req :=
  { stream := optBool j "stream",
    payload := (let p := optStr j "payload"; if p == "" then "payload" else if p == "-" then "" else p),
    skind := optStr j "skind",
    script := match getStrList j "script" with | .ok l => l | .error _ => [],
    cancel := optStr j "cancel",
    at_ := (optInt j "at").toNat }

def Req.backend (r : Req) (k : Nat) : Backend :=
  match r.script[k]? with
  | some s => parseBackend s
  | none => match r.script.getLast? with
    | some s => parseBackend s
    | none => .netErr

/-- from which attempt on the client's context is cancelled -/
def Req.gone (r : Req) : Option Nat :=
  if r.cancel == "before" then some 0
  else if r.cancel == "during" then some r.at_
  else none

/-- The stub cancels synchronously inside call `at_` for `backoff` and then answers per script; a
scripted network error / hang at that call is then seen with a cancelled context. -/
def Req.env (r : Req) (timeout : Nat) : Env :=
  let goneAt (k : Nat) : Bool := match r.gone with | some j => decide (k ≥ j) | none => false
  let goneNow (k : Nat) : Bool :=
    goneAt k || (r.cancel == "backoff" && k == r.at_ && (r.backend k == .netErr || r.backend k == .hang))
  { attempt := fun k => meet timeout (goneNow k) (r.backend k),
    jitter := fun _ => 0,
    done := fun k => goneAt k || (r.cancel == "backoff" && decide (k ≥ r.at_)) }

/-- Inherently racy classifications (never generated, kept so that a hand-written / shrunk case cannot
raise a false alarm): under a pool timeout below one second a transport *error* may be classified as
a deadline if the scheduler delays the goroutine; the judge then accepts either outcome. -/
def Req.attemptAlt (r : Req) (timeout : Nat) (k : Nat) : Attempt :=
  let a := (r.env timeout).attempt k
  if timeout > 0 && timeout < 1000000000 then
    match a with
    | .sendErr _ => .sendErr .deadline
    | x => x
  else a

structure Acc where
  cbModel : CB
  cbSpec : CB
  agree : Bool := true
  spec : Bool := true
  sig : String := ""
  tags : List String := []
  nontrivial : Bool := false
  expected : List Json := []

def judge : Judge := liftJudge fun input obs => do
  match obsPanic obs with
  | some m => pure { agree := false, spec := false, sig := "panic:case", note := m, tags := ["panic"] }
  | none =>
  match getStr obs "error" with
  | .ok e => pure { agree := false, spec := true, note := "harness-error: " ++ e, nontrivial := false, tags := ["harness-error"] }
  | .error _ =>
  let timeout := (optInt input "timeoutNs").toNat
  let fc := match getIntList input "failureCodes" with | .ok l => l.map Int.toNat | .error _ => []
  let retryJ := (input.getObjVal? "retry").toOption.getD Json.null
  let waitNs := optInt obs "waitNs"
  let retry : Option RetryPolicy :=
    match retryJ with
    | .null => none
    | j =>
      let fDen := (optInt j "fDen" 1).toNat
      let fNum := (optInt j "fNum").toNat
      let (fNum, fDen) := if fDen == 0 then (0, 1) else (fNum, fDen)
      some { maxAttempts := optInt j "max", wait := createWrapper waitNs,
             exponential := optStr j "backoff" == "exponential", fNum := fNum, fDen := fDen }
  let cbJ := (input.getObjVal? "cb").toOption.getD Json.null
  let hasCB := match cbJ with | .null => false | _ => true
  let cb0 : CB := { minCalls := (optInt cbJ "minCalls").toNat, threshold := (optInt cbJ "threshold").toNat }
  let pool : Pool := ⟨fc, retry, hasCB⟩
  let reqsIn := (← getArr input "reqs").toList.map parseReq
  let reqsObs := (← getArr obs "reqs").toList
  let baseTags : List String :=
    (match retry with
     | none => ["no-retry"]
     | some p => [s!"max={p.maxAttempts}", if p.exponential then "backoff:exponential" else "backoff:fixed",
                  if p.fNum == 0 then "f=0" else if p.fNum == p.fDen then "f=1" else "0<f<1"]
                 ++ (if waitNs ≤ 0 then ["default-wait"] else []))
    ++ (if hasCB then ["cb"] else []) ++ (if timeout > 0 then ["timeout"] else [])
    -- `shared` pools name the one policy object (CreateWrapper called that many times on it). The model
    -- does not read it: wrappers created from one policy are independent (`wrappers_independent`).
    ++ (let k := (optInt input "shared").toNat; if k ≥ 2 then [s!"shared-policy={k}"] else [])
  let step (acc : Acc) (ro : Req × Json) : Acc :=
    let (r, o) := ro
    let env := r.env timeout
    let calls := (optInt o "calls").toNat
    let gaps := match getIntList o "gaps" with | .ok l => l.map Int.toNat | .error _ => []
    let result := optStr o "result"
    let status := (optInt o "status").toNat
    let state := (optInt o "cbState").toNat
    let late := optBool o "late"
    let pan := optStr o "panic"
    let bodies := match getStrList o "bodies" with | .ok l => l | .error _ => []
    let pl : Payload := if r.stream then .stream r.payload else .buffered r.payload
    let ob : ReqObs := ⟨calls, gaps, result, status⟩
    -- model
    let permitted := !acc.cbModel.isOpen
    let m := handle pool r.stream permitted env
    let mCalls := (EgVerif.Retry.calls m.events).length
    let cbM := match m.cbRecords with | f :: _ => acc.cbModel.record f | [] => acc.cbModel
    let mState := if hasCB then cbM.state else 0
    let gOK := gapsOK pool ob && gaps.length + 1 == (if calls == 0 then 1 else calls)
    -- admissible alternative outcomes (select / deadline races, see `attemptAlt`)
    let envAlt : Env := { env with attempt := r.attemptAlt timeout }
    let mAlt := handle pool r.stream permitted envAlt
    -- After the client is gone the back-off `select` has `ctx.Done()` ready and a timer. If the
    -- goroutine is preempted for longer than the back-off both are ready and Go may pick either, so
    -- with a back-off below one second "one more attempt" is an admissible outcome (observed under
    -- heavy CPU load); the generator only cancels under back-offs ≥ 1.5 s, where the judge is strict.
    let cancelAt : Nat := match r.gone with | some j => j | none => r.at_
    let racySelect := r.cancel != "" &&
      (match retry with | some p => decide (backoffLower p cancelAt < 1000000000) | none => false)
    let sameAsModel (mm : HandleOut) := calls == (EgVerif.Retry.calls mm.events).length && result == mm.result
      && some status == mm.status
    let agree := (sameAsModel m || sameAsModel mAlt || racySelect) && state == mState
      && gOK && !late && pan == "" && bodies == sentBodies pl calls
    -- spec on the observation
    let shortObs := result == "shortCircuited"
    let s1 := calls ≤ maxCalls pool r.stream
    let s2 := !r.stream || calls ≤ 1
    let s3 := noCallAfterSuccess fc env.attempt calls
    let s4 := if shortObs then calls == 0 && status == 503 && acc.cbSpec.isOpen && hasCB
              else calls ≥ 1 && (lastAttemptSeen fc env.attempt ob || lastAttemptSeen fc envAlt.attempt ob)
    let s5 := gapsOK pool ob
    let goneAt : Option Nat := match r.gone with
      | some j => some j
      | none => if r.cancel == "backoff" then some r.at_ else none
    let s6 := cancelOK goneAt calls || racySelect
    let s7 := !late && pan == ""
    let cbS := if hasCB && !shortObs then acc.cbSpec.record (result != "") else acc.cbSpec
    let s8 := !hasCB || (state == cbS.state && (shortObs == acc.cbSpec.isOpen))
    -- every attempt carries the client's full payload
    let s9 := bodies.length == calls && payloadOK r.payload bodies
    let spec := s1 && s2 && s3 && s4 && s5 && s6 && s7 && s8 && s9
    let sig := if spec then "" else
      if pan != "" then "panic:handle"
      else if late then "hang:request-did-not-return"
      else if !s2 then "stream:re-sent"
      else if !s1 then "retry:more-than-maxAttempts"
      else if !s3 then "retry:attempt-after-success"
      else if !s6 then "cancel:attempt-after-cancel"
      else if !s4 then "result:not-the-last-attempt"
      else if !s9 then "payload:attempt-without-full-body"
      else if !s5 then "backoff:gap-too-short"
      else "cb:not-one-record-per-request"
    let t := (if r.stream then ["stream", "stream:" ++ (if r.skind == "" then "cl>0" else r.skind)] else [])
      ++ (if r.payload == "" then ["payload:empty"] else []) ++ (if r.cancel != "" then ["cancel:" ++ r.cancel] ++ (if r.at_ ≥ 1 then ["cancel:at-later-attempt"] else []) else [])
      ++ (if calls ≥ 2 then ["retried"] else []) ++ (if shortObs then ["short-circuited"] else [])
      ++ (if result == "timeout" then ["408"] else []) ++ (if result == "" then ["success"] else ["result:" ++ result])
      ++ (if hasCB && cbS.isOpen && !acc.cbSpec.isOpen then ["cb-opens"] else [])
    let nt := calls ≥ 2 || r.cancel != "" || shortObs || result == "timeout" || (r.stream && retry.isSome)
    { cbModel := cbM, cbSpec := cbS, agree := acc.agree && agree, spec := acc.spec && spec,
      sig := if acc.sig != "" then acc.sig else sig,
      tags := acc.tags ++ t.filter (fun x => !acc.tags.contains x),
      nontrivial := acc.nontrivial || nt,
      expected := acc.expected ++ [Json.mkObj [("calls", Json.num (Int.ofNat mCalls)), ("result", m.result),
        ("status", Json.num (Int.ofNat (m.status.getD 0))), ("cbState", Json.num (Int.ofNat mState))]] }
  let acc := (reqsIn.zip reqsObs).foldl step { cbModel := cb0, cbSpec := cb0 }
  let lenOK := reqsObs.length == (if reqsIn.length > 64 then 64 else reqsIn.length)
  pure { agree := acc.agree && lenOK, spec := acc.spec, expected := Json.arr acc.expected.toArray,
         tags := baseTags ++ acc.tags, nontrivial := acc.nontrivial, sig := acc.sig }

def judges : List (String × Judge) := [("C10", judge)]

end Driver.C10

def main (args : List String) : IO UInt32 := Driver.runMain Driver.C10.judges args
