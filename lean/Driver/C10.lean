import Driver.Common
/-! Judge for C10: not built yet (stub so that the target exists). -/
open Lean Driver

namespace Driver.C10

def judges : List (String × Judge) := []

end Driver.C10

def main (args : List String) : IO UInt32 := Driver.runMain Driver.C10.judges args
