import Driver.Common
import EgVerif.Spec.Lifecycle
/-!
Judge for C20. One harness case = kind table, watchers, a history of snapshots / attachments, a
fault set; the observation has, per history item, the events each watcher received, the lifecycle
calls made, the supervisor's live set and the registry.

* `agree`: events, per-step calls (up to the order inside the delete / create / update loops — Go
  map iteration), live set and registry equal the model's (`Model/Lifecycle.lean`).
* `spec`: for every consumer watcher and every name, the observed calls of every step are exactly
  `wordStep` of the declarative per-name specification (`Spec/Lifecycle.lean`), the live set is the
  spec's view, and no panic escaped.
-/
open Lean EgVerif.Lifecycle

namespace Driver.C20

structure WatcherIn where
  cats : List Nat
  all : Bool
  consumer : Bool
  /-- the harness cannot see this watcher's events (a real run loop consumes them) -/
  noEvents : Bool := false
  /-- kinds the consumer keeps in its first map (slot 0); every other kind goes to slot 1 -/
  pipeKinds : List Nat := []
  createChecks : Bool := true
  /-- the consumer keeps its maps in a namespace object (`_cleanSpace`) -/
  namespaced : Bool := false

structure In where
  cats : List Nat
  watchers : List WatcherIn
  hist : List (Option Config × Nat)      -- (some cfg, _) = snapshot; (none, w) = attach watcher w
  panics : List (Nat × Nat × Nat × Nat)  -- op, name, kind, body
  enum : List Int := []                  -- harness "regx": [global index, size of the enumeration]
  shutdown : Bool := false               -- the harness called the real `Supervisor.close` after the history

def opOfStr : String → Nat
  | "init" => 0 | "inherit" => 1 | _ => 2

def opNat : Op → Nat
  | .init => 0 | .inherit => 1 | .close => 2

def opName : Op → String
  | .init => "init" | .inherit => "inherit" | .close => "close"

def parseEntry (j : Json) : Except String (Nat × Option (Kind × Body)) := do
  let n ← getNat j "n"
  let k ← getNat j "k"
  let b ← getNat j "b"
  let bad := optInt j "bad"
  pure (n, if bad != 0 then none else some (k, b))

/-- later duplicates override earlier ones (the harness builds a Go map) -/
def dedupe (l : List (Nat × Option (Kind × Body))) : Config :=
  l.foldl (fun m e => Map.set m e.1 e.2) []

def parseIn (j : Json) : Except String In := do
  let cats ← getIntList j "cats"
  let ws ← getArr j "watchers"
  let watchers ← ws.toList.mapM fun w => do
    let cs ← getIntList w "cats"
    let pk := match getIntList w "pipeKinds" with | .ok l => l.map Int.toNat | .error _ => []
    pure ({ cats := cs.map Int.toNat, all := optBool w "all", consumer := optBool w "consumer",
            noEvents := optBool w "noEvents" || optBool j "noEvents", pipeKinds := pk,
            createChecks := optBool w "createChecks" true,
            namespaced := optBool w "namespaced" } : WatcherIn)
  let hs ← getArr j "hist"
  let hist ← hs.toList.mapM fun h => do
    if optBool h "isSnap" then
      let es := match getArr h "snap" with | .ok a => a | .error _ => #[]
      let l ← es.toList.mapM parseEntry
      pure (some (dedupe l), 0)
    else
      pure (none, (optInt h "attach").toNat)
  let ps ← getArr j "panics"
  let panics ← ps.toList.mapM fun p => do
    let op ← getStr p "op"
    let n ← getNat p "n"
    let k ← getNat p "k"
    let b ← getNat p "b"
    pure (opOfStr op, n, k, b)
  let enum := match getIntList j "enum" with | .ok l => l | .error _ => []
  pure { cats := cats.map Int.toNat, watchers := watchers, hist := hist, panics := panics, enum := enum,
         shutdown := optBool j "shutdown" }

/-- kinds whose category is 9 are not registered: the yaml is rejected -/
def validate (inp : In) (c : Config) : Config :=
  c.map fun e => (e.1, match e.2 with
    | some (k, b) => if inp.cats.getD k 9 == 9 then none else some (k, b)
    | none => none)

def mkParams (inp : In) (w : WatcherIn) : Params :=
  { cat := fun k => inp.cats.getD k 9
    filter := fun c => w.all || w.cats.contains c
    slot := fun k => if w.pipeKinds.isEmpty || w.pipeKinds.contains k then 0 else 1
    createChecks := w.createChecks
    namespaced := w.namespaced
    panics := fun op n e => inp.panics.contains (opNat op, n, e.kind, e.body)
    order := fun _ _ m => m }

def parseEnt (j : Json) : Except String (Nat × Entity) := do
  let a ← j.getArr?
  unless a.size == 4 do throw "ent"
  let n : Int ← a[0]!.getInt?
  let g : Int ← a[1]!.getInt?
  let k : Int ← a[2]!.getInt?
  let b : Int ← a[3]!.getInt?
  -- unknown generations / names are reported as -1 by the harness: map them out of range
  pure (if n < 0 then 1000000 else n.toNat, ⟨if g < 0 then 1000000 else g.toNat, if k < 0 then 1000000 else k.toNat, if b < 0 then 1000000 else b.toNat⟩)

def parseEnts (j : Json) (k : String) : Except String (List (Nat × Entity)) := do
  let a ← getArr j k
  a.toList.mapM parseEnt

def parseCall (j : Json) : Except String Call := do
  let a ← j.getArr?
  unless a.size == 9 do throw "call"
  let v ← a.toList.mapM (·.getInt?)
  let nat (i : Int) : Nat := if i < 0 then 1000000 else i.toNat
  let op : Op := match v[0]! with | 0 => .init | 1 => .inherit | _ => .close
  let prev : Option Entity := if v[5]! < 0 && v[6]! < 0 then none else some ⟨nat v[5]!, nat v[6]!, nat v[7]!⟩
  pure ⟨op, nat v[1]!, ⟨nat v[2]!, nat v[3]!, nat v[4]!⟩, prev, v[8]! != 0⟩

structure ObsStep where
  /-- does the traffic controller's namespace exist (-1: not observed) -/
  nsExists : Int := -1
  events : List (Nat × Event)
  wents : List (Nat × List (Nat × Entity)) := []
  log : List Call
  live : List (Nat × Entity)
  reg : List (Nat × Entity)

def parseStep (j : Json) : Except String ObsStep := do
  let evs ← getArr j "events"
  let events ← evs.toList.mapM fun e => do
    let w ← getNat e "w"
    let d ← parseEnts e "del"
    let c ← parseEnts e "cre"
    let u ← parseEnts e "upd"
    pure (w, (⟨d, c, u⟩ : Event))
  let wsJ := match getArr j "wents" with | .ok a => a | .error _ => #[]
  let wents ← wsJ.toList.mapM fun e => do
    let w ← getNat e "w"
    let es ← parseEnts e "ents"
    pure (w, es)
  let ls ← getArr j "log"
  let log ← ls.toList.mapM parseCall
  let live ← parseEnts j "live"
  let reg ← parseEnts j "reg"
  pure { nsExists := optInt j "ns" (-1), events := events, wents := wents, log := log, live := live, reg := reg }

/-- insertion sort (small lists) -/
def insertBy {α} (lt : α → α → Bool) (x : α) : List α → List α
  | [] => [x]
  | y :: r => if lt x y then x :: y :: r else y :: insertBy lt x r

def sortBy {α} (lt : α → α → Bool) (l : List α) : List α := l.foldr (insertBy lt) []

def sortEnts (l : List (Nat × Entity)) : List (Nat × Entity) := sortBy (fun a b => a.1 < b.1) l

def sortEvent (e : Event) : Event := ⟨sortEnts e.del, sortEnts e.cre, sortEnts e.upd⟩

/-- phase of a call inside `handleEvent`: delete loop, create loop, update loop -/
def phase (c : Call) : Nat := match c.op with | .close => 0 | .init => 1 | .inherit => 2

def sortCalls (l : List Call) : List Call :=
  sortBy (fun a b => phase a < phase b || (phase a == phase b && a.name < b.name)) l

def phasesMonotone : List Call → Bool
  | a :: b :: r => phase a ≤ phase b && phasesMonotone (b :: r)
  | _ => true

def entJson (e : Nat × Entity) : Json :=
  Json.arr #[Json.num e.1, Json.num e.2.gen, Json.num e.2.kind, Json.num e.2.body]

def callJson (c : Call) : Json :=
  Json.mkObj [("op", opName c.op), ("n", Json.num c.name), ("ent", entJson (c.name, c.ent)),
    ("prev", match c.prev with | none => Json.null | some p => entJson (c.name, p)), ("panicked", c.panicked)]

def wordStr (l : List Call) : String :=
  if l.isEmpty then "-" else "+".intercalate (l.map (fun c => opName c.op))

/-- classification of what happened to name `n` in one item, from the spec's point of view -/
def classify (old new : Option Entity) : String :=
  match old, new with
  | none, none => "absent"
  | none, some _ => "appear"
  | some _, none => "disappear"
  | some p, some e => if p = e then "unchanged" else if p.kind = e.kind then "update" else "kind-change"

structure SpecSt where
  att : Bool
  regs : List (Nat × Option Entity)   -- per name: registry object according to the spec

def judge : Judge := liftJudge fun input obs => do
  let inp ← parseIn input
  match obsPanic obs with
  | some m => pure { agree := false, spec := false, sig := "panic:escaped-the-recovery", note := m }
  | none =>
  if (optStr obs "error") != "" then
    pure { agree := false, spec := false, sig := "harness-error:" ++ optStr obs "error", note := optStr obs "error" }
  else
  let stepsJ ← getArr obs "steps"
  let osteps ← stepsJ.toList.mapM parseStep
  let hist := inp.hist.map (fun h => (h.1.map (validate inp), h.2))
  -- universe of names
  let names := (hist.foldl (fun acc h => match h.1 with
      | some c => acc ++ c.map (·.1) | none => acc) ([] : List Nat)).eraseDups
  let mut agree := osteps.length == hist.length
  let mut spec := true
  let mut sig := ""
  let mut note := ""
  let mut tags : List String := []
  let mut expected : List Json := []
  let mut sawKindIn := false
  let mut sawKindAcross := false
  let mut sawReappear := false
  let mut sawInvalid := false
  let mut panicHit := false
  let mut lastGateLeft := false
  let mut lastPipeLeft := false
  let mut survivorTouched := false
  let mut nsRemoved := false
  let mut nCalls : Nat := 0
  let mut nNonInit : Nat := 0
  -- one model system per watcher
  let params := inp.watchers.map (mkParams inp)
  let mut systems : List Sys := inp.watchers.map (fun _ => Sys.init)
  let mut specs : List SpecSt := inp.watchers.map (fun _ => ⟨false, names.map (fun n => (n, none))⟩)
  let mut g : Nat := 0
  let mut everLive : List Nat := []
  let mut idx : Nat := 0
  for (h, os) in hist.zip osteps do
    let mut newSystems : List Sys := []
    let mut newSpecs : List SpecSt := []
    let mut expEvents : List Json := []
    let mut wi : Nat := 0
    for ((w, P), (sys, sp)) in (inp.watchers.zip params).zip (systems.zip specs) do
      let item? : Option Item := match h.1 with
        | some cfg => some (.snap cfg)
        | none => if h.2 == wi then some .attach else none
      match item? with
      | none =>
        newSystems := newSystems ++ [sys]
        newSpecs := newSpecs ++ [sp]
        -- no event for this watcher may be observed
        if !w.noEvents && os.events.any (fun e => e.1 == wi) then agree := false
      | some item =>
        let sys' := step P sys item
        let ev := stepEvent P sys item
        -- events
        let obsEv := (os.events.filter (fun e => e.1 == wi)).map (fun e => sortEvent e.2)
        let expEv := match ev with | some e => [sortEvent e] | none => []
        if !w.noEvents && obsEv != expEv then
          agree := false
          if note == "" then note := s!"step {idx}: events of watcher {wi} differ"
        expEvents := expEvents ++ expEv.map (fun e => Json.mkObj [("w", Json.num wi),
          ("del", Json.arr (e.del.map entJson).toArray), ("cre", Json.arr (e.cre.map entJson).toArray),
          ("upd", Json.arr (e.upd.map entJson).toArray)])
        -- watcher.entities (when the harness reports it)
        match os.wents.lookup wi with
        | some es =>
          if sortEnts es != sortEnts sys'.w.wents then
            agree := false
            if note == "" then note := s!"step {idx}: watcher.entities of watcher {wi} differ"
        | none => pure ()
        -- spec state of this watcher
        let att' := match item with | .attach => true | .snap _ => sp.att
        let regs' := sp.regs.map (fun (n, r) => match item with
          | .attach => (n, r)
          | .snap cfg => (n, regNext g r (cfg.get n)))
        if w.consumer then
          -- the calls / live objects of this consumer: those whose kind passes its filter
          let os : ObsStep := { os with log := os.log.filter (fun c => P.passes c.ent),
                                        live := os.live.filter (fun e => P.passes e.2) }
          -- model log of this step
          let newCalls := sys'.w.cons.log.drop sys.w.cons.log.length
          if !(phasesMonotone os.log) || sortCalls os.log != sortCalls newCalls then
            agree := false
            if note == "" then note := s!"step {idx}: calls differ from the model"
          let mlive := sortBy (fun a b => a.1 < b.1) (sys'.w.cons.store.map (fun e => (e.1.2, e.2)))
          if sortEnts os.live != mlive then
            agree := false
            if note == "" then note := s!"step {idx}: live set differs from the model"
          -- namespace bookkeeping of a namespaced consumer
          if w.namespaced then
            if os.nsExists != -1 && (os.nsExists != 0) != sys'.w.cons.ns then
              agree := false
              if note == "" then note := s!"step {idx}: namespace existence differs from the model"
            let cnt (st : CState) (sl : Nat) : Nat := (st.store.filter (fun e => e.1.1 == sl)).length
            let (p0, g0) := (cnt sys.w.cons 0, cnt sys.w.cons 1)
            let (p1, g1) := (cnt sys'.w.cons 0, cnt sys'.w.cons 1)
            if g0 > 0 && p0 > 0 && g1 == 0 && p1 > 0 then lastGateLeft := true
            if g0 > 0 && p0 > 0 && p1 == 0 && g1 > 0 then lastPipeLeft := true
            if (lastGateLeft || lastPipeLeft) && !os.log.isEmpty then survivorTouched := true
            if p0 + g0 > 0 && p1 + g1 == 0 then nsRemoved := true
          expected := expected ++ [Json.mkObj [("log", Json.arr (newCalls.map callJson).toArray),
            ("live", Json.arr (mlive.map entJson).toArray)]]
          -- executable specification, per name, on what the implementation did
          for ((n, r), (_, r')) in sp.regs.zip regs' do
            let vo := view P sp.att r
            let vn := view P att' r'
            let want := wordStep P n vo vn
            let got := callsOf n os.log
            let liveN := (os.live.filter (fun e => e.1 == n)).map (·.2)
            let liveWant := match vn with | some e => [e] | none => []
            let cls := match item with
              | .attach => "attach"
              | .snap _ => if (match r, r' with | some a, some b => a.kind != b.kind | _, _ => false)
                  then "kind-change" else classify vo vn
            if spec then
              if got != want then
                spec := false
                let detail :=
                  if got.map (·.op) != want.map (·.op) then ""
                  else if got.map (·.prev) != want.map (·.prev) then "!predecessor"
                  else if got.map (·.ent) != want.map (·.ent) then "!object"
                  else "!panic-flag"
                sig := s!"{cls}:want={wordStr want},got={wordStr got}{detail}"
                note := s!"step {idx} name {n}"
              else if liveN != liveWant then
                spec := false
                sig := s!"{cls}:live-set"
                note := s!"step {idx} name {n}"
            -- tags
            match r, r' with
            | some a, some b =>
              if a.kind != b.kind then
                if P.cat a.kind == P.cat b.kind then sawKindIn := true else sawKindAcross := true
            | none, some _ => if everLive.contains n then sawReappear := true
            | _, _ => pure ()
            if r'.isSome && !everLive.contains n then everLive := n :: everLive
          -- calls on names outside the universe are never expected
          if spec && os.log.any (fun c => !names.contains c.name) then
            spec := false
            sig := "call-on-unknown-name"
          nCalls := nCalls + os.log.length
          nNonInit := nNonInit + (os.log.filter (fun c => c.op != .init)).length
          if os.log.any (·.panicked) then panicHit := true
        newSystems := newSystems ++ [sys']
        newSpecs := newSpecs ++ [⟨att', regs'⟩]
      wi := wi + 1
    -- every observed call / live object must belong to some consumer
    let claimed (e : Entity) : Bool := (inp.watchers.zip params).any (fun wp => wp.1.consumer && wp.2.passes e)
    if spec && (os.log.any (fun c => !claimed c.ent) || os.live.any (fun e => !claimed e.2)) then
      spec := false
      agree := false
      sig := "object-of-unwatched-kind-touched"
      note := s!"step {idx}"
    -- registry (model): identical for every watcher's system
    match newSystems.head? with
    | some s0 =>
      if sortEnts os.reg != sortEnts s0.ents then
        agree := false
        if note == "" then note := s!"step {idx}: registry differs from the model"
    | none => pure ()
    match h.1 with
    | some cfg =>
      g := g + 1
      if cfg.any (fun e => e.2.isNone) then sawInvalid := true
    | none => pure ()
    systems := newSystems
    specs := newSpecs
    idx := idx + 1
  -- shutdown: the real `Supervisor.close` ran after the history; model = `shutdown`, spec = one close per live object
  let mut sawShutdownClose := false
  if inp.shutdown then
    match obs.getObjVal? "shutdown" with
    | .error _ =>
      agree := false
      if note == "" then note := "shutdown requested but not observed"
    | .ok sd =>
      let ls ← getArr sd "log"
      let slog ← ls.toList.mapM parseCall
      for ((w, P), (sys, sp)) in (inp.watchers.zip params).zip (systems.zip specs) do
        if w.consumer then
          let olog := slog.filter (fun c => P.passes c.ent)
          let mcalls := (shutdown P (fun m => m) sys.w.cons).log.drop sys.w.cons.log.length
          if sortCalls olog != sortCalls mcalls then
            agree := false
            if note == "" then note := "shutdown: calls differ from the model"
          expected := expected ++ [Json.mkObj [("shutdown", Json.arr (mcalls.map callJson).toArray)]]
          if !olog.isEmpty then sawShutdownClose := true
          for (n, r) in sp.regs do
            let want := (view P sp.att r).toList.map (callClose P n)
            let got := callsOf n olog
            if spec && got != want then
              spec := false
              let detail :=
                if got.map (·.op) != want.map (·.op) then ""
                else if got.map (·.ent) != want.map (·.ent) then "!object" else "!panic-flag"
              sig := s!"shutdown:want={wordStr want},got={wordStr got}{detail}"
              note := s!"shutdown name {n}"
          if spec && olog.any (fun c => !names.contains c.name) then
            spec := false
            sig := "shutdown:call-on-unknown-name"
          nCalls := nCalls + olog.length
          nNonInit := nNonInit + olog.length
          if olog.any (·.panicked) then panicHit := true
      let claimed (e : Entity) : Bool := (inp.watchers.zip params).any (fun wp => wp.1.consumer && wp.2.passes e)
      if spec && slog.any (fun c => !claimed c.ent) then
        spec := false
        agree := false
        sig := "shutdown:object-of-unwatched-kind-touched"
  let lateAttach := (hist.dropWhile (fun h => h.1.isNone)).any (fun h => h.1.isNone)
  tags := (if sawKindIn then ["kind-change-same-category"] else [])
    ++ (if sawKindAcross then ["kind-change-across-categories"] else [])
    ++ (if sawReappear then ["reappear"] else [])
    ++ (if sawInvalid then ["invalid-entry"] else [])
    ++ (if lateAttach then ["late-or-repeated-attach"] else [])
    ++ (if inp.panics.isEmpty then ["no-faults"] else ["faults"])
    ++ (if panicHit then ["panic-hit"] else [])
    ++ (if lastGateLeft then ["ns:last-gate-leaves-pipelines-stay"] else [])
    ++ (if lastPipeLeft then ["ns:last-pipeline-leaves-gates-stay"] else [])
    ++ (if survivorTouched then ["ns:survivor-touched-later"] else [])
    ++ (if nsRemoved then ["ns:namespace-emptied"] else [])
    ++ [if hist.length ≤ 6 then "len<=6" else if hist.length ≤ 16 then "len<=16" else "len>16"]
    ++ (if inp.shutdown then ["shutdown"] else [])
    ++ (if sawShutdownClose then ["shutdown:closes-live-objects"] else [])
    ++ (match inp.enum with
        | [j, total] => ["enum:len4-canonical", s!"enum:len4:pair{(j * 3 / total).toNat}"]
        | _ => [])
  pure { agree := agree, spec := spec, expected := Json.arr expected.toArray, tags := tags,
         nontrivial := nCalls ≥ 3 && nNonInit ≥ 1, sig := sig, note := note }

/-! ### Judge `superbusy` (engineer mux; seeded change C20-m5)

Harness `superbusy`: the real run loops; `busy[i] = k > 0` means: the supervisor goroutine is held inside the
event of snapshot `i` (a scripted kind blocks in Init / Inherit) while the registry applies the next `k` snapshots,
whose events queue up behind it; then it is released. The steps of items `i … i+k-1` are `deferred` (nothing can be
observed while the consumer is blocked); the step of item `i+k` carries every lifecycle call of the batch, the live
set and the registry at its end.

By `exactly_once_any_interleaving` / `exactly_once_when_drained` (queue model) the consumer, once drained, is the
synchronous model's — so `agree` compares, per name, the calls of the batch with the model's calls accumulated
over the batch's items (the order between different names inside one event is Go's map order; between events it
is FIFO), and `spec` compares them with the concatenation of `wordStep` over the batch's items. -/
def judgeBusy : Judge := liftJudge fun input obs => do
  let inp ← parseIn input
  match obsPanic obs with
  | some m => pure { agree := false, spec := false, sig := "panic:escaped-the-recovery", note := m }
  | none =>
  if (optStr obs "error") != "" then
    pure { agree := false, spec := false, sig := "harness-error:" ++ optStr obs "error", note := optStr obs "error" }
  else
  let stepsJ ← getArr obs "steps"
  let osteps ← stepsJ.toList.mapM parseStep
  let deferred : List Bool := stepsJ.toList.map (fun j => optBool j "deferred")
  let busy : List Nat := match getIntList input "busy" with | .ok l => l.map Int.toNat | .error _ => []
  let hist := inp.hist.map (fun h => (h.1.map (validate inp), h.2))
  let names := (hist.foldl (fun acc h => match h.1 with
      | some c => acc ++ c.map (·.1) | none => acc) ([] : List Nat)).eraseDups
  match inp.watchers.head? with
  | none => pure (badInput "no watcher")
  | some w =>
  let P := mkParams inp w
  let mut agree := osteps.length == hist.length && deferred.length == hist.length
  let mut spec := true
  let mut sig := ""
  let mut note := ""
  let mut sys : Sys := Sys.init
  let mut att := false
  let mut regs : List (Nat × Option Entity) := names.map (fun n => (n, none))
  let mut g : Nat := 0
  -- accumulated since the last observed step
  let mut accModel : List Call := []
  let mut accWords : List (Nat × List Call) := names.map (fun n => (n, []))
  let mut batchLen : Nat := 0
  let mut maxBatch : Nat := 0
  let mut nCalls : Nat := 0
  let mut nNonInit : Nat := 0
  let mut flapEq := false
  let mut flapNe := false
  let mut appearFlap := false
  let mut hist3 : List (Nat × List (Option Entity)) := names.map (fun n => (n, []))  -- per name: views inside the batch
  let mut expected : List Json := []
  let mut idx : Nat := 0
  for ((h, os), dfr) in (hist.zip osteps).zip deferred do
    let item : Item := match h.1 with | some cfg => .snap cfg | none => .attach
    let sys' := step P sys item
    accModel := accModel ++ sys'.w.cons.log.drop sys.w.cons.log.length
    let att' := match item with | .attach => true | .snap _ => att
    let regs' := regs.map (fun (n, r) => match item with
      | .attach => (n, r)
      | .snap cfg => (n, regNext g r (cfg.get n)))
    accWords := (accWords.zip (regs.zip regs')).map fun ((n, wds), ((_, r), (_, r'))) =>
      (n, wds ++ wordStep P n (view P att r) (view P att' r'))
    hist3 := (hist3.zip regs').map fun ((n, vs), (_, r')) => (n, vs ++ [view P att' r'])
    batchLen := batchLen + 1
    if !dfr then
      let olog := os.log.filter (fun c => P.passes c.ent)
      let olive := os.live.filter (fun e => P.passes e.2)
      -- model
      for n in names do
        if callsOf n olog != callsOf n accModel then
          agree := false
          if note == "" then note := s!"step {idx}: calls on name {n} differ from the model"
      let mlive := sortBy (fun a b => a.1 < b.1) (sys'.w.cons.store.map (fun e => (e.1.2, e.2)))
      if sortEnts olive != mlive then
        agree := false
        if note == "" then note := s!"step {idx}: live set differs from the model"
      if sortEnts os.reg != sortEnts sys'.ents then
        agree := false
        if note == "" then note := s!"step {idx}: registry differs from the model"
      -- specification, per name
      for ((n, want), (_, r')) in accWords.zip regs' do
        let got := callsOf n olog
        let liveN := (olive.filter (fun e => e.1 == n)).map (·.2)
        let liveWant := match view P att' r' with | some e => [e] | none => []
        if spec then
          if got != want then
            spec := false
            let detail :=
              if got.map (·.op) != want.map (·.op) then ""
              else if got.map (·.prev) != want.map (·.prev) then "!predecessor"
              else if got.map (·.ent) != want.map (·.ent) then "!object"
              else "!panic-flag"
            sig := s!"busy{if batchLen > 1 then "-batch" else ""}:want={wordStr want},got={wordStr got}{detail}"
            note := s!"step {idx} name {n} (batch of {batchLen})"
          else if liveN != liveWant then
            spec := false
            sig := s!"busy{if batchLen > 1 then "-batch" else ""}:live-set"
            note := s!"step {idx} name {n} (batch of {batchLen})"
      if spec && olog.any (fun c => !names.contains c.name) then
        spec := false
        sig := "call-on-unknown-name"
      -- classification of the batch: a name that changes / appears, disappears and reappears inside it
      if batchLen ≥ 3 then
        for (_, vs) in hist3 do
          let tl := vs.drop 1   -- the views produced while the consumer was blocked
          let rec scan : List (Option Entity) → Bool × Bool
            | some a :: none :: some b :: _ => (a.kind == b.kind && a.body == b.body, !(a.kind == b.kind && a.body == b.body))
            | _ :: r => scan r
            | [] => (false, false)
          let (e, d) := scan tl
          if e then flapEq := true
          if d then flapNe := true
          let rec scanA : List (Option Entity) → Bool
            | none :: some _ :: none :: some _ :: _ => true
            | _ :: r => scanA r
            | [] => false
          if scanA vs then appearFlap := true
      expected := expected ++ [Json.mkObj [("log", Json.arr (accModel.map callJson).toArray),
        ("live", Json.arr (mlive.map entJson).toArray)]]
      nCalls := nCalls + olog.length
      nNonInit := nNonInit + (olog.filter (fun c => c.op != .init)).length
      if batchLen > maxBatch then maxBatch := batchLen
      accModel := []
      accWords := names.map (fun n => (n, []))
      hist3 := regs'.map (fun (n, r') => (n, [view P att' r']))
      batchLen := 0
    match h.1 with
    | some _ => g := g + 1
    | none => pure ()
    sys := sys'
    att := att'
    regs := regs'
    idx := idx + 1
  let tags := [s!"max-batch:{maxBatch}"]
    ++ (if busy.any (· > 0) then ["busy-consumer"] else ["never-busy"])
    ++ (if flapEq then ["batch:flap-reappears-with-equal-spec"] else [])
    ++ (if flapNe then ["batch:flap-reappears-with-different-spec"] else [])
    ++ (if appearFlap then ["batch:appear-disappear-reappear"] else [])
    ++ (if inp.panics.isEmpty then ["no-faults"] else ["faults"])
  pure { agree := agree, spec := spec, expected := Json.arr expected.toArray, tags := tags,
         nontrivial := maxBatch ≥ 3 && nCalls ≥ 3 && nNonInit ≥ 1, sig := sig, note := note }

def judges : List (String × Judge) := [("C20", judge), ("superbusy", judgeBusy)]

end Driver.C20

def main (args : List String) : IO UInt32 := Driver.runMain Driver.C20.judges args
