import Driver.Common
/-! Judge for C20: not built yet (stub so that the target exists). -/
open Lean Driver

namespace Driver.C20

def judges : List (String × Judge) := []

end Driver.C20

def main (args : List String) : IO UInt32 := Driver.runMain Driver.C20.judges args
