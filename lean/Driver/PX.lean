import Driver.Common
import EgVerif.Model.ProxyFlow
import EgVerif.Spec.Proxy
import EgVerif.Spec.Payload
/-!
Shared by the C03 and C07 judges: parsing of the loopback scenario / observation
JSON (harness/overlay/pkg/object/httpserver/zz_verif_proxyenv_test.go) and running
the end-to-end model on it. Byte strings are symbolic (`Sym`): identified by the
digest the harness computed with the Go standard library.
-/
open Lean EgVerif.Proxy

namespace Driver.PX

/-- A byte string known by digest and length, with (when the oracle supplied them)
its gzip image / pre-image. -/
structure Sym where
  sum : String
  len : Nat
  plain : Option (String × Nat) := none   -- this = gz(plain)
  gzd : Option (String × Nat) := none     -- gz(this)
deriving Repr, BEq, Inhabited

structure Blob where
  len : Nat
  sum : String
  gzLen : Nat
  gzSum : String
deriving Inhabited

def Blob.plainSym (b : Blob) : Sym := { sum := b.sum, len := b.len, gzd := some (b.gzSum, b.gzLen) }
def Blob.gzSym (b : Blob) : Sym := { sum := b.gzSum, len := b.gzLen, plain := some (b.sum, b.len) }

def parseBlob (j : Json) (k : String) : Blob :=
  match j.getObjVal? k with
  | .ok b => { len := (optInt b "len").toNat, sum := optStr b "sum", gzLen := (optInt b "gzLen").toNat, gzSum := optStr b "gzSum" }
  | .error _ => { len := 0, sum := "", gzLen := 0, gzSum := "" }

def emptySum : String := "da39a3ee5e6b4b0d"

def symOps (known : List (String × Blob)) (emptyB : Blob) : BodyOps Sym where
  len s := s.len
  gz s := match s.gzd with
    | some (g, n) => { sum := g, len := n, plain := some (s.sum, s.len) }
    | none => { sum := "gz?" ++ s.sum, len := 0, plain := some (s.sum, s.len) }
  ungz s := s.plain.map fun (p, n) => { sum := p, len := n, gzd := some (s.sum, s.len) }
  ofStr str := match known.lookup str with
    | some b => b.plainSym
    | none => { sum := "str?", len := str.utf8ByteSize }
  take n s := if n ≥ s.len then s else { sum := "take?", len := n }
  empty := emptyB.plainSym

/-- `[[k, v], …]` header lines → `Hdr` with canonical keys (oracle `canon`). -/
def parsePairs (j : Json) (k : String) : List (String × String) :=
  match getArr j k with
  | .ok a => a.toList.filterMap fun e =>
      match e.getArr? with
      | .ok p => if p.size ≥ 2 then
          match p[0]!.getStr?, p[1]!.getStr? with
          | .ok a, .ok b => some (a, b)
          | _, _ => none
        else none
      | .error _ => none
  | .error _ => []

/-- `[[name, v1, v2, …], …]` as observed. -/
def parseSeenHdr (j : Json) (k : String) : Hdr :=
  match getArr j k with
  | .ok a => a.toList.filterMap fun e =>
      match e.getArr? with
      | .ok p =>
        match p.toList.mapM (·.getStr?) with
        | .ok (n :: vs) => some (n, vs)
        | _ => none
      | .error _ => none
  | .error _ => []

def trimStr (s : String) : String := String.ofList (trimString s.toList)

def mkCanon (table : List (String × String)) : String → String := fun s =>
  match table.lookup s with
  | some c => c
  | none => match table.lookup (trimStr s) with
    | some c => c
    | none => s

def linesToHdr (canon : String → String) (lines : List (String × String)) : Hdr :=
  lines.map fun (k, v) => (canon k, [v])

structure BodyD where
  len : Nat
  enc : String
  decl : Int
  gzip : Bool
deriving Inhabited

def parseBodyD (j : Json) (k : String) : BodyD :=
  match j.getObjVal? k with
  | .ok b => { len := (optInt b "len").toNat, enc := optStr b "enc" "cl", decl := optInt b "decl", gzip := optBool b "gzip" }
  | .error _ => { len := 0, enc := "none", decl := 0, gzip := false }

def parseAd (j : Json) (k : String) : Option AdSpec :=
  match j.getObjVal? k with
  | .ok (.obj o) =>
    let a := Json.obj o
    some { body := optStr a "body", compress := optBool a "compress", decompress := optBool a "decompress",
           hdel := (getStrList a "hdel").toOption.getD [], hset := parsePairs a "hset", hadd := parsePairs a "hadd" }
  | _ => none

def parsePathAd (j : Json) : Option PathAd :=
  match j.getObjVal? "path" with
  | .ok (.obj o) =>
    let p := Json.obj o
    let re := optStr p "regexp"
    some { replace := optStr p "replace", addPrefix := optStr p "addPrefix", trimPrefix := optStr p "trimPrefix",
           re := if re == "" then none else some (0, optStr p "reRepl") }
  | _ => none

def parseReqLine (j : Json) (k : String) : ReqLineAd :=
  match j.getObjVal? k with
  | .ok (.obj o) =>
    let a := Json.obj o
    { method := optStr a "method", host := optStr a "host", path := parsePathAd a }
  | _ => {}

structure RetryCfg where
  max : Nat
  failureCodes : List Nat
deriving Inhabited

def parseRetry (cfg : Json) : Option RetryCfg :=
  match cfg.getObjVal? "retry" with
  | .ok (.obj o) =>
    let r := Json.obj o
    let m := (optInt r "max").toNat
    if m == 0 then none else some ⟨m, ((getIntList r "failureCodes").toOption.getD []).map Int.toNat⟩
  | _ => none

structure MirrorCfg where
  hdr : String
  val : String
  serverKind : String
  keepHost : Bool
deriving Inhabited

def parseMirror (cfg : Json) : Option MirrorCfg :=
  match cfg.getObjVal? "mirror" with
  | .ok (.obj o) =>
    let m := Json.obj o
    if optStr m "hdr" == "" then none
    else some ⟨optStr m "hdr", optStr m "val", optStr m "server" "ip", optBool m "keepHost"⟩
  | _ => none

/-- `[{kind, status}]`: the scripted failures before the final reply. -/
def parsePre (be : Json) : List (String × Nat) :=
  match getArr be "pre" with
  | .ok a => a.toList.map fun e =>
      let st := (optInt e "status" 503).toNat
      (optStr e "kind" "status", if st < 200 || st > 599 || st == 204 || st == 304 then 503 else st)
  | .error _ => []

/-- `h.Del/Set/Add` canonicalise their key. -/
def canonAd (canon : String → String) (a : AdSpec) : AdSpec := a.canonKeys canon

def parseCache (cfg : Json) : Option CacheCfg :=
  match cfg.getObjVal? "cache" with
  | .ok (.obj o) =>
    let c := Json.obj o
    let codes := ((getIntList c "codes").toOption.getD []).map Int.toNat
    let methods := (getStrList c "methods").toOption.getD []
    let mx := (optInt c "maxEntryBytes").toNat
    if codes.isEmpty || methods.isEmpty || mx == 0 then none else some ⟨codes, methods, mx⟩
  | _ => none

structure Scenario where
  method : String
  path : String
  query : String
  host : String
  lines : List (String × String)
  body : BodyD
  serverKind : String
  keepHost : Bool
  compression : Int
  pathMax : Int
  serverMax : Int
  poolMax : Int
  proxyMax : Int
  reqAd : Option AdSpec
  respAd : Option AdSpec
  reqLine : ReqLineAd
  retry : Option RetryCfg
  mirror : Option MirrorCfg
  pre : List (String × Nat)
  bStatus : Nat
  bLines : List (String × String)
  bBody : BodyD

def parseScenario (i : Json) : Scenario :=
  let cfg := (i.getObjVal? "cfg").toOption.getD Json.null
  let be := (i.getObjVal? "backend").toOption.getD Json.null
  let st := (optInt be "status" 200).toNat
  { method := let m := optStr i "method" "GET"; if m == "" then "GET" else m,
    path := optStr i "path", query := optStr i "query", host := optStr i "host",
    lines := parsePairs i "hdrs", body := parseBodyD i "body",
    serverKind := optStr cfg "server" "ip", keepHost := optBool cfg "keepHost",
    compression := optInt cfg "compression" (-1),
    pathMax := optInt cfg "pathMax", serverMax := optInt cfg "serverMax",
    poolMax := optInt cfg "poolMax", proxyMax := optInt cfg "proxyMax",
    reqAd := parseAd cfg "reqAd", respAd := parseAd cfg "respAd",
    reqLine := parseReqLine cfg "reqAd", retry := parseRetry cfg, mirror := parseMirror cfg, pre := parsePre be,
    bStatus := if st < 100 || st > 599 then 200 else st,
    bLines := parsePairs be "hdrs", bBody := parseBodyD be "body" }

/-- A history step: the step object supplies the request and the backend script, the
top-level object the configuration. -/
def parseStepScenario (input step : Json) : Scenario :=
  let cfg := (input.getObjVal? "cfg").toOption.getD Json.null
  parseScenario (step.setObjVal! "cfg" cfg)

structure Oracle where
  req : Blob
  back : Blob
  reqAd : Blob
  respAd : Blob
  empty : Blob
  canon : String → String
  serverURL : String
  serverHP : String
  escPath : String
  decPath : String
  rawQuery : String
  reRepl : String
  esc : List (String × String)
  pre : Blob
  stub : Blob
  mirrorURL : String
  mirrorHP : String

def parseOracle (obs : Json) : Oracle :=
  let o := (obs.getObjVal? "oracle").toOption.getD Json.null
  { req := parseBlob o "req", back := parseBlob o "back", reqAd := parseBlob o "reqAd",
    respAd := parseBlob o "respAd", empty := parseBlob o "empty",
    canon := mkCanon (parsePairs o "canon"),
    serverURL := optStr o "serverURL", serverHP := optStr o "serverHP",
    escPath := optStr o "escPath", decPath := optStr o "decPath", rawQuery := optStr o "rawQuery",
    reRepl := optStr o "reRepl", esc := parsePairs o "esc", pre := parseBlob o "pre", stub := parseBlob o "stub",
    mirrorURL := optStr o "mirrorURL", mirrorHP := optStr o "mirrorHP" }

def defaultMax : Int := 4 * 1024 * 1024

/-- Bytes on the wire for a scenario body. -/
def wireSym (b : BodyD) (blob : Blob) : Sym := if b.gzip then blob.gzSym else blob.plainSym

def bodylessStatus (st : Nat) : Bool := st == 204 || st == 304 || st < 200

structure Built where
  ops : BodyOps Sym
  cfg : Cfg
  q : ClientReq Sym
  reply : BackendReply Sym
  clientHdr : Hdr
  backendHdr : Hdr      -- the scenario's own backend header lines (end-to-end ones)
  replies : List (Reply Sym)   -- scripted failures, then the final reply

/-- Build the model's inputs from scenario + oracle. `dflt` is DefaultMaxPayloadSize. -/
def build (sc : Scenario) (o : Oracle) (dflt : Int) : Built :=
  let known : List (String × Blob) :=
    (match sc.reqAd with | some a => [(a.body, o.reqAd)] | none => []) ++
    (match sc.respAd with | some a => [(a.body, o.respAd)] | none => [])
  let ops := symOps known o.empty
  let wire := wireSym sc.body o.req
  -- the request as net/http's server presents it to the mux
  let framing : List (String × String) :=
    (if sc.body.gzip then [("Content-Encoding", "gzip")] else []) ++ [("Connection", "close")] ++
    (match sc.body.enc with
      | "chunked" => []
      | "none" => []
      | "lie" => [("Content-Length", toString sc.body.decl)]
      | _ => [("Content-Length", toString wire.len)])
  let clientHdr := linesToHdr o.canon (sc.lines ++ framing)
  let declared : Int := match sc.body.enc with
    | "chunked" => -1
    | "none" => 0
    | "lie" => sc.body.decl
    | _ => wire.len
  let q : ClientReq Sym :=
    { method := sc.method, escapedPath := o.escPath, path := o.decPath, rawQuery := o.rawQuery, host := sc.host,
      hdr := clientHdr, declared := declared, body := wire }
  let serverIsName := sc.serverKind == "name"
  let cfg : Cfg :=
    { server := ⟨o.serverURL, o.serverHP, serverIsName, sc.keepHost⟩,
      compression := if sc.compression < 0 then none else some sc.compression.toNat,
      pathMax := sc.pathMax, serverMax := sc.serverMax, poolMax := sc.poolMax, proxyMax := sc.proxyMax,
      reqAd := sc.reqAd.map (canonAd o.canon), respAd := sc.respAd.map (canonAd o.canon), dflt := dflt,
      reqLine := sc.reqLine, σ := fun _ _ _ => o.reRepl,
      esc := fun p => (o.esc.lookup p).getD ("esc?" ++ p) }
  -- the backend's reply as the transport parses it
  let bwire := wireSym sc.bBody o.back
  let nobody := bodylessStatus sc.bStatus
  let bHdr0 := linesToHdr o.canon sc.bLines
  let bHdr1 := if sc.bBody.gzip then bHdr0.set keyCE "gzip" else bHdr0
  let (bcl, bHdr, bbody) : Int × Hdr × Sym :=
    if nobody then (0, bHdr1, ops.empty)
    else match sc.bBody.enc with
      | "chunked" => (-1, bHdr1, bwire)
      | "close" => (-1, bHdr1, bwire)
      | "lie" =>
        (sc.bBody.decl, bHdr1.set keyCL (toString sc.bBody.decl),
          if sc.bBody.decl.toNat < bwire.len then ops.take sc.bBody.decl.toNat bwire else bwire)
      | _ => ((bwire.len : Int), bHdr1.set keyCL (toString bwire.len), bwire)
  let preSym := o.pre.plainSym
  let preReply : Nat → Reply Sym := fun st =>
    .resp ⟨st, [(keyCL, [toString preSym.len])], if sc.method == "HEAD" then preSym.len else preSym.len,
      if sc.method == "HEAD" then ops.empty else preSym⟩
  let replies := sc.pre.map (fun (k, st) => if k == "reset" then Reply.reset else preReply st)
  { ops := ops, cfg := cfg, q := q, reply := ⟨sc.bStatus, bHdr, bcl, bbody⟩,
    clientHdr := clientHdr, backendHdr := bHdr0, replies := replies ++ [.resp ⟨sc.bStatus, bHdr, bcl, bbody⟩] }

def runModel (b : Built) (canon : String → String) : Result Sym :=
  run b.ops canon b.cfg b.q b.reply

def runModelRetry (sc : Scenario) (b : Built) (canon : String → String) : RetryResult Sym :=
  runRetry b.ops canon b.cfg (sc.retry.map (·.max)) (match sc.retry with | some r => r.failureCodes | none => [])
    b.q b.replies

/-- Observation accessors. -/
structure SeenReq where
  method : String
  uri : String
  path : String
  rawQuery : String
  host : String
  hdr : Hdr
  bodyLen : Nat
  bodySum : String
  decLen : Nat
  decSum : String
  decErr : String
  te : List String
  bodyErr : String := ""

def seenReqOf (b : Json) : SeenReq :=
         { method := optStr b "method", uri := optStr b "uri", path := optStr b "path",
           rawQuery := optStr b "rawQuery", host := optStr b "host", hdr := parseSeenHdr b "hdrs",
           bodyLen := (optInt b "bodyLen").toNat, bodySum := optStr b "bodySum",
           decLen := (optInt b "decLen").toNat, decSum := optStr b "decSum", decErr := optStr b "decErr",
           te := (getStrList b "te").toOption.getD [], bodyErr := optStr b "bodyErr" }

def parseSeenReqAt (obs : Json) (k : String) : Option SeenReq :=
  match obs.getObjVal? k with
  | .ok (.obj o) => some (seenReqOf (Json.obj o))
  | _ => none

def parseSeenReq (obs : Json) : Option SeenReq := parseSeenReqAt obs "b"

def parseSeenAll (obs : Json) : List SeenReq :=
  match getArr obs "all" with
  | .ok a => a.toList.map seenReqOf
  | .error _ => []

structure SeenResp where
  err : String
  status : Nat
  hdr : Hdr
  framing : String
  declared : Int
  frameOK : Bool
  frameErr : String
  bodyLen : Nat
  bodySum : String
  decLen : Nat
  decSum : String
  decErr : String

def parseSeenResp (obs : Json) : Option SeenResp :=
  match obs.getObjVal? "c" with
  | .ok (.obj o) =>
    let c := Json.obj o
    some { err := optStr c "err", status := (optInt c "status").toNat, hdr := parseSeenHdr c "hdrs",
           framing := optStr c "framing", declared := optInt c "declared" (-1), frameOK := optBool c "frameOK",
           frameErr := optStr c "frameErr", bodyLen := (optInt c "bodyLen").toNat, bodySum := optStr c "bodySum",
           decLen := (optInt c "decLen").toNat, decSum := optStr c "decSum", decErr := optStr c "decErr" }
  | _ => none

def sizeClass (n : Nat) : String :=
  if n == 0 then "0" else if n < 2048 then "<2K" else if n ≤ 65536 then "<=64K" else ">64K"

end Driver.PX
