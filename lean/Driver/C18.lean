import Driver.Common
import EgVerif.Spec.ClusterMutex
import EgVerif.Spec.AdminAPI
/-! Judges for C18: `C18mutex` (cluster.Mutex on an embedded etcd) and `C18api` (admin API). -/
open Lean Driver

namespace Driver.C18

/-! ### mutex -/
section
open EgVerif.ClusterMutex

def parseEvents (obs : Json) : Except String (List TEv) := do
  let a ← getArr obs "events"
  a.toList.mapM fun e => do
    let g ← getNat e "g"
    let k ← getStr e "kind"
    match k with
    | "acquired" => pure (.acquired g)
    | "releasing" => pure (.releasing g)
    | "failed" => pure (.failed g)
    | _ => throw s!"event kind {k}"

def judgeMutex : Judge := liftJudge fun input obs => do
  match obsPanic obs with
  | some m => pure { agree := false, spec := false, sig := "panic-or-hang:mutex", note := m }
  | none =>
  match obs.getObjVal? "error" with
  | .ok e => pure { agree := false, spec := true, note := "harness: " ++ e.compress, nontrivial := false }
  | .error _ =>
  let multi := optBool input "multiObj"
  let members := (optInt obs "members").toNat
  let gsJ ← getArr input "gs"
  let gs ← gsJ.toList.mapM fun g => do
    let m := (optInt g "member").toNat
    let o := (optInt g "obj").toNat
    pure (m % (max members 1), if multi then o else 0)
  let evs ← parseEvents obs
  let maxInside := optInt obs "maxInside"
  let probeJ ← getArr obs "probe"
  let probe ← probeJ.toList.mapM (·.getBool?)
  let leftover := optInt obs "leftover"
  let unlockErrs := optInt obs "unlockErrs"
  let stale := optInt obs "stale"
  let fails := evs.countP fun e => match e with | .failed _ => true | _ => false
  let acqs := evs.countP fun e => match e with | .acquired _ => true | _ => false
  let probeOK := probe.all id && !probe.isEmpty
  -- configuration of the model: thread g uses object (member, obj), created on session member
  let objId (g : Nat) : Nat := match gs[g]? with | some (m, o) => m * 8 + o | none => 0
  let cfg : Cfg := { obj := objId, sess := fun o => o / 8 }
  -- the replay that drops failed attempts (sound: they are state-neutral) and, for every failed attempt, a
  -- position between the goroutine's previous event and the `failed` stamp at which it was enabled
  let modelOK := (run cfg init (scheduleOf evs)).isSome && failedReplayOK cfg (failingGs evs) init [] evs
  let excl := exclusiveTrace none evs && maxInside ≤ 1
  let tags := [s!"members:{members}"] ++ (if fails > 0 then ["timeouts"] else ["no-timeouts"])
    ++ (if multi then ["neg-config:several-objects-per-member"] else [])
    ++ (if multi && !excl then ["neg-config:overlap-observed"] else [])
    ++ (if acqs ≥ 10 then ["acq>=10"] else ["acq<10"])
    ++ (if unlockErrs != 0 then ["unlock-errors-inconclusive"] else [])
  if multi then
    -- outside the hypothesis of `exclusive`: reported only
    return { agree := true, spec := true, tags := tags, nontrivial := false }
  if unlockErrs != 0 then
    return { agree := true, spec := true, tags := tags, nontrivial := false }
  let free := probeOK && leftover == 0 && stale == 0
  let timeoutMs := optInt input "timeoutMs"
  -- with a lock timeout of the order of one etcd round trip the cleanup delete after a failed
  -- Lock (same timeout) can itself time out on a loaded machine: not judged, only reported
  if !free && timeoutMs < 200 && exclusiveTrace none evs && maxInside ≤ 1 then
    return { agree := modelOK, spec := true, tags := tags ++ ["not-free:short-timeout-inconclusive"]
               ++ (if stale != 0 then ["stale-key-observed"] else []), nontrivial := false }
  let recovered := failuresRecovered probeOK evs
  let spec := excl && free && recovered
  let sig := if spec then "" else
    if !excl then "mutex:two-holders"
    else if stale != 0 then "mutex:stale-key-after-failed-lock"
    else if leftover != 0 then "mutex:key-left-behind"
    else "mutex:not-free-after-failure"
  pure { agree := modelOK, spec := spec,
         expected := Json.mkObj [("modelAcceptsTrace", modelOK), ("maxHolders", (maxHolders 0 0 evs : Nat))],
         tags := tags, nontrivial := acqs ≥ 2 && gs.length ≥ 2, sig := sig }
end

/-! ### admin API -/
section
open EgVerif.AdminAPI

def parseSeen (s : String) : Option Obj :=
  match s.splitOn "|" with
  | [k, p] => some ⟨k, p⟩
  | _ => none

def opOf (o : Json) : Except String (String × String × Obj × Nat) := do
  let op ← getStr o "op"
  pure (op, optStr o "name", ⟨optStr o "kind", optStr o "payload"⟩, (optInt o "server").toNat)

def judgeAPI : Judge := liftJudge fun input obs => do
  match obsPanic obs with
  | some m => pure { agree := false, spec := false, sig := "panic-or-hang:api", note := m }
  | none =>
  match obs.getObjVal? "error" with
  | .ok e => pure { agree := false, spec := true, note := "harness: " ++ e.compress, nontrivial := false }
  | .error _ =>
  let initJ ← getArr input "init"
  let clientsJ ← getArr input "clients"
  let clients ← clientsJ.toList.mapM fun c => match c with
    | .null => pure #[]
    | _ => c.getArr?
  let base := (optInt obs "base").toNat
  let finalVer := (optInt obs "finalVersion").toNat
  let resJ ← getArr obs "results"
  let finJ ← getArr obs "final"
  let final ← finJ.toList.mapM fun t => do
    let a ← t.getArr?
    unless a.size == 3 do throw "final triple"
    pure ((← a[0]!.getStr?), (⟨← a[1]!.getStr?, ← a[2]!.getStr?⟩ : Obj))
  -- join results with the request they answer
  let mut opsRev : List Op := []
  let mut statuses : List Nat := []
  let mut bad : List String := []
  let mut invalidOK := true
  for r in resJ.toList do
    let c ← getInt r "client"
    let i ← getNat r "idx"
    let reqJ? : Option Json := if c < 0 then initJ[i]? else (clients[c.toNat]?).bind (·[i]?)
    match reqJ? with
    | none => bad := "result without request" :: bad
    | some reqJ =>
      let (op, name, o, _) ← opOf reqJ
      let status ← getNat r "status"
      let ver := (optStr r "version").toNat?
      let t0 ← getNat r "t0"
      let t1 ← getNat r "t1"
      statuses := status :: statuses
      let kind : OpKind :=
        match op with
        | "create" => .mut (.create name o)
        | "update" => .mut (.update name o)
        | "delete" => .mut (.delete name)
        | "get" => .get name (if status == 200 then parseSeen (optStr r "seen") else none)
        | _ => .other
      if (op == "badkind" || op == "badname") && status != 400 then invalidOK := false
      if op == "get" && status != 200 && status != 404 then bad := s!"get status {status}" :: bad
      if op == "list" && status != 200 then bad := s!"list status {status}" :: bad
      -- the header of a mutation that did not succeed is the version read before the handler
      let isMutOK := (op == "create" || op == "update" || op == "delete") && (status == 200 || status == 201)
      opsRev := { kind := kind, status := status, ver := if isMutOK then ver else none, t0 := t0, t1 := t1 } :: opsRev
  let ops := opsRev.reverse
  let nExpected := initJ.size + clients.foldl (fun a c => a + c.size) 0
  if ops.length != nExpected then bad := s!"{ops.length} results for {nExpected} requests" :: bad
  let e0 : Etcd := ⟨[], base⟩
  let hcSpec := checkHistory apply e0 ops final finalVer
  let hcModel := checkHistory (fun e r => exec r e) e0 ops final finalVer
  let unexpected := statuses.any fun s => s ≥ 500
  -- a 5xx (etcd / lock timeout on an overloaded machine) may be a half-executed handler: not judged
  if unexpected then
    return { agree := true, spec := true, tags := ["5xx-inconclusive"], nontrivial := false }
  let spec := hcSpec.all && invalidOK
  let agree := hcModel.all && invalidOK && bad.isEmpty && !unexpected
  let sig := if spec then "" else
    if !hcSpec.haveVersions then "api:success-without-version"
    else if !hcSpec.gapFree then "api:versions-not-gap-free"
    else if !hcSpec.enabled then "api:mutation-not-enabled-in-version-order"
    else if !hcSpec.realTime then "api:version-order-contradicts-real-time"
    else if !hcSpec.rejectedJustified then "api:rejection-unjustified"
    else if !hcSpec.readsJustified then "api:read-of-phantom-state"
    else if !hcSpec.finalStore then "api:final-store-differs-from-fold"
    else if !hcSpec.finalVersion then "api:final-version"
    else "api:invalid-request-not-400"
  let nConc := clients.length
  let has (s : Nat) : Bool := statuses.contains s
  let tags := [s!"servers:{optInt obs "servers"}", s!"clients:{nConc}"]
    ++ (if has 409 then ["409"] else []) ++ (if has 404 then ["404"] else [])
    ++ (if has 400 then ["400"] else []) ++ (if has 503 then ["503"] else [])
    ++ (if hcSpec.successes ≥ 8 then ["succ>=8"] else if hcSpec.successes == 0 then ["succ=0"] else ["succ<8"])
  pure { agree := agree, spec := spec,
         expected := Json.mkObj [("successes", (hcSpec.successes : Nat)), ("notes", Json.arr (bad.map Json.str).toArray)],
         tags := tags, nontrivial := nConc ≥ 2 && hcSpec.successes ≥ 2, sig := sig,
         note := String.intercalate "; " bad }
end

def judges : List (String × Judge) := [("C18mutex", judgeMutex), ("C18api", judgeAPI)]

end Driver.C18

def main (args : List String) : IO UInt32 := Driver.runMain Driver.C18.judges args
