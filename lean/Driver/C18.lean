import Driver.Common
/-! Judge for C18: not built yet (stub so that the target exists). -/
open Lean Driver

namespace Driver.C18

def judges : List (String × Judge) := []

end Driver.C18

def main (args : List String) : IO UInt32 := Driver.runMain Driver.C18.judges args
