import Driver.Common
import Driver.C09
/-!
`egjudge <property>`: reads harness lines `{"id":…,"input":…,"obs":…}` on stdin,
evaluates the Lean model and the executable specification on each, prints one
verdict line per case.
-/
open Lean Driver

def judges : List (String × Judge) := [
  ("C09", Driver.C09.judge)
]

partial def loop (h : IO.FS.Stream) (out : IO.FS.Stream) (j : Judge) : IO Unit := do
  let line ← h.getLine
  if line.isEmpty then return ()
  if line.trimAscii.isEmpty then
    loop h out j
  else
    let v : Json := match Json.parse line with
      | .error e => (badInput ("json: " ++ e)).toJson Json.null
      | .ok c =>
        let id := (c.getObjVal? "id").toOption.getD Json.null
        match c.getObjVal? "input", c.getObjVal? "obs" with
        | .ok i, .ok o => (j i o).toJson id
        | _, _ => (badInput "missing input/obs").toJson id
    out.putStrLn v.compress
    loop h out j

def main (args : List String) : IO UInt32 := do
  match args with
  | [p] =>
    match judges.lookup p with
    | some j =>
      let stdin ← IO.getStdin
      let stdout ← IO.getStdout
      loop stdin stdout j
      stdout.flush
      return 0
    | none => IO.eprintln s!"egjudge: no judge for {p}"; return 2
  | _ => IO.eprintln "usage: egjudge <property-id>"; return 2
