import Driver.MuxJudge
import Driver.C12Judge
/-! Judges for C05 (IP filter): `ipfilter` = the package-level decision (`New` / `Allow` against the
model and `net.IPNet.Contains`), `C05` = the router with filters at the three levels (cache off),
`twin` = the cache-on half of the statement ("with or without the route cache and whatever requests
preceded it"): C12's twin harness (the same request history against a cache-less and a cached
instance), judged here only for what C05 says — the *denial decision* (403 or not) for every request
of the history must be the same with the cache as without it; by `denied_never_handled` /
`undenied_same_as_unfiltered` the cache-less decision is the property's. Non-IP cache divergences are
C12's business and are not reported under C05. -/
open Lean Driver

namespace Driver.C05

def twinJudge : Judge := fun input obs =>
  let v := Driver.C12.judge input obs
  let u := Driver.C12.parseObsList obs "uncached"
  let c := Driver.C12.parseObsList obs "cached"
  let sameDenial := u.length == c.length &&
    (List.zipWith (fun a b => (a.status == 403) == (b.status == 403)) u c).all id
  let hasDenial := u.any (fun a => a.status == 403)
  if (obsPanic obs).isSome then v else
  { v with spec := sameDenial,
           sig := if sameDenial then "" else "ipcache:" ++ v.sig,
           tags := v.tags ++ (if hasDenial then ["denied-request-in-history"] else []),
           nontrivial := v.nontrivial && hasDenial }

def judges : List (String × Judge) :=
  [("C05", MuxJudge.judge true), ("ipfilter", MuxJudge.ipfJudge), ("twin", twinJudge)]

end Driver.C05

def main (args : List String) : IO UInt32 := Driver.runMain Driver.C05.judges args
