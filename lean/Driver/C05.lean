import Driver.MuxJudge
/-! Judges for C05 (IP filter): `ipfilter` = the package-level decision (`New` / `Allow` against the
model and `net.IPNet.Contains`), `C05` = the router with filters at the three levels. -/
open Lean Driver

namespace Driver.C05

def judges : List (String × Judge) := [("C05", MuxJudge.judge true), ("ipfilter", MuxJudge.ipfJudge)]

end Driver.C05

def main (args : List String) : IO UInt32 := Driver.runMain Driver.C05.judges args
