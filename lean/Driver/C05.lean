import Driver.Common
/-! Judge for C05: not built yet (stub so that the target exists). -/
open Lean Driver

namespace Driver.C05

def judges : List (String × Judge) := []

end Driver.C05

def main (args : List String) : IO UInt32 := Driver.runMain Driver.C05.judges args
