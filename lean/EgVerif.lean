-- Root of the EgVerif library: models, specs, proofs and property theorems.
import EgVerif.Audit.Tool
import EgVerif.Model.RateLimiter
