-- Root of the EgVerif library. Targets are built per property (see bin/setup.sh).
import EgVerif.Audit.Tool
