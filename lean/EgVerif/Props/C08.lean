import EgVerif.Proofs.CircuitBreaker
import EgVerif.Proofs.CircuitBreakerTime
import EgVerif.Gen.FactsC08
import EgVerif.Proofs.CircuitBreakerIR
/-!
# C08 — the circuit breaker obeys the CLOSED / OPEN / HALF_OPEN contract on every call history

Property theorems about `Model.CircuitBreaker` (a function-by-function model of
`pkg/util/circuitbreaker/circuitbreaker.go`, of `circuitBreakerWrapper.Wrap` and of the error
mapping in `ServerPool.handle`). Part 1: what one `AcquirePermission` / `RecordResult` does in each
state, for **every** policy, breaker state and instant. Part 2: invariants over **every** history
of admissions, completions (also late and repeated ones) and clock advances (`Reach`).
Part 3: the ring buffers refine the abstract windows. Part 4: `Wrap`, proxy mapping, facts.
Helper lemmas live in `Proofs/CircuitBreaker.lean`.
-/
namespace EgVerif.C08
open EgVerif.CircuitBreaker

/-! ## Part 1 — single steps -/

/-- Floor division is exact for "rate at or above threshold": `uint8(f*100/t) ≥ T ↔ f/t ≥ T/100`. -/
theorem rate_ge_iff (f t T : Nat) (ht : 0 < t) : f * 100 / t ≥ T ↔ 100 * f ≥ T * t :=
  rate_ge_iff' f t T ht

/-- While CLOSED every call passes (and nothing changes). -/
theorem closed_permits (p : Policy) (cb : CB) (now : Int) (h : cb.st = St.closed) :
    acquire p cb now = (cb, ⟨true, cb.stateID⟩) := by
  simp [acquire, h]

/-- While OPEN every call is short-circuited until `waitDurationInOpenState` has elapsed
(and nothing changes). -/
theorem open_short_circuits_until_wait (p : Policy) (cb : CB) (now : Int) (h : cb.st = St.open)
    (hw : now - cb.transit < p.waitOpen) :
    acquire p cb now = (cb, ⟨false, cb.stateID⟩) := by
  simp [acquire, h, hw]

/-- Once the wait has elapsed the next call moves the breaker to HALF_OPEN (new state id, fresh
count window of `permitted` slots) and is the first trial — admitted iff `permitted > 0`. -/
theorem open_wait_elapsed_half_opens (p : Policy) (cb : CB) (now : Int) (h : cb.st = St.open)
    (hw : p.waitOpen ≤ now - cb.transit) :
    acquire p cb now =
      ({ st := St.halfOpen, transit := now, win := Win.count (newCountWin p.permitted),
         nHalf := if 0 < p.permitted then 1 else 0, stateID := cb.stateID + 1 },
       ⟨decide (0 < p.permitted), cb.stateID + 1⟩) := by
  have hw' : ¬ now - cb.transit < p.waitOpen := not_lt.mpr hw
  have hne : cb.st ≠ St.halfOpen := by simp [h]
  simp only [acquire, h, hw', transitTo_halfOpen p cb now hne]
  by_cases hp : 0 < p.permitted
  · simp [hp]
  · have h0 : p.permitted = 0 := by omega
    have hmw : ¬ (0 < p.maxWaitHalf ∧ p.maxWaitHalf < 0) := by omega
    simp [h0, hmw]

/-- In HALF_OPEN a call is admitted iff fewer than `permitted` trials were admitted so far. -/
theorem halfopen_admits_iff (p : Policy) (cb : CB) (now : Int) (h : cb.st = St.halfOpen) :
    (acquire p cb now).2.permitted = decide (cb.nHalf < p.permitted) ∧
    (cb.nHalf < p.permitted →
      acquire p cb now = ({ cb with nHalf := cb.nHalf + 1 }, ⟨true, cb.stateID⟩)) := by
  by_cases hp : cb.nHalf < p.permitted
  · simp [acquire, h, hp]
  · by_cases hmw : p.maxWaitHalf > 0 ∧ now - cb.transit > p.maxWaitHalf
    · simp [acquire, h, hp, hmw]
    · simp [acquire, h, hp, hmw]

/-- `maxWaitDurationInHalfOpenState`, when set and exceeded, reopens a half-open breaker whose
trials are all handed out; the call itself is short-circuited. -/
theorem maxwait_reopens (p : Policy) (cb : CB) (now : Int) (h : cb.st = St.halfOpen)
    (hfull : p.permitted ≤ cb.nHalf) (hm : 0 < p.maxWaitHalf) (hel : p.maxWaitHalf < now - cb.transit) :
    acquire p cb now =
      ({ cb with st := St.open, transit := now, stateID := cb.stateID + 1 }, ⟨false, cb.stateID + 1⟩) := by
  have hp : ¬ cb.nHalf < p.permitted := by omega
  have hne : cb.st ≠ St.open := by simp [h]
  simp [acquire, h, hp, hm, hel, transitTo_open p cb now hne]

/-- … and otherwise (not set, or not yet exceeded) the call is short-circuited and nothing changes. -/
theorem halfopen_full_short_circuits (p : Policy) (cb : CB) (now : Int) (h : cb.st = St.halfOpen)
    (hfull : p.permitted ≤ cb.nHalf) (hno : p.maxWaitHalf ≤ 0 ∨ now - cb.transit ≤ p.maxWaitHalf) :
    acquire p cb now = (cb, ⟨false, cb.stateID⟩) := by
  have hp : ¬ cb.nHalf < p.permitted := by omega
  have : ¬ (p.maxWaitHalf > 0 ∧ now - cb.transit > p.maxWaitHalf) := by omega
  simp [acquire, h, hp, this]

/-- A result whose state id is not the current one (the call was admitted in an earlier state)
is ignored. -/
theorem stale_result_ignored (p : Policy) (cb : CB) (id : Nat) (e : Bool) (d now : Int)
    (hid : id ≠ cb.stateID) : record p cb id e d now = cb := by
  simp [record, hid]

/-- After a current result is recorded in CLOSED the breaker is OPEN iff the window holds at least
`minimumNumberOfCalls` results and the failure rate or the slow-call rate is at or above its
threshold (exact rational comparison); otherwise it stays CLOSED; in both cases the result is in
the window. -/
theorem opens_iff_threshold (p : Policy) (cb : CB) (e : Bool) (d now : Int) (h : cb.st = St.closed) :
    let w' := cb.win.push now (classify p e d)
    let cb' := record p cb cb.stateID e d now
    let reached := p.minCalls ≤ w'.total ∧
      (p.failTh * w'.total ≤ 100 * w'.failure ∨ p.slowTh * w'.total ≤ 100 * w'.slow)
    (reached → cb' = { cb with win := w', st := St.open, transit := now, stateID := cb.stateID + 1 }) ∧
    (¬ reached → cb' = { cb with win := w' }) := by
  have hpos : 0 < (cb.win.push now (classify p e d)).total := Win.push_total_pos _ _ _
  dsimp only
  have hfalse : ¬ (St.closed = St.halfOpen ∧ p.minCalls > p.permitted) := by simp
  simp only [record, ne_eq, not_true_eq_false, if_false, h, hfalse, Win.failureRate, Win.slowRate]
  generalize cb.win.push now (classify p e d) = w at hpos ⊢
  have hf := rate_ge_iff' w.failure w.total p.failTh hpos
  have hs := rate_ge_iff' w.slow w.total p.slowTh hpos
  have hne : ({ cb with win := w } : CB).st ≠ St.open := by simp [h]
  have hT := transitTo_open p { cb with win := w } now hne
  by_cases hmin : w.total < p.minCalls
  · simp only [hmin, if_true]
    constructor
    · intro hr; omega
    · intro _; trivial
  · simp only [hmin, if_false]
    by_cases h1 : w.failure * 100 / w.total ≥ p.failTh
    · simp only [h1, if_true, h] at hT ⊢
      constructor
      · intro _; exact hT
      · intro hr; exfalso; apply hr; exact ⟨by omega, Or.inl (by have := hf.mp h1; omega)⟩
    · simp only [h1, if_false]
      by_cases h2 : w.slow * 100 / w.total ≥ p.slowTh
      · simp only [h2, if_true, h] at hT ⊢
        constructor
        · intro _; exact hT
        · intro hr; exfalso; apply hr; exact ⟨by omega, Or.inr (by have := hs.mp h2; omega)⟩
      · simp only [h2, if_false]
        constructor
        · intro hr; exfalso
          rcases hr.2 with a | a
          · exact h1 (hf.mpr (by omega))
          · exact h2 (hs.mpr (by omega))
        · intro _; simp

/-- In HALF_OPEN the recorded results of the trials decide: until `min(minimumNumberOfCalls,
permitted)` results are in, nothing happens; then the breaker reopens if a rate is at or above its
threshold and closes (fresh window, new state id) otherwise. -/
theorem halfopen_verdict (p : Policy) (cb : CB) (e : Bool) (d now : Int) (h : cb.st = St.halfOpen) :
    let w' := cb.win.push now (classify p e d)
    let cb' := record p cb cb.stateID e d now
    let need := min p.minCalls p.permitted
    let bad := p.failTh * w'.total ≤ 100 * w'.failure ∨ p.slowTh * w'.total ≤ 100 * w'.slow
    (w'.total < need → cb' = { cb with win := w' }) ∧
    (need ≤ w'.total → bad →
      cb' = { cb with win := w', st := St.open, transit := now, stateID := cb.stateID + 1 }) ∧
    (need ≤ w'.total → ¬ bad →
      cb' = { cb with st := St.closed, transit := now, stateID := cb.stateID + 1,
                      win := if p.timeBased then Win.time (newTimeWin p.size now)
                             else Win.count (newCountWin p.size) }) := by
  have hpos : 0 < (cb.win.push now (classify p e d)).total := Win.push_total_pos _ _ _
  dsimp only
  simp only [record, ne_eq, not_true_eq_false, if_false, h, true_and, Win.failureRate, Win.slowRate]
  generalize cb.win.push now (classify p e d) = w at hpos ⊢
  have hf := rate_ge_iff' w.failure w.total p.failTh hpos
  have hs := rate_ge_iff' w.slow w.total p.slowTh hpos
  have hne : ({ cb with win := w } : CB).st ≠ St.open := by simp [h]
  have hT := transitTo_open p { cb with win := w } now hne
  have hne2 : ({ cb with win := w } : CB).st ≠ St.closed := by simp [h]
  have hC := transitTo_closed p { cb with win := w } now hne2
  simp only [h] at hT hC
  have hneed : (if p.minCalls > p.permitted then p.permitted else p.minCalls) = min p.minCalls p.permitted := by
    split <;> omega
  rw [hneed]
  generalize min p.minCalls p.permitted = need
  by_cases hmin : w.total < need
  · simp only [hmin, if_true]
    exact ⟨fun _ => trivial, fun hr => by omega, fun hr => by omega⟩
  · simp only [hmin, if_false]
    refine ⟨fun hr => hr.elim, ?_, ?_⟩
    · intro _ hbad
      by_cases h1 : w.failure * 100 / w.total ≥ p.failTh
      · simp only [h1, if_true]; exact hT
      · have h2 : w.slow * 100 / w.total ≥ p.slowTh := by
          rcases hbad with a | a
          · exact absurd (hf.mpr (by omega)) h1
          · exact hs.mpr (by omega)
        simp only [h1, if_false, h2, if_true]; exact hT
    · intro _ hgood
      have h1 : ¬ w.failure * 100 / w.total ≥ p.failTh := fun a => hgood (Or.inl (by have := hf.mp a; omega))
      have h2 : ¬ w.slow * 100 / w.total ≥ p.slowTh := fun a => hgood (Or.inr (by have := hs.mp a; omega))
      simp only [h1, h2, if_false, if_true]; exact hC

/-- The state id changes exactly when the state changes, and then by exactly one — so a result
carrying an older id can never be mistaken for a current one. The id handed out by
`AcquirePermission` is the id of the state the breaker is in when the call returns. -/
theorem stateID_strictly_increases_on_transition (p : Policy) (cb : CB) (now : Int) :
    (let r := acquire p cb now
     ((r.1.st = cb.st ∧ r.1.stateID = cb.stateID) ∨ (r.1.st ≠ cb.st ∧ r.1.stateID = cb.stateID + 1))
       ∧ r.2.id = r.1.stateID) ∧
    (∀ id e d, let cb' := record p cb id e d now
      (cb'.st = cb.st ∧ cb'.stateID = cb.stateID) ∨ (cb'.st ≠ cb.st ∧ cb'.stateID = cb.stateID + 1)) := by
  constructor
  · exact acquire_id_spec p cb now
  · intro id e d
    exact record_id_spec p cb id e d now

/-! ## Part 2 — every history

`Step` is one event of a call history: an admission request, the completion of a call that was
admitted at some earlier point (`id ∈ ids`: **any** earlier admission, however old, and possibly
completed before — a superset of what `Wrap` produces), or the clock moving forward.
`ids` collects the state ids handed to admitted calls. -/

inductive Step (p : Policy) : CB → Int → List Nat → CB → Int → List Nat → Prop
  | acquire (cb now ids) :
      Step p cb now ids (acquire p cb now).1 now
        (if (acquire p cb now).2.permitted then (acquire p cb now).2.id :: ids else ids)
  | record (cb now ids) (id : Nat) (e : Bool) (d : Int) : id ∈ ids →
      Step p cb now ids (record p cb id e d now) now ids
  | advance (cb now ids) (d : Int) : 0 ≤ d → Step p cb now ids cb (now + d) ids

/-- states reachable from `New(policy)` at any instant `t0` by any finite history -/
inductive Reach (p : Policy) : CB → Int → List Nat → Prop
  | init (t0 : Int) : Reach p (new p t0) t0 []
  | step {cb now ids cb' now' ids'} : Reach p cb now ids → Step p cb now ids cb' now' ids' →
      Reach p cb' now' ids'

/-- The invariant carried along every history. -/
structure Inv (p : Policy) (cb : CB) (now : Int) (ids : List Nat) : Prop where
  live : cb.st = St.closed ∨ cb.st = St.halfOpen ∨ cb.st = St.open
  ids_le : ∀ i ∈ ids, i ≤ cb.stateID
  open_none : cb.st = St.open → ids.count cb.stateID = 0
  half_cnt : cb.st = St.halfOpen → ids.count cb.stateID = cb.nHalf ∧ cb.nHalf ≤ p.permitted
  transit_le : cb.transit ≤ now

theorem count_succ_eq_zero {ids : List Nat} {n : Nat} (h : ∀ i ∈ ids, i ≤ n) : ids.count (n + 1) = 0 := by
  rw [List.count_eq_zero]
  intro hm
  have := h _ hm
  omega

theorem inv_init (p : Policy) (t0 : Int) : Inv p (new p t0) t0 [] := by
  have : (new p t0).st = St.closed ∧ (new p t0).transit = t0 := by
    simp [new, transitTo, zero]
  exact ⟨Or.inl this.1, by simp, by simp, by simp [this.1], by rw [this.2]⟩

theorem inv_step {p : Policy} {cb now ids cb' now' ids'} (inv : Inv p cb now ids)
    (st : Step p cb now ids cb' now' ids') : Inv p cb' now' ids' := by
  cases st with
  | advance d hd =>
    exact ⟨inv.live, inv.ids_le, inv.open_none, inv.half_cnt, by have := inv.transit_le; omega⟩
  | record id e d hid =>
    by_cases hcur : id = cb.stateID
    · subst hcur
      -- a current result: only possible in CLOSED / HALF_OPEN (in OPEN no admission carries the id)
      have hnotopen : cb.st ≠ St.open := by
        intro ho
        have := inv.open_none ho
        rw [List.count_eq_zero] at this
        exact this hid
      rcases inv.live with hc | hh | ho
      · have := opens_iff_threshold p cb e d now hc
        dsimp only at this
        by_cases hr : p.minCalls ≤ (cb.win.push now (classify p e d)).total ∧
            (p.failTh * (cb.win.push now (classify p e d)).total ≤ 100 * (cb.win.push now (classify p e d)).failure ∨
             p.slowTh * (cb.win.push now (classify p e d)).total ≤ 100 * (cb.win.push now (classify p e d)).slow)
        · rw [this.1 hr]
          exact ⟨by simp, fun i hi => by have := inv.ids_le i hi; simp only; omega,
            fun _ => count_succ_eq_zero inv.ids_le, by simp, by simp⟩
        · rw [this.2 hr]
          exact ⟨by simp [hc], inv.ids_le, by simp [hc], by simp [hc], inv.transit_le⟩
      · have := halfopen_verdict p cb e d now hh
        dsimp only at this
        obtain ⟨t1, t2, t3⟩ := this
        by_cases hn : (cb.win.push now (classify p e d)).total < min p.minCalls p.permitted
        · rw [t1 hn]
          exact ⟨by simp [hh], inv.ids_le, by simp [hh], by simpa [hh] using inv.half_cnt hh, inv.transit_le⟩
        · have hn' : min p.minCalls p.permitted ≤ (cb.win.push now (classify p e d)).total := by omega
          by_cases hb : p.failTh * (cb.win.push now (classify p e d)).total ≤ 100 * (cb.win.push now (classify p e d)).failure ∨
              p.slowTh * (cb.win.push now (classify p e d)).total ≤ 100 * (cb.win.push now (classify p e d)).slow
          · rw [t2 hn' hb]
            exact ⟨by simp, fun i hi => by have := inv.ids_le i hi; simp only; omega,
              fun _ => count_succ_eq_zero inv.ids_le, by simp, by simp⟩
          · rw [t3 hn' hb]
            exact ⟨by simp, fun i hi => by have := inv.ids_le i hi; simp only; omega,
              by simp, by simp, by simp⟩
      · exact absurd ho hnotopen
    · rw [stale_result_ignored p cb id e d now hcur]
      exact inv
  | acquire =>
    rcases inv.live with hc | hh | ho
    · rw [closed_permits p cb now hc]
      refine ⟨inv.live, ?_, by simp [hc], by simp [hc], inv.transit_le⟩
      intro i hi
      simp only [if_true, List.mem_cons] at hi
      rcases hi with rfl | hi
      · exact le_refl _
      · exact inv.ids_le i hi
    · obtain ⟨hcnt, hle⟩ := inv.half_cnt hh
      by_cases hp : cb.nHalf < p.permitted
      · rw [(halfopen_admits_iff p cb now hh).2 hp]
        refine ⟨by simp [hh], ?_, by simp [hh], ?_, inv.transit_le⟩
        · intro i hi
          simp only [if_true, List.mem_cons] at hi
          rcases hi with rfl | hi
          · exact le_refl _
          · exact inv.ids_le i hi
        · intro _
          simp only [if_true, List.count_cons_self, hcnt]
          exact ⟨trivial, hp⟩
      · by_cases hmw : 0 < p.maxWaitHalf ∧ p.maxWaitHalf < now - cb.transit
        · rw [maxwait_reopens p cb now hh (by omega) hmw.1 hmw.2]
          exact ⟨by simp, fun i hi => by have := inv.ids_le i (by simpa using hi); simp only; omega,
            fun _ => by simpa using count_succ_eq_zero inv.ids_le, by simp, by simp⟩
        · rw [halfopen_full_short_circuits p cb now hh (by omega) (by omega)]
          simpa using inv
    · by_cases hw : now - cb.transit < p.waitOpen
      · rw [open_short_circuits_until_wait p cb now ho hw]
        simpa using inv
      · rw [open_wait_elapsed_half_opens p cb now ho (by omega)]
        have hz := count_succ_eq_zero inv.ids_le
        by_cases hp : 0 < p.permitted
        · simp only [hp, decide_true, if_true]
          refine ⟨by simp, ?_, by simp, ?_, by simp⟩
          · intro i hi
            simp only [List.mem_cons] at hi
            rcases hi with rfl | hi
            · exact le_refl _
            · have := inv.ids_le i hi; simp only; omega
          · intro _
            simp only [List.count_cons_self, hz]
            exact ⟨trivial, hp⟩
        · simp only [hp, decide_false, if_false]
          exact ⟨by simp, fun i hi => by have := inv.ids_le i (by simpa using hi); simp only; omega,
            by simp, fun _ => by simpa using hz, by simp⟩

theorem reach_inv {p : Policy} {cb now ids} (r : Reach p cb now ids) : Inv p cb now ids := by
  induction r with
  | init t0 => exact inv_init p t0
  | step _ st ih => exact inv_step ih st

/-- **Over every history**: while HALF_OPEN, the calls admitted as trials (admissions carrying the
current state id) number exactly `numberOfCallsInHalfOpen`, which never exceeds
`permittedNumberOfCallsInHalfOpenState`. -/
theorem halfopen_admits_at_most {p : Policy} {cb now ids} (r : Reach p cb now ids)
    (h : cb.st = St.halfOpen) : ids.count cb.stateID ≤ p.permitted := by
  have := (reach_inv r).half_cnt h
  omega

/-- **Over every history**: the breaker is always CLOSED, HALF_OPEN or OPEN; and while OPEN no
admitted call carries the current state id, so the completion of *any* earlier admitted call —
whenever it arrives — leaves the OPEN breaker untouched. -/
theorem open_ignores_every_completion {p : Policy} {cb now ids} (r : Reach p cb now ids)
    (h : cb.st = St.open) (id : Nat) (hid : id ∈ ids) (e : Bool) (d : Int) (t : Int) :
    record p cb id e d t = cb := by
  apply stale_result_ignored
  intro heq
  have := (reach_inv r).open_none h
  rw [List.count_eq_zero] at this
  exact this (heq ▸ hid)

/-- **Over every history**: from a reachable OPEN state, whatever happens (admission requests,
completions of earlier calls, time passing) the breaker stays exactly as it is and admits nothing
as long as `waitDurationInOpenState` has not elapsed since it opened. -/
theorem open_short_circuits_history {p : Policy} {cb now ids cb' now' ids'}
    (r : Reach p cb now ids) (h : cb.st = St.open) (st : Step p cb now ids cb' now' ids')
    (hw : now' - cb.transit < p.waitOpen) : cb' = cb ∧ ids' = ids := by
  cases st with
  | advance d hd => exact ⟨rfl, rfl⟩
  | record id e d hid => exact ⟨open_ignores_every_completion r h id hid e d now, rfl⟩
  | acquire =>
    rw [open_short_circuits_until_wait p cb now h hw]
    simp

/-- **Over every history**: results of calls admitted in an earlier state are ignored — an admitted
call whose id is below the current state id changes nothing, and every admitted id is at most the
current one. -/
theorem earlier_state_result_ignored {p : Policy} {cb now ids} (r : Reach p cb now ids)
    (id : Nat) (hid : id ∈ ids) : id ≤ cb.stateID ∧
      (id < cb.stateID → ∀ e d t, record p cb id e d t = cb) := by
  refine ⟨(reach_inv r).ids_le id hid, fun hlt e d t => ?_⟩
  exact stale_result_ignored p cb id e d t (by omega)

/-! ## Part 3 — the ring buffers refine the abstract windows -/

/-- **Count-based window.** The ring (`bucket`, `bucketIdx`, three counters) refines "the last `N`
results since the state was entered": the relation `CountRel` holds for a new window, is preserved
by `Push` against the abstract push `lastN N (w ++ [r])` of the specification, and under it the
abstraction function returns exactly the abstract window and the counters are its counts (so
`Total`, `FailureRate`, `SlowRate` are the size and the rates of the last `N` results). -/
theorem countwin_refines (N : Nat) (hN : 0 < N) :
    CountRel N (newCountWin N) [] ∧
    (∀ c w r, CountRel N c w → r ≠ Res.unknown →
      CountRel N (c.push r) (lastN N (w ++ [r])) ∧ (c.push r).abs = lastN N (c.abs ++ [r])) ∧
    (∀ c w, CountRel N c w → c.abs = w ∧ c.total = w.length ∧ c.slow = w.count Res.slow ∧
      c.failure = w.count Res.failure ∧ w.length ≤ N) := by
  refine ⟨countRel_new N hN, ?_, ?_⟩
  · intro c w r h hr
    have h' := countRel_push h r hr
    exact ⟨h', by rw [countRel_abs h', countRel_abs h]⟩
  · intro c w h
    exact ⟨countRel_abs h, h.total, h.slow, h.failure, h.wlen⟩

/-- **Time-based window.** The ring of `N` one-second buckets (`beginAt`, `firstBucket`, three
counters) refines "the results recorded since the state was entered whose second index is greater
than `⌊now⌋ − N`": the relation `TimeRel` holds for a new window, is preserved by `evict(now)` against
dropping the results older than `N` seconds, and by `Push` against the abstract push of the
specification (`Spec.AWin.push`), for every non-decreasing sequence of instants (`hi ≤ ⌊now⌋`, where
`hi` bounds the seconds recorded so far); under it the three counters are the size and the
slow / failure counts of the abstract window. -/
theorem timewin_refines (N : Nat) (hN : 0 < N) :
    (∀ now, TimeRel N (newTimeWin N now) [] (secIdx now)) ∧
    (∀ t w hi now, TimeRel N t w hi → hi ≤ secIdx now →
      TimeRel N (t.evict now) (w.filter (fun e => decide (e.1 > secIdx now - N))) (secIdx now)) ∧
    (∀ t w hi now r, TimeRel N t w hi → hi ≤ secIdx now →
      TimeRel N (t.push now r) (w.filter (fun e => decide (e.1 > secIdx now - N)) ++ [(secIdx now, r)]) (secIdx now) ∧
      AWin.push (AWin.time N w) now r =
        AWin.time N (w.filter (fun e => decide (e.1 > secIdx now - N)) ++ [(secIdx now, r)])) ∧
    (∀ t w hi, TimeRel N t w hi →
      t.total = w.length ∧ t.slow = (w.map (·.2)).count Res.slow ∧ t.failure = (w.map (·.2)).count Res.failure ∧
      (∀ e ∈ w, t.beginAt / sec ≤ e.1 ∧ e.1 < t.beginAt / sec + N)) := by
  refine ⟨fun now => timeRel_new N hN now, fun t w hi now h hm => timeRel_evict h now hm,
    fun t w hi now r h hm => ⟨timeRel_push h now hm r, rfl⟩, ?_⟩
  intro t w hi h
  refine ⟨?_, ?_, ?_, fun e he => ⟨h.ring.lo e he, h.ring.hi e he⟩⟩
  · rw [h.ring.total]; simp [tally]
  · rw [h.ring.slow]; simp [tally]
  · rw [h.ring.failure]; simp [tally]

/-- The classification never produces `CallResultUnknown`, so every recorded result is a real one. -/
theorem classify_known (p : Policy) (e : Bool) (d : Int) : classify p e d ≠ Res.unknown := by
  unfold classify; split_ifs <;> simp

/-! ## Part 4 — `Wrap`, the proxy mapping, and the facts the model rests on -/

/-- One wrapped call makes exactly one `AcquirePermission`; if it is refused the handler is not
invoked, nothing is recorded and `ErrShortCircuited` is returned; if it is admitted the handler runs
once and exactly one result is recorded — a failure iff the handler returned an error or panicked. -/
theorem wrap_records_once (permitted : Bool) (o : Outcome) :
    let r := wrap permitted o
    r.1.count Ev.acquire = 1 ∧
    (permitted = false → r = ([Ev.acquire], WrapRet.shortCircuited)) ∧
    (permitted = true → r.1 = [Ev.acquire, Ev.handler, Ev.record (decide (o ≠ Outcome.ok))] ∧
      r.1.count (Ev.record true) + r.1.count (Ev.record false) = 1 ∧ r.2 ≠ WrapRet.shortCircuited) := by
  cases permitted <;> cases o <;> decide

/-- A short-circuited call is reported by the proxy as 503 / `shortCircuited`, and no server is
contacted (the wrapped handler — the only caller of `doHandle` — is not invoked). -/
theorem short_circuit_503_no_call (o : Outcome) (b : Bool) :
    (wrap false o).2 = WrapRet.shortCircuited ∧ Ev.handler ∉ (wrap false o).1 ∧
      poolOutcome b PoolErr.shortCircuited = ("shortCircuited", some 503) := by
  cases o <;> cases b <;> decide

/-- Facts obligation (regenerated from the source on every run): every `CircuitBreaker` method that
writes the breaker's state or calls `transitTo` takes `cb.lock` before it touches any field other
than the immutable `policy` (`transitTo` itself is only called by such methods and by `New`), and
every clock read goes through `nowFunc`. Concurrent callers are therefore a sequential history of
`acquire` / `record` steps in lock order, which is what Part 2 quantifies over. -/
theorem linearizable :
    Gen.FactsC08.extractionFailed = false ∧
    (∀ m ∈ Gen.FactsC08.stateWriters ++ Gen.FactsC08.transitCallers,
      m = "transitTo" ∨ Gen.FactsC08.lockedMethods.lookup m = some true) ∧
    Gen.FactsC08.lockedMethods.lookup "AcquirePermission" = some true ∧
    Gen.FactsC08.lockedMethods.lookup "RecordResult" = some true ∧
    Gen.FactsC08.timeNowMentions = 1 := by decide

/-- Facts obligation: the constants have the numeric values the model's `St.toNat` / `Res` assume, and
`ServerPool.handle` maps `ErrShortCircuited` as `poolOutcome` (`Wrap`'s shape: `wrap_regenerated_from_source`). -/
theorem source_shape :
    Gen.FactsC08.stateConsts = ["StateDisabled", "StateClosed", "StateHalfOpen", "StateOpen", "StateForceOpen"] ∧
    Gen.FactsC08.callResultConsts = ["CallResultUnknown", "CallResultSuccess", "CallResultSlow", "CallResultFailure"] ∧
    -- (the statement shape of `Wrap` that used to be pinned here by printed statements is now tied by
    -- `wrap_regenerated_from_source`, which survives renames and re-orderings)
    Gen.FactsC08.shortCircuitBlock = ["sp.buildFailureResponse(spCtx, http.StatusServiceUnavailable)",
      "return resultShortCircuited"] ∧
    Gen.FactsC08.resultShortCircuited = (poolOutcome false PoolErr.shortCircuited).1 := by
  decide

/-! ## Non-vacuity: concrete histories meeting the hypotheses -/

/-- failure threshold 50 %, count window of 2, minimum 2 calls, one trial, wait 1 s -/
private def pEx : Policy :=
  { failTh := 50, slowTh := 100, timeBased := false, size := 2, permitted := 1, minCalls := 2,
    slowDur := 1000000000, maxWaitHalf := 0, waitOpen := 1000000000 }

/-- exactly at the threshold: 1 failure of 2 at FT = 50 opens the breaker; it then short-circuits
until 1 s has passed, admits one trial, rejects the second, and the trial's success closes it. -/
example : run pEx (new pEx 0) 0 []
    [Op.acquire, Op.acquire, Op.record 0 false 0, Op.record 1 true 0, Op.acquire, Op.advance 999999999,
     Op.acquire, Op.advance 1, Op.acquire, Op.acquire, Op.record 8 false 0, Op.acquire] =
    [⟨true, 1, 1, 0⟩, ⟨true, 1, 1, 0⟩, ⟨false, 0, 1, 1⟩, ⟨false, 0, 3, 2⟩, ⟨false, 2, 3, 2⟩, ⟨false, 0, 3, 2⟩,
     ⟨false, 2, 3, 2⟩, ⟨false, 0, 3, 2⟩, ⟨true, 3, 2, 0⟩, ⟨false, 3, 2, 0⟩, ⟨false, 0, 1, 0⟩, ⟨true, 4, 1, 0⟩] := by
  decide

/-- the reference automaton yields the same trace -/
example : (Ref.run pEx (Ref.new pEx 0) 0 []
    [Op.acquire, Op.acquire, Op.record 0 false 0, Op.record 1 true 0, Op.acquire, Op.advance 999999999,
     Op.acquire, Op.advance 1, Op.acquire, Op.acquire, Op.record 8 false 0, Op.acquire]).map (·.st) =
    [1, 1, 1, 3, 3, 3, 3, 3, 2, 2, 1, 1] := by decide

/-- a reachable OPEN state with outstanding admitted calls (the hypotheses of
`open_short_circuits_history` / `open_ignores_every_completion` are satisfiable) -/
example : ∃ cb now ids, Reach pEx cb now ids ∧ cb.st = St.open ∧ ids ≠ [] := by
  refine ⟨_, _, _, Reach.step (Reach.step (Reach.step (Reach.step (Reach.init 0) (Step.acquire _ _ _))
    (Step.acquire _ _ _)) (Step.record _ _ _ 1 true 0 (by decide))) (Step.record _ _ _ 1 true 0 (by decide)),
    by decide, by decide⟩

/-! ### Regenerated tie by translation (`notes/IR.md`)

`Gen.FactsC08IR.*IR` are re-translated on every run from the current bodies of `CountBasedWindow.Push`,
`CircuitBreaker.transitTo`, `AcquirePermission`, `RecordResult` (go/ast → Lean,
`harness/factextract/irlib.go`; switch → if-chain, fall-through branches merged through tuples, mutex
and listener ignored); each is the model function on every input. Proofs: `Proofs/CircuitBreakerIR.lean`. -/

theorem countPush_regenerated_from_source (w : CountWin) (r : Res) :
    Gen.FactsC08IR.extractionFailed = false ∧ Gen.FactsC08IR.countPushIR w r = w.push r :=
  ⟨by decide, CircuitBreaker.countPush_regenerated_from_source w r⟩

theorem transitTo_regenerated_from_source (p : Policy) (cb : CB) (now : Int) (s : St) :
    Gen.FactsC08IR.extractionFailed = false ∧ Gen.FactsC08IR.transitToIR p cb now s = transitTo p cb now s :=
  ⟨by decide, CircuitBreaker.transitTo_regenerated_from_source p cb now s⟩

theorem acquire_regenerated_from_source (p : Policy) (cb : CB) (now : Int) :
    Gen.FactsC08IR.extractionFailed = false ∧ Gen.FactsC08IR.acquireIR p cb now = acquire p cb now :=
  ⟨by decide, CircuitBreaker.acquire_regenerated_from_source p cb now⟩

theorem record_regenerated_from_source (p : Policy) (cb : CB) (id : Nat) (hasErr : Bool) (d now : Int) :
    Gen.FactsC08IR.extractionFailed = false ∧
      Gen.FactsC08IR.recordIR p cb id hasErr d now = record p cb id hasErr d now :=
  ⟨by decide, CircuitBreaker.record_regenerated_from_source p cb id hasErr d now⟩

/-- `TimeBasedWindow.evict` (the `for i := 0; i < evicts; i++` loop as generated recursion on a fuel,
`b := &tbw.bucket[i]` as reads / writes through the list). -/
theorem timeEvict_regenerated_from_source (w : TimeWin) (now : Int) :
    Gen.FactsC08IR.extractionFailed = false ∧ Gen.FactsC08IR.timeEvictIR w now = w.evict now :=
  ⟨by decide, CircuitBreaker.timeEvict_regenerated_from_source w now⟩

/-- `TimeBasedWindow.Push`; Go's `int` index arithmetic is the model's `Nat` arithmetic as long as the
clock is not behind the window start after `evict`. -/
theorem timePush_regenerated_from_source (w : TimeWin) (now : Int) (r : Res)
    (h : (w.evict now).beginAt ≤ now) :
    Gen.FactsC08IR.extractionFailed = false ∧ Gen.FactsC08IR.timePushIR w now r = w.push now r :=
  ⟨by decide, CircuitBreaker.timePush_regenerated_from_source w now r h⟩

/-! ### Extension resil: `Wrap` tied by translation, and concurrent wrapped calls -/

/-- `circuitBreakerWrapper.Wrap`'s closure, regenerated from the source on every run (acquire; refused ⇒
`ErrShortCircuited`; handler; exactly one `RecordResult` on the normal path, and — through the inlined
deferred closure — exactly one `RecordResult(…, true, …)` when the handler panics). -/
theorem wrap_regenerated_from_source (permitted : Bool) (o : Outcome) :
    Gen.FactsC08IRw.extractionFailed = false ∧ Gen.FactsC08IRw.wrapIR permitted o = wrap permitted o :=
  ⟨by decide, CircuitBreaker.wrap_regenerated_from_source permitted o⟩

example : Gen.FactsC08IRw.wrapIR true Outcome.panic = ([Ev.acquire, Ev.handler, Ev.record true], WrapRet.panics) := by
  decide

/-- what concurrent callers of the wrapped handler do to the breaker: thread `t` enters `Wrap`
(`AcquirePermission` under the lock), later — if it was admitted — its handler is over and `Wrap` records
once with the id it was given (`wrap_records_once`); time passes -/
inductive WEv
  | start (t : Nat)
  | finish (t : Nat) (hasErr : Bool) (d : Int)
  | tick (d : Nat)

structure WSt where
  cb : CB
  now : Int
  /-- every id handed out so far (the history's `ids`) -/
  ids : List Nat
  /-- admitted calls still running: (thread, id it holds) -/
  held : List (Nat × Nat)
  /-- threads that were short-circuited -/
  refused : List Nat

def wstep (p : Policy) (s : WSt) : WEv → WSt
  | .start t =>
    let r := acquire p s.cb s.now
    if r.2.permitted then { s with cb := r.1, ids := r.2.id :: s.ids, held := (t, r.2.id) :: s.held }
    else { s with cb := r.1, refused := t :: s.refused }
  | .finish t e d =>
    match s.held.find? (fun h => h.1 == t) with
    | some h => { s with cb := record p s.cb h.2 e d s.now, held := s.held.filter (fun h => h.1 != t) }
    | none => s
  | .tick d => { s with now := s.now + d }

theorem wstep_inv (p : Policy) (s : WSt) (e : WEv)
    (hr : Reach p s.cb s.now s.ids) (hs : (s.held.map (·.2)).Sublist s.ids) :
    Reach p (wstep p s e).cb (wstep p s e).now (wstep p s e).ids ∧
      ((wstep p s e).held.map (·.2)).Sublist (wstep p s e).ids := by
  cases e with
  | start t =>
    have st := Step.acquire (p := p) s.cb s.now s.ids
    simp only [wstep]
    by_cases hp : (acquire p s.cb s.now).2.permitted = true
    · simp only [hp, if_true] at st ⊢
      refine ⟨Reach.step hr st, ?_⟩
      simp only [List.map_cons]
      exact hs.cons_cons _
    · simp only [hp, Bool.false_eq_true, if_false] at st ⊢
      exact ⟨Reach.step hr st, hs⟩
  | finish t e d =>
    simp only [wstep]
    cases hf : s.held.find? (fun h => h.1 == t) with
    | none => exact ⟨hr, hs⟩
    | some h =>
      have hm : h ∈ s.held := List.mem_of_find?_eq_some hf
      have hid : h.2 ∈ s.ids := hs.subset (List.mem_map_of_mem hm)
      refine ⟨Reach.step hr (Step.record s.cb s.now s.ids h.2 e d hid), ?_⟩
      exact ((List.filter_sublist (l := s.held)).map _).trans hs
  | tick d =>
    simp only [wstep]
    exact ⟨Reach.step hr (Step.advance s.cb s.now s.ids d (by omega)), hs⟩

/-- **Concurrent wrapped calls in HALF_OPEN** — for *every* interleaving of any number of callers' `Wrap`
entries, completions (in any order, however late) and clock advances, starting from `New`: the breaker's
state is a reachable history (so every theorem of Part 2 applies), and while HALF_OPEN the calls that are
running as trials of the current half-open period never exceed `permittedNumberOfCallsInHalfOpenState`;
all other callers were short-circuited (no handler call, no record). -/
theorem concurrent_wraps_halfopen (p : Policy) (t0 : Int) (evs : List WEv) :
    let s := evs.foldl (wstep p) ⟨new p t0, t0, [], [], []⟩
    Reach p s.cb s.now s.ids ∧
    (s.cb.st = St.halfOpen →
      (s.held.filter (fun h => h.2 == s.cb.stateID)).length ≤ p.permitted) := by
  have key : ∀ (evs : List WEv) (s : WSt), Reach p s.cb s.now s.ids → (s.held.map (·.2)).Sublist s.ids →
      Reach p (evs.foldl (wstep p) s).cb (evs.foldl (wstep p) s).now (evs.foldl (wstep p) s).ids ∧
      ((evs.foldl (wstep p) s).held.map (·.2)).Sublist (evs.foldl (wstep p) s).ids := by
    intro evs
    induction evs with
    | nil => intro s hr hs; exact ⟨hr, hs⟩
    | cons e es ih =>
      intro s hr hs
      obtain ⟨h1, h2⟩ := wstep_inv p s e hr hs
      exact ih _ h1 h2
  obtain ⟨hr, hs⟩ := key evs ⟨new p t0, t0, [], [], []⟩ (Reach.init t0) (by simp)
  refine ⟨hr, fun hh => ?_⟩
  have h1 := halfopen_admits_at_most hr hh
  have h2 := hs.count_le (evs.foldl (wstep p) ⟨new p t0, t0, [], [], []⟩).cb.stateID
  have h3 : ∀ (l : List (Nat × Nat)) (x : Nat), (l.filter (fun h => h.2 == x)).length = (l.map (·.2)).count x := by
    intro l x
    induction l with
    | nil => rfl
    | cons a r ih => by_cases ha : a.2 = x <;> simp [ha, ih]
  rw [h3]
  omega

/-- three callers racing into a HALF_OPEN breaker with one permitted trial: threads 0 and 1 open it (two
failures), after the wait thread 2 is admitted as the trial, threads 3 and 4 are short-circuited while it
runs — the hypothesis `st = halfOpen` of `concurrent_wraps_halfopen` is met with a running trial -/
example :
    let s := ([WEv.start 0, .start 1, .finish 1 true 0, .finish 0 true 0, .tick 1000000000, .start 2, .start 3,
      .start 4] : List WEv).foldl (wstep pEx) ⟨new pEx 0, 0, [], [], []⟩
    s.cb.st = St.halfOpen ∧ s.held = [(2, s.cb.stateID)] ∧ s.refused = [4, 3] := by
  decide

/-- `CircuitBreakerPolicy.CreateWrapper`, regenerated from the source on every run: which `libcb.Policy` the
wrapped breaker is created with (Extension resil, round 3) -/
theorem createWrapper_regenerated_from_source (raw : RawPolicy) (parse : String → Int × Bool) :
    Gen.FactsC08IRc.extractionFailed = false ∧ Gen.FactsC08IRc.createWrapperIR raw parse = policyOf raw parse :=
  ⟨by decide, CircuitBreaker.createWrapper_regenerated_from_source raw parse⟩

/-- nothing configured: one minute slow threshold and open wait, no half-open maximum; configured
durations are taken as parsed -/
example :
    let p := policyOf ⟨"COUNT_BASED", 50, 100, 10, 2, 5, "", "", "30s"⟩ (fun _ => (30000000000, false))
    p.slowDur = 60000000000 ∧ p.maxWaitHalf = 0 ∧ p.waitOpen = 30000000000 ∧ p.failTh = 50 ∧ p.permitted = 2 := by
  simp [policyOf]

/-! ### audit round (item 9 / P3): non-vacuity with `maxWaitHalf > 0` and with a time-based window -/

/-- `maxWaitDurationInHalfOpenState = 0.5 s` on a reachable history: two failures open the breaker, after
the open wait the trial (id 3) is admitted and the second caller refused; the trial stalls, and 0.5 s + 1 ns
later the next caller finds the half-open breaker re-opened (id 4) — `maxwait_reopens`' hypotheses are met -/
example : (run ⟨50, 100, false, 2, 1, 2, 1000000000, 500000000, 1000000000⟩
      (new ⟨50, 100, false, 2, 1, 2, 1000000000, 500000000, 1000000000⟩ 0) 0 []
      [Op.acquire, Op.acquire, Op.record 0 true 0, Op.record 1 true 0, Op.advance 1000000000, Op.acquire,
       Op.acquire, Op.advance 500000001, Op.acquire]).map (fun o => (o.permitted, o.id, o.st)) =
    [(true, 1, 1), (true, 1, 1), (false, 0, 1), (false, 0, 3), (false, 0, 3), (true, 3, 2), (false, 3, 2),
     (false, 0, 2), (false, 4, 3)] := by decide

/-- a time-based window of 2 s: the failure of second 0 is evicted when the next result arrives 2.5 s later
(the window total stays 1), two failures within the window then open the breaker — `timewin_refines` /
`opens_iff_threshold` on a reachable history -/
example : (run ⟨50, 100, true, 2, 1, 2, 1000000000, 0, 1000000000⟩
      (new ⟨50, 100, true, 2, 1, 2, 1000000000, 0, 1000000000⟩ 0) 0 []
      [Op.acquire, Op.record 0 true 0, Op.advance 2500000000, Op.acquire, Op.record 3 true 0, Op.acquire,
       Op.record 5 true 0, Op.acquire]).map (fun o => (o.permitted, o.st, o.total)) =
    [(true, 1, 0), (false, 1, 1), (false, 1, 1), (true, 1, 1), (false, 1, 1), (true, 1, 1), (false, 3, 2),
     (false, 3, 2)] := by decide

end EgVerif.C08
