import EgVerif.Proofs.CircuitBreaker
import EgVerif.Proofs.CircuitBreakerTime
import EgVerif.Gen.FactsC08
import EgVerif.Proofs.CircuitBreakerIR
/-!
# C08 — the circuit breaker obeys the CLOSED / OPEN / HALF_OPEN contract on every call history

Property theorems about `Model.CircuitBreaker` (a function-by-function model of
`pkg/util/circuitbreaker/circuitbreaker.go`, of `circuitBreakerWrapper.Wrap` and of the error
mapping in `ServerPool.handle`). Part 1: what one `AcquirePermission` / `RecordResult` does in each
state, for **every** policy, breaker state and instant. Part 2: invariants over **every** history
of admissions, completions (also late and repeated ones) and clock advances (`Reach`).
Part 3: the ring buffers refine the abstract windows. Part 4: `Wrap`, proxy mapping, facts.
Helper lemmas live in `Proofs/CircuitBreaker.lean`.
-/
namespace EgVerif.C08
open EgVerif.CircuitBreaker

/-! ## Part 1 — single steps -/

/-- Floor division is exact for "rate at or above threshold": `uint8(f*100/t) ≥ T ↔ f/t ≥ T/100`. -/
theorem rate_ge_iff (f t T : Nat) (ht : 0 < t) : f * 100 / t ≥ T ↔ 100 * f ≥ T * t :=
  rate_ge_iff' f t T ht

/-- While CLOSED every call passes (and nothing changes). -/
theorem closed_permits (p : Policy) (cb : CB) (now : Int) (h : cb.st = St.closed) :
    acquire p cb now = (cb, ⟨true, cb.stateID⟩) := by
  simp [acquire, h]

/-- While OPEN every call is short-circuited until `waitDurationInOpenState` has elapsed
(and nothing changes). -/
theorem open_short_circuits_until_wait (p : Policy) (cb : CB) (now : Int) (h : cb.st = St.open)
    (hw : now - cb.transit < p.waitOpen) :
    acquire p cb now = (cb, ⟨false, cb.stateID⟩) := by
  simp [acquire, h, hw]

/-- Once the wait has elapsed the next call moves the breaker to HALF_OPEN (new state id, fresh
count window of `permitted` slots) and is the first trial — admitted iff `permitted > 0`. -/
theorem open_wait_elapsed_half_opens (p : Policy) (cb : CB) (now : Int) (h : cb.st = St.open)
    (hw : p.waitOpen ≤ now - cb.transit) :
    acquire p cb now =
      ({ st := St.halfOpen, transit := now, win := Win.count (newCountWin p.permitted),
         nHalf := if 0 < p.permitted then 1 else 0, stateID := cb.stateID + 1 },
       ⟨decide (0 < p.permitted), cb.stateID + 1⟩) := by
  have hw' : ¬ now - cb.transit < p.waitOpen := not_lt.mpr hw
  have hne : cb.st ≠ St.halfOpen := by simp [h]
  simp only [acquire, h, hw', transitTo_halfOpen p cb now hne]
  by_cases hp : 0 < p.permitted
  · simp [hp]
  · have h0 : p.permitted = 0 := by omega
    have hmw : ¬ (0 < p.maxWaitHalf ∧ p.maxWaitHalf < 0) := by omega
    simp [h0, hmw]

/-- In HALF_OPEN a call is admitted iff fewer than `permitted` trials were admitted so far. -/
theorem halfopen_admits_iff (p : Policy) (cb : CB) (now : Int) (h : cb.st = St.halfOpen) :
    (acquire p cb now).2.permitted = decide (cb.nHalf < p.permitted) ∧
    (cb.nHalf < p.permitted →
      acquire p cb now = ({ cb with nHalf := cb.nHalf + 1 }, ⟨true, cb.stateID⟩)) := by
  by_cases hp : cb.nHalf < p.permitted
  · simp [acquire, h, hp]
  · by_cases hmw : p.maxWaitHalf > 0 ∧ now - cb.transit > p.maxWaitHalf
    · simp [acquire, h, hp, hmw]
    · simp [acquire, h, hp, hmw]

/-- `maxWaitDurationInHalfOpenState`, when set and exceeded, reopens a half-open breaker whose
trials are all handed out; the call itself is short-circuited. -/
theorem maxwait_reopens (p : Policy) (cb : CB) (now : Int) (h : cb.st = St.halfOpen)
    (hfull : p.permitted ≤ cb.nHalf) (hm : 0 < p.maxWaitHalf) (hel : p.maxWaitHalf < now - cb.transit) :
    acquire p cb now =
      ({ cb with st := St.open, transit := now, stateID := cb.stateID + 1 }, ⟨false, cb.stateID + 1⟩) := by
  have hp : ¬ cb.nHalf < p.permitted := by omega
  have hne : cb.st ≠ St.open := by simp [h]
  simp [acquire, h, hp, hm, hel, transitTo_open p cb now hne]

/-- … and otherwise (not set, or not yet exceeded) the call is short-circuited and nothing changes. -/
theorem halfopen_full_short_circuits (p : Policy) (cb : CB) (now : Int) (h : cb.st = St.halfOpen)
    (hfull : p.permitted ≤ cb.nHalf) (hno : p.maxWaitHalf ≤ 0 ∨ now - cb.transit ≤ p.maxWaitHalf) :
    acquire p cb now = (cb, ⟨false, cb.stateID⟩) := by
  have hp : ¬ cb.nHalf < p.permitted := by omega
  have : ¬ (p.maxWaitHalf > 0 ∧ now - cb.transit > p.maxWaitHalf) := by omega
  simp [acquire, h, hp, this]

/-- A result whose state id is not the current one (the call was admitted in an earlier state)
is ignored. -/
theorem stale_result_ignored (p : Policy) (cb : CB) (id : Nat) (e : Bool) (d now : Int)
    (hid : id ≠ cb.stateID) : record p cb id e d now = cb := by
  simp [record, hid]

/-- After a current result is recorded in CLOSED the breaker is OPEN iff the window holds at least
`minimumNumberOfCalls` results and the failure rate or the slow-call rate is at or above its
threshold (exact rational comparison); otherwise it stays CLOSED; in both cases the result is in
the window. -/
theorem opens_iff_threshold (p : Policy) (cb : CB) (e : Bool) (d now : Int) (h : cb.st = St.closed) :
    let w' := cb.win.push now (classify p e d)
    let cb' := record p cb cb.stateID e d now
    let reached := p.minCalls ≤ w'.total ∧
      (p.failTh * w'.total ≤ 100 * w'.failure ∨ p.slowTh * w'.total ≤ 100 * w'.slow)
    (reached → cb' = { cb with win := w', st := St.open, transit := now, stateID := cb.stateID + 1 }) ∧
    (¬ reached → cb' = { cb with win := w' }) := by
  have hpos : 0 < (cb.win.push now (classify p e d)).total := Win.push_total_pos _ _ _
  dsimp only
  have hfalse : ¬ (St.closed = St.halfOpen ∧ p.minCalls > p.permitted) := by simp
  simp only [record, ne_eq, not_true_eq_false, if_false, h, hfalse, Win.failureRate, Win.slowRate]
  generalize cb.win.push now (classify p e d) = w at hpos ⊢
  have hf := rate_ge_iff' w.failure w.total p.failTh hpos
  have hs := rate_ge_iff' w.slow w.total p.slowTh hpos
  have hne : ({ cb with win := w } : CB).st ≠ St.open := by simp [h]
  have hT := transitTo_open p { cb with win := w } now hne
  by_cases hmin : w.total < p.minCalls
  · simp only [hmin, if_true]
    constructor
    · intro hr; omega
    · intro _; trivial
  · simp only [hmin, if_false]
    by_cases h1 : w.failure * 100 / w.total ≥ p.failTh
    · simp only [h1, if_true, h] at hT ⊢
      constructor
      · intro _; exact hT
      · intro hr; exfalso; apply hr; exact ⟨by omega, Or.inl (by have := hf.mp h1; omega)⟩
    · simp only [h1, if_false]
      by_cases h2 : w.slow * 100 / w.total ≥ p.slowTh
      · simp only [h2, if_true, h] at hT ⊢
        constructor
        · intro _; exact hT
        · intro hr; exfalso; apply hr; exact ⟨by omega, Or.inr (by have := hs.mp h2; omega)⟩
      · simp only [h2, if_false]
        constructor
        · intro hr; exfalso
          rcases hr.2 with a | a
          · exact h1 (hf.mpr (by omega))
          · exact h2 (hs.mpr (by omega))
        · intro _; simp

/-- In HALF_OPEN the recorded results of the trials decide: until `min(minimumNumberOfCalls,
permitted)` results are in, nothing happens; then the breaker reopens if a rate is at or above its
threshold and closes (fresh window, new state id) otherwise. -/
theorem halfopen_verdict (p : Policy) (cb : CB) (e : Bool) (d now : Int) (h : cb.st = St.halfOpen) :
    let w' := cb.win.push now (classify p e d)
    let cb' := record p cb cb.stateID e d now
    let need := min p.minCalls p.permitted
    let bad := p.failTh * w'.total ≤ 100 * w'.failure ∨ p.slowTh * w'.total ≤ 100 * w'.slow
    (w'.total < need → cb' = { cb with win := w' }) ∧
    (need ≤ w'.total → bad →
      cb' = { cb with win := w', st := St.open, transit := now, stateID := cb.stateID + 1 }) ∧
    (need ≤ w'.total → ¬ bad →
      cb' = { cb with st := St.closed, transit := now, stateID := cb.stateID + 1,
                      win := if p.timeBased then Win.time (newTimeWin p.size now)
                             else Win.count (newCountWin p.size) }) := by
  have hpos : 0 < (cb.win.push now (classify p e d)).total := Win.push_total_pos _ _ _
  dsimp only
  simp only [record, ne_eq, not_true_eq_false, if_false, h, true_and, Win.failureRate, Win.slowRate]
  generalize cb.win.push now (classify p e d) = w at hpos ⊢
  have hf := rate_ge_iff' w.failure w.total p.failTh hpos
  have hs := rate_ge_iff' w.slow w.total p.slowTh hpos
  have hne : ({ cb with win := w } : CB).st ≠ St.open := by simp [h]
  have hT := transitTo_open p { cb with win := w } now hne
  have hne2 : ({ cb with win := w } : CB).st ≠ St.closed := by simp [h]
  have hC := transitTo_closed p { cb with win := w } now hne2
  simp only [h] at hT hC
  have hneed : (if p.minCalls > p.permitted then p.permitted else p.minCalls) = min p.minCalls p.permitted := by
    split <;> omega
  rw [hneed]
  generalize min p.minCalls p.permitted = need
  by_cases hmin : w.total < need
  · simp only [hmin, if_true]
    exact ⟨fun _ => trivial, fun hr => by omega, fun hr => by omega⟩
  · simp only [hmin, if_false]
    refine ⟨fun hr => hr.elim, ?_, ?_⟩
    · intro _ hbad
      by_cases h1 : w.failure * 100 / w.total ≥ p.failTh
      · simp only [h1, if_true]; exact hT
      · have h2 : w.slow * 100 / w.total ≥ p.slowTh := by
          rcases hbad with a | a
          · exact absurd (hf.mpr (by omega)) h1
          · exact hs.mpr (by omega)
        simp only [h1, if_false, h2, if_true]; exact hT
    · intro _ hgood
      have h1 : ¬ w.failure * 100 / w.total ≥ p.failTh := fun a => hgood (Or.inl (by have := hf.mp a; omega))
      have h2 : ¬ w.slow * 100 / w.total ≥ p.slowTh := fun a => hgood (Or.inr (by have := hs.mp a; omega))
      simp only [h1, h2, if_false, if_true]; exact hC

/-- The state id changes exactly when the state changes, and then by exactly one — so a result
carrying an older id can never be mistaken for a current one. The id handed out by
`AcquirePermission` is the id of the state the breaker is in when the call returns. -/
theorem stateID_strictly_increases_on_transition (p : Policy) (cb : CB) (now : Int) :
    (let r := acquire p cb now
     ((r.1.st = cb.st ∧ r.1.stateID = cb.stateID) ∨ (r.1.st ≠ cb.st ∧ r.1.stateID = cb.stateID + 1))
       ∧ r.2.id = r.1.stateID) ∧
    (∀ id e d, let cb' := record p cb id e d now
      (cb'.st = cb.st ∧ cb'.stateID = cb.stateID) ∨ (cb'.st ≠ cb.st ∧ cb'.stateID = cb.stateID + 1)) := by
  constructor
  · exact acquire_id_spec p cb now
  · intro id e d
    exact record_id_spec p cb id e d now

/-! ## Part 2 — every history

`Step` is one event of a call history: an admission request, the completion of a call that was
admitted at some earlier point (`id ∈ ids`: **any** earlier admission, however old, and possibly
completed before — a superset of what `Wrap` produces), or the clock moving forward.
`ids` collects the state ids handed to admitted calls. -/

inductive Step (p : Policy) : CB → Int → List Nat → CB → Int → List Nat → Prop
  | acquire (cb now ids) :
      Step p cb now ids (acquire p cb now).1 now
        (if (acquire p cb now).2.permitted then (acquire p cb now).2.id :: ids else ids)
  | record (cb now ids) (id : Nat) (e : Bool) (d : Int) : id ∈ ids →
      Step p cb now ids (record p cb id e d now) now ids
  | advance (cb now ids) (d : Int) : 0 ≤ d → Step p cb now ids cb (now + d) ids

/-- states reachable from `New(policy)` at any instant `t0` by any finite history -/
inductive Reach (p : Policy) : CB → Int → List Nat → Prop
  | init (t0 : Int) (hsize : 0 < p.size) : Reach p (new p t0) t0 []
  | step {cb now ids cb' now' ids'} : Reach p cb now ids → Step p cb now ids cb' now' ids' →
      Reach p cb' now' ids'

/-- The invariant carried along every history. -/
structure Inv (p : Policy) (cb : CB) (now : Int) (ids : List Nat) : Prop where
  live : cb.st = St.closed ∨ cb.st = St.halfOpen ∨ cb.st = St.open
  ids_le : ∀ i ∈ ids, i ≤ cb.stateID
  open_none : cb.st = St.open → ids.count cb.stateID = 0
  half_cnt : cb.st = St.halfOpen → ids.count cb.stateID = cb.nHalf ∧ cb.nHalf ≤ p.permitted
  transit_le : cb.transit ≤ now

theorem count_succ_eq_zero {ids : List Nat} {n : Nat} (h : ∀ i ∈ ids, i ≤ n) : ids.count (n + 1) = 0 := by
  rw [List.count_eq_zero]
  intro hm
  have := h _ hm
  omega

theorem inv_init (p : Policy) (t0 : Int) : Inv p (new p t0) t0 [] := by
  have : (new p t0).st = St.closed ∧ (new p t0).transit = t0 := by
    simp [new, transitTo, zero]
  exact ⟨Or.inl this.1, by simp, by simp, by simp [this.1], by rw [this.2]⟩

theorem inv_step {p : Policy} {cb now ids cb' now' ids'} (inv : Inv p cb now ids)
    (st : Step p cb now ids cb' now' ids') : Inv p cb' now' ids' := by
  cases st with
  | advance d hd =>
    exact ⟨inv.live, inv.ids_le, inv.open_none, inv.half_cnt, by have := inv.transit_le; omega⟩
  | record id e d hid =>
    by_cases hcur : id = cb.stateID
    · subst hcur
      -- a current result: only possible in CLOSED / HALF_OPEN (in OPEN no admission carries the id)
      have hnotopen : cb.st ≠ St.open := by
        intro ho
        have := inv.open_none ho
        rw [List.count_eq_zero] at this
        exact this hid
      rcases inv.live with hc | hh | ho
      · have := opens_iff_threshold p cb e d now hc
        dsimp only at this
        by_cases hr : p.minCalls ≤ (cb.win.push now (classify p e d)).total ∧
            (p.failTh * (cb.win.push now (classify p e d)).total ≤ 100 * (cb.win.push now (classify p e d)).failure ∨
             p.slowTh * (cb.win.push now (classify p e d)).total ≤ 100 * (cb.win.push now (classify p e d)).slow)
        · rw [this.1 hr]
          exact ⟨by simp, fun i hi => by have := inv.ids_le i hi; simp only; omega,
            fun _ => count_succ_eq_zero inv.ids_le, by simp, by simp⟩
        · rw [this.2 hr]
          exact ⟨by simp [hc], inv.ids_le, by simp [hc], by simp [hc], inv.transit_le⟩
      · have := halfopen_verdict p cb e d now hh
        dsimp only at this
        obtain ⟨t1, t2, t3⟩ := this
        by_cases hn : (cb.win.push now (classify p e d)).total < min p.minCalls p.permitted
        · rw [t1 hn]
          exact ⟨by simp [hh], inv.ids_le, by simp [hh], by simpa [hh] using inv.half_cnt hh, inv.transit_le⟩
        · have hn' : min p.minCalls p.permitted ≤ (cb.win.push now (classify p e d)).total := by omega
          by_cases hb : p.failTh * (cb.win.push now (classify p e d)).total ≤ 100 * (cb.win.push now (classify p e d)).failure ∨
              p.slowTh * (cb.win.push now (classify p e d)).total ≤ 100 * (cb.win.push now (classify p e d)).slow
          · rw [t2 hn' hb]
            exact ⟨by simp, fun i hi => by have := inv.ids_le i hi; simp only; omega,
              fun _ => count_succ_eq_zero inv.ids_le, by simp, by simp⟩
          · rw [t3 hn' hb]
            exact ⟨by simp, fun i hi => by have := inv.ids_le i hi; simp only; omega,
              by simp, by simp, by simp⟩
      · exact absurd ho hnotopen
    · rw [stale_result_ignored p cb id e d now hcur]
      exact inv
  | acquire =>
    rcases inv.live with hc | hh | ho
    · rw [closed_permits p cb now hc]
      refine ⟨inv.live, ?_, by simp [hc], by simp [hc], inv.transit_le⟩
      intro i hi
      simp only [if_true, List.mem_cons] at hi
      rcases hi with rfl | hi
      · exact le_refl _
      · exact inv.ids_le i hi
    · obtain ⟨hcnt, hle⟩ := inv.half_cnt hh
      by_cases hp : cb.nHalf < p.permitted
      · rw [(halfopen_admits_iff p cb now hh).2 hp]
        refine ⟨by simp [hh], ?_, by simp [hh], ?_, inv.transit_le⟩
        · intro i hi
          simp only [if_true, List.mem_cons] at hi
          rcases hi with rfl | hi
          · exact le_refl _
          · exact inv.ids_le i hi
        · intro _
          simp only [if_true, List.count_cons_self, hcnt]
          exact ⟨trivial, hp⟩
      · by_cases hmw : 0 < p.maxWaitHalf ∧ p.maxWaitHalf < now - cb.transit
        · rw [maxwait_reopens p cb now hh (by omega) hmw.1 hmw.2]
          exact ⟨by simp, fun i hi => by have := inv.ids_le i (by simpa using hi); simp only; omega,
            fun _ => by simpa using count_succ_eq_zero inv.ids_le, by simp, by simp⟩
        · rw [halfopen_full_short_circuits p cb now hh (by omega) (by omega)]
          simpa using inv
    · by_cases hw : now - cb.transit < p.waitOpen
      · rw [open_short_circuits_until_wait p cb now ho hw]
        simpa using inv
      · rw [open_wait_elapsed_half_opens p cb now ho (by omega)]
        have hz := count_succ_eq_zero inv.ids_le
        by_cases hp : 0 < p.permitted
        · simp only [hp, decide_true, if_true]
          refine ⟨by simp, ?_, by simp, ?_, by simp⟩
          · intro i hi
            simp only [List.mem_cons] at hi
            rcases hi with rfl | hi
            · exact le_refl _
            · have := inv.ids_le i hi; simp only; omega
          · intro _
            simp only [List.count_cons_self, hz]
            exact ⟨trivial, hp⟩
        · simp only [hp, decide_false, if_false]
          exact ⟨by simp, fun i hi => by have := inv.ids_le i (by simpa using hi); simp only; omega,
            by simp, fun _ => by simpa using hz, by simp⟩

theorem reach_inv {p : Policy} {cb now ids} (r : Reach p cb now ids) : Inv p cb now ids := by
  induction r with
  | init t0 _ => exact inv_init p t0
  | step _ st ih => exact inv_step ih st

/-- **Over every history**: while HALF_OPEN, the calls admitted as trials (admissions carrying the
current state id) number exactly `numberOfCallsInHalfOpen`, which never exceeds
`permittedNumberOfCallsInHalfOpenState`. -/
theorem halfopen_admits_at_most {p : Policy} {cb now ids} (r : Reach p cb now ids)
    (h : cb.st = St.halfOpen) : ids.count cb.stateID ≤ p.permitted := by
  have := (reach_inv r).half_cnt h
  omega

/-- **Over every history**: the breaker is always CLOSED, HALF_OPEN or OPEN; and while OPEN no
admitted call carries the current state id, so the completion of *any* earlier admitted call —
whenever it arrives — leaves the OPEN breaker untouched. -/
theorem open_ignores_every_completion {p : Policy} {cb now ids} (r : Reach p cb now ids)
    (h : cb.st = St.open) (id : Nat) (hid : id ∈ ids) (e : Bool) (d : Int) (t : Int) :
    record p cb id e d t = cb := by
  apply stale_result_ignored
  intro heq
  have := (reach_inv r).open_none h
  rw [List.count_eq_zero] at this
  exact this (heq ▸ hid)

/-- **Over every history**: from a reachable OPEN state, whatever happens (admission requests,
completions of earlier calls, time passing) the breaker stays exactly as it is and admits nothing
as long as `waitDurationInOpenState` has not elapsed since it opened. -/
theorem open_short_circuits_history {p : Policy} {cb now ids cb' now' ids'}
    (r : Reach p cb now ids) (h : cb.st = St.open) (st : Step p cb now ids cb' now' ids')
    (hw : now' - cb.transit < p.waitOpen) : cb' = cb ∧ ids' = ids := by
  cases st with
  | advance d hd => exact ⟨rfl, rfl⟩
  | record id e d hid => exact ⟨open_ignores_every_completion r h id hid e d now, rfl⟩
  | acquire =>
    rw [open_short_circuits_until_wait p cb now h hw]
    simp

/-- **Over every history**: results of calls admitted in an earlier state are ignored — an admitted
call whose id is below the current state id changes nothing, and every admitted id is at most the
current one. -/
theorem earlier_state_result_ignored {p : Policy} {cb now ids} (r : Reach p cb now ids)
    (id : Nat) (hid : id ∈ ids) : id ≤ cb.stateID ∧
      (id < cb.stateID → ∀ e d t, record p cb id e d t = cb) := by
  refine ⟨(reach_inv r).ids_le id hid, fun hlt e d t => ?_⟩
  exact stale_result_ignored p cb id e d t (by omega)

/-! ## Part 3 — the ring buffers refine the abstract windows -/

/-- **Count-based window.** The ring (`bucket`, `bucketIdx`, three counters) refines "the last `N`
results since the state was entered": the relation `CountRel` holds for a new window, is preserved
by `Push` against the abstract push `lastN N (w ++ [r])` of the specification, and under it the
abstraction function returns exactly the abstract window and the counters are its counts (so
`Total`, `FailureRate`, `SlowRate` are the size and the rates of the last `N` results). -/
theorem countwin_refines (N : Nat) (hN : 0 < N) :
    CountRel N (newCountWin N) [] ∧
    (∀ c w r, CountRel N c w → r ≠ Res.unknown →
      CountRel N (c.push r) (lastN N (w ++ [r])) ∧ (c.push r).abs = lastN N (c.abs ++ [r])) ∧
    (∀ c w, CountRel N c w → c.abs = w ∧ c.total = w.length ∧ c.slow = w.count Res.slow ∧
      c.failure = w.count Res.failure ∧ w.length ≤ N) := by
  refine ⟨countRel_new N hN, ?_, ?_⟩
  · intro c w r h hr
    have h' := countRel_push h r hr
    exact ⟨h', by rw [countRel_abs h', countRel_abs h]⟩
  · intro c w h
    exact ⟨countRel_abs h, h.total, h.slow, h.failure, h.wlen⟩

/-- **Time-based window.** The ring of `N` one-second buckets (`beginAt`, `firstBucket`, three
counters) refines "the results recorded since the state was entered whose second index is greater
than `⌊now⌋ − N`": the relation `TimeRel` holds for a new window, is preserved by `evict(now)` against
dropping the results older than `N` seconds, and by `Push` against the abstract push of the
specification (`Spec.AWin.push`), for every non-decreasing sequence of instants (`hi ≤ ⌊now⌋`, where
`hi` bounds the seconds recorded so far); under it the three counters are the size and the
slow / failure counts of the abstract window. -/
theorem timewin_refines (N : Nat) (hN : 0 < N) :
    (∀ now, TimeRel N (newTimeWin N now) [] (secIdx now)) ∧
    (∀ t w hi now, TimeRel N t w hi → hi ≤ secIdx now →
      TimeRel N (t.evict now) (w.filter (fun e => decide (e.1 > secIdx now - N))) (secIdx now)) ∧
    (∀ t w hi now r, TimeRel N t w hi → hi ≤ secIdx now →
      TimeRel N (t.push now r) (w.filter (fun e => decide (e.1 > secIdx now - N)) ++ [(secIdx now, r)]) (secIdx now) ∧
      AWin.push (AWin.time N w) now r =
        AWin.time N (w.filter (fun e => decide (e.1 > secIdx now - N)) ++ [(secIdx now, r)])) ∧
    (∀ t w hi, TimeRel N t w hi →
      t.total = w.length ∧ t.slow = (w.map (·.2)).count Res.slow ∧ t.failure = (w.map (·.2)).count Res.failure ∧
      (∀ e ∈ w, t.beginAt / sec ≤ e.1 ∧ e.1 < t.beginAt / sec + N)) := by
  refine ⟨fun now => timeRel_new N hN now, fun t w hi now h hm => timeRel_evict h now hm,
    fun t w hi now r h hm => ⟨timeRel_push h now hm r, rfl⟩, ?_⟩
  intro t w hi h
  refine ⟨?_, ?_, ?_, fun e he => ⟨h.ring.lo e he, h.ring.hi e he⟩⟩
  · rw [h.ring.total]; simp [tally]
  · rw [h.ring.slow]; simp [tally]
  · rw [h.ring.failure]; simp [tally]

/-- The classification never produces `CallResultUnknown`, so every recorded result is a real one. -/
theorem classify_known (p : Policy) (e : Bool) (d : Int) : classify p e d ≠ Res.unknown := by
  unfold classify; split_ifs <;> simp

/-! ## Part 4 — `Wrap`, the proxy mapping, and the facts the model rests on -/

/-- One wrapped call makes exactly one `AcquirePermission`; if it is refused the handler is not
invoked, nothing is recorded and `ErrShortCircuited` is returned; if it is admitted the handler runs
once and exactly one result is recorded — a failure iff the handler returned an error or panicked. -/
theorem wrap_records_once (permitted : Bool) (o : Outcome) :
    let r := wrap permitted o
    r.1.count Ev.acquire = 1 ∧
    (permitted = false → r = ([Ev.acquire], WrapRet.shortCircuited)) ∧
    (permitted = true → r.1 = [Ev.acquire, Ev.handler, Ev.record (decide (o ≠ Outcome.ok))] ∧
      r.1.count (Ev.record true) + r.1.count (Ev.record false) = 1 ∧ r.2 ≠ WrapRet.shortCircuited) := by
  cases permitted <;> cases o <;> decide

/-- A short-circuited call is reported by the proxy as 503 / `shortCircuited`, and no server is
contacted (the wrapped handler — the only caller of `doHandle` — is not invoked). -/
theorem short_circuit_503_no_call (o : Outcome) (b : Bool) :
    (wrap false o).2 = WrapRet.shortCircuited ∧ Ev.handler ∉ (wrap false o).1 ∧
      poolOutcome b PoolErr.shortCircuited = ("shortCircuited", some 503) := by
  cases o <;> cases b <;> decide

/-- Facts obligation (regenerated from the source on every run): every `CircuitBreaker` method that
writes the breaker's state or calls `transitTo` takes `cb.lock` before it touches any field other
than the immutable `policy` (`transitTo` itself is only called by such methods and by `New`), and
every clock read goes through `nowFunc`. Concurrent callers are therefore a sequential history of
`acquire` / `record` steps in lock order, which is what Part 2 quantifies over. -/
theorem linearizable :
    Gen.FactsC08.extractionFailed = false ∧
    (∀ m ∈ Gen.FactsC08.stateWriters ++ Gen.FactsC08.transitCallers,
      m = "transitTo" ∨ Gen.FactsC08.lockedMethods.lookup m = some true) ∧
    Gen.FactsC08.lockedMethods.lookup "AcquirePermission" = some true ∧
    Gen.FactsC08.lockedMethods.lookup "RecordResult" = some true ∧
    Gen.FactsC08.timeNowMentions = 1 := by decide

/-- Facts obligation: the constants have the numeric values the model's `St.toNat` / `Res` assume, and
`ServerPool.handle` maps `ErrShortCircuited` as `poolOutcome` (`Wrap`'s shape: `wrap_regenerated_from_source`). -/
theorem source_shape :
    Gen.FactsC08.stateConsts = ["StateDisabled", "StateClosed", "StateHalfOpen", "StateOpen", "StateForceOpen"] ∧
    Gen.FactsC08.callResultConsts = ["CallResultUnknown", "CallResultSuccess", "CallResultSlow", "CallResultFailure"] ∧
    -- (the statement shape of `Wrap` that used to be pinned here by printed statements is now tied by
    -- `wrap_regenerated_from_source`, which survives renames and re-orderings)
    Gen.FactsC08.shortCircuitBlock = ["sp.buildFailureResponse(spCtx, http.StatusServiceUnavailable)",
      "return resultShortCircuited"] ∧
    Gen.FactsC08.resultShortCircuited = (poolOutcome false PoolErr.shortCircuited).1 := by
  decide

/-! ## Non-vacuity: concrete histories meeting the hypotheses -/

/-- failure threshold 50 %, count window of 2, minimum 2 calls, one trial, wait 1 s -/
private def pEx : Policy :=
  { failTh := 50, slowTh := 100, timeBased := false, size := 2, permitted := 1, minCalls := 2,
    slowDur := 1000000000, maxWaitHalf := 0, waitOpen := 1000000000 }

/-- exactly at the threshold: 1 failure of 2 at FT = 50 opens the breaker; it then short-circuits
until 1 s has passed, admits one trial, rejects the second, and the trial's success closes it. -/
example : run pEx (new pEx 0) 0 []
    [Op.acquire, Op.acquire, Op.record 0 false 0, Op.record 1 true 0, Op.acquire, Op.advance 999999999,
     Op.acquire, Op.advance 1, Op.acquire, Op.acquire, Op.record 8 false 0, Op.acquire] =
    [⟨true, 1, 1, 0⟩, ⟨true, 1, 1, 0⟩, ⟨false, 0, 1, 1⟩, ⟨false, 0, 3, 2⟩, ⟨false, 2, 3, 2⟩, ⟨false, 0, 3, 2⟩,
     ⟨false, 2, 3, 2⟩, ⟨false, 0, 3, 2⟩, ⟨true, 3, 2, 0⟩, ⟨false, 3, 2, 0⟩, ⟨false, 0, 1, 0⟩, ⟨true, 4, 1, 0⟩] := by
  decide

/-- the reference automaton yields the same trace -/
example : (Ref.run pEx (Ref.new pEx 0) 0 []
    [Op.acquire, Op.acquire, Op.record 0 false 0, Op.record 1 true 0, Op.acquire, Op.advance 999999999,
     Op.acquire, Op.advance 1, Op.acquire, Op.acquire, Op.record 8 false 0, Op.acquire]).map (·.st) =
    [1, 1, 1, 3, 3, 3, 3, 3, 2, 2, 1, 1] := by decide

/-- a reachable OPEN state with outstanding admitted calls (the hypotheses of
`open_short_circuits_history` / `open_ignores_every_completion` are satisfiable) -/
example : ∃ cb now ids, Reach pEx cb now ids ∧ cb.st = St.open ∧ ids ≠ [] := by
  refine ⟨_, _, _, Reach.step (Reach.step (Reach.step (Reach.step (Reach.init 0 (by decide)) (Step.acquire _ _ _))
    (Step.acquire _ _ _)) (Step.record _ _ _ 1 true 0 (by decide))) (Step.record _ _ _ 1 true 0 (by decide)),
    by decide, by decide⟩

/-! ### Regenerated tie by translation (`notes/IR.md`)

`Gen.FactsC08IR.*IR` are re-translated on every run from the current bodies of `CountBasedWindow.Push`,
`CircuitBreaker.transitTo`, `AcquirePermission`, `RecordResult` (go/ast → Lean,
`harness/factextract/irlib.go`; switch → if-chain, fall-through branches merged through tuples, mutex
and listener ignored); each is the model function on every input. Proofs: `Proofs/CircuitBreakerIR.lean`. -/

theorem countPush_regenerated_from_source (w : CountWin) (r : Res) :
    Gen.FactsC08IR.extractionFailed = false ∧ Gen.FactsC08IR.countPushIR w r = w.push r :=
  ⟨by decide, CircuitBreaker.countPush_regenerated_from_source w r⟩

theorem transitTo_regenerated_from_source (p : Policy) (cb : CB) (now : Int) (s : St) :
    Gen.FactsC08IR.extractionFailed = false ∧ Gen.FactsC08IR.transitToIR p cb now s = transitTo p cb now s :=
  ⟨by decide, CircuitBreaker.transitTo_regenerated_from_source p cb now s⟩

theorem acquire_regenerated_from_source (p : Policy) (cb : CB) (now : Int) :
    Gen.FactsC08IR.extractionFailed = false ∧ Gen.FactsC08IR.acquireIR p cb now = acquire p cb now :=
  ⟨by decide, CircuitBreaker.acquire_regenerated_from_source p cb now⟩

theorem record_regenerated_from_source (p : Policy) (cb : CB) (id : Nat) (hasErr : Bool) (d now : Int) :
    Gen.FactsC08IR.extractionFailed = false ∧
      Gen.FactsC08IR.recordIR p cb id hasErr d now = record p cb id hasErr d now :=
  ⟨by decide, CircuitBreaker.record_regenerated_from_source p cb id hasErr d now⟩

/-- `TimeBasedWindow.evict` (the `for i := 0; i < evicts; i++` loop as generated recursion on a fuel,
`b := &tbw.bucket[i]` as reads / writes through the list). -/
theorem timeEvict_regenerated_from_source (w : TimeWin) (now : Int) :
    Gen.FactsC08IR.extractionFailed = false ∧ Gen.FactsC08IR.timeEvictIR w now = w.evict now :=
  ⟨by decide, CircuitBreaker.timeEvict_regenerated_from_source w now⟩

/-- `TimeBasedWindow.Push`; Go's `int` index arithmetic is the model's `Nat` arithmetic as long as the
clock is not behind the window start after `evict`. -/
theorem timePush_regenerated_from_source (w : TimeWin) (now : Int) (r : Res)
    (h : (w.evict now).beginAt ≤ now) :
    Gen.FactsC08IR.extractionFailed = false ∧ Gen.FactsC08IR.timePushIR w now r = w.push now r :=
  ⟨by decide, CircuitBreaker.timePush_regenerated_from_source w now r h⟩

/-! ### Extension resil: `Wrap` tied by translation, and concurrent wrapped calls -/

/-- `circuitBreakerWrapper.Wrap`'s closure, regenerated from the source on every run (acquire; refused ⇒
`ErrShortCircuited`; handler; exactly one `RecordResult` on the normal path, and — through the inlined
deferred closure — exactly one `RecordResult(…, true, …)` when the handler panics). -/
theorem wrap_regenerated_from_source (permitted : Bool) (o : Outcome) :
    Gen.FactsC08IRw.extractionFailed = false ∧ Gen.FactsC08IRw.wrapIR permitted o = wrap permitted o :=
  ⟨by decide, CircuitBreaker.wrap_regenerated_from_source permitted o⟩

example : Gen.FactsC08IRw.wrapIR true Outcome.panic = ([Ev.acquire, Ev.handler, Ev.record true], WrapRet.panics) := by
  decide

/-- what concurrent callers of the wrapped handler do to the breaker: thread `t` enters `Wrap`
(`AcquirePermission` under the lock), later — if it was admitted — its handler is over and `Wrap` records
once with the id it was given (`wrap_records_once`); time passes -/
inductive WEv
  | start (t : Nat)
  | finish (t : Nat) (hasErr : Bool) (d : Int)
  | tick (d : Nat)

structure WSt where
  cb : CB
  now : Int
  /-- every id handed out so far (the history's `ids`) -/
  ids : List Nat
  /-- admitted calls still running: (thread, id it holds) -/
  held : List (Nat × Nat)
  /-- threads that were short-circuited -/
  refused : List Nat

def wstep (p : Policy) (s : WSt) : WEv → WSt
  | .start t =>
    let r := acquire p s.cb s.now
    if r.2.permitted then { s with cb := r.1, ids := r.2.id :: s.ids, held := (t, r.2.id) :: s.held }
    else { s with cb := r.1, refused := t :: s.refused }
  | .finish t e d =>
    match s.held.find? (fun h => h.1 == t) with
    | some h => { s with cb := record p s.cb h.2 e d s.now, held := s.held.filter (fun h => h.1 != t) }
    | none => s
  | .tick d => { s with now := s.now + d }

theorem wstep_inv (p : Policy) (s : WSt) (e : WEv)
    (hr : Reach p s.cb s.now s.ids) (hs : (s.held.map (·.2)).Sublist s.ids) :
    Reach p (wstep p s e).cb (wstep p s e).now (wstep p s e).ids ∧
      ((wstep p s e).held.map (·.2)).Sublist (wstep p s e).ids := by
  cases e with
  | start t =>
    have st := Step.acquire (p := p) s.cb s.now s.ids
    simp only [wstep]
    by_cases hp : (acquire p s.cb s.now).2.permitted = true
    · simp only [hp, if_true] at st ⊢
      refine ⟨Reach.step hr st, ?_⟩
      simp only [List.map_cons]
      exact hs.cons_cons _
    · simp only [hp, Bool.false_eq_true, if_false] at st ⊢
      exact ⟨Reach.step hr st, hs⟩
  | finish t e d =>
    simp only [wstep]
    cases hf : s.held.find? (fun h => h.1 == t) with
    | none => exact ⟨hr, hs⟩
    | some h =>
      have hm : h ∈ s.held := List.mem_of_find?_eq_some hf
      have hid : h.2 ∈ s.ids := hs.subset (List.mem_map_of_mem hm)
      refine ⟨Reach.step hr (Step.record s.cb s.now s.ids h.2 e d hid), ?_⟩
      exact ((List.filter_sublist (l := s.held)).map _).trans hs
  | tick d =>
    simp only [wstep]
    exact ⟨Reach.step hr (Step.advance s.cb s.now s.ids d (by omega)), hs⟩

/-- **Concurrent wrapped calls in HALF_OPEN** — for *every* interleaving of any number of callers' `Wrap`
entries, completions (in any order, however late) and clock advances, starting from `New`: the breaker's
state is a reachable history (so every theorem of Part 2 applies), and while HALF_OPEN the calls that are
running as trials of the current half-open period never exceed `permittedNumberOfCallsInHalfOpenState`;
all other callers were short-circuited (no handler call, no record). -/
theorem concurrent_wraps_halfopen (p : Policy) (hsz : 0 < p.size) (t0 : Int) (evs : List WEv) :
    let s := evs.foldl (wstep p) ⟨new p t0, t0, [], [], []⟩
    Reach p s.cb s.now s.ids ∧
    (s.cb.st = St.halfOpen →
      (s.held.filter (fun h => h.2 == s.cb.stateID)).length ≤ p.permitted) := by
  have key : ∀ (evs : List WEv) (s : WSt), Reach p s.cb s.now s.ids → (s.held.map (·.2)).Sublist s.ids →
      Reach p (evs.foldl (wstep p) s).cb (evs.foldl (wstep p) s).now (evs.foldl (wstep p) s).ids ∧
      ((evs.foldl (wstep p) s).held.map (·.2)).Sublist (evs.foldl (wstep p) s).ids := by
    intro evs
    induction evs with
    | nil => intro s hr hs; exact ⟨hr, hs⟩
    | cons e es ih =>
      intro s hr hs
      obtain ⟨h1, h2⟩ := wstep_inv p s e hr hs
      exact ih _ h1 h2
  obtain ⟨hr, hs⟩ := key evs ⟨new p t0, t0, [], [], []⟩ (Reach.init t0 hsz) (by simp)
  refine ⟨hr, fun hh => ?_⟩
  have h1 := halfopen_admits_at_most hr hh
  have h2 := hs.count_le (evs.foldl (wstep p) ⟨new p t0, t0, [], [], []⟩).cb.stateID
  have h3 : ∀ (l : List (Nat × Nat)) (x : Nat), (l.filter (fun h => h.2 == x)).length = (l.map (·.2)).count x := by
    intro l x
    induction l with
    | nil => rfl
    | cons a r ih => by_cases ha : a.2 = x <;> simp [ha, ih]
  rw [h3]
  omega

/-- three callers racing into a HALF_OPEN breaker with one permitted trial: threads 0 and 1 open it (two
failures), after the wait thread 2 is admitted as the trial, threads 3 and 4 are short-circuited while it
runs — the hypothesis `st = halfOpen` of `concurrent_wraps_halfopen` is met with a running trial -/
example :
    let s := ([WEv.start 0, .start 1, .finish 1 true 0, .finish 0 true 0, .tick 1000000000, .start 2, .start 3,
      .start 4] : List WEv).foldl (wstep pEx) ⟨new pEx 0, 0, [], [], []⟩
    s.cb.st = St.halfOpen ∧ s.held = [(2, s.cb.stateID)] ∧ s.refused = [4, 3] := by
  decide

/-- `CircuitBreakerPolicy.CreateWrapper`, regenerated from the source on every run: which `libcb.Policy` the
wrapped breaker is created with (Extension resil, round 3) -/
theorem createWrapper_regenerated_from_source (raw : RawPolicy) (parse : String → Int × Bool) :
    Gen.FactsC08IRc.extractionFailed = false ∧ Gen.FactsC08IRc.createWrapperIR raw parse = policyOf raw parse :=
  ⟨by decide, CircuitBreaker.createWrapper_regenerated_from_source raw parse⟩

/-- nothing configured: one minute slow threshold and open wait, no half-open maximum; configured
durations are taken as parsed -/
example :
    let p := policyOf ⟨"COUNT_BASED", 50, 100, 10, 2, 5, "", "", "30s"⟩ (fun _ => (30000000000, false))
    p.slowDur = 60000000000 ∧ p.maxWaitHalf = 0 ∧ p.waitOpen = 30000000000 ∧ p.failTh = 50 ∧ p.permitted = 2 := by
  simp [policyOf]

/-! ### audit round (item 9 / P3): non-vacuity with `maxWaitHalf > 0` and with a time-based window -/

/-- `maxWaitDurationInHalfOpenState = 0.5 s` on a reachable history: two failures open the breaker, after
the open wait the trial (id 3) is admitted and the second caller refused; the trial stalls, and 0.5 s + 1 ns
later the next caller finds the half-open breaker re-opened (id 4) — `maxwait_reopens`' hypotheses are met -/
example : (run ⟨50, 100, false, 2, 1, 2, 1000000000, 500000000, 1000000000⟩
      (new ⟨50, 100, false, 2, 1, 2, 1000000000, 500000000, 1000000000⟩ 0) 0 []
      [Op.acquire, Op.acquire, Op.record 0 true 0, Op.record 1 true 0, Op.advance 1000000000, Op.acquire,
       Op.acquire, Op.advance 500000001, Op.acquire]).map (fun o => (o.permitted, o.id, o.st)) =
    [(true, 1, 1), (true, 1, 1), (false, 0, 1), (false, 0, 3), (false, 0, 3), (true, 3, 2), (false, 3, 2),
     (false, 0, 2), (false, 4, 3)] := by decide

/-- a time-based window of 2 s: the failure of second 0 is evicted when the next result arrives 2.5 s later
(the window total stays 1), two failures within the window then open the breaker — `timewin_refines` /
`opens_iff_threshold` on a reachable history -/
example : (run ⟨50, 100, true, 2, 1, 2, 1000000000, 0, 1000000000⟩
      (new ⟨50, 100, true, 2, 1, 2, 1000000000, 0, 1000000000⟩ 0) 0 []
      [Op.acquire, Op.record 0 true 0, Op.advance 2500000000, Op.acquire, Op.record 3 true 0, Op.acquire,
       Op.record 5 true 0, Op.acquire]).map (fun o => (o.permitted, o.st, o.total)) =
    [(true, 1, 0), (false, 1, 1), (false, 1, 1), (true, 1, 1), (false, 1, 1), (true, 1, 1), (false, 3, 2),
     (false, 3, 2)] := by decide

/-! ## Part 5 — the model refines the judge's reference automaton (audit item 9)

`Sim` relates a breaker state of the model to a state of the reference automaton `Ref` (the judge's spec):
same state, entry time, epoch = state id, trial count, and — this is `WinOK` — the ring-buffer window
refines the automaton's abstract window (`CountRel` / `TimeRel`, with the recorded seconds not ahead of the
clock). It holds initially, is preserved by every `Step` of a history (`sim_step`), hence on every reachable
state (`reach_sim`); it gives the window clause and the premise of `timePush_regenerated_from_source` on
`Reach`, and `model_refines_ref`: the model's trace is accepted by `specTrace`. -/

/-- the counters of a ring-buffer window are the size / failure / slow counts of the abstract window -/
def WinAgree (win : Win) (aw : AWin) : Prop :=
  win.total = aw.len ∧ win.failure = aw.cnt Res.failure ∧ win.slow = aw.cnt Res.slow

/-- window relation while CLOSED (`p.size` slots / seconds) -/
def ClosedWin (p : Policy) (win : Win) (aw : AWin) (now : Int) : Prop :=
  if p.timeBased then
    ∃ t w hi, win = Win.time t ∧ aw = AWin.time p.size w ∧ TimeRel p.size t w hi ∧ hi ≤ secIdx now
  else ∃ c w, win = Win.count c ∧ aw = AWin.count p.size w ∧ CountRel p.size c w

/-- window relation while HALF_OPEN (`p.permitted` slots; with `permitted = 0` nothing is ever recorded) -/
def HalfWin (p : Policy) (win : Win) (aw : AWin) : Prop :=
  ∃ c w, win = Win.count c ∧ aw = AWin.count p.permitted w ∧ c.total = w.length ∧
    (0 < p.permitted → CountRel p.permitted c w)

structure Sim (p : Policy) (cb : CB) (r : Ref) (now : Int) : Prop where
  st : r.st = cb.st
  since : r.since = cb.transit
  epoch : r.epoch = cb.stateID
  trials : cb.st = St.halfOpen → r.trials = cb.nHalf
  closedWin : cb.st = St.closed → ClosedWin p cb.win r.win now
  halfWin : cb.st = St.halfOpen → HalfWin p cb.win r.win

theorem secIdx_mono {a b : Int} (h : a ≤ b) : secIdx a ≤ secIdx b := by
  unfold secIdx sec; omega

theorem countRel_agree {N : Nat} {c : CountWin} {w : List Res} (h : CountRel N c w) :
    WinAgree (Win.count c) (AWin.count N w) :=
  ⟨by simp [Win.total, AWin.len, AWin.results, h.total],
   by simp [Win.failure, AWin.cnt, AWin.results, h.failure],
   by simp [Win.slow, AWin.cnt, AWin.results, h.slow]⟩

theorem timeRel_agree {N : Nat} {t : TimeWin} {w : List (Int × Res)} {hi : Int} (h : TimeRel N t w hi) :
    WinAgree (Win.time t) (AWin.time N w) :=
  ⟨by simp [Win.total, AWin.len, AWin.results, h.ring.total, tally],
   by simp [Win.failure, AWin.cnt, AWin.results, h.ring.failure, tally],
   by simp [Win.slow, AWin.cnt, AWin.results, h.ring.slow, tally]⟩

theorem closedWin_agree {p : Policy} {win : Win} {aw : AWin} {now : Int} (h : ClosedWin p win aw now) :
    WinAgree win aw := by
  unfold ClosedWin at h
  split at h
  · obtain ⟨t, w, hi, rfl, rfl, hr, _⟩ := h; exact timeRel_agree hr
  · obtain ⟨c, w, rfl, rfl, hr⟩ := h; exact countRel_agree hr

theorem closedWin_fresh (p : Policy) (hsz : 0 < p.size) (now : Int) :
    ClosedWin p (if p.timeBased then Win.time (newTimeWin p.size now) else Win.count (newCountWin p.size))
      (freshWin p) now := by
  unfold ClosedWin freshWin
  cases p.timeBased
  · simp only [Bool.false_eq_true, if_false]
    exact ⟨_, _, rfl, rfl, countRel_new p.size hsz⟩
  · simp only [if_true]
    exact ⟨_, _, _, rfl, rfl, timeRel_new p.size hsz now, le_refl _⟩

theorem closedWin_mono {p : Policy} {win : Win} {aw : AWin} {now now' : Int} (h : ClosedWin p win aw now)
    (hle : now ≤ now') : ClosedWin p win aw now' := by
  unfold ClosedWin at h ⊢
  split at h
  · obtain ⟨t, w, hi, h1, h2, hr, hh⟩ := h
    rw [if_pos ‹_›]
    exact ⟨t, w, hi, h1, h2, hr, le_trans hh (secIdx_mono hle)⟩
  · rw [if_neg ‹_›]; exact h

/-- a push keeps the CLOSED window relation, against the automaton's `AWin.push` -/
theorem closedWin_push {p : Policy} {win : Win} {aw : AWin} {now : Int} (h : ClosedWin p win aw now)
    (res : Res) (hres : res ≠ Res.unknown) : ClosedWin p (win.push now res) (aw.push now res) now := by
  unfold ClosedWin at h ⊢
  split at h
  · obtain ⟨t, w, hi, rfl, rfl, hr, hh⟩ := h
    rw [if_pos ‹_›]
    exact ⟨_, _, _, rfl, rfl, timeRel_push hr now hh res, le_refl _⟩
  · obtain ⟨c, w, rfl, rfl, hr⟩ := h
    rw [if_neg ‹_›]
    exact ⟨_, _, rfl, rfl, countRel_push hr res hres⟩

theorem halfWin_fresh (p : Policy) : HalfWin p (Win.count (newCountWin p.permitted)) (AWin.count p.permitted []) :=
  ⟨_, _, rfl, rfl, rfl, fun h => countRel_new p.permitted h⟩

theorem halfWin_push {p : Policy} {win : Win} {aw : AWin} (h : HalfWin p win aw) (hp : 0 < p.permitted)
    (now : Int) (res : Res) (hres : res ≠ Res.unknown) :
    HalfWin p (win.push now res) (aw.push now res) ∧ WinAgree (win.push now res) (aw.push now res) := by
  obtain ⟨c, w, rfl, rfl, _, hr⟩ := h
  have h' := countRel_push (hr hp) res hres
  exact ⟨⟨_, _, rfl, rfl, h'.total, fun _ => h'⟩, countRel_agree h'⟩

theorem sim_new (p : Policy) (hsz : 0 < p.size) (t0 : Int) : Sim p (new p t0) (Ref.new p t0) t0 := by
  have hne : zero.st ≠ St.closed := by simp [zero]
  have hn := transitTo_closed p zero t0 hne
  unfold new
  rw [hn]
  refine ⟨rfl, rfl, rfl, fun h => by simp at h, fun _ => closedWin_fresh p hsz t0, fun h => by simp at h⟩

theorem sim_advance {p : Policy} {cb : CB} {r : Ref} {now : Int} (s : Sim p cb r now) (d : Int) (hd : 0 ≤ d) :
    Sim p cb r (now + d) :=
  ⟨s.st, s.since, s.epoch, s.trials, fun h => closedWin_mono (s.closedWin h) (by omega), s.halfWin⟩

/-- `AcquirePermission` and the automaton's admission agree, and stay related -/
theorem sim_acquire {p : Policy} {cb : CB} {r : Ref} {now : Int} (s : Sim p cb r now)
    (live : cb.st = St.closed ∨ cb.st = St.halfOpen ∨ cb.st = St.open) :
    Sim p (acquire p cb now).1 (Ref.acquire p r now).1 now ∧
      (acquire p cb now).2.permitted = (Ref.acquire p r now).2 := by
  obtain ⟨hst, hsince, hep, htr, hcw, hhw⟩ := s
  rcases live with hc | hh | ho
  · rw [closed_permits p cb now hc]
    have : Ref.acquire p r now = (r, true) := by simp [Ref.acquire, hst, hc]
    rw [this]
    exact ⟨⟨hst, hsince, hep, htr, hcw, hhw⟩, rfl⟩
  · have htrials := htr hh
    by_cases hp : cb.nHalf < p.permitted
    · rw [(halfopen_admits_iff p cb now hh).2 hp]
      have : Ref.acquire p r now = ({ r with trials := r.trials + 1 }, true) := by
        simp [Ref.acquire, hst, hh, htrials, hp]
      rw [this]
      exact ⟨⟨hst, hsince, hep, fun _ => by simp [htrials], hcw, hhw⟩, rfl⟩
    · by_cases hmw : 0 < p.maxWaitHalf ∧ p.maxWaitHalf < now - cb.transit
      · rw [maxwait_reopens p cb now hh (by omega) hmw.1 hmw.2]
        have : Ref.acquire p r now = (r.enter p now St.open, false) := by
          have : now - r.since > p.maxWaitHalf := by rw [hsince]; exact hmw.2
          simp [Ref.acquire, hst, hh, htrials, hp, hmw.1, this]
        rw [this]
        refine ⟨⟨by simp [Ref.enter], by simp [Ref.enter], by simp [Ref.enter, hep], fun h => by simp at h,
          fun h => by simp at h, fun h => by simp at h⟩, rfl⟩
      · rw [halfopen_full_short_circuits p cb now hh (by omega) (by omega)]
        have : Ref.acquire p r now = (r, false) := by
          have : ¬ (0 < p.maxWaitHalf ∧ now - r.since > p.maxWaitHalf) := by rw [hsince]; omega
          simp [Ref.acquire, hst, hh, htrials, hp, this]
        rw [this]
        exact ⟨⟨hst, hsince, hep, htr, hcw, hhw⟩, rfl⟩
  · by_cases hw : now - cb.transit < p.waitOpen
    · rw [open_short_circuits_until_wait p cb now ho hw]
      have : Ref.acquire p r now = (r, false) := by
        have : now - r.since < p.waitOpen := by rw [hsince]; exact hw
        simp [Ref.acquire, hst, ho, this]
      rw [this]
      exact ⟨⟨hst, hsince, hep, htr, hcw, hhw⟩, rfl⟩
    · rw [open_wait_elapsed_half_opens p cb now ho (by omega)]
      have hnw : ¬ now - r.since < p.waitOpen := by rw [hsince]; exact hw
      by_cases hp : 0 < p.permitted
      · have : Ref.acquire p r now = ({ r.enter p now St.halfOpen with trials := 1 }, true) := by
          simp [Ref.acquire, hst, ho, hnw, hp]
        rw [this]
        refine ⟨⟨by simp [Ref.enter], by simp [Ref.enter], by simp [Ref.enter, hep], fun _ => by simp [hp],
          fun h => by simp at h, fun _ => ?_⟩, by simp [hp]⟩
        simpa [Ref.enter] using halfWin_fresh p
      · have : Ref.acquire p r now = (r.enter p now St.halfOpen, false) := by
          simp [Ref.acquire, hst, ho, hnw, hp]
        rw [this]
        refine ⟨⟨by simp [Ref.enter], by simp [Ref.enter], by simp [Ref.enter, hep],
          fun _ => by simp [Ref.enter, hp], fun h => by simp at h, fun _ => ?_⟩, by simp [hp]⟩
        simpa [Ref.enter] using halfWin_fresh p

theorem thresholdReached_iff {p : Policy} {win : Win} {aw : AWin} (h : WinAgree win aw) :
    thresholdReached p aw = true ↔
      (p.failTh * win.total ≤ 100 * win.failure ∨ p.slowTh * win.total ≤ 100 * win.slow) := by
  obtain ⟨h1, h2, h3⟩ := h
  simp only [thresholdReached, Bool.or_eq_true, decide_eq_true_eq, ge_iff_le, h1, h2, h3]

/-- `RecordResult` and the automaton's completion agree, and stay related. A result carrying the current
id arrives only while CLOSED or HALF_OPEN with `permitted > 0` (on a history: `Inv.open_none`, `Inv.half_cnt`). -/
theorem sim_record {p : Policy} {cb : CB} {r : Ref} {now : Int} (s : Sim p cb r now) (hsz : 0 < p.size)
    (id : Nat) (e : Bool) (d : Int)
    (hcur : id = cb.stateID → cb.st = St.closed ∨ (cb.st = St.halfOpen ∧ 0 < p.permitted)) :
    Sim p (record p cb id e d now) (Ref.record p r id (classify p e d) now) now := by
  obtain ⟨hst, hsince, hep, htr, hcw, hhw⟩ := s
  by_cases hid : id = cb.stateID
  · subst hid
    have hres := classify_known p e d
    rcases hcur rfl with hc | ⟨hh, hp⟩
    · -- CLOSED
      have hcw' := closedWin_push (hcw hc) (classify p e d) hres
      have hag := closedWin_agree hcw'
      have hth := thresholdReached_iff (p := p) hag
      have hver := opens_iff_threshold p cb e d now hc
      dsimp only at hver
      have hne : ¬ (r.st = St.halfOpen) := by rw [hst, hc]; simp
      by_cases hreached : p.minCalls ≤ (cb.win.push now (classify p e d)).total ∧
          (p.failTh * (cb.win.push now (classify p e d)).total ≤ 100 * (cb.win.push now (classify p e d)).failure ∨
           p.slowTh * (cb.win.push now (classify p e d)).total ≤ 100 * (cb.win.push now (classify p e d)).slow)
      · rw [hver.1 hreached]
        have hlen : ¬ (r.win.push now (classify p e d)).len < p.minCalls := by rw [← hag.1]; omega
        have : Ref.record p r cb.stateID (classify p e d) now =
            Ref.enter p { r with win := r.win.push now (classify p e d) } now St.open := by
          simp [Ref.record, hep, hne, hlen, hth.mpr hreached.2]
        rw [this]
        exact ⟨by simp [Ref.enter], by simp [Ref.enter], by simp [Ref.enter, hep], fun h => by simp at h,
          fun h => by simp at h, fun h => by simp at h⟩
      · rw [hver.2 hreached]
        have : Ref.record p r cb.stateID (classify p e d) now = { r with win := r.win.push now (classify p e d) } := by
          by_cases hlen : (r.win.push now (classify p e d)).len < p.minCalls
          · simp [Ref.record, hep, hne, hlen]
          · have hnt : thresholdReached p (r.win.push now (classify p e d)) = false := by
              cases hb : thresholdReached p (r.win.push now (classify p e d)) with
              | false => rfl
              | true => exact absurd ⟨by rw [hag.1]; omega, hth.mp hb⟩ hreached
            simp [Ref.record, hep, hne, hlen, hnt]
        rw [this]
        exact ⟨hst, hsince, hep, (fun h => by simp [hc] at h), (fun _ => hcw'), (fun h => by simp [hc] at h)⟩
    · -- HALF_OPEN, permitted > 0
      obtain ⟨hhw', hag⟩ := halfWin_push (hhw hh) hp now (classify p e d) hres
      have hth := thresholdReached_iff (p := p) hag
      have hver := halfopen_verdict p cb e d now hh
      dsimp only at hver
      have hrh : r.st = St.halfOpen := by rw [hst, hh]
      by_cases hlt : (cb.win.push now (classify p e d)).total < min p.minCalls p.permitted
      · rw [hver.1 hlt]
        have hlen : (r.win.push now (classify p e d)).len < min p.minCalls p.permitted := by rw [← hag.1]; exact hlt
        have : Ref.record p r cb.stateID (classify p e d) now = { r with win := r.win.push now (classify p e d) } := by
          simp [Ref.record, hep, hrh, hlen]
        rw [this]
        exact ⟨hst, hsince, hep, htr, (fun h => by simp [hh] at h), (fun _ => hhw')⟩
      · have hge : min p.minCalls p.permitted ≤ (cb.win.push now (classify p e d)).total := by omega
        have hlen : ¬ (r.win.push now (classify p e d)).len < min p.minCalls p.permitted := by rw [← hag.1]; omega
        by_cases hbad : p.failTh * (cb.win.push now (classify p e d)).total ≤ 100 * (cb.win.push now (classify p e d)).failure ∨
            p.slowTh * (cb.win.push now (classify p e d)).total ≤ 100 * (cb.win.push now (classify p e d)).slow
        · rw [hver.2.1 hge hbad]
          have : Ref.record p r cb.stateID (classify p e d) now =
              Ref.enter p { r with win := r.win.push now (classify p e d) } now St.open := by
            simp [Ref.record, hep, hrh, hlen, hth.mpr hbad]
          rw [this]
          exact ⟨by simp [Ref.enter], by simp [Ref.enter], by simp [Ref.enter, hep], fun h => by simp at h,
            fun h => by simp at h, fun h => by simp at h⟩
        · rw [hver.2.2 hge hbad]
          have hnt : thresholdReached p (r.win.push now (classify p e d)) = false := by
            cases hb : thresholdReached p (r.win.push now (classify p e d)) with
            | false => rfl
            | true => exact absurd (hth.mp hb) hbad
          have : Ref.record p r cb.stateID (classify p e d) now =
              Ref.enter p { r with win := r.win.push now (classify p e d) } now St.closed := by
            simp [Ref.record, hep, hrh, hlen, hnt]
          rw [this]
          refine ⟨by simp [Ref.enter], by simp [Ref.enter], by simp [Ref.enter, hep], fun h => by simp at h,
            fun _ => ?_, fun h => by simp at h⟩
          simpa [Ref.enter] using closedWin_fresh p hsz now
  · rw [stale_result_ignored p cb id e d now hid]
    have : Ref.record p r id (classify p e d) now = r := by
      have : id ≠ r.epoch := by rw [hep]; exact hid
      simp [Ref.record, this]
    rw [this]
    exact ⟨hst, hsince, hep, htr, hcw, hhw⟩

/-- on a history a result with the current id only arrives while CLOSED, or HALF_OPEN with a trial slot -/
theorem current_id_live {p : Policy} {cb : CB} {now : Int} {ids : List Nat} (inv : Inv p cb now ids)
    {id : Nat} (hid : id ∈ ids) (hcur : id = cb.stateID) :
    cb.st = St.closed ∨ (cb.st = St.halfOpen ∧ 0 < p.permitted) := by
  subst hcur
  have hpos : 0 < ids.count cb.stateID := List.count_pos_iff.mpr hid
  rcases inv.live with hc | hh | ho
  · exact Or.inl hc
  · have := inv.half_cnt hh
    exact Or.inr ⟨hh, by omega⟩
  · have := inv.open_none ho
    omega

/-- **`Sim` is preserved by every step of a history** -/
theorem sim_step {p : Policy} (hsz : 0 < p.size) {cb now ids cb' now' ids'} (inv : Inv p cb now ids) {r : Ref}
    (s : Sim p cb r now) (st : Step p cb now ids cb' now' ids') : ∃ r', Sim p cb' r' now' := by
  cases st with
  | acquire => exact ⟨_, (sim_acquire s inv.live).1⟩
  | record id e d hid => exact ⟨_, sim_record s hsz id e d (current_id_live inv hid)⟩
  | advance d hd => exact ⟨r, sim_advance s d hd⟩

/-- **`WinOK` on every reachable state**: some state of the reference automaton is `Sim`-related to it -/
theorem reach_sim {p : Policy} {cb now ids} (h : Reach p cb now ids) : ∃ r, Sim p cb r now ∧ 0 < p.size := by
  induction h with
  | init t0 hsz => exact ⟨_, sim_new p hsz t0, hsz⟩
  | step hr st ih =>
    obtain ⟨r, s, hsz⟩ := ih
    obtain ⟨r', s'⟩ := sim_step hsz (reach_inv hr) s st
    exact ⟨r', s', hsz⟩

/-- **The window clause on every reachable state.** While CLOSED the ring buffer *is* "the last `size`
results" (count based: `CountRel`) resp. "the results of the last `size` seconds" (time based: `TimeRel`,
the recorded seconds not ahead of the clock) recorded since the state was entered — so `opens_iff_threshold`
speaks about that abstract window; while HALF_OPEN it is the trials' results (`permitted` slots). -/
theorem reach_window {p : Policy} {cb now ids} (h : Reach p cb now ids) :
    (cb.st = St.closed → p.timeBased = false → ∃ c w, cb.win = Win.count c ∧ CountRel p.size c w) ∧
    (cb.st = St.closed → p.timeBased = true →
      ∃ t w hi, cb.win = Win.time t ∧ TimeRel p.size t w hi ∧ hi ≤ secIdx now ∧ t.beginAt ≤ now ∧
        (t.evict now).beginAt ≤ now) ∧
    (cb.st = St.halfOpen → 0 < p.permitted → ∃ c w, cb.win = Win.count c ∧ CountRel p.permitted c w) := by
  obtain ⟨r, s, _⟩ := reach_sim h
  refine ⟨fun hc htb => ?_, fun hc htb => ?_, fun hh hp => ?_⟩
  · have := s.closedWin hc
    simp only [ClosedWin, htb, Bool.false_eq_true, if_false] at this
    obtain ⟨c, w, h1, _, h3⟩ := this
    exact ⟨c, w, h1, h3⟩
  · have := s.closedWin hc
    simp only [ClosedWin, htb, if_true] at this
    obtain ⟨t, w, hi, h1, _, h3, h4⟩ := this
    have hb : ∀ (t' : TimeWin) (w' : List (Int × Res)) (hi' : Int), TimeRel p.size t' w' hi' → hi' ≤ secIdx now →
        t'.beginAt ≤ now := by
      intro t' w' hi' hr hle
      have h5 := hr.aligned
      have h6 := hr.begin_le
      unfold secIdx sec at hle
      unfold sec at h5 h6
      omega
    exact ⟨t, w, hi, h1, h3, h4, hb t w hi h3 h4, hb _ _ _ (timeRel_evict h3 now h4) (le_refl _)⟩
  · obtain ⟨c, w, h1, _, _, h4⟩ := s.halfWin hh
    exact ⟨c, w, h1, h4 hp⟩

/-- the premise of `timePush_regenerated_from_source` is discharged on every reachable state: the
regenerated `TimeBasedWindow.Push` is the model's `push` there -/
theorem timePush_regenerated_on_reach {p : Policy} {cb now ids} (h : Reach p cb now ids)
    (hc : cb.st = St.closed) (htb : p.timeBased = true) (res : Res) :
    ∃ t, cb.win = Win.time t ∧ Gen.FactsC08IR.timePushIR t now res = t.push now res := by
  obtain ⟨t, _, _, h1, _, _, _, h5⟩ := (reach_window h).2.1 hc htb
  exact ⟨t, h1, CircuitBreaker.timePush_regenerated_from_source t now res h5⟩

/-- what the harness observes of a `Sim`-related pair is what the automaton exposes -/
theorem sim_obs {p : Policy} {cb : CB} {r : Ref} {now : Int} (s : Sim p cb r now)
    (live : cb.st = St.closed ∨ cb.st = St.halfOpen ∨ cb.st = St.open) :
    cb.st.toNat = r.st.toNat ∧ (r.st.toNat == St.open.toNat || cb.win.total == r.win.len) = true := by
  refine ⟨by rw [s.st], ?_⟩
  rcases live with hc | hh | ho
  · have := (closedWin_agree (s.closedWin hc)).1
    simp [this]
  · obtain ⟨c, w, h1, h2, h3, _⟩ := s.halfWin hh
    simp [h1, h2, Win.total, AWin.len, AWin.results, h3]
  · simp [s.st, ho]

theorem mem_of_getD_some {α : Type} (l : List (Option α)) (i : Nat) (a : α) (h : l.getD i none = some a) :
    some a ∈ l := by
  rw [List.getD_eq_getElem?_getD] at h
  cases hg : l[i]? with
  | none => simp [hg] at h
  | some x =>
    simp only [hg, Option.getD_some] at h
    subst h
    exact List.mem_of_getElem? hg

/-- the model's trace never diverges from the automaton's, from any related pair of states -/
theorem run_refines (p : Policy) (hsz : 0 < p.size) : ∀ (ops : List Op) (cb : CB) (r : Ref) (now : Int)
    (log : Log) (ids : List Nat) (i : Nat), Reach p cb now ids → Sim p cb r now →
    (∀ id, some id ∈ log ↔ id ∈ ids) → (∀ d, Op.advance d ∈ ops → 0 ≤ d) →
    firstDivergence (run p cb now log ops) (Ref.run p r now log ops) i = none
  | [], _, _, _, _, _, _, _, _, _, _ => by simp [run, Ref.run, firstDivergence]
  | op :: rest, cb, r, now, log, ids, i, hr, s, hlog, hadv => by
    have inv := reach_inv hr
    have hadv' : ∀ d, Op.advance d ∈ rest → 0 ≤ d := fun d hd => hadv d (List.mem_cons_of_mem _ hd)
    cases op with
    | acquire =>
      obtain ⟨s', hperm⟩ := sim_acquire (now := now) s inv.live
      have hr' := Reach.step hr (Step.acquire cb now ids)
      have live' := (reach_inv hr').live
      obtain ⟨o1, o2⟩ := sim_obs s' live'
      have hidspec : (acquire p cb now).2.id = (acquire p cb now).1.stateID := (acquire_id_spec p cb now).2
      have hlogeq : (if (acquire p cb now).2.permitted then some (acquire p cb now).2.id else none) =
          (if (Ref.acquire p r now).2 then some (Ref.acquire p r now).1.epoch else none) := by
        rw [hperm, hidspec, s'.epoch]
      have hlog' : ∀ id, some id ∈ log ++ [if (acquire p cb now).2.permitted then some (acquire p cb now).2.id else none] ↔
          id ∈ (if (acquire p cb now).2.permitted then (acquire p cb now).2.id :: ids else ids) := by
        intro id
        by_cases hp : (acquire p cb now).2.permitted = true
        · simp only [hp, if_true, List.mem_append, Option.some.injEq, List.mem_cons, hlog id]
          tauto
        · simp only [hp, Bool.false_eq_true, if_false, List.mem_append, List.mem_singleton, reduceCtorEq, or_false, hlog id]
      have ih := run_refines p hsz rest _ _ now _ _ (i + 1) hr' s' hlog' hadv'
      simp only [run, step, Ref.run, Ref.step, firstDivergence, hperm, bne_self_eq_false, Bool.false_eq_true, if_false,
        o1, o2, Bool.not_true]
      rw [← hlogeq, hperm]
      rw [hperm] at ih
      exact ih
    | record ref e d =>
      cases hg : log.getD ref none with
      | none =>
        obtain ⟨o1, o2⟩ := sim_obs s inv.live
        have hlog' : ∀ id, some id ∈ log ++ [none] ↔ id ∈ ids := by
          intro id; simp [hlog id]
        have ih := run_refines p hsz rest cb r now _ ids (i + 1) hr s hlog' hadv'
        simp only [run, step, Ref.run, Ref.step, hg, firstDivergence, bne_self_eq_false, Bool.false_eq_true, if_false,
          o1, o2, Bool.not_true]
        exact ih
      | some id =>
        have hid : id ∈ ids := (hlog id).mp (mem_of_getD_some log ref id hg)
        have s' := sim_record s hsz id e d (current_id_live inv hid)
        have hr' := Reach.step hr (Step.record cb now ids id e d hid)
        obtain ⟨o1, o2⟩ := sim_obs s' (reach_inv hr').live
        have hlog' : ∀ id, some id ∈ log ++ [none] ↔ id ∈ ids := by
          intro id; simp [hlog id]
        have ih := run_refines p hsz rest _ _ now _ ids (i + 1) hr' s' hlog' hadv'
        simp only [run, step, Ref.run, Ref.step, hg, firstDivergence, bne_self_eq_false, Bool.false_eq_true, if_false,
          o1, o2, Bool.not_true]
        exact ih
    | advance d =>
      have hd := hadv d List.mem_cons_self
      obtain ⟨o1, o2⟩ := sim_obs s inv.live
      have hr' := Reach.step hr (Step.advance cb now ids d hd)
      have hlog' : ∀ id, some id ∈ log ++ [none] ↔ id ∈ ids := by
        intro id; simp [hlog id]
      have ih := run_refines p hsz rest cb r (now + d) _ ids (i + 1) hr' (sim_advance s d hd) hlog' hadv'
      simp only [run, step, Ref.run, Ref.step, firstDivergence, bne_self_eq_false, Bool.false_eq_true, if_false,
        o1, o2, Bool.not_true]
      exact ih

/-- **The judge's specification accepts the model** (`spec_accepts_model` for C08): for every policy with a
non-empty window, every start instant and every history of admissions, completions (of any earlier admitted
call, however late, also repeated) and non-negative clock advances, the trace of the model is the trace of
the reference automaton `Ref` — `specTrace` holds. The property text (as formalised by `Ref`: last-N /
last-N-seconds windows, exact rate comparison, epochs) is thereby connected to the model that is tied to
the code. -/
theorem model_refines_ref (p : Policy) (hsz : 0 < p.size) (t0 : Int) (ops : List Op)
    (hadv : ∀ d, Op.advance d ∈ ops → 0 ≤ d) :
    specTrace p t0 ops (run p (new p t0) t0 [] ops) = true := by
  unfold specTrace
  rw [run_refines p hsz ops (new p t0) (Ref.new p t0) t0 [] [] 0 (Reach.init t0 hsz) (sim_new p hsz t0)
    (by intro id; simp) hadv]
  rfl

/-- the hypotheses are met by the example history of Part 4 (threshold hit exactly, wait, trial, close) -/
example : specTrace pEx 0
    [Op.acquire, Op.acquire, Op.record 0 false 0, Op.record 1 true 0, Op.acquire, Op.advance 999999999,
     Op.acquire, Op.advance 1, Op.acquire, Op.acquire, Op.record 8 false 0, Op.acquire]
    (run pEx (new pEx 0) 0 []
      [Op.acquire, Op.acquire, Op.record 0 false 0, Op.record 1 true 0, Op.acquire, Op.advance 999999999,
       Op.acquire, Op.advance 1, Op.acquire, Op.acquire, Op.record 8 false 0, Op.acquire]) = true :=
  model_refines_ref pEx (by decide) 0 _ (by
    intro d hd
    simp only [List.mem_cons, Op.advance.injEq, reduceCtorEq, false_or, List.mem_nil_iff, or_false] at hd
    omega)

/-! ## Part 6 (round 7): the `wrap` and `proxy` judges accept the model -/

theorem bne_ok_eq (o : Outcome) : (o != Outcome.ok) = decide (o ≠ Outcome.ok) := by cases o <;> rfl

/-- one call through the wrapper on the model, spelled out (from `wrap_records_once`) -/
theorem wrapCall_eq (p : Policy) (cb : CB) (now : Int) (o : Outcome) :
    ((acquire p cb now).2.permitted = false →
      wrapCall p cb now o = ((acquire p cb now).1, [Ev.acquire], WrapRet.shortCircuited)) ∧
    ((acquire p cb now).2.permitted = true →
      wrapCall p cb now o =
        (record p (acquire p cb now).1 (acquire p cb now).2.id (decide (o ≠ Outcome.ok)) 0 now,
          [Ev.acquire, Ev.handler, Ev.record (decide (o ≠ Outcome.ok))], (wrap true o).2)) := by
  refine ⟨fun h => ?_, fun h => ?_⟩
  · have hw := (wrap_records_once false o).2.1 rfl
    simp only [wrapCall, h, hw, List.foldl_cons, List.foldl_nil]
  · have hw := ((wrap_records_once true o).2.2 rfl).1
    simp only [wrapCall, h, hw, List.foldl_cons, List.foldl_nil]

/-- **one wrapped call keeps the model and the reference automaton related**, on every reachable state: they
agree on the admission, and the model's state after the call (acquire + the one record of an admitted call) is
`Sim`-related to the automaton's and again reachable -/
theorem wrapCall_sim {p : Policy} (hsz : 0 < p.size) {cb : CB} {now : Int} {ids : List Nat} {r : Ref}
    (hr : Reach p cb now ids) (s : Sim p cb r now) (o : Outcome) :
    (∃ ids', Reach p (wrapCall p cb now o).1 now ids') ∧
    Sim p (wrapCall p cb now o).1 (Ref.wrapCall p r now o).1 now ∧
    (acquire p cb now).2.permitted = (Ref.wrapCall p r now o).2 := by
  have inv := reach_inv hr
  obtain ⟨s', hperm⟩ := sim_acquire (now := now) s inv.live
  have hr' := Reach.step hr (Step.acquire cb now ids)
  have hra : (Ref.wrapCall p r now o).2 = (Ref.acquire p r now).2 := rfl
  cases hp : (acquire p cb now).2.permitted with
  | false =>
    rw [((wrapCall_eq p cb now o).1 hp)]
    have h2 : (Ref.acquire p r now).2 = false := by rw [← hperm, hp]
    refine ⟨⟨_, hr'⟩, ?_, by rw [hra, h2]⟩
    simpa [Ref.wrapCall, h2] using s'
  | true =>
    rw [((wrapCall_eq p cb now o).2 hp)]
    have h2 : (Ref.acquire p r now).2 = true := by rw [← hperm, hp]
    simp only [hp, if_true] at hr'
    have hid : (acquire p cb now).2.id ∈ (acquire p cb now).2.id :: ids := List.mem_cons_self ..
    have hrec := Reach.step hr' (Step.record _ now _ (acquire p cb now).2.id (decide (o ≠ Outcome.ok)) 0 hid)
    have hsim := sim_record s' hsz (acquire p cb now).2.id (decide (o ≠ Outcome.ok)) 0
      (current_id_live (reach_inv hr') hid)
    have hep : (Ref.acquire p r now).1.epoch = (acquire p cb now).2.id := by
      rw [s'.epoch, (acquire_id_spec p cb now).2]
    refine ⟨⟨_, hrec⟩, ?_, by rw [hra, h2]⟩
    simpa [Ref.wrapCall, h2, hep, bne_ok_eq] using hsim

/-- **the `wrap` judge's specification accepts the model**: for every policy with a non-empty window and every
sequence of wrapped calls (handler returns nil / an error / panics), what the model predicts per call — returned
class, whether the handler ran, `State()` afterwards — is what the reference automaton prescribes
(`spec := got = wantR`, `agree := got = want` in the judge: the two sides are equal). -/
theorem wrap_spec_accepts_model (p : Policy) (hsz : 0 < p.size) : ∀ (cs : List Int) (cb : CB) (r : Ref)
    (ids : List Nat), Reach p cb 0 ids → Sim p cb r 0 → wrapRunModel p cb cs = wrapRunRef p r cs
  | [], _, _, _, _, _ => rfl
  | c :: rest, cb, r, ids, hr, s => by
    obtain ⟨⟨ids', hr'⟩, s', hperm⟩ := wrapCall_sim hsz hr s (wrapOutcome c)
    simp only [wrapRunModel, wrapRunRef]
    rw [wrap_spec_accepts_model p hsz rest _ _ ids' hr' s']
    congr 1
    have hst : (wrapCall p cb 0 (wrapOutcome c)).1.st.toNat = (Ref.wrapCall p r 0 (wrapOutcome c)).1.st.toNat := by
      rw [s'.st]
    cases hp : (acquire p cb 0).2.permitted with
    | false =>
      have h2 : (Ref.wrapCall p r 0 (wrapOutcome c)).2 = false := by rw [← hperm, hp]
      rw [← hst, h2, ((wrapCall_eq p cb 0 (wrapOutcome c)).1 hp)]
      rfl
    | true =>
      have h2 : (Ref.wrapCall p r 0 (wrapOutcome c)).2 = true := by rw [← hperm, hp]
      rw [← hst, h2, ((wrapCall_eq p cb 0 (wrapOutcome c)).2 hp)]
      cases wrapOutcome c <;> rfl

/-- … from `New(policy)` at the harness' instant 0 -/
theorem wrap_judge_accepts_model (p : Policy) (hsz : 0 < p.size) (cs : List Int) :
    wrapRunModel p (new p 0) cs = wrapRunRef p (Ref.new p 0) cs :=
  wrap_spec_accepts_model p hsz cs _ _ [] (Reach.init 0 hsz) (sim_new p hsz 0)

/-- one entry of the `proxy` judge's model: the request is reported `shortCircuited` exactly when the breaker
refuses it, and then with status 503 and without a backend call -/
theorem proxy_entry (p : Policy) (cb : CB) (c : Int) (rest : List Int) :
    ∃ e, proxyRun p cb (c :: rest) = e :: proxyRun p (wrapCall p cb 0 (if c == 1 || c == 2 then .err else .ok)).1 rest ∧
      (e.1 = "shortCircuited" ↔ (acquire p cb 0).2.permitted = false) ∧
      (e.1 = "shortCircuited" → e.2.1 = 503 ∧ e.2.2 = 0) ∧
      ((acquire p cb 0).2.permitted = true → e.2.2 = 1) := by
  refine ⟨_, rfl, ?_⟩
  cases hp : (acquire p cb 0).2.permitted with
  | false =>
    simp only [((wrapCall_eq p cb 0 _).1 hp)]
    simp [poolOutcome]
  | true =>
    simp only [((wrapCall_eq p cb 0 _).2 hp)]
    by_cases h2 : c = 2
    · subst h2; simp [wrap, poolOutcome]
    · by_cases h1 : c = 1
      · subst h1; simp [wrap, poolOutcome]
      · simp [h1, h2, wrap, poolOutcome]

/-- **the `proxy` judge's property accepts the model**: on every breaker state and every request sequence the
model's own prediction satisfies `proxyShortOK` (a short-circuited request is a 503 without a backend call) -/
theorem proxy_spec_accepts_model (p : Policy) : ∀ (cs : List Int) (cb : CB), proxyShortOK (proxyRun p cb cs) = true
  | [], _ => rfl
  | c :: rest, cb => by
    obtain ⟨e, he, _, h503, _⟩ := proxy_entry p cb c rest
    have ih := proxy_spec_accepts_model p rest (wrapCall p cb 0 (if c == 1 || c == 2 then .err else .ok)).1
    rw [he]
    unfold proxyShortOK at ih ⊢
    rw [List.all_cons, ih, Bool.and_true]
    by_cases hs : e.1 = "shortCircuited"
    · obtain ⟨h1, h2⟩ := h503 hs
      simp [h1, h2]
    · simp [hs]

/-- the property is not vacuous: a 503 `shortCircuited` entry with a backend call is refused; and with `pEx`
(threshold reached after two failures) the third request is short-circuited -/
example : proxyShortOK [("shortCircuited", 503, 1)] = false ∧
    (proxyRun pEx (new pEx 0) [1, 1, 0, 0, 0]).map (·.1) =
      ["serverError", "serverError", "shortCircuited", "shortCircuited", "shortCircuited"] := by
  refine ⟨by decide, by decide⟩

end EgVerif.C08
