import EgVerif.Proofs.Topic
import EgVerif.Gen.FactsC14
import EgVerif.Proofs.TopicIR
import EgVerif.Proofs.TopicRemoveIR
import EgVerif.Proofs.TopicJudge
/-!
# C14 — MQTT topic routing equals MQTT 3.1.1 filter matching over any subscribe history

Property theorems about `Model/Topic.lean` (a mirror of `pkg/object/mqttproxy/topic.go` and of the
subscribe / unsubscribe / disconnect paths of `client.go`), for **every** trie, **every** topic and
**every** finite history of operations (no bound on sizes). Helper lemmas: `Proofs/Topic.lean`.

The model mirrors the *repaired* `TopicManager.subscribe / unsubscribe` (`fixes/C14-subscribe-validate-first`):
on the unrepaired code a SUBSCRIBE `[good, malformed]` leaves `good` in the trie but not in the session, so a
later disconnect does not remove it (witness at the end of this file).
-/
namespace EgVerif.C14
open EgVerif.Topic

/-! ### splitTopic: malformed filters are rejected, well-formed ones are split at every '/' -/

/-- `splitTopic` accepts exactly the strings in which a wildcard occupies a whole level and `#` is last. -/
theorem split_ok_iff_wellFormed (s : List Char) : (split s).isSome = true ↔ wellFormed s = true := by
  rw [split_isSome]

/-- …and then returns the levels between the '/' separators. -/
theorem split_levels (s : List Char) (ls : List Level) (h : split s = some ls) : ls = splitSlash s :=
  (split_some h).2

example : split "a/+/#".toList = some ["a".toList, plus, hash] := by decide
example : split "".toList = some [[]] := by decide
example : split "a//b".toList = some ["a".toList, [], "b".toList] := by decide
example : split "a/#/b".toList = none := by decide
example : split "a+/b".toList = none := by decide
example : split "a/b#".toList = none := by decide

/-! ### findSubscribers = the specification's matching, for every well-formed trie -/

theorem mem_specFind (s : Subs) (topic : List Level) (x : Client × QoS) :
    x ∈ specFind s topic ↔ ∃ f, (f, x.1, x.2) ∈ s ∧ «matches» f topic = true :=
  Topic.mem_specFind s topic x

/-- **Routing = matching.** If the trie obeys the map discipline (`WF`) and stores exactly the live
subscriptions `s` (`R`), then for every topic the hits of `findSubscribers` are exactly the
`(client, qos)` pairs of the live subscriptions whose filter matches the topic under MQTT 3.1.1. -/
theorem find_eq_spec {t : Trie} {s : Subs} (wf : WF t) (u : Uniq s) (r : R t s) (topic : List Level)
    (x : Client × QoS) : x ∈ find t topic ↔ x ∈ specFind s topic :=
  Topic.find_eq_spec wf u r topic x

/-! ### every history refines the abstract subscription set -/

/-- **Refinement over all histories.** After any finite sequence of SUBSCRIBE (several filters, any
QoS, malformed ones included), UNSUBSCRIBE (also of filters never subscribed, malformed ones) and
disconnect events by any clients, the trie stores exactly the abstract live-subscription set
(`Inv.r`), keeps unique keys and has **no empty non-root node** (`Inv.wf`), the sessions cover the
live subscriptions (`Inv.j`) and the abstract set is a map (`Inv.uniq`). -/
theorem history_refines (ops : List Op) : Inv (run State.init ops) (specRun [] ops) :=
  Topic.history_refines ops

/-- **C14 main statement**: after any history, a message on any topic is routed to exactly the
`(client, qos)` pairs of the live subscriptions whose filter matches it. -/
theorem routing_after_any_history (ops : List Op) (topic : List Level) (x : Client × QoS) :
    x ∈ find (run State.init ops).trie topic ↔ x ∈ specFind (specRun [] ops) topic :=
  Topic.routing_after_any_history ops topic x

/-- The QoS reported for a routed client is the QoS of one of that client's own live matching
subscriptions — for every hit, hence for whichever hit the Go map keeps; with the repaired
`addClients` (`collapseMax`) it is the highest of them. -/
theorem qos_is_own (ops : List Op) (topic : List Level) (c : Client) (q : QoS)
    (h : (c, q) ∈ find (run State.init ops).trie topic) :
    ∃ f, (f, c, q) ∈ specRun [] ops ∧ «matches» f topic = true :=
  Topic.qos_is_own ops topic c q h

theorem qos_is_own_max (ops : List Op) (topic : List Level) (c : Client) (q : QoS)
    (h : (c, q) ∈ collapseMax (find (run State.init ops).trie topic)) :
    (∃ f, (f, c, q) ∈ specRun [] ops ∧ «matches» f topic = true) ∧
    ∀ f q', (f, c, q') ∈ specRun [] ops → «matches» f topic = true → q' ≤ q :=
  Topic.qos_is_own_max ops topic c q h

/-- the collapsed map has one entry per routed client and loses no client -/
theorem collapse_same_clients (l : List (Client × QoS)) (c : Client) :
    (∃ q, (c, q) ∈ collapseMax l) ↔ ∃ q, (c, q) ∈ l := by
  constructor
  · rintro ⟨q, h⟩; exact ⟨q, (ownMax_some (mem_collapseMax.mp h)).1⟩
  · rintro ⟨q, h⟩
    obtain ⟨q', h'⟩ := ownMax_isSome_of_mem h
    exact ⟨q', mem_collapseMax.mpr h'⟩

/-! ### no residue -/

theorem live_witness {n : Trie} (h : Live n) : WF n → ∃ g c q, (c, q) ∈ clientsAt n g := by
  induction h with
  | @here cl ch hne =>
    intro _
    obtain ⟨p, hp⟩ := List.exists_mem_of_ne_nil cl hne
    exact ⟨[], p.1, p.2, by simpa [clientsAt, Trie.clients] using hp⟩
  | @under cl ch l n hm _ ih =>
    intro wf
    obtain ⟨g, c, q, hx⟩ := ih (wf.child (l := l) hm)
    refine ⟨l :: g, c, q, ?_⟩
    have : alGet l ch = some n := mem_alGet wf.children_nodup hm
    simpa [clientsAt, Trie.children, this] using hx

theorem subAt_wf_live (p : List Level) : ∀ (t : Trie) (l : Level) (n : Trie), WF t →
    subAt t (l :: p) = some n → WF n ∧ Live n ∧ ∀ g, clientsAt t ((l :: p) ++ g) = clientsAt n g := by
  induction p with
  | nil =>
    intro t l n wf h
    simp only [subAt] at h
    cases hg : alGet l t.children with
    | none => simp [hg] at h
    | some m =>
      simp only [hg, Option.some.injEq] at h; subst h
      exact ⟨wf.child (alGet_mem hg), wf.child_live (alGet_mem hg), fun g => by simp [clientsAt, hg]⟩
  | cons l' p' ih =>
    intro t l n wf h
    simp only [subAt] at h
    cases hg : alGet l t.children with
    | none => simp [hg] at h
    | some m =>
      simp only [hg] at h
      obtain ⟨h1, h2, h3⟩ := ih m l' n (wf.child (alGet_mem hg)) (by simpa [subAt] using h)
      refine ⟨h1, h2, fun g => ?_⟩
      rw [← h3 g]
      simp [clientsAt, hg]

/-- **No residue.** After any history, every node that still exists in the trie below the root lies
on the path of some *live* subscription: once the last subscriber at or below a filter prefix is
gone, the nodes of that prefix are gone as well (pruning leaves nothing behind). -/
theorem no_residue (ops : List Op) (l : Level) (p : List Level) (n : Trie)
    (h : subAt (run State.init ops).trie (l :: p) = some n) :
    ∃ g c q, ((l :: p) ++ g, c, q) ∈ specRun [] ops := by
  have inv := history_refines ops
  obtain ⟨wfn, lv, hc⟩ := subAt_wf_live p _ l n inv.wf h
  obtain ⟨g, c, q, hx⟩ := live_witness lv wfn
  refine ⟨g, c, q, ?_⟩
  rw [← hc g] at hx
  rw [mem_iff_get inv.uniq, ← inv.r]
  exact (mem_iff_alGet (clientsAt_nodup _ _ inv.wf)).mp hx

/-- …in particular, when no live subscription is left the trie is the empty root again. -/
theorem empty_when_no_subscription (ops : List Op) (h : specRun [] ops = []) :
    (run State.init ops).trie = Trie.empty := by
  have inv := history_refines ops
  have r := inv.r; have wf := inv.wf
  rw [h] at r
  generalize (run State.init ops).trie = t at r wf ⊢
  cases t with
  | node cl ch =>
    have hcl : cl = [] := by
      cases cl with
      | nil => rfl
      | cons x xs =>
        have := r [] x.1
        simp [clientsAt, Trie.clients, alGet, Subs.get] at this
    have hch : ch = [] := by
      cases ch with
      | nil => rfl
      | cons x xs =>
        exfalso
        have hm : (x.1, x.2) ∈ (Trie.node cl (x :: xs)).children := by simp [Trie.children]
        obtain ⟨g, c, q, hx⟩ := live_witness (wf.child_live hm) (wf.child hm)
        have hg : alGet x.1 (x :: xs) = some x.2 := mem_alGet wf.children_nodup hm
        have : (c, q) ∈ clientsAt (Trie.node cl (x :: xs)) (x.1 :: g) := by
          simpa [clientsAt, Trie.children, hg] using hx
        have := (mem_iff_alGet (clientsAt_nodup _ _ wf)).mp this
        rw [r] at this
        simp [Subs.get] at this
    rw [hcl, hch]; rfl

/-! ### unsubscribing what was never subscribed; malformed filters -/

theorem alErase_noop {κ β : Type} [DecidableEq κ] (k : κ) (l : List (κ × β)) (h : alGet k l = none) :
    alErase k l = l := by
  unfold alErase
  rw [List.filter_eq_self]
  intro p hp
  have := alGet_none_iff.mp h
  simp only [ne_eq, decide_not, Bool.not_eq_eq_eq_not, Bool.not_true, decide_eq_false_iff_not]
  intro e
  exact this (List.mem_map.mpr ⟨p, hp, e⟩)

/-- Removing a `(filter, client)` pair that is not subscribed changes no stored subscription (hence,
by `find_eq_spec`, no routing result), whatever else is in the trie; the abstract set is unchanged too. -/
theorem unsubscribe_unknown_is_noop (t : Trie) (s : Subs) (f : Filter) (c : Client)
    (hr : R t s) (hn : s.get f c = none) :
    (∀ g, clientsAt (remove f c t) g = clientsAt t g) ∧ (∀ g c', (s.unsub f c).get g c' = s.get g c') := by
  constructor
  · intro g
    rw [clientsAt_remove]
    split
    · rename_i e; subst e
      exact alErase_noop c _ (by rw [hr]; exact hn)
    · rfl
  · intro g c'
    rw [get_unsub]
    split
    · rename_i e; obtain ⟨e1, e2⟩ := e; subst e1; subst e2; exact hn.symm
    · rfl

/-- A SUBSCRIBE that carries a malformed filter is rejected as a whole: error reported, neither the
trie nor the session changes. A malformed filter in an UNSUBSCRIBE is skipped (and reported). -/
theorem malformed_rejected_state_unchanged (st : State) (c : Client) (fs : List (List Char × QoS))
    (p : List Char × QoS) (hp : p ∈ fs) (hbad : wellFormed p.1 = false) :
    step st (.subscribe c fs) = (st, true) := by
  have : fs.all (fun p => (split p.1).isSome) = false := by
    rw [all_split_iff, List.all_eq_false]
    exact ⟨p, hp, by simp [hbad]⟩
  simp [step, subscribeTM, this]

theorem malformed_unsubscribe_skipped (c : Client) (f : List Char) (r : List (List Char)) (t : Trie)
    (hbad : wellFormed f = false) :
    unsubscribeTM c (f :: r) t = unsubscribeTM c r t ∧
      (step ⟨t, []⟩ (.unsubscribe c (f :: r))).2 = true := by
  have hs : split f = none := by rw [split_eq]; simp [hbad]
  simp [unsubscribeTM, step, hs]

/-! ### regenerated source facts -/

/-- Facts obligation (re-derived from topic.go on every run): the three TopicManager entry points are
critical sections of the manager's lock (so concurrent packets are a sequential history of `step`s);
`splitTopic` compares with '/', '+', '#' only and `findSubscribers` with "#", "+" only; `subscribe`
validates in a first loop and inserts in a second; the `unsubscribe` loop has no `return`; `remove`
has the two `delete(` calls (client entry, empty child). -/
theorem source_facts :
    Gen.FactsC14.extractionFailed = false ∧
    Gen.FactsC14.lockedMethods = [("subscribe", true), ("unsubscribe", true), ("findSubscribers", true)] ∧
    Gen.FactsC14.splitTopicRunes = ["#", "+", "/"] ∧
    Gen.FactsC14.findSubscribersLiterals = ["#", "+"] ∧
    Gen.FactsC14.subscribeRangeLoops = 2 ∧ Gen.FactsC14.subscribeValidatesFirst = true ∧
    Gen.FactsC14.unsubscribeReturnsInLoop = 0 ∧ Gen.FactsC14.removeDeleteCalls = 2 := by decide

/-! ### Non-vacuity and witnesses -/

private def a : List Char := "a".toList
private def ops1 : List Op :=
  [.subscribe "c1" [("a/+".toList, 0), ("a/b".toList, 1)], .subscribe "c2" [("a/#".toList, 1), ("#".toList, 0)],
   .unsubscribe "c1" ["a/+".toList, "zz".toList], .subscribe "c3" [("+/+".toList, 1), ("a/#/x".toList, 1)],
   .disconnect "c2"]

/-- a concrete history: `c3`'s packet is rejected (malformed `a/#/x`), `c2` is gone after its disconnect;
topic `a/b` reaches only `c1` through its remaining subscription `a/b`@1 -/
example : find (run State.init ops1).trie ["a".toList, "b".toList] = [("c1", 1)] := by decide
example : specRun [] ops1 = [(["a".toList, "b".toList], "c1", 1)] := by decide

/-- parent level: `a/#` matches `a`; `+` does not match two levels -/
example : «matches» [a, hash] [a] = true ∧ «matches» [plus] [a, a] = false ∧ «matches» [hash] [[]] = true := by
  decide

/-- after everybody left, the trie is the empty root (an instance of `empty_when_no_subscription`) -/
example : (run State.init (ops1 ++ [.disconnect "c1"])).trie.isEmpty = true := by decide

/-- **Witness of the defect repaired by `fixes/C14-subscribe-validate-first.patch`.** The unrepaired
`TopicManager.subscribe` inserts filter by filter and returns at the first malformed one, while
`processSubscribe` then skips `session.subscribe`: the prefix stays in the trie, the session does not know
it, and the disconnect (which unsubscribes the session's topics) leaves it behind. Modelled here with
the same `insert` / `unsubscribeTM`: -/
private def oldSubscribePrefix : Trie := insert [a] "c1" 1 Trie.empty   -- SUBSCRIBE ["a", "a#"] on the old code
example : find (unsubscribeTM "c1" [] oldSubscribePrefix) [a] = [("c1", 1)] := by decide
example : (run State.init [.subscribe "c1" [("a".toList, 1), ("a#".toList, 1)], .disconnect "c1"]).trie.isEmpty = true := by
  decide

/-! ### Extension mqtt: regenerated tie by translation (irlib, `harness/factextract/facts_c14_ir.go`)

`Gen/FactsC14IR.findIR` is translated from the body of `TopicManager.findSubscribers` on every run (three nested
loops, the early exit on an empty frontier, the parent-level `#` loop); proof in `Proofs/TopicIR.lean`.
`splitTopic` likewise (`splitIR`), and `insert` / `remove` with pointers read as path cursors (`insertIR`, `removeIR`; `Proofs/TopicRemoveIR.lean`). The entry loops `subscribe` / `unsubscribe` are translated too (`subscribeIR`, `unsubscribeIR`); `addClients` is tied under C15 (`addClientsIR` = `addMax`). Not translated: the LRU memo. -/

/-- **`TopicManager.findSubscribers`**: for every trie and every topic string the generated definition returns
the model's hits (`find`, in the model's order) for a well-formed topic and `none` (error) for a malformed one. -/
theorem findSubscribers_regenerated_from_source (t : Trie) (topic : List Char) :
    Gen.FactsC14IR.extractionFailed = false ∧
    Gen.FactsC14IR.findIR t topic = (split topic).map (find t) :=
  ⟨by decide, Topic.findSubscribers_regenerated_from_source t topic⟩

/-- **`splitTopic`** (rune loop with `wildCardFlag`, `#` only as the last character, the pre-sized `levels`
slice filled by index): the generated definition equals the model's `split` on every string; with
`split_ok_iff_wellFormed` it accepts exactly the well-formed filters. -/
theorem splitTopic_regenerated_from_source (topic : List Char) :
    Gen.FactsC14IR.extractionFailed = false ∧ Gen.FactsC14IR.splitIR topic = split topic :=
  ⟨by decide, Topic.splitTopic_regenerated_from_source topic⟩

example : Gen.FactsC14IR.splitIR "a//+/#".toList = some ["a".toList, [], "+".toList, "#".toList] ∧
    Gen.FactsC14IR.splitIR "a/b#".toList = none ∧ Gen.FactsC14IR.splitIR "#/a".toList = none ∧
    Gen.FactsC14IR.splitIR "".toList = some [[]] := by decide

/-- **`TopicManager.insert`** (mutable `*topicNode` cursor: look the child up, create and link it if missing,
descend; finally `node.clients[clientID] = qos`). Pointers are read as *path cursors* into the functional trie
(`Model/Topic.lean`: `Ptr`, `childPtr`, `linkPtr`, `setClientPtr` — sound because the heap is a tree); the
generated definition equals the model's recursive `insert` for every trie, topic, QoS and client. -/
theorem insert_regenerated_from_source (t : Trie) (topic : List Char) (q : QoS) (c : Client) :
    Gen.FactsC14IR.extractionFailed = false ∧
    Gen.FactsC14IR.insertIR t topic q c = (split topic).map (fun ls => insert ls c q t) :=
  ⟨by decide, Topic.insert_regenerated_from_source t topic q c⟩

example :
    (Gen.FactsC14IR.insertIR (insert ["a".toList] "c1" 0 Trie.empty) "a/b".toList 1 "c2").map (fun t => find t ["a".toList, "b".toList])
      = some [("c2", 1)] ∧
    Gen.FactsC14IR.insertIR Trie.empty "a/#/b".toList 1 "c2" = none := by decide

/-- **`TopicManager.remove`** (walk down collecting the `prevNodes` stack, early `return nil` when a level is
missing, `delete(node.clients, clientID)`, then the downward pruning loop that deletes empty nodes until the
first non-empty one). Same path-cursor reading of pointers as for `insert`; the generated definition equals
the model's `remove` (`removeAux` with bottom-up pruning) for every trie, topic and client. -/
theorem remove_regenerated_from_source (t : Trie) (topic : List Char) (c : Client) :
    Gen.FactsC14IR.extractionFailed = false ∧
    Gen.FactsC14IR.removeIR t topic c = (split topic).map (fun ls => remove ls c t) :=
  ⟨by decide, Topic.remove_regenerated_from_source t topic c⟩

example :
    let t := (run State.init [.subscribe "c1" [("a/b/c".toList, 1)], .subscribe "c2" [("a".toList, 0)]]).trie
    -- the whole branch a/b/c is pruned, "a" (subscribed by c2) stays
    (Gen.FactsC14IR.removeIR t "a/b/c".toList "c1").map (fun r => (find r ["a".toList, "b".toList, "c".toList],
        find r ["a".toList], (ptrSub ["a".toList, "b".toList] r).isSome)) = some ([], [("c2", 0)], false) ∧
    -- a missing level: nothing changes; a malformed filter: error
    (Gen.FactsC14IR.removeIR t "a/x".toList "c1").map (fun r => find r ["a".toList, "b".toList, "c".toList]) = some [("c1", 1)] ∧
    (Gen.FactsC14IR.removeIR t "a/#/c".toList "c1").isNone = true := by
  decide

/-- **`TopicManager.subscribe`** (repaired by fix 7d6df9f): all filters of the packet are validated before the
first insert — a SUBSCRIBE with a malformed filter changes nothing; otherwise every filter is inserted with its
own QoS. `mgr.insert` is the model function tied by `insert_regenerated_from_source`. -/
theorem subscribe_regenerated_from_source (t : Trie) (fs : List (List Char × QoS)) (c : Client) :
    Gen.FactsC14IR.extractionFailed = false ∧
    Gen.FactsC14IR.subscribeIR t (fs.map Prod.fst) (fs.map Prod.snd) c = subscribeTM c fs t :=
  ⟨by decide, Topic.subscribe_regenerated_from_source t fs c⟩

/-- **`TopicManager.unsubscribe`** (repaired): a malformed filter is reported (`true`) but the remaining filters
are still removed. -/
theorem unsubscribe_regenerated_from_source (t : Trie) (fs : List (List Char)) (c : Client) :
    Gen.FactsC14IR.extractionFailed = false ∧
    Gen.FactsC14IR.unsubscribeIR t fs c = (unsubscribeTM c fs t, !fs.all (fun f => (split f).isSome)) :=
  ⟨by decide, Topic.unsubscribe_regenerated_from_source t fs c⟩

example :
    (Gen.FactsC14IR.subscribeIR Trie.empty ["a".toList, "a#".toList] [1, 1] "c1").isNone = true ∧
    (Gen.FactsC14IR.subscribeIR Trie.empty ["a".toList, "b/+".toList] [1, 0] "c1").map (fun r => (find r ["a".toList], find r ["b".toList, "x".toList]))
      = some ([("c1", 1)], [("c1", 0)]) ∧
    (Gen.FactsC14IR.unsubscribeIR (insert ["a".toList] "c1" 1 Trie.empty) ["a#".toList, "a".toList] "c1").2 = true ∧
    find (Gen.FactsC14IR.unsubscribeIR (insert ["a".toList] "c1" 1 Trie.empty) ["a#".toList, "a".toList] "c1").1 ["a".toList] = [] := by
  decide

/-- so everything proved about `find` holds for the regenerated definition: after any history it returns exactly
the matching live subscriptions -/
theorem regenerated_find_routes_after_any_history (ops : List Op) (topic : List Char) (lv : List Level)
    (h : split topic = some lv) (x : Client × QoS) :
    (∃ hits, Gen.FactsC14IR.findIR (run State.init ops).trie topic = some hits ∧ x ∈ hits) ↔
      x ∈ specFind (specRun [] ops) lv := by
  rw [(findSubscribers_regenerated_from_source _ topic).2, h]
  simp only [Option.map_some, Option.some.injEq, exists_eq_left']
  exact Topic.routing_after_any_history ops lv x

/-- non-vacuity: the generated definition computes on a concrete trie (parent-level `#`, `+`, early exit) -/
example :
    let t := (run State.init [.subscribe "c1" [("a/#".toList, 1), ("+/b".toList, 0)], .subscribe "c2" [("a/b".toList, 1)]]).trie
    Gen.FactsC14IR.findIR t "a".toList = some [("c1", 1)] ∧
    Gen.FactsC14IR.findIR t "a/b".toList = some [("c1", 1), ("c2", 1), ("c1", 0)] ∧
    Gen.FactsC14IR.findIR t "x/y/z".toList = some [] ∧
    Gen.FactsC14IR.findIR t "a/#/b".toList = none := by decide

/-! ### Extension mqtt round 2 (audit P2 item 17): judge spec connected, SUBSCRIBE acknowledgement, cursor validity -/

/-- **The judge's executable spec accepts the model** (every history, every topic) … -/
theorem routedOK_accepts_model (ops : List Op) (lv : List Level) :
    routedOK (specRun [] ops) lv (collapseMax (find (run State.init ops).trie lv)) = true :=
  Topic.routedOK_accepts_model ops lv

/-- … **and is sound**: an observed `findSubscribers` result that passes `routedOK` contains only pairs justified
by a matching live subscription of that client with that QoS, and misses no client holding one. -/
theorem routedOK_sound (s : Subs) (lv : List Level) (obs : List (Client × QoS)) (h : routedOK s lv obs = true) :
    (∀ p ∈ obs, ∃ f, (f, p.1, p.2) ∈ s ∧ «matches» f lv = true) ∧
    (∀ f c q, (f, c, q) ∈ s → «matches» f lv = true → ∃ o ∈ obs, o.1 = c) :=
  Topic.routedOK_sound s lv obs h

/-- **A SUBSCRIBE is refused iff some filter of the packet is malformed**; a well-formed one is acknowledged. -/
theorem subscribe_error_iff_malformed (s : State) (c : Client) (fs : List (List Char × QoS)) :
    ((step s (.subscribe c fs)).2 = true ↔ ∃ p ∈ fs, wellFormed p.1 = false) ∧
    ((∀ p ∈ fs, wellFormed p.1 = true) → (step s (.subscribe c fs)).2 = false) :=
  ⟨Topic.subscribe_error_iff_malformed s c fs, Topic.wellformed_subscribe_accepted s c fs⟩

/-- **Cursor validity is an invariant of the translated `insert` / `remove`**: the totalising branches of the
path-cursor operations (`ptrUpd` on a path that leaves the trie, `nodeAt` reading `Trie.empty`) are never taken —
`insert`'s cursor stays a valid path (the loop never returns early), and after `remove`'s walk down succeeded the
path of `delete(node.clients, c)` and every path the pruning loop reads or unlinks through is valid. -/
theorem cursors_stay_valid (t : Trie) (topic : List Char) (q : QoS) (c : Client) (ls : List Level) :
    (match Gen.FactsC14IR.insertIR_loop1 t topic q c t ls false ⟨[], false⟩ ⟨[], false⟩ false ls with
     | .inl _ => False
     | .inr (root', node', _, _) => (ptrSub node'.path root').isSome = true) ∧
    ((ptrSub ls t).isSome = true → Topic.prValid ls 0 ls.length (delClientPtr t ⟨ls, false⟩ c)) :=
  ⟨Topic.insert_cursor_valid t topic q c ls false ls t [] false ⟨[], false⟩ false t rfl,
   Topic.remove_cursors_valid ls t c⟩

example : routedOK [(["a".toList], "c1", 1)] ["a".toList] [("c1", 1)] = true ∧
    routedOK [(["a".toList], "c1", 1)] ["a".toList] [("c1", 0)] = false ∧
    routedOK [(["a".toList], "c1", 1)] ["a".toList] [] = false := by decide

end EgVerif.C14
