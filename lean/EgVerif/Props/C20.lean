import EgVerif.Proofs.Lifecycle
import EgVerif.Proofs.LifecycleIR
import EgVerif.Proofs.LifecycleShutdown
import EgVerif.Proofs.LifecycleAbort
import EgVerif.Proofs.LifecycleQueue
import EgVerif.Gen.FactsC20
/-!
# C20 — objects are initialised, inherited and closed exactly once as the configuration changes

Theorems about `Model/Lifecycle.lean` (a mirror of `ObjectRegistry.applyConfig`, `NewWatcher`,
`Init/Inherit/CloseWithRecovery`, `Supervisor.handleEvent`, and the traffic controller's
create / update / delete path, **with `fixes/C20-kind-change.patch` applied**), for

* every history of snapshots and watcher attachments (`List Item`, any length, any names),
* every iteration order of the Go maps (the order of each snapshot list; every oracle `P.order`
  that permutes the event maps),
* every fault assignment `P.panics` (which Init / Inherit / Close calls panic),
* every consumer shape (`filter`, `slot`, `createChecks`, `namespaced`), so both the supervisor and
  the traffic controller with its namespace bookkeeping (`_cleanSpace`).

`HistWF` only says that a snapshot has unique keys (it is a Go map); `Params.WF` that the `range`
oracles permute and that a namespaced consumer has the two maps `_cleanSpace` probes.
Helper lemmas are in `Proofs/Lifecycle.lean`; the declarative per-name specification
(`regNext`, `view`, `wordStep`, `specWord`, the automaton `Auto`) is in `Spec/Lifecycle.lean`.
-/
namespace EgVerif.C20
open EgVerif.Lifecycle

/-- The calls made on name `n` after a history, from the initial state. -/
def callsOn (P : Params) (h : List Item) (n : Name) : List Call := callsOf n (run P Sys.init h).w.cons.log

/-- What the consumer holds for `n` in its map number `s` after a history. -/
def held (P : Params) (h : List Item) (s : Nat) (n : Name) : Option Entity :=
  (run P Sys.init h).w.cons.store.get (s, n)

/-! ## exactly once -/

/-- **Central theorem.** For every name, the calls the consumer makes over a whole history are
exactly the specification's word: one `init` when the name appears (in the consumer's categories),
one `inherit` — with the previous live object as predecessor — per change of its spec, one `close`
when it disappears, `close` + `init` when its kind changes, nothing when nothing changes. -/
theorem exactly_once (P : Params) (ok : P.WF) (h : List Item) (wf : HistWF h) (n : Name) :
    callsOn P h n = specWord P n 0 false none h := by
  have := (run_spec P ok n h Sys.init (inv_init P) wf).1
  simpa [callsOn, Sys.init, callsOf] using this

/-- The same, from any reachable state, for one more snapshot or attachment: the calls owed to `n`
are `wordStep` between the consumer's old and new view of `n` (`coalesced_changes` below reads
this as: only the net difference between consecutive snapshots matters). -/
theorem step_word (P : Params) (ok : P.WF) (h : List Item) (wf : HistWF h) (it : Item)
    (wit : it.WF) (n : Name) :
    let s := run P Sys.init h
    callsOf n (step P s it).w.cons.log = callsOf n s.w.cons.log ++
      wordStep P n (view P s.w.attached (s.ents.get n))
        (view P (nextAtt s.w.attached it) (nextReg n s.g (s.ents.get n) it)) := by
  intro s
  have inv := (run_spec P ok n h Sys.init (inv_init P) wf).2.1
  have := congrArg Prod.snd (step_at P ok s inv it wit n).2.2.2.2
  simpa [CState.at, CState.toOld, CState0.at] using this

/-- The per-name log is a word of the lifecycle automaton `(init inherit* close)*` (init only when
nothing is live, inherit only from the live object — which is its recorded predecessor and has the
same kind —, close only of the live object), and the object the log leaves live is the consumer's
view of the last snapshot. -/
theorem log_is_lifecycle_word (P : Params) (ok : P.WF) (h : List Item) (wf : HistWF h) (n : Name) :
    Auto.run none (callsOn P h n) =
      some (view P (specFinal n 0 false none h).1 (specFinal n 0 false none h).2) := by
  rw [exactly_once P ok h wf n]
  exact Auto.run_specWord P n h 0 false none

/-- Every call in the log is sane: `init`/`close` have no predecessor, every `inherit` has a
predecessor **of the same kind**, and a call panicked iff the object itself chose to. -/
theorem calls_sane (P : Params) (ok : P.WF) (h : List Item) (wf : HistWF h) (c : Call)
    (hc : c ∈ (run P Sys.init h).w.cons.log) : c.Sane P := by
  have hm : c ∈ callsOn P h c.name := by
    unfold callsOn callsOf
    exact List.mem_filter.mpr ⟨hc, by simp⟩
  rw [exactly_once P ok h wf c.name] at hm
  exact (specWord_sane P c.name h 0 false none c hm).2

/-! ## live set = last snapshot -/

/-- The consumer's maps hold, for every name, exactly its view of the registry, in the map the
kind selects; the registry holds `specFinal`; the watcher is attached iff an `attach` occurred. -/
theorem live_eq_snapshot (P : Params) (ok : P.WF) (h : List Item) (wf : HistWF h) (n : Name)
    (s : Nat) :
    held P h s n =
      (view P (specFinal n 0 false none h).1 (specFinal n 0 false none h).2).filter
        (fun e => decide (P.slot e.kind = s)) ∧
    (run P Sys.init h).ents.get n = (specFinal n 0 false none h).2 := by
  obtain ⟨_, inv, fin⟩ := run_spec P ok n h Sys.init (inv_init P) wf
  have hs := congrFun (inv.store n) s
  have h1 : (run P Sys.init h).w.attached = (specFinal n 0 false none h).1 := congrArg Prod.fst fin
  have h2 : (run P Sys.init h).ents.get n = (specFinal n 0 false none h).2 := congrArg Prod.snd fin
  refine ⟨?_, h2⟩
  simp only [CState.at, CState.toOld, CState0.at, slotView] at hs
  rw [← h1, ← h2]
  exact hs

/-- Readable corollary: after a history that ends with a snapshot `cfg` (watcher attached before):
a name with a valid entry of a kind in the consumer's categories is live with exactly that kind and
body; a name that is absent from `cfg` is not live in any map. -/
theorem live_eq_last_snapshot (P : Params) (ok : P.WF) (h : List Item) (cfg : Config)
    (wf : HistWF (h ++ [.snap cfg])) (hatt : Item.attach ∈ h) (n : Name) :
    (∀ k b, cfg.get n = some (some (k, b)) → P.filter (P.cat k) = true →
        ∃ g, held P (h ++ [.snap cfg]) (P.slot k) n = some ⟨g, k, b⟩) ∧
    (∀ k b, cfg.get n = some (some (k, b)) → P.filter (P.cat k) = false →
        ∀ s, held P (h ++ [.snap cfg]) s n = none) ∧
    (cfg.get n = none → ∀ s, held P (h ++ [.snap cfg]) s n = none) := by
  have fin : ∀ (l : List Item) (g : Nat) (att : Bool) (r : Option Entity),
      ∃ g', specFinal n g att r (l ++ [.snap cfg]) =
        ((specFinal n g att r l).1, regNext g' (specFinal n g att r l).2 (cfg.get n)) := by
    intro l
    induction l with
    | nil => intro g att r; exact ⟨g, by simp [specFinal]⟩
    | cons it rest ih =>
      intro g att r
      cases it with
      | snap c => simpa only [List.cons_append, specFinal] using ih _ _ _
      | attach => simpa only [List.cons_append, specFinal] using ih _ _ _
  have hattd : ∀ (l : List Item) (g : Nat) (att : Bool) (r : Option Entity),
      Item.attach ∈ l → (specFinal n g att r l).1 = true := by
    intro l
    induction l with
    | nil => intro g att r hm; simp at hm
    | cons it rest ih =>
      intro g att r hm
      cases it with
      | snap c =>
        simp only [specFinal]
        exact ih _ _ _ (by simpa using hm)
      | attach =>
        simp only [specFinal]
        by_cases hr : Item.attach ∈ rest
        · exact ih _ _ _ hr
        · have : ∀ (l : List Item) (g : Nat) (r : Option Entity), (specFinal n g true r l).1 = true := by
            intro l
            induction l with
            | nil => intro g r; rfl
            | cons it' rest' ih' => intro g r; cases it' <;> simp only [specFinal] <;> exact ih' _ _
          exact this _ _ _
  obtain ⟨g', hfin⟩ := fin h 0 false none
  have key : ∀ s, held P (h ++ [.snap cfg]) s n =
      (view P true (regNext g' (specFinal n 0 false none h).2 (cfg.get n))).filter
        (fun e => decide (P.slot e.kind = s)) := by
    intro s
    rw [(live_eq_snapshot P ok _ wf n s).1, hfin, hattd h 0 false none hatt]
  refine ⟨?_, ?_, ?_⟩
  · intro k b hc hf
    obtain ⟨g, hg⟩ := @regNext_valid g' (specFinal n 0 false none h).2 k b
    refine ⟨g, ?_⟩
    rw [key, hc, hg]
    simp [view, Option.filter, Params.passes, hf]
  · intro k b hc hf s
    obtain ⟨g, hg⟩ := @regNext_valid g' (specFinal n 0 false none h).2 k b
    rw [key, hc, hg]
    simp [view, Option.filter, Params.passes, hf]
  · intro hc s
    rw [key, hc]
    simp [regNext, view, Option.filter]

/-- `watcher.entities` (the anchored state next to `ObjectRegistry.entities`) is the watcher's view
of the registry after every history. -/
theorem watcher_entities_eq (P : Params) (ok : P.WF) (h : List Item) (wf : HistWF h) (n : Name) :
    (run P Sys.init h).w.wents.get n =
      view P (specFinal n 0 false none h).1 (specFinal n 0 false none h).2 := by
  have w := run_winv P ok h Sys.init (inv_init P) (winv_init P) wf n
  have fin := (run_spec P ok n h Sys.init (inv_init P) wf).2.2
  have h1 : (run P Sys.init h).w.attached = (specFinal n 0 false none h).1 := congrArg Prod.fst fin
  have h2 : (run P Sys.init h).ents.get n = (specFinal n 0 false none h).2 := congrArg Prod.snd fin
  rw [w, h1, h2]

/-! ## unchanged ⇒ untouched -/

/-- If a snapshot leaves the registry's object for `n` as it is (same kind and body, or absent
before and after, or a yaml that is rejected), no call is made on `n` and the consumer's maps are
unchanged at `n`. -/
theorem untouched_of_same_registry (P : Params) (ok : P.WF) (h : List Item) (wf : HistWF h)
    (cfg : Config) (wc : cfg.WF) (n : Name)
    (hsame : regNext (run P Sys.init h).g ((run P Sys.init h).ents.get n) (cfg.get n) =
      (run P Sys.init h).ents.get n) :
    let s := run P Sys.init h
    callsOf n (step P s (.snap cfg)).w.cons.log = callsOf n s.w.cons.log ∧
      (∀ sl, (step P s (.snap cfg)).w.cons.store.get (sl, n) = s.w.cons.store.get (sl, n)) ∧
      (step P s (.snap cfg)).ents.get n = s.ents.get n := by
  intro s
  have inv := (run_spec P ok n h Sys.init (inv_init P) wf).2.1
  obtain ⟨_, _, _, h4, h5⟩ := step_at P ok s inv (.snap cfg) wc n
  simp only [nextReg, nextAtt] at h4 h5
  rw [hsame] at h4 h5
  rw [wordStep_self, List.append_nil] at h5
  refine ⟨?_, ?_, h4⟩
  · have := congrArg Prod.snd h5; simpa [CState.at, CState.toOld, CState0.at] using this
  · intro sl
    have a := congrFun (congrArg Prod.fst h5) sl
    have b := congrFun (inv.store n) sl
    simp only [CState.at, CState.toOld, CState0.at] at a b
    rw [a, b]

/-- `unchanged_untouched`: a name whose entry has the kind and body of its live object is left
alone — same object (same generation) afterwards, no Init / Inherit / Close. -/
theorem unchanged_untouched (P : Params) (ok : P.WF) (h : List Item) (wf : HistWF h)
    (cfg : Config) (wc : cfg.WF) (n : Name) (p : Entity)
    (hreg : (run P Sys.init h).ents.get n = some p)
    (hcfg : cfg.get n = some (some (p.kind, p.body))) :
    let s := run P Sys.init h
    callsOf n (step P s (.snap cfg)).w.cons.log = callsOf n s.w.cons.log ∧
      (∀ sl, (step P s (.snap cfg)).w.cons.store.get (sl, n) = s.w.cons.store.get (sl, n)) ∧
      (step P s (.snap cfg)).ents.get n = some p := by
  intro s
  have := untouched_of_same_registry P ok h wf cfg wc n (by rw [hreg, hcfg]; simp [regNext])
  simp only at this
  rw [hreg] at this
  exact this

/-- Re-applying the snapshot that was just applied changes nothing at any name. -/
theorem reapply_noop (P : Params) (ok : P.WF) (h : List Item) (cfg : Config)
    (wf : HistWF (h ++ [.snap cfg])) (n : Name) :
    callsOn P (h ++ [.snap cfg] ++ [.snap cfg]) n = callsOn P (h ++ [.snap cfg]) n ∧
      ∀ sl, held P (h ++ [.snap cfg] ++ [.snap cfg]) sl n = held P (h ++ [.snap cfg]) sl n := by
  have wc : cfg.WF := wf (.snap cfg) (by simp)
  have hrun : run P Sys.init (h ++ [.snap cfg] ++ [.snap cfg]) =
      step P (run P Sys.init (h ++ [.snap cfg])) (.snap cfg) := by
    simp [run, List.foldl_append]
  have hprev : run P Sys.init (h ++ [.snap cfg]) = step P (run P Sys.init h) (.snap cfg) := by
    simp [run, List.foldl_append]
  have wfh : HistWF h := fun x hx => wf x (List.mem_append_left _ hx)
  have inv := (run_spec P ok n h Sys.init (inv_init P) wfh).2.1
  have hreg := (step_at P ok _ inv (.snap cfg) wc n).2.2.2.1
  have := untouched_of_same_registry P ok (h ++ [.snap cfg]) wf cfg wc n (by
    rw [hprev, hreg]; simp only [nextReg]; exact regNext_idem _ _ _ _)
  simp only at this
  unfold callsOn held
  rw [hrun]
  exact ⟨this.1, this.2.1⟩

/-! ## panics are isolated -/

/-- Changing which calls **on other names** panic changes nothing for `n`: the same calls with the
same flags are made on `n`, and the same object is live for `n`. In particular a panic in one
object's Init / Inherit / Close never prevents the other objects of the snapshot from being
reconciled (their words are still the specification's). -/
theorem panic_isolated (P : Params) (ok : P.WF) (h : List Item) (wf : HistWF h)
    (f : Op → Name → Entity → Bool) (n : Name) (hagree : ∀ op e, f op n e = P.panics op n e) :
    callsOn { P with panics := f } h n = callsOn P h n ∧
      ∀ s, held { P with panics := f } h s n = held P h s n := by
  have ok' : Params.WF { P with panics := f } := ⟨ok.order, ok.slots⟩
  refine ⟨?_, fun s => ?_⟩
  · rw [exactly_once _ ok' h wf n, exactly_once P ok h wf n]
    exact specWord_congr { P with panics := f } P n (fun _ => rfl) hagree h 0 false none
  · rw [(live_eq_snapshot _ ok' h wf n s).1, (live_eq_snapshot P ok h wf n s).1,
      view_congr { P with panics := f } P (fun _ => rfl)]

/-- Whatever panics — including the calls on `n` itself — the reconciliation is the same: the same
calls (up to their panic flag) on the same objects, the same live set, the same registry. -/
theorem panics_do_not_change_reconciliation (P : Params) (ok : P.WF) (h : List Item)
    (wf : HistWF h) (f : Op → Name → Entity → Bool) (n : Name) :
    (callsOn { P with panics := f } h n).map Call.erase = (callsOn P h n).map Call.erase ∧
      (∀ s, held { P with panics := f } h s n = held P h s n) ∧
      (run { P with panics := f } Sys.init h).ents.get n = (run P Sys.init h).ents.get n := by
  have ok' : Params.WF { P with panics := f } := ⟨ok.order, ok.slots⟩
  refine ⟨?_, fun s => ?_, ?_⟩
  · rw [exactly_once _ ok' h wf n, exactly_once P ok h wf n]
    exact specWord_erase { P with panics := f } P n (fun _ => rfl) h 0 false none
  · rw [(live_eq_snapshot _ ok' h wf n s).1, (live_eq_snapshot P ok h wf n s).1,
      view_congr { P with panics := f } P (fun _ => rfl)]
  · rw [(live_eq_snapshot _ ok' h wf n 0).2, (live_eq_snapshot P ok h wf n 0).2]

/-! ## change of kind = close + init -/

/-- A name whose kind changes between two snapshots: the old object is closed (if the consumer had
it) and the new one initialised (if the consumer wants it) — never an `inherit`; the registry holds
the new object. With both kinds in the consumer's categories the calls are `close old, init new`;
across categories the old consumer closes and the new consumer initialises. -/
theorem kind_change_close_init (P : Params) (ok : P.WF) (h : List Item) (wf : HistWF h)
    (cfg : Config) (wc : cfg.WF) (n : Name) (p : Entity) (k : Kind) (b : Body)
    (hatt : (run P Sys.init h).w.attached = true)
    (hreg : (run P Sys.init h).ents.get n = some p)
    (hcfg : cfg.get n = some (some (k, b))) (hk : p.kind ≠ k) :
    let s := run P Sys.init h
    callsOf n (step P s (.snap cfg)).w.cons.log = callsOf n s.w.cons.log ++
        (if P.passes p then [callClose P n p] else []) ++
        (if P.passes ⟨s.g, k, b⟩ then [callInit P n ⟨s.g, k, b⟩] else []) ∧
      (step P s (.snap cfg)).ents.get n = some ⟨s.g, k, b⟩ := by
  intro s
  have inv := (run_spec P ok n h Sys.init (inv_init P) wf).2.1
  have hw := step_word P ok h wf (.snap cfg) wc n
  have hr := (step_at P ok s inv (.snap cfg) wc n).2.2.2.1
  simp only at hw
  simp only [nextReg, nextAtt] at hw hr
  have hn : regNext s.g (s.ents.get n) (cfg.get n) = some ⟨s.g, k, b⟩ := by
    rw [hreg, hcfg]; simp [regNext, hk]
  rw [hn] at hr
  rw [hn, hreg, hatt] at hw
  refine ⟨?_, hr⟩
  rw [hw, List.append_assoc]
  congr 1
  have hne : ¬ p = ⟨s.g, k, b⟩ := by intro e; apply hk; rw [e]
  by_cases hp : P.passes p <;> by_cases he : P.passes ⟨s.g, k, b⟩ <;>
    simp [view, Option.filter, wordStep, hp, he, hne, hk]

/-! ## coalesced changes -/

/-- Only the last snapshot matters for what is live: whatever snapshots `mid` were or were not
delivered in between (changes coalesced by the syncer), after `cfg` a valid entry is live with its
kind and body, and an absent name is not live. (`step_word` gives the calls: the net difference.) -/
theorem coalesced_changes (P : Params) (ok : P.WF) (h mid : List Item) (cfg : Config)
    (wfA : HistWF (h ++ mid ++ [.snap cfg])) (wfB : HistWF (h ++ [.snap cfg]))
    (hatt : Item.attach ∈ h) (n : Name) :
    (∀ k b, cfg.get n = some (some (k, b)) → P.filter (P.cat k) = true →
        ∃ gA gB, held P (h ++ mid ++ [.snap cfg]) (P.slot k) n = some ⟨gA, k, b⟩ ∧
          held P (h ++ [.snap cfg]) (P.slot k) n = some ⟨gB, k, b⟩) ∧
    (cfg.get n = none → ∀ s, held P (h ++ mid ++ [.snap cfg]) s n = none ∧
        held P (h ++ [.snap cfg]) s n = none) := by
  have a := live_eq_last_snapshot P ok (h ++ mid) cfg wfA (List.mem_append_left _ hatt) n
  have b := live_eq_last_snapshot P ok h cfg wfB hatt n
  refine ⟨fun k bd hc hf => ?_, fun hc s => ⟨a.2.2 hc s, b.2.2 hc s⟩⟩
  obtain ⟨gA, hA⟩ := a.1 k bd hc hf
  obtain ⟨gB, hB⟩ := b.1 k bd hc hf
  exact ⟨gA, gB, hA, hB⟩

/-! ## the traffic controller's namespace bookkeeping -/

/-- After every history the namespace object of a namespaced consumer exists iff one of its maps
holds something (so `Update* / Delete*` never fail with "namespace not found" for a live object, and
`_cleanSpace` only ever removes an empty namespace), and every stored key is in one of the two maps. -/
theorem namespace_iff_nonempty (P : Params) (ok : P.WF) (h : List Item) (wf : HistWF h)
    (hn : P.namespaced = true) :
    (run P Sys.init h).w.cons.ns = !(run P Sys.init h).w.cons.store.isEmpty := by
  have inv := (run_spec P ok 0 h Sys.init (inv_init P) wf).2.1
  exact (inv.ns hn).1

/-- Removing an object of one category — even the last one, which makes `_cleanSpace` look at the
namespace — does not touch what the consumer holds in its **other** map: in every reachable state
(`NsOK`), for every delete-loop step on an entity of slot `P.slot x.2.kind`, every key of another
slot keeps its object. (With `live_eq_snapshot` this is also true of whole histories; this lemma
is the local statement about `DeletePipeline / DeleteTrafficGate + _cleanSpace`.) -/
theorem delete_keeps_other_category (P : Params) (ok : P.WF) (c : CState) (j : NsOK P c)
    (x : Name × Entity) (s' : Nat) (m : Name) (hs : s' ≠ P.slot x.2.kind) :
    (delStep P c x).store.get (s', m) = c.store.get (s', m) := by
  have e := (delStep_sim P ok c x j).2
  have e' : (delStep P c x).store = (delStep0 P c.toOld x).store := by
    have := congrArg CState0.store e; simpa [CState.toOld] using this
  rw [e']
  unfold delStep0
  simp only [CState.toOld]
  cases c.store.get (P.slot x.2.kind, x.1) with
  | none => rfl
  | some old =>
    simp only [Map.get_del]
    have : ¬ ((s', m) = (P.slot x.2.kind, x.1)) := by
      intro eq; injection eq with e1 _; exact hs e1
    simp [this]

theorem reachable_nsOK (P : Params) (ok : P.WF) (h : List Item) (wf : HistWF h) :
    NsOK P (run P Sys.init h).w.cons :=
  (run_spec P ok 0 h Sys.init (inv_init P) wf).2.1.ns

/-! ## Go map iteration order is irrelevant -/

/-- Two histories that differ only in the order in which each snapshot's map is iterated. -/
inductive ItemPerm : Item → Item → Prop
  | snap {c c' : Config} : c'.Perm c → ItemPerm (.snap c) (.snap c')
  | attach : ItemPerm .attach .attach

theorem order_irrelevant (P : Params) (ok : P.WF)
    (o' : Nat → Nat → Map Name Entity → Map Name Entity)
    (ok' : Params.WF { P with order := o' }) (h h' : List Item)
    (hp : List.Forall₂ ItemPerm h h') (wf : HistWF h) (n : Name) :
    callsOn { P with order := o' } h' n = callsOn P h n ∧
      ∀ s, held { P with order := o' } h' s n = held P h s n := by
  have wf' : HistWF h' := by
    clear ok ok'
    induction hp with
    | nil => intro x hx; simp at hx
    | cons hab _ ih =>
      intro x hx
      rcases List.mem_cons.mp hx with e | e
      · subst e
        cases hab with
        | snap pc => exact Map.wf_perm pc (wf _ List.mem_cons_self)
        | attach => trivial
      · exact ih (fun y hy => wf y (List.mem_cons_of_mem _ hy)) x e
  have hw : ∀ (g : Nat) (att : Bool) (r : Option Entity),
      specWord P n g att r h' = specWord P n g att r h ∧
        specFinal n g att r h' = specFinal n g att r h := by
    clear ok ok' wf'
    induction hp with
    | nil => intro g att r; exact ⟨rfl, rfl⟩
    | cons hab _ ih =>
      intro g att r
      have ihh := ih (fun y hy => wf y (List.mem_cons_of_mem _ hy))
      cases hab with
      | snap pc =>
        have e := Map.get_perm pc (wf _ List.mem_cons_self) n
        simp only [specWord, specFinal, e]
        exact ⟨by rw [(ihh _ _ _).1], (ihh _ _ _).2⟩
      | attach =>
        simp only [specWord, specFinal]
        exact ⟨by rw [(ihh _ _ _).1], (ihh _ _ _).2⟩
  refine ⟨?_, fun s => ?_⟩
  · rw [exactly_once _ ok' h' wf' n, exactly_once P ok h wf n,
      specWord_congr { P with order := o' } P n (fun _ => rfl) (fun _ _ => rfl), (hw 0 false none).1]
  · rw [(live_eq_snapshot _ ok' h' wf' n s).1, (live_eq_snapshot P ok h wf n s).1,
      view_congr { P with order := o' } P (fun _ => rfl), (hw 0 false none).2]

/-! ## regenerated source facts -/

/-- Facts re-derived from the source on every run, on which the model's shape rests: the three
`…WithRecovery` wrappers start with a deferred `recover()`; `Supervisor.handleEvent` and the traffic
controller reach Init / Inherit / Close only through them, in the order delete, create, update;
`applyConfig` holds the registry mutex, iterates the maps the model iterates, and records a change
of kind as *deleted + created* (the repair). -/
theorem source_facts :
    Gen.FactsC20.extractionFailed = false ∧
    Gen.FactsC20.recoversFirst = [true, true, true] ∧
    Gen.FactsC20.supervisorCalls = ["CloseWithRecovery", "InitWithRecovery", "InheritWithRecovery"] ∧
    Gen.FactsC20.supervisorRanges = ["event.Delete", "event.Create", "event.Update"] ∧
    Gen.FactsC20.trafficRanges = ["event.Delete", "event.Create", "event.Update"] ∧
    Gen.FactsC20.trafficDirectCalls = [] ∧
    Gen.FactsC20.trafficControllerCalls =
      ["CreatePipeline:InitWithRecovery", "UpdatePipeline:InheritWithRecovery",
       "DeletePipeline:CloseWithRecovery", "CreateTrafficGate:InitWithRecovery",
       "UpdateTrafficGate:InheritWithRecovery", "DeleteTrafficGate:CloseWithRecovery"] ∧
    Gen.FactsC20.applyConfigLocksFirst = true ∧
    Gen.FactsC20.applyConfigRanges = ["or.entities", "config", "or.watchers", "deleted", "created", "updated"] ∧
    Gen.FactsC20.applyConfigKindGuards = 1 ∧
    Gen.FactsC20.applyConfigDeletedAssigns = 2 ∧
    Gen.FactsC20.newWatcherRanges = ["or.entities"] := by decide

/-! ## regenerated tie by translation (`notes/IR.md`)

`Gen.FactsC20IR` is re-translated on every run (go/ast → Lean, `harness/factextract/irlib.go` with
`facts_c20_ir.go`) from the current bodies of `ObjectRegistry.applyConfig` and
`TrafficController._cleanSpace`; the proofs are in `Proofs/LifecycleIR.lean` under the same names. -/

/-- The two diff loops of `ObjectRegistry.applyConfig`, as translated from the source, are the model's
`diff`: names absent from the snapshot are deleted; a new name is created, an equal spec skipped, a
change of kind recorded as deleted + created, any other change as updated — for every snapshot index,
every registry map with unique keys (a Go map) and every snapshot. (The per-watcher notification
closure is translated separately: `applyConfig_notify_regenerated_from_source`.) -/
theorem applyConfig_regenerated_from_source (g : Nat) (ents : Map Name Entity) (cfg : Config)
    (wf : ents.WF) :
    Gen.FactsC20IR.extractionFailed = false ∧ Gen.FactsC20IR.applyConfigIR g ents cfg = diff g ents cfg :=
  ⟨by decide, EgVerif.Lifecycle.applyConfig_regenerated_from_source g ents cfg wf⟩

/-- The hypothesis of the previous theorem holds in every reachable state, so on every step of every
history the registry part of the model's `step` is the translated source. -/
theorem applyConfig_tied_on_every_history (P : Params) (ok : P.WF) (h : List Item) (wf : HistWF h)
    (cfg : Config) :
    let s := run P Sys.init h
    s.ents.WF ∧ (step P s (.snap cfg)).ents = (Gen.FactsC20IR.applyConfigIR s.g s.ents cfg).ents := by
  intro s
  have inv := (run_spec P ok 0 h Sys.init (inv_init P) wf).2.1
  exact ⟨inv.wf, by rw [EgVerif.Lifecycle.applyConfig_regenerated_from_source _ _ _ inv.wf]; rfl⟩

/-- The per-watcher closure of `applyConfig` (filter each of deleted / created / updated with the
watcher's filter into the event, maintain `watcher.entities`, send the event iff it is not empty), as
translated from the source, is the model's `notify` plus `stepW`'s "an empty event is not sent" — for
every watcher, every `watcher.entities`, every diff whose maps have unique keys. -/
theorem applyConfig_notify_regenerated_from_source (P : Params) (wents : Map Name Entity) (d : Diff)
    (hd : d.deleted.WF) (hc : d.created.WF) (hu : d.updated.WF) :
    Gen.FactsC20IR.extractionFailed = false ∧
    Gen.FactsC20IR.notifyIR P wents d.deleted d.created d.updated false =
      ((notify P wents d).1, (notify P wents d).2, !(notify P wents d).2.isEmpty) :=
  ⟨by decide, EgVerif.Lifecycle.applyConfig_notify_regenerated_from_source P wents d hd hc hu⟩

/-- … and its hypotheses hold on every step of every history: what `stepW` hands to the consumer is
what the translated closure computes from the translated diff. -/
theorem applyConfig_notify_tied_on_every_history (P : Params) (ok : P.WF) (h : List Item)
    (wf : HistWF h) (cfg : Config) :
    let s := run P Sys.init h
    let d := Gen.FactsC20IR.applyConfigIR s.g s.ents cfg
    Gen.FactsC20IR.notifyIR P s.w.wents d.deleted d.created d.updated false =
      ((notify P s.w.wents (diff s.g s.ents cfg)).1, (notify P s.w.wents (diff s.g s.ents cfg)).2,
        !(notify P s.w.wents (diff s.g s.ents cfg)).2.isEmpty) := by
  intro s d
  have inv := (run_spec P ok 0 h Sys.init (inv_init P) wf).2.1
  have hd : d = diff s.g s.ents cfg := EgVerif.Lifecycle.applyConfig_regenerated_from_source _ _ _ inv.wf
  have dwf := diff_wf s.g s.ents cfg inv.wf
  rw [hd]
  exact EgVerif.Lifecycle.applyConfig_notify_regenerated_from_source P _ _ dwf.2.1 dwf.2.2.1 dwf.2.2.2

/-- `Supervisor.handleEvent`, as translated from the source (three `range event.X` loops over the
`businessControllers` sync.Map: `LoadAndDelete` + `CloseWithRecovery`; "already existed" check,
`InitWithRecovery`, `Store`; `Load`, `InheritWithRecovery`, `Store`), is the model's `handleEvent` with
the supervisor's consumer shape `supParams P` (one map, create checks, no namespace, list order) — for
every consumer state, event and fault assignment; `supParams P` meets `Params.WF`, so every theorem
of this file applies to it. -/
theorem handleEvent_regenerated_from_source (P : Params) (c : CState) (ev : Event) :
    Gen.FactsC20IR.extractionFailed = false ∧ (supParams P).WF ∧
    Gen.FactsC20IR.handleEventIR P c ev = handleEvent (supParams P) 0 c ev :=
  ⟨by decide, ⟨fun _ _ m => List.Perm.refl m, fun h => by simp [supParams] at h⟩,
    EgVerif.Lifecycle.handleEvent_regenerated_from_source P c ev⟩

/-- `TrafficController._cleanSpace`, as translated from the source (probe `trafficGates`, probe
`pipelines`, both empty ⇒ delete the namespace), is the model's `cleanSpace` on every consumer state. -/
theorem cleanSpace_regenerated_from_source (c : CState) :
    Gen.FactsC20IR.extractionFailed = false ∧ Gen.FactsC20IR.cleanSpaceIR c = cleanSpace c :=
  ⟨by decide, EgVerif.Lifecycle.cleanSpace_regenerated_from_source c⟩

/-- Non-vacuity: one snapshot that exercises every branch of the translated loops (7: kind change,
8: body change, 9: disappears, 10: appears, 11: rejected yaml, 12: unchanged). -/
example : Map.WF ([(7, ⟨0, 0, 0⟩), (8, ⟨1, 1, 5⟩), (9, ⟨0, 0, 0⟩), (12, ⟨2, 1, 1⟩)] : Map Name Entity) := by
  simp [Map.WF]
private def dex : Diff :=
  Gen.FactsC20IR.applyConfigIR 3 [(7, ⟨0, 0, 0⟩), (8, ⟨1, 1, 5⟩), (9, ⟨0, 0, 0⟩), (12, ⟨2, 1, 1⟩)]
    [(7, some (1, 0)), (8, some (1, 6)), (10, some (0, 0)), (11, none), (12, some (1, 1))]
example :
    dex.ents = [(12, ⟨2, 1, 1⟩), (7, ⟨3, 1, 0⟩), (8, ⟨3, 1, 6⟩), (10, ⟨3, 0, 0⟩)] ∧
    dex.deleted = [(9, ⟨0, 0, 0⟩), (7, ⟨0, 0, 0⟩)] ∧
    dex.created = [(7, ⟨3, 1, 0⟩), (10, ⟨3, 0, 0⟩)] ∧ dex.updated = [(8, ⟨3, 1, 6⟩)] := by decide
example : (Gen.FactsC20IR.cleanSpaceIR ⟨[((0, 7), ⟨0, 4, 0⟩)], [], true⟩).ns = true ∧
    (Gen.FactsC20IR.cleanSpaceIR ⟨[], [], true⟩).ns = false := by decide

/-! ## shutdown -/

/-- **Shutdown closes every live object exactly once.** After any history, `Supervisor.close` /
`TrafficController.Close` / `Clean` (the model's `shutdown`, for every iteration order `ord` of the
`sync.Map`s) adds for every name exactly one `close` of the object that was live for it — nothing for
a name that was not live —, so that the name's complete log is a word of `(init inherit* close)*`
after which NOTHING is live, and the consumer's maps are empty. -/
theorem shutdown_closes_every_live_object_once (P : Params) (ok : P.WF) (h : List Item)
    (wf : HistWF h) (ord : Map (Nat × Name) Entity → Map (Nat × Name) Entity)
    (hord : ∀ m, (ord m).Perm m) (n : Name) :
    let c := shutdown P ord (run P Sys.init h).w.cons
    callsOf n c.log = callsOn P h n ++
        (view P (specFinal n 0 false none h).1 (specFinal n 0 false none h).2).toList.map (callClose P n) ∧
      Auto.run none (callsOf n c.log) = some none ∧ c.store = [] ∧ c.ns = false := by
  intro c
  obtain ⟨_, inv, fin⟩ := run_spec P ok n h Sys.init (inv_init P) wf
  have swf : (run P Sys.init h).w.cons.store.WF := run_storeWF P h Sys.init Map.wf_nil
  have h1 : (run P Sys.init h).w.attached = (specFinal n 0 false none h).1 := congrArg Prod.fst fin
  have h2 : (run P Sys.init h).ents.get n = (specFinal n 0 false none h).2 := congrArg Prod.snd fin
  have hc := shutdown_at P ord hord (run P Sys.init h) inv swf n
  rw [h1, h2] at hc
  refine ⟨hc, ?_, rfl, rfl⟩
  show Auto.run none (callsOf n (shutdown P ord (run P Sys.init h).w.cons).log) = some none
  rw [hc, Auto.run_append]
  have hl := log_is_lifecycle_word P ok h wf n
  unfold callsOn at hl
  rw [hl]
  cases view P (specFinal n 0 false none h).1 (specFinal n 0 false none h).2 with
  | none => rfl
  | some e => simp [Auto.run, Auto.step_close]

/-- Objects closed at shutdown are exactly the live set: the closes `shutdown` adds are a permutation
of one `close` per stored entry (no object is closed twice, none is skipped). -/
theorem shutdown_closes_are_the_live_set (P : Params)
    (ord : Map (Nat × Name) Entity → Map (Nat × Name) Entity) (hord : ∀ m, (ord m).Perm m) (c : CState) :
    ∃ closes, (shutdown P ord c).log = c.log ++ closes ∧
      closes.Perm (c.store.map (fun e => callClose P e.1.2 e.2)) :=
  ⟨_, rfl, (hord c.store).map _⟩

/-- Regenerated facts behind `shutdown`: `Supervisor.close` walks `businessControllers`,
`TrafficController.Close` and `Clean` walk `trafficGates` then `pipelines`; each closure calls
`CloseWithRecovery` exactly once per entry and always returns `true` (every entry is visited). -/
theorem shutdown_source_facts :
    Gen.FactsC20IR.extractionFailed = false ∧
    Gen.FactsC20IR.shutdownRanges_Supervisor_close = ["businessControllers:close=1:continues=true"] ∧
    Gen.FactsC20IR.shutdownRanges_TrafficController_Close =
      ["trafficGates:close=1:continues=true", "pipelines:close=1:continues=true"] ∧
    Gen.FactsC20IR.shutdownRanges_TrafficController_Clean =
      ["trafficGates:close=1:continues=true", "pipelines:close=1:continues=true"] := by decide

/-! ## Non-vacuity: a concrete history meeting the hypotheses, and the defect of the unrepaired code -/

/-- kinds 0,1: business controllers; kinds 2,3: traffic gates. The consumer is the supervisor
(category 1); every `inherit` panics. -/
private def Pex : Params :=
  { cat := fun k => if k < 2 then 1 else 3, filter := fun c => c == 1, slot := fun _ => 0,
    createChecks := true, namespaced := false, panics := fun op _ _ => op == .inherit,
    order := fun _ _ m => m }

/-- name 7: appear (kind 0), change of body, change of kind inside the category, change of kind
across categories, disappear, reappear; name 8 unchanged all the time. -/
private def hex : List Item :=
  [.attach,
   .snap [(7, some (0, 0)), (8, some (1, 5))],
   .snap [(8, some (1, 5)), (7, some (0, 1))],
   .snap [(7, some (1, 1)), (8, some (1, 5))],
   .snap [(7, some (2, 1)), (8, some (1, 5))],
   .snap [(8, some (1, 5))],
   .snap [(7, some (0, 0)), (8, some (1, 5))]]

example : Pex.WF := ⟨fun _ _ m => List.Perm.refl m, fun h => by simp [Pex] at h⟩
example : HistWF hex := by
  intro it hit
  simp only [hex, List.mem_cons, List.mem_nil_iff, or_false] at hit
  rcases hit with e | e | e | e | e | e | e <;> subst e <;> first | trivial | (simp [Item.WF, Map.WF])

example : callsOn Pex hex 7 =
    [⟨.init, 7, ⟨0, 0, 0⟩, none, false⟩,
     ⟨.inherit, 7, ⟨1, 0, 1⟩, some ⟨0, 0, 0⟩, true⟩,      -- the panic is recorded, nothing else changes
     ⟨.close, 7, ⟨1, 0, 1⟩, none, false⟩, ⟨.init, 7, ⟨2, 1, 1⟩, none, false⟩,  -- kind 0 → 1
     ⟨.close, 7, ⟨2, 1, 1⟩, none, false⟩,                 -- kind 1 → 2: leaves the category
     ⟨.init, 7, ⟨5, 0, 0⟩, none, false⟩] := by decide
example : callsOn Pex hex 8 = [⟨.init, 8, ⟨0, 1, 5⟩, none, false⟩] := by decide
example : held Pex hex 0 7 = some ⟨5, 0, 0⟩ ∧ held Pex hex 0 8 = some ⟨0, 1, 5⟩ := by decide

/-- Non-vacuity of `applyConfig_notify_regenerated_from_source`: the supervisor's watcher (`Pex`: category 1 =
kinds 0, 1) on the diff `dex`: 9 and the old 7 leave, the new 7 and 10 arrive, 8 is updated; the event is sent.
A diff with nothing for this watcher sends nothing. -/
example : Gen.FactsC20IR.notifyIR Pex [(7, ⟨0, 0, 0⟩), (8, ⟨1, 1, 5⟩), (9, ⟨0, 0, 0⟩)] dex.deleted dex.created dex.updated false =
    ([(7, ⟨3, 1, 0⟩), (10, ⟨3, 0, 0⟩), (8, ⟨3, 1, 6⟩)],
     (⟨[(9, ⟨0, 0, 0⟩), (7, ⟨0, 0, 0⟩)], [(7, ⟨3, 1, 0⟩), (10, ⟨3, 0, 0⟩)], [(8, ⟨3, 1, 6⟩)]⟩ : Event), true) := by decide
example : (Gen.FactsC20IR.notifyIR Pex [] [(5, ⟨0, 2, 0⟩)] [] [] false).2.2 = false := by decide

/-- Non-vacuity of `handleEvent_regenerated_from_source`: an event that deletes 9, creates 10 (and 8, which already
exists: refused) and updates 8, on a supervisor holding 8 and 9. -/
private def cex : CState := Gen.FactsC20IR.handleEventIR Pex ⟨[((0, 8), ⟨1, 1, 5⟩), ((0, 9), ⟨0, 0, 0⟩)], [], false⟩
  ⟨[(9, ⟨0, 0, 0⟩)], [(10, ⟨3, 0, 0⟩), (8, ⟨3, 0, 0⟩)], [(8, ⟨3, 1, 6⟩)]⟩
example : cex.store = [((0, 10), ⟨3, 0, 0⟩), ((0, 8), ⟨3, 1, 6⟩)] ∧
    cex.log = [⟨.close, 9, ⟨0, 0, 0⟩, none, false⟩, ⟨.init, 10, ⟨3, 0, 0⟩, none, false⟩,
      ⟨.inherit, 8, ⟨3, 1, 6⟩, some ⟨1, 1, 5⟩, true⟩] := by decide

/-- Non-vacuity of the shutdown theorems: `hex` leaves 7 and 8 live; shutdown closes both, once. -/
example : ((shutdown Pex (fun m => m) (run Pex Sys.init hex).w.cons).log.drop
    (run Pex Sys.init hex).w.cons.log.length) =
    [⟨.close, 8, ⟨0, 1, 5⟩, none, false⟩, ⟨.close, 7, ⟨5, 0, 0⟩, none, false⟩] := by decide

/-- The loop body of `applyConfig` **before** the repair: a change of kind goes to `updated`. -/
def diffStepUnrepaired (g : Nat) (d : Diff) (x : Name × Option (Kind × Body)) : Diff :=
  match x.2 with
  | none => d
  | some (k, b) =>
    let entity : Entity := ⟨g, k, b⟩
    match d.ents.get x.1 with
    | some p =>
      if p.kind = k ∧ p.body = b then d
      else { ents := d.ents.set x.1 entity, deleted := d.deleted, created := d.created,
             updated := d.updated.set x.1 entity }
    | none => { ents := d.ents.set x.1 entity, deleted := d.deleted,
                created := d.created.set x.1 entity, updated := d.updated }

def stepUnrepaired (P : Params) (s : Sys) : Item → Sys
  | .snap cfg =>
    let d := cfg.foldl (diffStepUnrepaired s.g)
      ⟨s.ents.filter (fun e => (cfg.get e.1).isSome), s.ents.filter (fun e => (cfg.get e.1).isNone), [], []⟩
    ⟨s.g + 1, s.t + 1, d.ents, stepW P s.t s.w d⟩
  | .attach => ⟨s.g, s.t + 1, s.ents, attachW P s.t s.ents s.w⟩

/-- The defect (reproduced on the real code by the harness, see `fixes/C20-kind-change.md`):
with the unrepaired loop body a change of kind inside the consumer's categories is an `inherit`
from an object of another kind (it panics; the old object is never closed), and a change of kind
out of the consumer's categories leaves the old object live forever — even after the name has
disappeared from the configuration. -/
example :
    let s := ([.attach, .snap [(7, some (0, 0))], .snap [(7, some (1, 0))]] : List Item).foldl
      (stepUnrepaired Pex) Sys.init
    callsOf 7 s.w.cons.log =
      [⟨.init, 7, ⟨0, 0, 0⟩, none, false⟩, ⟨.inherit, 7, ⟨1, 1, 0⟩, some ⟨0, 0, 0⟩, true⟩] := by decide

example :
    let s := ([.attach, .snap [(7, some (0, 0))], .snap [(7, some (2, 0))], .snap []] : List Item).foldl
      (stepUnrepaired Pex) Sys.init
    s.w.cons.store.get (0, 7) = some ⟨0, 0, 0⟩ ∧ s.ents.get 7 = none ∧
      callsOf 7 s.w.cons.log = [⟨.init, 7, ⟨0, 0, 0⟩, none, false⟩] := by decide

/-- The traffic consumer's shape: pipelines (kind 4) in slot 0, gates in slot 1, namespaced. -/
private def Ptr : Params :=
  { cat := fun k => if k == 4 then 2 else 3, filter := fun c => c == 2 || c == 3,
    slot := fun k => if k == 4 then 0 else 1, createChecks := false, namespaced := true,
    panics := fun _ _ _ => false, order := fun _ _ m => m }

example : Ptr.WF := ⟨fun _ _ m => List.Perm.refl m, fun _ k => by
  by_cases h : k = 4 <;> simp [Ptr, h]⟩

/-- pipeline 7 and gate 8 share the namespace; the last gate disappears, the pipeline stays, is then
changed (inherited) and finally removed (closed); the namespace is gone only at the very end. -/
private def htr : List Item :=
  [.attach, .snap [(7, some (4, 0)), (8, some (2, 0))], .snap [(7, some (4, 0))],
   .snap [(7, some (4, 1))], .snap []]

example : callsOn Ptr htr 7 =
    [⟨.init, 7, ⟨0, 4, 0⟩, none, false⟩, ⟨.inherit, 7, ⟨2, 4, 1⟩, some ⟨0, 4, 0⟩, false⟩,
     ⟨.close, 7, ⟨2, 4, 1⟩, none, false⟩] := by decide
example : (run Ptr Sys.init (htr.take 3)).w.cons.ns = true ∧ held Ptr (htr.take 3) 0 7 = some ⟨0, 4, 0⟩ ∧
    (run Ptr Sys.init htr).w.cons.ns = false := by decide

/-- A `_cleanSpace` that probes `trafficGates` twice (seeded change C20-m2) drops the namespace with
a live pipeline inside as soon as the last gate goes: the invariant `NsOK` is what excludes it. -/
def cleanSpaceGatesTwice (c : CState) : CState :=
  let serverLen := (c.store.filter (fun e => e.1.1 == 1)).length
  let pipelineLen := (c.store.filter (fun e => e.1.1 == 1)).length
  if serverLen + pipelineLen == 0 then { store := [], log := c.log, ns := false } else c

example : (cleanSpaceGatesTwice ⟨[((0, 7), ⟨0, 4, 0⟩)], [], true⟩).store = [] ∧
    (cleanSpace ⟨[((0, 7), ⟨0, 4, 0⟩)], [], true⟩).store = [((0, 7), ⟨0, 4, 0⟩)] := by decide

/-! ## Audit repair (notes/AUDIT.md, C20 item 14; engineer mux): panic isolation proved, not assumed

`panic_isolated` above is a congruence: the model's control flow never reads `Params.panics`. The abort
semantics of `Proofs/LifecycleAbort.lean` (`runA`) *does*: a panic that its `…WithRecovery` wrapper does not
recover skips the rest of the step (`Store`, `_cleanSpace`) and all remaining work of this and every later
event. The wrappers' `recover()`s are read from the source on every run (`FactsC20.recoversFirst`). -/

/-- the three `recover()` flags as regenerated from `object.go` (Init, Inherit, Close) -/
def factsRec : Rec :=
  match Gen.FactsC20.recoversFirst with
  | [a, b, c] => ⟨a, b, c⟩
  | _ => ⟨false, false, false⟩

/-- **A panic in a lifecycle callback never aborts the reconciliation**: in the abort semantics, with the
wrappers as they are in the source, every history ends un-aborted in exactly the state of the model — for
every panic oracle, iteration order and consumer shape. All theorems above therefore hold of the abortable
system; removing one `recover()` from the source makes `factsRec ≠ Rec.all` and breaks this proof. -/
theorem panic_never_aborts (P : Params) (h : List Item) :
    runA factsRec P (Sys.init, false) h = (run P Sys.init h, false) := by
  have hr : factsRec = Rec.all := by decide
  rw [hr]; exact runA_all P h Sys.init

/-- **Panic isolation, proved on the abortable system**: whatever panics on *other* names, the calls made on
`n` (with their flags) and the object live for `n` are the same, and the consumer goroutine is still alive. -/
theorem panic_isolated_abortable (P : Params) (ok : P.WF) (h : List Item) (wf : HistWF h)
    (f : Op → Name → Entity → Bool) (n : Name) (hagree : ∀ op e, f op n e = P.panics op n e) :
    (runA factsRec { P with panics := f } (Sys.init, false) h).2 = false ∧
    callsOf n (runA factsRec { P with panics := f } (Sys.init, false) h).1.w.cons.log =
      callsOf n (runA factsRec P (Sys.init, false) h).1.w.cons.log ∧
    ∀ s, (runA factsRec { P with panics := f } (Sys.init, false) h).1.w.cons.store.get (s, n) =
      (runA factsRec P (Sys.init, false) h).1.w.cons.store.get (s, n) := by
  rw [panic_never_aborts, panic_never_aborts]
  obtain ⟨h1, h2⟩ := panic_isolated P ok h wf f n hagree
  exact ⟨rfl, h1, h2⟩

/-- Every object of a snapshot is reconciled although another one's callback panics: the abortable system
makes exactly the specification's calls on every name (`exactly_once` transported). -/
theorem exactly_once_abortable (P : Params) (ok : P.WF) (h : List Item) (wf : HistWF h) (n : Name) :
    callsOf n (runA factsRec P (Sys.init, false) h).1.w.cons.log = callsOn P h n := by
  rw [panic_never_aborts]; rfl

/-- **Sharpness — the abort branch is real**: without the `recover()` of `InitWithRecovery`, a panicking
`Init` of object 7 prevents object 8 of the same snapshot from being initialised (and kills the consumer);
with it, 8 is initialised and 7's panic is only recorded. Same history, same panic oracle. -/
private def Pab : Params :=
  { cat := fun _ => 1, filter := fun c => c == 1, slot := fun _ => 0, createChecks := true, namespaced := false,
    panics := fun op n _ => op == .init && n == 7, order := fun _ _ m => m }
private def hab : List Item := [.attach, .snap [(7, some (0, 0)), (8, some (0, 1))]]

example : (runA ⟨false, true, true⟩ Pab (Sys.init, false) hab).2 = true ∧
    callsOf 8 (runA ⟨false, true, true⟩ Pab (Sys.init, false) hab).1.w.cons.log = [] ∧
    (runA ⟨false, true, true⟩ Pab (Sys.init, false) hab).1.w.cons.store = [] := by decide
example : (runA Rec.all Pab (Sys.init, false) hab).2 = false ∧
    callsOf 8 (runA Rec.all Pab (Sys.init, false) hab).1.w.cons.log = [⟨.init, 8, ⟨0, 0, 1⟩, none, false⟩] ∧
    callsOf 7 (runA Rec.all Pab (Sys.init, false) hab).1.w.cons.log = [⟨.init, 7, ⟨0, 0, 0⟩, none, true⟩] := by decide
/-- once aborted, later snapshots are not reconciled at all -/
example : callsOf 9 (runA ⟨false, true, true⟩ Pab (Sys.init, false) (hab ++ [.snap [(9, some (0, 2))]])).1.w.cons.log = [] ∧
    callsOf 9 (runA Rec.all Pab (Sys.init, false) (hab ++ [.snap [(9, some (0, 2))]])).1.w.cons.log =
      [⟨.init, 9, ⟨1, 0, 2⟩, none, false⟩] := by decide

/-- **Several watchers** (`for _, watcher := range or.watchers`): each watcher + consumer is stepped with its own
parameters on the same diff, independently of the others — component `i` of `stepAll` is `stepW` of component
`i`; so every per-consumer theorem (`exactly_once`, `live_eq_snapshot`, `kind_change_close_init` …) applies to
each consumer of a registry with several watchers, e.g. the supervisor closing and the traffic controller
initialising on a cross-category change of kind. -/
theorem stepAll_componentwise (Ps : List Params) (t : Nat) (ws : List WState) (d : Diff) (i : Nat) :
    (stepAll Ps t ws d)[i]? =
      match Ps[i]?, ws[i]? with
      | some P, some w => some (stepW P t w d)
      | _, _ => none := by
  unfold stepAll
  rw [List.getElem?_map]
  have hz : ∀ (Ps : List Params) (ws : List WState) (i : Nat), (Ps.zip ws)[i]? =
      match Ps[i]?, ws[i]? with
      | some P, some w => some (P, w)
      | _, _ => none := by
    intro Ps
    induction Ps with
    | nil => intro ws i; simp
    | cons P Ps ih =>
      intro ws i
      cases ws with
      | nil => cases h : (P :: Ps)[i]? <;> simp
      | cons w ws =>
        cases i with
        | zero => simp
        | succ i => simpa using ih ws i
  rw [hz]
  cases Ps[i]? <;> cases ws[i]? <;> rfl

/-! ## The pending-event queue (engineer mux; seeded change C20-m5)

`Proofs/LifecycleQueue.lean`: the registry goroutine *sends* a watcher's event and goes on; the consumer goroutine
*receives* one event at a time. `qrun` ranges over every interleaving of `produce` (apply a snapshot / attach) and
`consume` (receive + `handleEvent`). The theorems above were about the synchronous model (each event handled inside
the step that produces it), i.e. about quiescent states only. -/

/-- **Exactly once and live = snapshot, for every interleaving and at every moment — also while events are
pending.** Whatever snapshots the registry has applied while the consumer was busy, the consumer has made on every
name exactly the lifecycle calls the specification prescribes for a **prefix** `h.take m` of the applied items, its
live object for the name is that prefix's, the queue holds the events of the remaining `h.length - m` items in
order, and the registry is at the latest snapshot. Nothing is skipped, merged or reordered. -/
theorem exactly_once_any_interleaving (P : Params) (ok : P.WF) (its : List QItem)
    (wf : HistWF (produced its)) (n : Name) :
    ∃ m, m ≤ (produced its).length ∧
      callsOf n (qrun P QSys.init its).cons.log = specWord P n 0 false none ((produced its).take m) ∧
      (∀ s, (qrun P QSys.init its).cons.store.get (s, n) =
        (view P (specFinal n 0 false none ((produced its).take m)).1
          (specFinal n 0 false none ((produced its).take m)).2).filter (fun e => decide (P.slot e.kind = s))) ∧
      (qrun P QSys.init its).queue.length = (produced its).length - m ∧
      (qrun P QSys.init its).s.ents.get n = (specFinal n 0 false none (produced its)).2 := by
  obtain ⟨hs, m, hm, hc, hq⟩ := qrun_prefix ok.order its
  have wfm : HistWF ((produced its).take m) := fun it hit => wf it (List.mem_of_mem_take hit)
  refine ⟨m, hm, ?_, fun s => ?_, ?_, ?_⟩
  · rw [hc]; exact exactly_once P ok _ wfm n
  · rw [hc]; exact (live_eq_snapshot P ok _ wfm n s).1
  · rw [hq]
    have hlen : ∀ (h : List Item) (s : Sys), (pending P s h).length = h.length := by
      intro h
      induction h with
      | nil => intro s; rfl
      | cons it r ih => intro s; simp [pending, ih]
    rw [hlen]; simp
  · rw [hs]; exact (live_eq_snapshot P ok _ wf n 0).2

/-- **… and once the queue is empty the consumer is at the latest snapshot**: all lifecycle calls of the whole
history, live set = latest applied snapshot — however the applications and the consumptions were interleaved
(in particular: three snapshots applied while the consumer was blocked in a slow `Init` are reconciled one by
one, a name that changed, disappeared and reappeared in between gets `inherit`, `close`, `init`). -/
theorem exactly_once_when_drained (P : Params) (ok : P.WF) (its : List QItem) (wf : HistWF (produced its))
    (hq : (qrun P QSys.init its).queue = []) (n : Name) :
    callsOf n (qrun P QSys.init its).cons.log = specWord P n 0 false none (produced its) ∧
    ∀ s, (qrun P QSys.init its).cons.store.get (s, n) =
      (view P (specFinal n 0 false none (produced its)).1 (specFinal n 0 false none (produced its)).2).filter
        (fun e => decide (P.slot e.kind = s)) := by
  rw [qrun_drained ok.order its hq]
  exact ⟨exactly_once P ok _ wf n, fun s => (live_eq_snapshot P ok _ wf n s).1⟩

/-- The consumer loops as the queue model assumes them (regenerated from the source on every run): `Supervisor.run`
and `RawConfigTrafficController.run` receive from the watcher channel in exactly one place, one event per
iteration of the `select`, and pass the received event itself to `handleEvent` — no second receive, no merging or
rewriting of events in between (the received value's name is normalised to `ev`). -/
theorem consumer_loops_pass_events_unmodified :
    Gen.FactsC20.supervisorRunWatchCase = ["ev := <-s.watcher.Watch()", "s.handleEvent(ev)"] ∧
    Gen.FactsC20.supervisorWatchReceives = ["<-s.watcher.Watch()"] ∧
    Gen.FactsC20.supervisorHandleEventArgs = ["ev", "calls:1"] ∧
    Gen.FactsC20.trafficRunWatchCase = ["ev := <-rctc.watcher.Watch()", "rctc.handleEvent(ev)"] ∧
    Gen.FactsC20.trafficWatchReceives = ["<-rctc.watcher.Watch()"] ∧
    Gen.FactsC20.trafficHandleEventArgs = ["ev", "calls:1"] := by decide

/-- Non-vacuity (the scenario of seeded change C20-m5): the consumer is busy while name 7 changes its body
(snapshot 2), disappears (3) and reappears with the body of snapshot 2 (4); then it consumes the four pending
events: `init, inherit, close, init` — not "nothing" — and the live object is the newest entity. At the moment
three events are pending the consumer is at prefix 2 of 5. -/
private def Pq : Params :=
  { cat := fun _ => 1, filter := fun c => c == 1, slot := fun _ => 0, createChecks := true, namespaced := false,
    panics := fun _ _ _ => false, order := fun _ _ m => m }
private def itsBusy : List QItem :=
  [.produce .attach, .consume, .produce (.snap [(7, some (0, 0))]), .consume,
   .produce (.snap [(7, some (0, 1))]), .produce (.snap []), .produce (.snap [(7, some (0, 1))])]

example : (qrun Pq QSys.init itsBusy).queue.length = 3 ∧
    callsOf 7 (qrun Pq QSys.init itsBusy).cons.log = [⟨.init, 7, ⟨0, 0, 0⟩, none, false⟩] := by decide
example : callsOf 7 (qrun Pq QSys.init (itsBusy ++ [.consume, .consume, .consume])).cons.log =
    [⟨.init, 7, ⟨0, 0, 0⟩, none, false⟩, ⟨.inherit, 7, ⟨1, 0, 1⟩, some ⟨0, 0, 0⟩, false⟩,
     ⟨.close, 7, ⟨1, 0, 1⟩, none, false⟩, ⟨.init, 7, ⟨3, 0, 1⟩, none, false⟩] ∧
    (qrun Pq QSys.init (itsBusy ++ [.consume, .consume, .consume])).cons.store = [((0, 7), ⟨3, 0, 1⟩)] ∧
    (qrun Pq QSys.init (itsBusy ++ [.consume, .consume, .consume])).queue = [] := by decide

end EgVerif.C20
