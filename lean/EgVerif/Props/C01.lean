import EgVerif.Proofs.Mux
import EgVerif.Gen.FactsC01
import EgVerif.Proofs.MuxIR
import EgVerif.Proofs.MuxCache
import EgVerif.Proofs.MuxSearchIR
/-!
# C01 — HTTP routing: the first rule/path matching host, path, method and headers wins

Property theorems about `Model/Mux.lean` (`search`, `rewrite`, `serve`: line-by-line models of
`muxInstance.search` with the cache off, `MuxPath.rewrite`, and the prefix of
`muxInstance.serveHTTP`), for **every** rule set, request and regexp oracle. The reference router
is `Spec/Mux.lean` (`entries`, `full`, `route`). Helper lemmas: `Proofs/Mux.lean`.

"No IP filters" is expressed in two equivalent ways: the configuration has none (`NoFilters`), or
every filter allows (`unfiltered o`). The filtered statement is C05's (`Props/C05.lean`).
-/
namespace EgVerif.C01
open EgVerif.Mux EgVerif.Mux.Spec

/-- The configuration carries no IP filter at any level. -/
def NoFilters (c : Cfg) : Prop :=
  c.ipFilter = none ∧ ∀ r ∈ c.rules, r.ipFilter = none ∧ ∀ e ∈ r.paths, e.ipFilter = none

theorem applyingFrom_none (o : Oracle) (q : Req) : ∀ (rs : List Rule) (ri : Nat),
    (∀ r ∈ rs, r.ipFilter = none ∧ ∀ e ∈ r.paths, e.ipFilter = none) →
    ∀ f ∈ applyingFrom o q ri rs, f = none
  | [], _, _, f, hf => by simp [applyingFrom] at hf
  | r :: rs, ri, h, f, hf => by
    have hr := h r (by simp)
    have ih := applyingFrom_none o q rs (ri + 1) (fun r' hr' => h r' (by simp [hr']))
    simp only [applyingFrom] at hf
    split at hf
    · exact ih f hf
    · split at hf
      · rename_i a b e hfind
        have hm := List.mem_of_find?_eq_some hfind
        have he : e ∈ r.paths := by
          have := (mem_pathEntries.mp hm).2.2
          exact List.mem_of_getElem? this
        simp only [List.mem_cons, List.not_mem_nil, or_false] at hf
        rcases hf with hf | hf
        · rw [hf]; exact hr.1
        · rw [hf]; exact hr.2 e he
      · rcases List.mem_cons.mp hf with hf | hf
        · rw [hf]; exact hr.1
        · exact ih f hf

/-- **C01 central theorem**: without IP filters the two-level loop with its `headerMismatch` /
`methodMismatch` flags computes exactly the declarative reference router — first fully matching
entry in rule-then-path order, else 400 > 405 > 404. -/
theorem search_eq_spec (o : Oracle) (c : Cfg) (q : Req) (h : NoFilters c) :
    search o c q = route o c q := by
  rw [search_eq_routeF]
  have : denied o c q = false := by
    unfold denied applying deniedBy
    rw [List.any_eq_false]
    intro f hf
    have : f = none := by
      rcases List.mem_cons.mp hf with hf | hf
      · rw [hf]; exact h.1
      · exact applyingFrom_none o q c.rules 0 h.2 f hf
    subst this; simp [allowIP]
  simp [routeF, this]

/-- The same for any configuration when every filter allows. -/
theorem search_eq_spec_allow_all (o : Oracle) (c : Cfg) (q : Req) :
    search (unfiltered o) c q = route o c q := search_unfiltered o c q

/-- The entries of the reference router are exactly the paths of the host-matching rules,
identified by their configured positions. -/
theorem mem_entries_iff (o : Oracle) (c : Cfg) (q : Req) (ri pi : Nat) (e : PathEntry) :
    (ri, pi, e) ∈ entries o c q ↔
      ∃ r, c.rules[ri]? = some r ∧ hostOK o r q = true ∧ r.paths[pi]? = some e := by
  unfold entries; rw [mem_entriesFrom]; simp

/-- **First match wins**: a request is dispatched to entry `(ri, pi)` only if that entry belongs to
a host-matching rule, matches path, method and headers, and **no** entry earlier in
rule-then-path order (of a host-matching rule) matches completely. -/
theorem first_match_wins (o : Oracle) (c : Cfg) (q : Req) (ri pi : Nat) (e : PathEntry)
    (h : search (unfiltered o) c q = .path ri pi e) :
    (∃ r, c.rules[ri]? = some r ∧ hostOK o r q = true ∧ r.paths[pi]? = some e) ∧
    full o q (ri, pi, e) = true ∧
    ∀ ri' pi' r' e', (ri' < ri ∨ (ri' = ri ∧ pi' < pi)) → c.rules[ri']? = some r' →
      hostOK o r' q = true → r'.paths[pi']? = some e' → full o q (ri', pi', e') = false := by
  rw [search_unfiltered] at h
  unfold route routeOf at h
  split at h
  · rename_i a b e0 hfind
    injection h with h1 h2 h3
    subst h1 h2 h3
    refine ⟨(mem_entries_iff o c q _ _ _).mp (List.mem_of_find?_eq_some hfind), ?_, ?_⟩
    · have := List.find?_some hfind; exact this
    · intro ri' pi' r' e' hlt hr hh hp
      have hmem : (ri', pi', e') ∈ entries o c q := (mem_entries_iff o c q _ _ _).mpr ⟨r', hr, hh, hp⟩
      exact find?_first (pairwise_entriesFrom o q c.rules 0) hfind _ hmem hlt
  · cases h

/-- Completeness: the request is dispatched to a path **iff** some entry matches completely. -/
theorem dispatched_iff (o : Oracle) (c : Cfg) (q : Req) :
    (∃ ri pi e, search (unfiltered o) c q = .path ri pi e) ↔
      ∃ x ∈ entries o c q, full o q x = true := by
  rw [search_unfiltered]; unfold route routeOf
  constructor
  · rintro ⟨ri, pi, e, h⟩
    split at h
    · rename_i hfind
      exact ⟨_, List.mem_of_find?_eq_some hfind, List.find?_some hfind⟩
    · cases h
  · rintro ⟨x, hx, hf⟩
    cases hfind : (entries o c q).find? (full o q) with
    | none => rw [List.find?_eq_none] at hfind; exact absurd hf (hfind x hx)
    | some y => obtain ⟨a, b, e⟩ := y; exact ⟨a, b, e, rfl⟩

/-- **Status precedence** when no entry matches completely: 400 iff some entry matched path and
method but failed its header condition; otherwise 405 iff some entry matched the path but not the
method; otherwise 404. No other failure code is produced without IP filters. -/
theorem status_precedence (o : Oracle) (c : Cfg) (q : Req) (n : Nat)
    (h : search (unfiltered o) c q = .code n) :
    (∀ x ∈ entries o c q, full o q x = false) ∧
    (n = 400 ↔ ∃ x ∈ entries o c q, hdrFail o q x = true) ∧
    (n = 405 ↔ (∀ x ∈ entries o c q, hdrFail o q x = false) ∧ ∃ x ∈ entries o c q, methFail o q x = true) ∧
    (n = 404 ↔ (∀ x ∈ entries o c q, hdrFail o q x = false) ∧ ∀ x ∈ entries o c q, methFail o q x = false) ∧
    (n = 400 ∨ n = 405 ∨ n = 404) := by
  rw [search_unfiltered] at h
  unfold route routeOf at h
  split at h
  · cases h
  · rename_i hnone
    injection h with h
    refine ⟨fun x hx => by simpa using (List.find?_eq_none.mp hnone) x hx, ?_⟩
    unfold failCode at h
    simp only [Bool.false_or] at h
    cases h4 : (entries o c q).any (hdrFail o q)
    · have n4 : ∀ x ∈ entries o c q, hdrFail o q x = false := List.any_eq_false.mp h4 |> fun f x hx => by simpa using f x hx
      cases h5 : (entries o c q).any (methFail o q)
      · have n5 : ∀ x ∈ entries o c q, methFail o q x = false := List.any_eq_false.mp h5 |> fun f x hx => by simpa using f x hx
        simp [h4, h5] at h
        subst h
        refine ⟨⟨by omega, ?_⟩, ⟨by omega, ?_⟩, ⟨fun _ => ⟨n4, n5⟩, fun _ => rfl⟩, by omega⟩
        · rintro ⟨x, hx, hf⟩; rw [n4 x hx] at hf; cases hf
        · rintro ⟨_, x, hx, hf⟩; rw [n5 x hx] at hf; cases hf
      · have e5 := List.any_eq_true.mp h5
        simp [h4, h5] at h
        subst h
        refine ⟨⟨by omega, ?_⟩, ⟨fun _ => ⟨n4, e5⟩, fun _ => rfl⟩, ⟨by omega, ?_⟩, by omega⟩
        · rintro ⟨x, hx, hf⟩; rw [n4 x hx] at hf; cases hf
        · rintro ⟨_, h6⟩; obtain ⟨x, hx, hf⟩ := e5; rw [h6 x hx] at hf; cases hf
    · have e4 := List.any_eq_true.mp h4
      simp [h4] at h
      subst h
      refine ⟨⟨fun _ => e4, fun _ => rfl⟩, ⟨by omega, ?_⟩, ⟨by omega, ?_⟩, by omega⟩
      · rintro ⟨h6, _⟩; obtain ⟨x, hx, hf⟩ := e4; rw [h6 x hx] at hf; cases hf
      · rintro ⟨h6, _⟩; obtain ⟨x, hx, hf⟩ := e4; rw [h6 x hx] at hf; cases hf

/-! ### Rewrite -/

/-- **Rewrite**: exactly as `rewriteTarget` specifies — empty target leaves the path alone; an exact
match replaces the whole path; a prefix match replaces the prefix; otherwise the regexp's
`ReplaceAllString`. -/
theorem rewrite_spec (σ : Nat → String → String → String) (e : PathEntry) (p : String) :
    (e.rewriteTarget = "" → rewrite σ e p = some p) ∧
    (e.rewriteTarget ≠ "" → e.path ≠ "" → e.path = p → rewrite σ e p = some e.rewriteTarget) ∧
    (e.rewriteTarget ≠ "" → ¬(e.path ≠ "" ∧ e.path = p) → e.pathPrefix ≠ "" →
      e.pathPrefix.isPrefixOf p = true →
      rewrite σ e p = some (e.rewriteTarget ++ String.ofList (p.toList.drop e.pathPrefix.length))) ∧
    (∀ i, e.rewriteTarget ≠ "" → ¬(e.path ≠ "" ∧ e.path = p) →
      ¬(e.pathPrefix ≠ "" ∧ e.pathPrefix.isPrefixOf p = true) → e.pathRE = some i →
      rewrite σ e p = some (σ i p e.rewriteTarget)) := by
  refine ⟨?_, ?_, ?_, ?_⟩
  · intro h; simp [rewrite, h]
  · intro h1 h2 h3; subst h3; simp [rewrite, h1, h2]
  · intro h1 h2 h3 h4
    have : (e.path != "" && e.path == p) = false := by
      cases hh : (e.path != "" && e.path == p)
      · rfl
      · exfalso; apply h2; simpa using hh
    simp [rewrite, h1, this, h3, h4]
  · intro i h1 h2 h3 h4
    have a : (e.path != "" && e.path == p) = false := by
      cases hh : (e.path != "" && e.path == p)
      · rfl
      · exfalso; apply h2; simpa using hh
    have b : (e.pathPrefix != "" && e.pathPrefix.isPrefixOf p) = false := by
      cases hh : (e.pathPrefix != "" && e.pathPrefix.isPrefixOf p)
      · rfl
      · exfalso; apply h3; simpa using hh
    simp [rewrite, h1, a, b, h4]

/-- `Path.Validate`: a rewrite target needs something to match against. -/
def PathValid (e : PathEntry) : Prop :=
  e.rewriteTarget ≠ "" → ¬(e.path = "" ∧ e.pathPrefix = "" ∧ e.pathRE = none)

/-- For a validated path that matched the request, `rewrite` never reaches the nil `pathRE`
(the Go comment "sure (mp.pathRE != nil && …) is true"), and yields the specified path. -/
theorem rewrite_total (o : Oracle) (σ : Nat → String → String → String) (e : PathEntry) (q : Req)
    (hv : PathValid e) (hm : matchPath o e q = true) :
    rewrite σ e q.path = some (rewritten σ e q.path) := by
  unfold rewrite rewritten
  split
  · rfl
  · rename_i ht
    split
    · rfl
    · rename_i h1
      split
      · rfl
      · rename_i h2
        cases hre : e.pathRE with
        | some i => rfl
        | none =>
          exfalso
          unfold matchPath at hm
          simp only [h1, h2, hre, reMatch, Bool.false_eq_true, if_false] at hm
          have ht' : e.rewriteTarget ≠ "" := by simpa using ht
          apply hv ht'
          simp at hm
          exact ⟨hm.1, hm.2, hre⟩

/-! ### `serveHTTP` up to the handler -/

/-- A failure route becomes the response status and no handler runs. -/
theorem code_route_sets_status (o : Oracle) (σ : Nat → String → String → String) (c : Cfg) (x : Bool)
    (bs : List String) (q : Req) (n : Nat) (h : search o c q = .code n) :
    serve o σ c x bs q = .status n := by
  simp [serve, serveRoute, h]

/-- A matched backend name that does not exist yields 503 and no handler runs. -/
theorem unknown_backend_503 (o : Oracle) (σ : Nat → String → String → String) (c : Cfg) (x : Bool)
    (bs : List String) (q : Req) (ri pi : Nat) (e : PathEntry) (h : search o c q = .path ri pi e)
    (hb : e.backend ∉ bs) : serve o σ c x bs q = .status 503 := by
  simp [serve, serveRoute, h, hb]

/-- A handler runs only for a matched route whose backend exists, and it is that backend. -/
theorem handled_only_matched (o : Oracle) (σ : Nat → String → String → String) (c : Cfg) (x : Bool)
    (bs : List String) (q : Req) (b p hst xf : String) (h : serve o σ c x bs q = .handled b p hst xf) :
    ∃ ri pi e, search o c q = .path ri pi e ∧ e.backend = b ∧ b ∈ bs ∧ rewrite σ e q.path = some p ∧
      hst = q.host := by
  unfold serve serveRoute at h
  split at h
  · cases h
  · rename_i ri pi e hs
    split at h
    · cases h
    · rename_i hb
      split at h
      · cases h
      · rename_i p' hrw
        injection h with h1 h2 h3 h4
        refine ⟨ri, pi, e, hs, h1, ?_, by rw [hrw, h2], h3.symm⟩
        rw [← h1]; simpa using hb

/-- Every path of every rule satisfies `Path.Validate`. -/
def CfgValid (c : Cfg) : Prop := ∀ r ∈ c.rules, ∀ e ∈ r.paths, PathValid e

/-- The model's own behaviour is accepted by the executable specification the judge applies to
the implementation (`Spec.expect` / `Spec.satisfies`), for every validated configuration — with
or without IP filters. -/
theorem serve_satisfies_spec (o : Oracle) (σ : Nat → String → String → String) (c : Cfg) (x : Bool)
    (bs : List String) (q : Req) (hv : CfgValid c) :
    satisfies (expect o σ c bs q) (serve o σ c x bs q) = true := by
  unfold serve expect
  rw [search_eq_routeF]
  cases hr : routeF o c q with
  | code n => simp [serveRoute, satisfies]
  | path ri pi e =>
    simp only [serveRoute]
    cases hb : bs.contains e.backend
    · simp [satisfies]
    · -- the entry is a validated, path-matching entry of the configuration
      have hroute : route o c q = .path ri pi e := by
        unfold routeF at hr; split at hr
        · cases hr
        · exact hr
      have hfm := first_match_wins o c q ri pi e (by rw [search_unfiltered]; exact hroute)
      obtain ⟨⟨r, hr1, _, hr3⟩, hfull, _⟩ := hfm
      have hpv : PathValid e := hv r (List.mem_of_getElem? hr1) e (List.mem_of_getElem? hr3)
      have hmp : matchPath o e q = true := by
        unfold full at hfull
        simp only [Bool.and_eq_true] at hfull
        rw [← pathOK_eq]; exact hfull.1.1
      rw [rewrite_total o σ e q hpv hmp]
      simp [satisfies]

/-! ### Host port, X-Forwarded-For (Extension mux) -/

/-- **Port ignored**: the routing decision reads the `Host` header only through its port-stripped form
(`hostNoPort`; that this *is* `net.SplitHostPort` of the raw host is `match_regenerated_from_source`).
Two requests that differ only in the raw `Host` — another port, or none — get the same route, for
every rule set (exact hosts and host regexps alike), with or without IP filters. -/
theorem search_port_insensitive (o : Oracle) (c : Cfg) (q : Req) (h : String) :
    search o c (withHost q h) = search o c q := by
  have h4 : (withHost q h).ip = q.ip := rfl
  simp only [search, h4, searchRules_withHost]

/-- … and the handler then sees the same path / X-Forwarded-For and the raw `Host` it was sent. -/
theorem serve_port_insensitive (o : Oracle) (σ : Nat → String → String → String) (c : Cfg) (x : Bool)
    (bs : List String) (q : Req) (h : String) :
    serve o σ c x bs (withHost q h) =
      match serve o σ c x bs q with
      | .handled b p _ xf => .handled b p h xf
      | other => other := by
  simp only [serve, search_port_insensitive]
  cases search o c q with
  | code n => rfl
  | path ri pi e =>
    simp only [serveRoute]
    split
    · rfl
    · have hp : (withHost q h).path = q.path := rfl
      rw [hp]
      cases rewrite σ e q.path <;> rfl

/-- **`appendXForwardedFor`**: an empty header becomes the client address; a header that already
contains it (`strings.Contains`) is left alone; otherwise `,address` is appended; in every case the
resulting header contains the address. -/
theorem xff_after (v ip : String) :
    (v = "" → xffAfter v ip = ip) ∧
    (v ≠ "" → isInfix ip.toList v.toList = true → xffAfter v ip = v) ∧
    (v ≠ "" → isInfix ip.toList v.toList = false → xffAfter v ip = v ++ "," ++ ip) ∧
    isInfix ip.toList (xffAfter v ip).toList = true := by
  refine ⟨?_, ?_, ?_, ?_⟩
  · intro h; simp [xffAfter, h]
  · intro h1 h2; simp [xffAfter, h1, h2]
  · intro h1 h2; simp [xffAfter, h1, h2]
  · unfold xffAfter
    split
    · have := isInfix_append_left ip.toList []; simpa using this
    · split
      · assumption
      · have := isInfix_append_left ip.toList (v.toList ++ [','])
        simpa [String.toList_append] using this

/-- Appending is idempotent: a second hop with the same client address does not grow the header. -/
theorem xff_idempotent (v ip : String) (h : xffAfter v ip ≠ "") :
    xffAfter (xffAfter v ip) ip = xffAfter v ip :=
  (xff_after (xffAfter v ip) ip).2.1 h (xff_after v ip).2.2.2

/-- The handler sees the appended header exactly when `spec.XForwardedFor` is set. -/
theorem handled_xff (o : Oracle) (σ : Nat → String → String → String) (c : Cfg) (x : Bool)
    (bs : List String) (q : Req) (b p hst xf : String) (h : serve o σ c x bs q = .handled b p hst xf) :
    xf = if x then xffAfter (q.get xffKey) q.ip else q.get xffKey := by
  unfold serve serveRoute at h
  split at h
  · cases h
  · split at h
    · cases h
    · split at h
      · cases h
      · injection h with _ _ _ h4; exact h4.symm

example : xffAfter "" "1.2.3.4" = "1.2.3.4" ∧ xffAfter "9.9.9.9" "1.2.3.4" = "9.9.9.9,1.2.3.4" ∧
    xffAfter "9.9.9.9,1.2.3.4" "1.2.3.4" = "9.9.9.9,1.2.3.4" ∧ xffAfter "11.2.3.45" "1.2.3.4" = "11.2.3.45" := by decide

/-! ### Facts regenerated from `mux.go` on every run -/

/-- The route codes, the 503 of a `GetHandler` miss, the order of the two tail tests of
`search` (header mismatch before method mismatch) and the order of the steps of `serveHTTP`
(search → GetHandler → rewrite → appendXForwardedFor → FetchPayload → Handle) are as modelled. -/
theorem mux_facts :
    Gen.FactsC01.extractionFailed = false ∧
    Gen.FactsC01.routeCodes = [("notFound", 404), ("forbidden", 403), ("methodNotAllowed", 405), ("badRequest", 400)] ∧
    Gen.FactsC01.unknownBackendStatus = 503 ∧
    Gen.FactsC01.searchTailConds = ["headerMismatch", "methodMismatch"] ∧
    Gen.FactsC01.serveCallOrder = ["search", "GetHandler", "rewrite", "appendXForwardedFor", "FetchPayload", "Handle"] ∧
    Gen.FactsC01.searchLoopOrder = ["match", "matchPath", "matchMethod", "matchHeaders"] := by decide

/-! ### Non-vacuity -/

private def oEx : Oracle := { ρ := fun _ s => s == "/r/x", allow := fun _ _ => true }
private def hcEx : HeaderCond := ⟨"X-A", ["1"], none⟩
/-- Three rules; entry 2.1 (rule index 2, path index 1) is reached only after a header mismatch in
entry 0.1 and a method mismatch in 0.0; rule 1 does not match the host. -/
private def cEx : Cfg := { rules := [
  { host := "a", paths := [{ path := "/x", methods := ["POST"], backend := "b0" },
                           { path := "/x/1", headers := [hcEx], backend := "b1" }] },
  { host := "other", paths := [{ backend := "b2" }] },
  { hostRE := some 0, paths := [{ path := "/y", backend := "b3" },
                                 { path := "/x/1", rewriteTarget := "/r", backend := "b4" },
                                 { backend := "b5" }] } ] }
private def qEx : Req := { host := "a:80", hostNoPort := "a", method := "GET", path := "/x/1", hdr := [("X-A", "2")], ip := "1.2.3.4" }
private def oEx2 : Oracle := { ρ := fun _ s => s == "a", allow := fun _ _ => true }

example : NoFilters cEx := by
  refine ⟨rfl, ?_⟩
  intro r hr
  simp [cEx] at hr
  rcases hr with rfl | rfl | rfl <;> simp

example : CfgValid cEx := by
  intro r hr e he
  simp [cEx] at hr
  rcases hr with rfl | rfl | rfl <;> simp at he <;> (try rcases he with rfl | rfl | rfl) <;> (try rcases he with rfl | rfl) <;> (try subst he) <;> simp [PathValid]

example : search oEx2 cEx qEx = .path 2 1 { path := "/x/1", rewriteTarget := "/r", backend := "b4" } := by decide
example : serve oEx2 (fun _ p _ => p) cEx false ["b4"] qEx = .handled "b4" "/r" "a:80" "" := by decide
example : serve oEx2 (fun _ p _ => p) cEx false ["b0"] qEx = .status 503 := by decide
/-- the port is ignored: `a:80`, `a:8443` and `a` are routed alike (all have hostNoPort `a`) -/
example : search oEx2 cEx (withHost qEx "a:8443") = search oEx2 cEx qEx ∧ search oEx2 cEx (withHost qEx "a") = search oEx2 cEx qEx ∧
    serve oEx2 (fun _ p _ => p) cEx false ["b4"] (withHost qEx "a") = .handled "b4" "/r" "a" "" := by decide
/-- without rule 2 the same request gets 400 (header mismatch beats the method mismatch). -/
example : search oEx cEx qEx = .code 400 := by decide
example : search oEx cEx { qEx with hdr := [("X-A", "1")] } = .path 0 1 { path := "/x/1", headers := [hcEx], backend := "b1" } := by decide
/-- only the method mismatch of entry 0.0 is seen: 405; an unknown path: 404. -/
example : search oEx cEx { qEx with path := "/x" } = .code 405 := by decide
example : search oEx cEx { qEx with path := "/zz" } = .code 404 := by decide

/-! ### Regenerated tie by translation (`notes/IR.md`)

The `…IR` definitions are re-translated on every run from the current Go bodies (go/ast → Lean,
`harness/factextract/irlib.go`, loops as generated structural recursion); each equals the hand-written
model function on every input and oracle. Proofs: `Proofs/MuxIR.lean`. -/

/-- `muxRule.match` (`sp` = `net.SplitHostPort`, `none` on error). -/
theorem match_regenerated_from_source (o : Oracle) (sp : String → Option String) (r : Rule) (q : Req)
    (h : q.hostNoPort = (sp q.host).getD q.host) :
    Gen.FactsC01IR.extractionFailed = false ∧ Gen.FactsC01IR.ruleMatchIR o sp r q = ruleMatch o r q :=
  ⟨by decide, Mux.match_regenerated_from_source o sp r q h⟩

/-- `MuxPath.matchPath`. -/
theorem matchPath_regenerated_from_source (o : Oracle) (e : PathEntry) (q : Req) :
    Gen.FactsC01IR.extractionFailed = false ∧ Gen.FactsC01IR.matchPathIR o e q = matchPath o e q :=
  ⟨by decide, Mux.matchPath_regenerated_from_source o e q⟩

/-- `MuxPath.matchMethod`. -/
theorem matchMethod_regenerated_from_source (o : Oracle) (e : PathEntry) (q : Req) :
    Gen.FactsC01IR.extractionFailed = false ∧ Gen.FactsC01IR.matchMethodIR o e q = matchMethod e q :=
  ⟨by decide, Mux.matchMethod_regenerated_from_source o e q⟩

/-- `MuxPath.matchHeaders` (both `range` loops). -/
theorem matchHeaders_regenerated_from_source (o : Oracle) (e : PathEntry) (q : Req) :
    Gen.FactsC01IR.extractionFailed = false ∧ Gen.FactsC01IR.matchHeadersIR o e q = matchHeaders o e q :=
  ⟨by decide, Mux.matchHeaders_regenerated_from_source o e q⟩

/-- `MuxPath.rewrite` (`none` = nil dereference of `mp.pathRE`). -/
theorem rewrite_regenerated_from_source (σ : Nat → String → String → String) (e : PathEntry) (q : Req) :
    Gen.FactsC01IR.extractionFailed = false ∧ Gen.FactsC01IR.rewriteIR σ e q = rewrite σ e q.path :=
  ⟨by decide, Mux.rewrite_regenerated_from_source σ e q⟩

/-- **`muxInstance.search`** (Extension mux): `Gen.FactsMuxIR.searchIR` is re-translated on every run from
the current body of `search` — both loops with their `continue`s, the `headerMismatch` / `methodMismatch`
flags, the three IP checks through the inlined local closure `allow`, the 400 / 405 / 404 tail. With the
cache lookup answering nil (always so with `cache == nil`, C01's setting) the route it returns is the
model's cache-less `search`, for all configurations, requests and oracles (`routeGo`: the Go route has
no rule / path indices). The cached half of the same generated definition is C12's. -/
theorem search_regenerated_from_source (o : Oracle) (c : Cfg) (q : Req) :
    Gen.FactsMuxIR.extractionFailed = false ∧
    (Gen.FactsMuxIR.searchIR o c q none).1 = MuxCache.routeGo (search o c q) := by
  refine ⟨by decide, ?_⟩
  rw [MuxCache.search_regenerated_from_source, MuxCache.searchMiss_fst]

/-- `allowIP` (nil filter allows; `none` would be a nil dereference). -/
theorem allowIP_regenerated_from_source (o : Oracle) (f : Option Nat) (ip : String) :
    Gen.FactsMuxIR.extractionFailed = false ∧ Gen.FactsMuxIR.allowIPIR o f ip = some (allowIP o f ip) :=
  ⟨by decide, MuxCache.allowIP_regenerated_from_source o f ip⟩

/-- **`Path.Validate`** (audit repair): the hypothesis `PathValid` of `rewrite_total` / `serve_satisfies_spec`
was a hand transcription of `spec.go`; the body of `Path.Validate` is now re-translated on every run and
`PathValid e` is exactly "`Validate` returns no error" (`PathRegexp` non-empty ⇔ `pathRE` compiled). -/
theorem pathValidate_regenerated_from_source (e : PathEntry) :
    Gen.FactsC01IR.extractionFailed = false ∧ (Gen.FactsC01IR.pathValidateIR e = false ↔ PathValid e) := by
  refine ⟨by decide, ?_⟩
  unfold Gen.FactsC01IR.pathValidateIR Gen.FactsC01IR.reSrc PathValid
  cases h : e.pathRE <;> by_cases h1 : e.path = "" <;> by_cases h2 : e.pathPrefix = "" <;>
    by_cases h3 : e.rewriteTarget = "" <;> simp [h1, h2, h3]

/-- non-vacuity of the X-Forwarded-For theorems: with `spec.XForwardedFor` the handler sees the appended
header; a second append of the same address changes nothing -/
example : serve oEx2 (fun _ p _ => p) cEx true ["b4"] { qEx with hdr := [("X-A", "2"), ("X-Forwarded-For", "9.9.9.9")] }
    = .handled "b4" "/r" "a:80" "9.9.9.9,1.2.3.4" := by decide
example : xffAfter "9.9.9.9" "1.2.3.4" ≠ "" ∧ xffAfter (xffAfter "9.9.9.9" "1.2.3.4") "1.2.3.4" = "9.9.9.9,1.2.3.4" := by decide

end EgVerif.C01
