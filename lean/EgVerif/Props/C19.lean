import EgVerif.Proofs.Syncer
import EgVerif.Gen.FactsC19
/-!
# C19 — syncer snapshots are real store states and converge to the final state

Theorems about `Model.Syncer.run` (mirror of `syncer.run` / `pullCompareSend` / `isDataEqual`),
for **every** store history `S`, **every** interleaving of writes, ticker firings, delivered
or lost watch events, watch cancellations, progress notifications, and **every** outcome of
every pull (failure, or any store state between the previously read one and the current
one — `validRun`). `S i` is only required to be a map (`IsMap`, distinct keys).

`sentRev` lists the snapshots newest first; `sent st` is delivery order.
-/
namespace EgVerif.C19
open EgVerif.Syncer

/-- Snapshots in delivery order. -/
def sent (st : St) : List (Nat × Data) := st.sentRev.reverse

/-- `isDataEqual` decides equality of the two maps (key → (Key, Value)). -/
theorem dataEqual_iff {d1 d2 : Data} (h1 : IsMap d1) (h2 : IsMap d2) :
    isDataEqual d1 d2 = true ↔ MapEq d1 d2 := dataEqual_mapEq h1 h2

/-- `isKeyValueEqual` is equality on (Key, Value) with nil handling. -/
theorem keyValueEqual_iff (a b : Option KV) : isKeyValueEqual a b = true ↔ a = b :=
  isKeyValueEqual_iff a b

section
variable {S : Nat → Data} (hS : ∀ i, IsMap (S i)) (pre : Nat) (r0 : Option Nat) (evs : List Ev)
  (hv : validRun S pre r0 evs = true)
include hS hv

/-- **No phantom state**: every snapshot handed to `send` is the content `S i` the store had
after `i` writes, for an `i` that is not in the future. -/
theorem snapshots_real : ∀ p ∈ sent (run S pre r0 evs), p.2 = S p.1 ∧ p.1 ≤ (run S pre r0 evs).cur := by
  intro p hp
  have inv := inv_run hS pre r0 evs hv
  have hp' : p ∈ (run S pre r0 evs).sentRev := List.mem_reverse.mp hp
  exact ⟨(inv.real p hp').1, le_trans (inv.real p hp').2 inv.idx_le⟩

/-- **Store order**: the snapshots are delivered in strictly increasing store order. -/
theorem monotone : ((sent (run S pre r0 evs)).map Prod.fst).Pairwise (· < ·) := by
  have inv := inv_run hS pre r0 evs hv
  unfold sent
  rw [List.map_reverse, List.pairwise_reverse]
  exact List.pairwise_map.mpr inv.sorted

/-- Newest-first chain of maps that differ pairwise-consecutively; the oldest is not empty. -/
def Differs : List (Nat × Data) → Prop
  | [] => True
  | [(_, d)] => ¬ MapEq [] d
  | (_, d2) :: (i1, d1) :: rest => ¬ MapEq d1 d2 ∧ Differs ((i1, d1) :: rest)

omit hS hv in
theorem differs_of_chain (hS : ∀ i, IsMap (S i)) : ∀ (l : List (Nat × Data)), (∀ p ∈ l, p.2 = S p.1) →
    DifferChain l → Differs l
  | [], _, _ => trivial
  | [(i, d)], hr, hc => by
    have hd : IsMap d := by have := hr (i, d) (by simp); simp only at this; rw [this]; exact hS i
    simp only [DifferChain] at hc
    intro hm
    rw [(dataEqual_mapEq (by simp [IsMap, keys]) hd).mpr hm] at hc; cases hc
  | (i2, d2) :: (i1, d1) :: rest, hr, hc => by
    have hd2 : IsMap d2 := by have := hr (i2, d2) (by simp); simp only at this; rw [this]; exact hS i2
    have hd1 : IsMap d1 := by have := hr (i1, d1) (by simp); simp only at this; rw [this]; exact hS i1
    simp only [DifferChain] at hc
    refine ⟨fun hm => ?_, differs_of_chain hS _ (fun p hp => hr p (List.mem_cons_of_mem _ hp)) hc.2⟩
    rw [(dataEqual_mapEq hd1 hd2).mpr hm] at hc; exact absurd hc.1 (by simp)

/-- **No duplicates**: consecutive snapshots differ as maps, and the first snapshot differs
from the empty map (the consumer's implicit initial view). -/
theorem consecutive_differ : Differs (run S pre r0 evs).sentRev := by
  have inv := inv_run hS pre r0 evs hv
  exact differs_of_chain hS _ (fun p hp => (inv.real p hp).1) inv.differ

/-- The consumer's view always equals the local `data` of `run`, and after a successful pull
that is the store state the pull returned. -/
theorem view_tracks : (run S pre r0 evs).last = view (run S pre r0 evs) ∧
    ((run S pre r0 evs).pulled = true → MapEq (view (run S pre r0 evs)) (S (run S pre r0 evs).idx)) := by
  have inv := inv_run hS pre r0 evs hv
  refine ⟨inv.last_view, fun hp => ?_⟩
  have hmap : IsMap (view (run S pre r0 evs)) := by
    unfold view
    split
    · simp [IsMap, keys]
    · rename_i i d tl heq
      have := (inv.real (i, d) (by rw [heq]; simp)).1
      simp only at this; rw [this]; exact hS i
  rw [← inv.last_view] at hmap ⊢
  exact (dataEqual_mapEq hmap (hS _)).mp (inv.tracks hp)

/-- **Convergence**: after an arbitrary valid past (watch events lost, watch cancelled, pulls
failed, snapshots skipped — anything), one successful pull that reads the current store state
(what a linearizable `Get` issued after the last write returns), triggered by the ticker or
by a watch event, makes the consumer's view equal to the current store content. No further
write is needed. -/
theorem converges (e : Ev) (he : e = Ev.tick (some (run S pre r0 evs).cur) ∨
    e = Ev.watchEvent (some (run S pre r0 evs).cur)) :
    MapEq (view (step S (run S pre r0 evs) e)) (S (run S pre r0 evs).cur) := by
  have inv := inv_run hS pre r0 evs hv
  have hok : okEv (run S pre r0 evs) e = true := by
    rcases he with rfl | rfl <;> simp [okEv, okOutcome, inv.idx_le]
  have inv' := inv_step hS inv e hok
  have hidx : (step S (run S pre r0 evs) e).idx = (run S pre r0 evs).cur ∧
      (step S (run S pre r0 evs) e).pulled = true := by
    rcases he with rfl | rfl <;> (simp only [step, pullCompareSend]; split <;> simp)
  have hmap : IsMap (view (step S (run S pre r0 evs) e)) := by
    unfold view
    split
    · simp [IsMap, keys]
    · rename_i i d tl heq
      have := (inv'.real (i, d) (by rw [heq]; simp)).1
      simp only at this; rw [this]; exact hS i
  have := inv'.tracks hidx.2
  rw [hidx.1, inv'.last_view] at this
  exact (dataEqual_mapEq hmap (hS _)).mp this

/-- **Stability**: once the view equals the current content, further ticks / watch events /
cancellations / progress notifications without a write deliver nothing. -/
theorem stable_after_convergence (e : Ev) (hne : e ≠ Ev.write) (hok : okEv (run S pre r0 evs) e = true)
    (hconv : (run S pre r0 evs).pulled = true ∧ (run S pre r0 evs).idx = (run S pre r0 evs).cur) :
    (step S (run S pre r0 evs) e).sentRev = (run S pre r0 evs).sentRev := by
  have inv := inv_run hS pre r0 evs hv
  have key : ∀ r, okOutcome (run S pre r0 evs) r = true →
      (pullCompareSend S (run S pre r0 evs) r).sentRev = (run S pre r0 evs).sentRev := by
    intro r hr
    cases r with
    | none => rfl
    | some i =>
      simp only [okOutcome, Bool.and_eq_true, decide_eq_true_eq] at hr
      have hi : i = (run S pre r0 evs).idx := by omega
      have := inv.tracks hconv.1
      simp only [pullCompareSend, hi, this, Bool.not_true, Bool.false_eq_true, ↓reduceIte]
  cases e with
  | write => exact absurd rfl hne
  | tick r => exact key r hok
  | watchEvent r => exact key r hok
  | watchCancel => rfl
  | progress => rfl

end

/-- `isDataEqual` against the empty map only accepts the empty map. -/
theorem isDataEqual_nil (d : Data) : isDataEqual [] d = true ↔ d = [] := by
  cases d <;> simp [isDataEqual]

/-- **First delivers the current content**: the initial pull hands the content it read to
`send` at once — unless that content is empty, in which case nothing is sent and the
consumer's implicit empty view is already right. -/
theorem first_is_current (S : Nat → Data) (pre i : Nat) :
    (S i ≠ [] → (run S pre (some i) []).sentRev = [(i, S i)]) ∧
    (S i = [] → (run S pre (some i) []).sentRev = [] ∧ view (run S pre (some i) []) = S i) := by
  constructor
  · intro h
    have : isDataEqual [] (S i) = false := by
      cases hh : isDataEqual [] (S i)
      · rfl
      · exact absurd ((isDataEqual_nil _).mp hh) h
    simp [run, loop, pullCompareSend, St.start, this]
  · intro h
    simp [run, loop, pullCompareSend, St.start, h, isDataEqual, view]

/-! ### Adapters -/

/-- `Sync(key)` delivers exactly the store's value of the key (nil when absent). -/
theorem sync_value_of_key (key : String) (s : Store) :
    sendSync key (restrict false key s) = s.lookup key := by
  induction s with
  | nil => rfl
  | cons e rest ih =>
    obtain ⟨k, v⟩ := e
    by_cases hk : k = key
    · subst hk; simp [restrict, sendSync, List.lookup]
    · have h1 : (k == key) = false := by simpa using hk
      have h2 : (key == k) = false := by simpa using fun h : key = k => hk h.symm
      simp only [restrict, Bool.false_eq_true, ↓reduceIte, List.filter_cons, h1, List.lookup, h2] at ih ⊢
      exact ih

/-- `SyncRaw(key)` delivers the stored (Key, Value) or nil. -/
theorem syncraw_value_of_key (key : String) (s : Store) :
    sendSyncRaw key (restrict false key s) = (s.lookup key).map fun v => ⟨key, v⟩ := by
  induction s with
  | nil => rfl
  | cons e rest ih =>
    obtain ⟨k, v⟩ := e
    by_cases hk : k = key
    · subst hk; simp [restrict, sendSyncRaw, List.lookup]
    · have h1 : (k == key) = false := by simpa using hk
      have h2 : (key == k) = false := by simpa using fun h : key = k => hk h.symm
      simp only [restrict, Bool.false_eq_true, ↓reduceIte, List.filter_cons, h1, List.lookup, h2] at ih ⊢
      exact ih

/-- `SyncPrefix(prefix)` never hits a nil entry on pulled data and delivers exactly the
key → value pairs under the prefix. -/
theorem syncprefix_values (p : String) (s : Store) :
    sendSyncPrefix (restrict true p s) = some (s.filter fun e => p.isPrefixOf e.1) := by
  induction s with
  | nil => rfl
  | cons e rest ih =>
    obtain ⟨k, v⟩ := e
    simp only [restrict, ↓reduceIte, List.filter_cons] at ih ⊢
    by_cases hk : p.isPrefixOf k = true
    · simp only [hk, ↓reduceIte, List.map_cons, sendSyncPrefix, ih, Option.map_some]
    · have : p.isPrefixOf k = false := by simpa using hk
      simp only [this, Bool.false_eq_true, ↓reduceIte]; exact ih

/-- `SyncRawPrefix` delivers a copy of the pulled map. -/
theorem syncrawprefix_copy (d : Data) : sendSyncRawPrefix d = d := by
  simp [sendSyncRawPrefix]

/-! ### The judge's store states are maps (the hypothesis `IsMap (S i)` is met) -/

def StoreMap (s : Store) : Prop := (s.map Prod.fst).Nodup

theorem storeMap_filter {s : Store} (h : StoreMap s) (f : String × String → Bool) : StoreMap (s.filter f) :=
  List.Nodup.sublist (List.Sublist.map _ List.filter_sublist) h

theorem storeMap_apply1 {s : Store} (h : StoreMap s) (o : Sub) : StoreMap (s.apply1 o) := by
  cases o with
  | put k v =>
    simp only [Store.apply1, StoreMap, List.map_cons, List.nodup_cons]
    refine ⟨fun hm => ?_, storeMap_filter h _⟩
    obtain ⟨e, he, hk⟩ := List.mem_map.mp hm
    have := (List.mem_filter.mp he).2
    simp [hk] at this
  | del k => exact storeMap_filter h _
  | delPrefix p => exact storeMap_filter h _

theorem storeMap_write {s : Store} (h : StoreMap s) (w : List Sub) : StoreMap (s.write w) := by
  unfold Store.write
  induction w generalizing s with
  | nil => exact h
  | cons o rest ih => exact ih (storeMap_apply1 h o)

theorem restrict_isMap {s : Store} (h : StoreMap s) (pfx : Bool) (key : String) :
    IsMap (restrict pfx key s) := by
  unfold restrict IsMap keys
  rw [List.map_map]
  exact List.Nodup.sublist (List.Sublist.map _ List.filter_sublist) h

theorem storeStates_isMap : ∀ (ws : List (List Sub)) {s : Store}, StoreMap s → ∀ (pfx : Bool) (key : String),
    ∀ d ∈ (storeStates s ws).map (restrict pfx key), IsMap d
  | [], s, h, pfx, key, d, hd => by
    simp only [storeStates, List.map_cons, List.map_nil, List.mem_singleton] at hd
    subst hd; exact restrict_isMap h pfx key
  | w :: ws, s, h, pfx, key, d, hd => by
    simp only [storeStates, List.map_cons, List.mem_cons] at hd
    rcases hd with rfl | hd
    · exact restrict_isMap h pfx key
    · exact storeStates_isMap ws (storeMap_write h w) pfx key d hd

/-! ### Facts regenerated from `syncer.go` on every run -/

/-- The shape of `run` the model mirrors: one `pullCompareSend()` before the loop; the `select`
has exactly the cases done / ticker / watch; the ticker case pulls; the watch case first
handles `resp.Canceled` by re-creating the watcher and `continue`, then skips progress
notifications, then pulls; `send` is called exactly once, guarded by `!isDataEqual(data, newData)`
after `data = newData`; a failed pull returns without touching `data`. -/
theorem run_shape :
    Gen.FactsC19.extractionFailed = false ∧
    Gen.FactsC19.initialPullBeforeLoop = true ∧
    Gen.FactsC19.selectCases = ["<-s.done", "<-ticker.C", "resp := <-watchChan"] ∧
    Gen.FactsC19.tickerCaseBody = ["pullCompareSend()"] ∧
    Gen.FactsC19.watchCaseShape = ["if resp.Canceled:restart-watcher,continue", "if resp.IsProgressNotify():continue", "pullCompareSend()"] ∧
    Gen.FactsC19.sendGuard = "!isDataEqual(data, newData)" ∧
    Gen.FactsC19.sendGuardBody = ["data = newData", "send(data)"] ∧
    Gen.FactsC19.sendCalls = 1 ∧
    Gen.FactsC19.pullErrorReturns = true := by decide

/-! ### The data path below `pull`: a failed read is a failed pull, never "key absent" -/

/-- A failed `client.Get` makes `syncer.pull` fail, for a key and for a prefix … -/
theorem pull_error_is_failure (pfx : Bool) : pull pfx .error = none := by
  cases pfx <;> rfl

/-- … a failed pull delivers nothing and leaves `data` alone (so an outage of the store can
neither produce a phantom "absent" snapshot nor a duplicate after it) … -/
theorem failed_pull_sends_nothing (S : Nat → Data) (st : St) (pfx : Bool) :
    pullCompareSend S st ((pull pfx .error).map fun _ => 0) = st := by
  rw [pull_error_is_failure]; rfl

/-- … and a successful read is mapped faithfully: `GetRaw` gives the key-value or nil without
error, `pull` the empty map exactly when the key is absent. -/
theorem pull_ok_mapping (kv : KV) (rest : List KV) :
    getRaw .error = (none, true) ∧ getRaw (.kvs []) = (none, false) ∧
    getRaw (.kvs (kv :: rest)) = (some kv, false) ∧
    get .error = (none, true) ∧ get (.kvs []) = (none, false) ∧ get (.kvs (kv :: rest)) = (some kv.value, false) ∧
    pull false (.kvs []) = some [] ∧ pull false (.kvs (kv :: rest)) = some [(kv.key, some kv)] ∧
    pull true (.kvs (kv :: rest)) = some ((kv :: rest).map fun x => (x.key, some x)) ∧
    (getRawPrefix .error).2 = true ∧ (getPrefix .error).2 = true := by
  refine ⟨rfl, rfl, rfl, rfl, rfl, rfl, rfl, rfl, rfl, rfl, rfl⟩

/-- Facts obligation on `pkg/cluster/op.go` and `syncer.pull`, regenerated on every run: the
getters return the error when `err != nil` (and only then), not-found is `(nil, nil)`, and
`pull` hands the error on in both branches. -/
theorem pull_data_path :
    Gen.FactsC19.getRawShape = ["if err != nil { return nil, err }", "if err != nil { return nil, err }",
      "if len(resp.Kvs) == 0 { return nil, nil }", "return resp.Kvs[0], nil"] ∧
    Gen.FactsC19.getShape = ["if err != nil || kv == nil { return nil, err }", "return &value, nil"] ∧
    Gen.FactsC19.getRawPrefixShape = ["if err != nil { return kvs, err }", "if err != nil { return kvs, err }", "return kvs, nil"] ∧
    Gen.FactsC19.getPrefixShape = ["if err != nil { return kvs, err }", "return kvs, nil"] ∧
    Gen.FactsC19.pullKeyErrorPropagates = true ∧ Gen.FactsC19.pullPrefixErrorPropagates = true := by decide

/-! ### Non-vacuity -/

private def kvA : Option KV := some ⟨"p/a", "1"⟩
private def kvB : Option KV := some ⟨"p/b", "2"⟩
/-- store history: {} , {a}, {a,b}, {b}, {b} (same-value put), {} -/
private def Sx : Nat → Data
  | 0 => []
  | 1 => [("p/a", kvA)]
  | 2 => [("p/a", kvA), ("p/b", kvB)]
  | 3 => [("p/b", kvB)]
  | 4 => [("p/b", kvB)]
  | _ => []

example : ∀ i, IsMap (Sx i) := by
  intro i
  match i with
  | 0 | 1 | 2 | 3 | 4 => simp [Sx, IsMap, keys]
  | _ + 5 => simp [Sx, IsMap, keys]

/-- Empty at start (no initial snapshot); a watch event after the first write; two writes whose
events are lost and a cancelled watch; the ticker pull then skips state 2 and delivers state 3;
the same-value put changes nothing; the final delete is only seen by the ticker. -/
private def evx : List Ev :=
  [.write, .watchEvent (some 1), .write, .write, .watchCancel, .tick none, .tick (some 3),
   .write, .watchEvent (some 4), .progress, .write, .tick (some 5)]

example : validRun Sx 0 (some 0) evx = true := by decide
example : (sent (run Sx 0 (some 0) evx)).map Prod.fst = [1, 3, 5] := by decide
example : view (run Sx 0 (some 0) evx) = Sx 5 := by decide
example : (run Sx 0 (some 0) evx).restarts = 1 := by decide
/-- the two arguments are the same map in a different order -/
example : isDataEqual [("p/a", kvA), ("p/b", kvB)] [("p/b", kvB), ("p/a", kvA)] = true := by decide
example : isDataEqual [("p/a", kvA)] [("p/a", some ⟨"p/a", "2"⟩)] = false := by decide

end EgVerif.C19
