import EgVerif.Proofs.Syncer
import EgVerif.Proofs.SyncerIR
import EgVerif.Proofs.SyncerCheck
import EgVerif.Gen.FactsC19
import EgVerif.Gen.FactsC19IR
/-!
# C19 — syncer snapshots are real store states and converge to the final state

Theorems about `Model.Syncer.run` (mirror of `syncer.run` / `pullCompareSend` / `isDataEqual`),
for **every** store history `S`, **every** interleaving of writes, ticker firings, delivered
or lost watch events, watch cancellations, progress notifications, and **every** outcome of
every pull (failure, or any store state between the previously read one and the current
one — `validRun`). `S i` is only required to be a map (`IsMap`, distinct keys).

`sentRev` lists the snapshots newest first; `sent st` is delivery order.
-/
namespace EgVerif.C19
open EgVerif.Syncer

/-- Snapshots in delivery order. -/
def sent (st : St) : List (Nat × Data) := st.sentRev.reverse

/-- `isDataEqual` decides equality of the two maps (key → (Key, Value)). -/
theorem dataEqual_iff {d1 d2 : Data} (h1 : IsMap d1) (h2 : IsMap d2) :
    isDataEqual d1 d2 = true ↔ MapEq d1 d2 := dataEqual_mapEq h1 h2

/-- `isKeyValueEqual` is equality on (Key, Value) with nil handling. -/
theorem keyValueEqual_iff (a b : Option KV) : isKeyValueEqual a b = true ↔ a = b :=
  isKeyValueEqual_iff a b

section
variable {S : Nat → Data} (hS : ∀ i, IsMap (S i)) (pre : Nat) (r0 : Option Nat) (evs : List Ev)
  (hv : validRun S pre r0 evs = true)
include hS hv

/-- **No phantom state**: every snapshot handed to `send` is the content `S i` the store had
after `i` writes, for an `i` that is not in the future. -/
theorem snapshots_real : ∀ p ∈ sent (run S pre r0 evs), p.2 = S p.1 ∧ p.1 ≤ (run S pre r0 evs).cur := by
  intro p hp
  have inv := inv_run hS pre r0 evs hv
  have hp' : p ∈ (run S pre r0 evs).sentRev := List.mem_reverse.mp hp
  exact ⟨(inv.real p hp').1, le_trans (inv.real p hp').2 inv.idx_le⟩

/-- **Store order**: the snapshots are delivered in strictly increasing store order. -/
theorem monotone : ((sent (run S pre r0 evs)).map Prod.fst).Pairwise (· < ·) := by
  have inv := inv_run hS pre r0 evs hv
  unfold sent
  rw [List.map_reverse, List.pairwise_reverse]
  exact List.pairwise_map.mpr inv.sorted

/-- Newest-first chain of maps that differ pairwise-consecutively; the oldest is not empty. -/
def Differs : List (Nat × Data) → Prop
  | [] => True
  | [(_, d)] => ¬ MapEq [] d
  | (_, d2) :: (i1, d1) :: rest => ¬ MapEq d1 d2 ∧ Differs ((i1, d1) :: rest)

omit hS hv in
theorem differs_of_chain (hS : ∀ i, IsMap (S i)) : ∀ (l : List (Nat × Data)), (∀ p ∈ l, p.2 = S p.1) →
    DifferChain l → Differs l
  | [], _, _ => trivial
  | [(i, d)], hr, hc => by
    have hd : IsMap d := by have := hr (i, d) (by simp); simp only at this; rw [this]; exact hS i
    simp only [DifferChain] at hc
    intro hm
    rw [(dataEqual_mapEq (by simp [IsMap, keys]) hd).mpr hm] at hc; cases hc
  | (i2, d2) :: (i1, d1) :: rest, hr, hc => by
    have hd2 : IsMap d2 := by have := hr (i2, d2) (by simp); simp only at this; rw [this]; exact hS i2
    have hd1 : IsMap d1 := by have := hr (i1, d1) (by simp); simp only at this; rw [this]; exact hS i1
    simp only [DifferChain] at hc
    refine ⟨fun hm => ?_, differs_of_chain hS _ (fun p hp => hr p (List.mem_cons_of_mem _ hp)) hc.2⟩
    rw [(dataEqual_mapEq hd1 hd2).mpr hm] at hc; exact absurd hc.1 (by simp)

/-- **No duplicates**: consecutive snapshots differ as maps, and the first snapshot differs
from the empty map (the consumer's implicit initial view). -/
theorem consecutive_differ : Differs (run S pre r0 evs).sentRev := by
  have inv := inv_run hS pre r0 evs hv
  exact differs_of_chain hS _ (fun p hp => (inv.real p hp).1) inv.differ

/-- The consumer's view always equals the local `data` of `run`, and after a successful pull
that is the store state the pull returned. -/
theorem view_tracks : (run S pre r0 evs).last = view (run S pre r0 evs) ∧
    ((run S pre r0 evs).pulled = true → MapEq (view (run S pre r0 evs)) (S (run S pre r0 evs).idx)) := by
  have inv := inv_run hS pre r0 evs hv
  refine ⟨inv.last_view, fun hp => ?_⟩
  have hmap : IsMap (view (run S pre r0 evs)) := by
    unfold view
    split
    · simp [IsMap, keys]
    · rename_i i d tl heq
      have := (inv.real (i, d) (by rw [heq]; simp)).1
      simp only at this; rw [this]; exact hS i
  rw [← inv.last_view] at hmap ⊢
  exact (dataEqual_mapEq hmap (hS _)).mp (inv.tracks hp)

/-- **Convergence**: after an arbitrary valid past (watch events lost, watch cancelled, pulls
failed, snapshots skipped — anything), one successful pull that reads the current store state
(what a linearizable `Get` issued after the last write returns), triggered by the ticker or
by a watch event, makes the consumer's view equal to the current store content. No further
write is needed. -/
theorem converges (e : Ev) (he : e = Ev.tick (some (run S pre r0 evs).cur) ∨
    e = Ev.watchEvent (some (run S pre r0 evs).cur)) :
    MapEq (view (step S (run S pre r0 evs) e)) (S (run S pre r0 evs).cur) := by
  have inv := inv_run hS pre r0 evs hv
  have hok : okEv (run S pre r0 evs) e = true := by
    rcases he with rfl | rfl <;> simp [okEv, okOutcome, inv.idx_le]
  have inv' := inv_step hS inv e hok
  have hidx : (step S (run S pre r0 evs) e).idx = (run S pre r0 evs).cur ∧
      (step S (run S pre r0 evs) e).pulled = true := by
    rcases he with rfl | rfl <;> (simp only [step, pullCompareSend]; split <;> simp)
  have hmap : IsMap (view (step S (run S pre r0 evs) e)) := by
    unfold view
    split
    · simp [IsMap, keys]
    · rename_i i d tl heq
      have := (inv'.real (i, d) (by rw [heq]; simp)).1
      simp only at this; rw [this]; exact hS i
  have := inv'.tracks hidx.2
  rw [hidx.1, inv'.last_view] at this
  exact (dataEqual_mapEq hmap (hS _)).mp this

/-- **Stability**: once the view equals the current content, further ticks / watch events /
cancellations / progress notifications without a write deliver nothing. -/
theorem stable_after_convergence (e : Ev) (hne : e ≠ Ev.write) (hok : okEv (run S pre r0 evs) e = true)
    (hconv : (run S pre r0 evs).pulled = true ∧ (run S pre r0 evs).idx = (run S pre r0 evs).cur) :
    (step S (run S pre r0 evs) e).sentRev = (run S pre r0 evs).sentRev := by
  have inv := inv_run hS pre r0 evs hv
  have key : ∀ r, okOutcome (run S pre r0 evs) r = true →
      (pullCompareSend S (run S pre r0 evs) r).sentRev = (run S pre r0 evs).sentRev := by
    intro r hr
    cases r with
    | none => rfl
    | some i =>
      simp only [okOutcome, Bool.and_eq_true, decide_eq_true_eq] at hr
      have hi : i = (run S pre r0 evs).idx := by omega
      have := inv.tracks hconv.1
      simp only [pullCompareSend, hi, this, Bool.not_true, Bool.false_eq_true, ↓reduceIte]
  cases e with
  | write => exact absurd rfl hne
  | tick r => exact key r hok
  | watchEvent r => exact key r hok
  | watchCancel => rfl
  | progress => rfl

end

/-- `isDataEqual` against the empty map only accepts the empty map. -/
theorem isDataEqual_nil (d : Data) : isDataEqual [] d = true ↔ d = [] := by
  cases d <;> simp [isDataEqual]

/-- **First delivers the current content**: the initial pull hands the content it read to
`send` at once — unless that content is empty, in which case nothing is sent and the
consumer's implicit empty view is already right. -/
theorem first_is_current (S : Nat → Data) (pre i : Nat) :
    (S i ≠ [] → (run S pre (some i) []).sentRev = [(i, S i)]) ∧
    (S i = [] → (run S pre (some i) []).sentRev = [] ∧ view (run S pre (some i) []) = S i) := by
  constructor
  · intro h
    have : isDataEqual [] (S i) = false := by
      cases hh : isDataEqual [] (S i)
      · rfl
      · exact absurd ((isDataEqual_nil _).mp hh) h
    simp [run, loop, pullCompareSend, St.start, this]
  · intro h
    simp [run, loop, pullCompareSend, St.start, h, isDataEqual, view]

/-! ### Adapters -/

/-- `Sync(key)` delivers exactly the store's value of the key (nil when absent). -/
theorem sync_value_of_key (key : String) (s : Store) :
    sendSync key (restrict false key s) = s.lookup key := by
  induction s with
  | nil => rfl
  | cons e rest ih =>
    obtain ⟨k, v⟩ := e
    by_cases hk : k = key
    · subst hk; simp [restrict, sendSync, List.lookup]
    · have h1 : (k == key) = false := by simpa using hk
      have h2 : (key == k) = false := by simpa using fun h : key = k => hk h.symm
      simp only [restrict, Bool.false_eq_true, ↓reduceIte, List.filter_cons, h1, List.lookup, h2] at ih ⊢
      exact ih

/-- `SyncRaw(key)` delivers the stored (Key, Value) or nil. -/
theorem syncraw_value_of_key (key : String) (s : Store) :
    sendSyncRaw key (restrict false key s) = (s.lookup key).map fun v => ⟨key, v⟩ := by
  induction s with
  | nil => rfl
  | cons e rest ih =>
    obtain ⟨k, v⟩ := e
    by_cases hk : k = key
    · subst hk; simp [restrict, sendSyncRaw, List.lookup]
    · have h1 : (k == key) = false := by simpa using hk
      have h2 : (key == k) = false := by simpa using fun h : key = k => hk h.symm
      simp only [restrict, Bool.false_eq_true, ↓reduceIte, List.filter_cons, h1, List.lookup, h2] at ih ⊢
      exact ih

/-- `SyncPrefix(prefix)` never hits a nil entry on pulled data and delivers exactly the
key → value pairs under the prefix. -/
theorem syncprefix_values (p : String) (s : Store) :
    sendSyncPrefix (restrict true p s) = some (s.filter fun e => p.isPrefixOf e.1) := by
  induction s with
  | nil => rfl
  | cons e rest ih =>
    obtain ⟨k, v⟩ := e
    simp only [restrict, ↓reduceIte, List.filter_cons] at ih ⊢
    by_cases hk : p.isPrefixOf k = true
    · simp only [hk, ↓reduceIte, List.map_cons, sendSyncPrefix, ih, Option.map_some]
    · have : p.isPrefixOf k = false := by simpa using hk
      simp only [this, Bool.false_eq_true, ↓reduceIte]; exact ih

/-- `SyncRawPrefix` delivers a copy of the pulled map. -/
theorem syncrawprefix_copy (d : Data) : sendSyncRawPrefix d = d := by
  simp [sendSyncRawPrefix]

/-! ### The judge's store states are maps (the hypothesis `IsMap (S i)` is met) -/

def StoreMap (s : Store) : Prop := (s.map Prod.fst).Nodup

theorem storeMap_filter {s : Store} (h : StoreMap s) (f : String × String → Bool) : StoreMap (s.filter f) :=
  List.Nodup.sublist (List.Sublist.map _ List.filter_sublist) h

theorem storeMap_apply1 {s : Store} (h : StoreMap s) (o : Sub) : StoreMap (s.apply1 o) := by
  cases o with
  | put k v =>
    simp only [Store.apply1, StoreMap, List.map_cons, List.nodup_cons]
    refine ⟨fun hm => ?_, storeMap_filter h _⟩
    obtain ⟨e, he, hk⟩ := List.mem_map.mp hm
    have := (List.mem_filter.mp he).2
    simp [hk] at this
  | del k => exact storeMap_filter h _
  | delPrefix p => exact storeMap_filter h _

theorem storeMap_write {s : Store} (h : StoreMap s) (w : List Sub) : StoreMap (s.write w) := by
  unfold Store.write
  induction w generalizing s with
  | nil => exact h
  | cons o rest ih => exact ih (storeMap_apply1 h o)

theorem restrict_isMap {s : Store} (h : StoreMap s) (pfx : Bool) (key : String) :
    IsMap (restrict pfx key s) := by
  unfold restrict IsMap keys
  rw [List.map_map]
  exact List.Nodup.sublist (List.Sublist.map _ List.filter_sublist) h

theorem storeStates_isMap : ∀ (ws : List (List Sub)) {s : Store}, StoreMap s → ∀ (pfx : Bool) (key : String),
    ∀ d ∈ (storeStates s ws).map (restrict pfx key), IsMap d
  | [], s, h, pfx, key, d, hd => by
    simp only [storeStates, List.map_cons, List.map_nil, List.mem_singleton] at hd
    subst hd; exact restrict_isMap h pfx key
  | w :: ws, s, h, pfx, key, d, hd => by
    simp only [storeStates, List.map_cons, List.mem_cons] at hd
    rcases hd with rfl | hd
    · exact restrict_isMap h pfx key
    · exact storeStates_isMap ws (storeMap_write h w) pfx key d hd

/-! ### Facts regenerated from `syncer.go` on every run -/

/-- The shape of `run` the model mirrors: one `pullCompareSend()` before the loop; the `select`
has exactly the cases done / ticker / watch; the ticker case pulls; the watch case first
handles `resp.Canceled` by re-creating the watcher and `continue`, then skips progress
notifications, then pulls; `send` is called exactly once; a failed pull returns. (What is compared with
what and `data = newData` before `send(data)` used to be two printed-source conjuncts here
(`sendGuard`, `sendGuardBody`); they are now `pullCompareSend_regenerated_from_source`, which survives a
renaming of the locals.) -/
theorem run_shape :
    Gen.FactsC19.extractionFailed = false ∧
    Gen.FactsC19.initialPullBeforeLoop = true ∧
    Gen.FactsC19.selectCases = ["<-s.done", "<-ticker.C", "resp := <-watchChan"] ∧
    Gen.FactsC19.tickerCaseBody = ["pullCompareSend()"] ∧
    Gen.FactsC19.watchCaseShape = ["if resp.Canceled:restart-watcher,continue", "if resp.IsProgressNotify():continue", "pullCompareSend()"] ∧
    Gen.FactsC19.sendCalls = 1 ∧
    Gen.FactsC19.pullErrorReturns = true := by decide

/-! ### The data path below `pull`: a failed read is a failed pull, never "key absent" -/

/-- A failed `client.Get` makes `syncer.pull` fail, for a key and for a prefix … -/
theorem pull_error_is_failure (pfx : Bool) : pull pfx .error = none := by
  cases pfx <;> rfl

/-- … a failed pull delivers nothing and leaves `data` alone (so an outage of the store can
neither produce a phantom "absent" snapshot nor a duplicate after it) … -/
theorem failed_pull_sends_nothing (S : Nat → Data) (st : St) (pfx : Bool) :
    pullCompareSend S st ((pull pfx .error).map fun _ => 0) = st := by
  rw [pull_error_is_failure]; rfl

/-- … and a successful read is mapped faithfully: `GetRaw` gives the key-value or nil without
error, `pull` the empty map exactly when the key is absent. -/
theorem pull_ok_mapping (kv : KV) (rest : List KV) :
    getRaw .error = (none, true) ∧ getRaw (.kvs []) = (none, false) ∧
    getRaw (.kvs (kv :: rest)) = (some kv, false) ∧
    get .error = (none, true) ∧ get (.kvs []) = (none, false) ∧ get (.kvs (kv :: rest)) = (some kv.value, false) ∧
    pull false (.kvs []) = some [] ∧ pull false (.kvs (kv :: rest)) = some [(kv.key, some kv)] ∧
    pull true (.kvs (kv :: rest)) = some ((kv :: rest).map fun x => (x.key, some x)) ∧
    (getRawPrefix .error).2 = true ∧ (getPrefix .error).2 = true := by
  refine ⟨rfl, rfl, rfl, rfl, rfl, rfl, rfl, rfl, rfl, rfl, rfl⟩

/-- Facts obligation on `pkg/cluster/op.go` and `syncer.pull`, regenerated on every run: the
getters return the error when `err != nil` (and only then), not-found is `(nil, nil)`, and
`pull` hands the error on in both branches. -/
theorem pull_data_path :
    Gen.FactsC19.getRawShape = ["if err != nil { return nil, err }", "if err != nil { return nil, err }",
      "if len(resp.Kvs) == 0 { return nil, nil }", "return resp.Kvs[0], nil"] ∧
    Gen.FactsC19.getShape = ["if err != nil || kv == nil { return nil, err }", "return &value, nil"] ∧
    Gen.FactsC19.getRawPrefixShape = ["if err != nil { return kvs, err }", "if err != nil { return kvs, err }", "return kvs, nil"] ∧
    Gen.FactsC19.getPrefixShape = ["if err != nil { return kvs, err }", "return kvs, nil"] ∧
    Gen.FactsC19.pullKeyErrorPropagates = true ∧ Gen.FactsC19.pullPrefixErrorPropagates = true := by decide

/-! ### Convergence over whole traces (bounded fault windows, ticker fairness as a hypothesis on the event list)

`converges` above is about one step. The theorems below are about a whole trace
`evs1 ++ e :: evs2`: `evs1` is arbitrary (writes, lost watch events = writes without a `watchEvent`,
failed pulls, cancels, stale reads — any number, in any order: the *fault window(s)*); `e` is a tick or a
watch event **after the last write** whose pull succeeds and reads the then-current state; `evs2` is
arbitrary but without writes (more ticks, failed pulls, cancels, progress notifications). The existence
of such an `e` is exactly the fairness assumption ("after the last write the ticker fires and some pull
succeeds"), stated about the event list. -/

/-- **Convergence of the whole run**: the final view is the final store content `S (pre + #writes)`,
nothing is delivered after the converging pull, and the local `data` is the view. -/
theorem converges_trace {S : Nat → Data} (hS : ∀ i, IsMap (S i)) (pre : Nat) (r0 : Option Nat)
    (evs1 : List Ev) (e : Ev) (evs2 : List Ev)
    (hv : validRun S pre r0 (evs1 ++ e :: evs2) = true)
    (he : e = Ev.tick (some (run S pre r0 evs1).cur) ∨ e = Ev.watchEvent (some (run S pre r0 evs1).cur))
    (hw : Ev.write ∉ evs2) :
    MapEq (view (run S pre r0 (evs1 ++ e :: evs2))) (S (run S pre r0 (evs1 ++ e :: evs2)).cur) ∧
    (run S pre r0 (evs1 ++ e :: evs2)).cur = pre + (evs1 ++ e :: evs2).count Ev.write ∧
    (run S pre r0 (evs1 ++ e :: evs2)).sentRev = (step S (run S pre r0 evs1) e).sentRev ∧
    (run S pre r0 (evs1 ++ e :: evs2)).last = view (run S pre r0 (evs1 ++ e :: evs2)) := by
  rw [validRun_append] at hv
  simp only [Bool.and_eq_true, validLoop] at hv
  obtain ⟨hv1, hve, hv2⟩ := hv
  have inv1 := inv_run hS pre r0 evs1 hv1
  have inv1' := inv_step hS inv1 e hve
  have hc := converged_of_fresh_pull S (run S pre r0 evs1) e he
  obtain ⟨_, h1, h2, _⟩ := stable_loop hS evs2 inv1' hc hw hv2
  have hrun : run S pre r0 (evs1 ++ e :: evs2) = loop S (step S (run S pre r0 evs1) e) evs2 := by
    rw [run_append]; rfl
  have hcur : (step S (run S pre r0 evs1) e).cur = (run S pre r0 evs1).cur := by
    rcases he with rfl | rfl <;> exact pullCompareSend_cur S _ _
  have hview : view (run S pre r0 (evs1 ++ e :: evs2)) = view (step S (run S pre r0 evs1) e) := by
    simp only [view, hrun, h1]
  have hv' : validRun S pre r0 (evs1 ++ e :: evs2) = true := by
    rw [validRun_append]; simp [validLoop, hv1, hve, hv2]
  refine ⟨?_, run_cur S pre r0 _, by rw [hrun, h1], (inv_run hS pre r0 _ hv').last_view⟩
  rw [hview, hrun, h2, hcur]
  exact converges hS pre r0 evs1 hv1 e he

/-- **Eventually delivers the final content** (statement about the `sent` list): after such a trace the
last delivered snapshot is a real store state equal (as a map) to the final store content — or nothing
was ever delivered and the final content is empty. -/
theorem eventually_delivers_final {S : Nat → Data} (hS : ∀ i, IsMap (S i)) (pre : Nat) (r0 : Option Nat)
    (evs1 : List Ev) (e : Ev) (evs2 : List Ev)
    (hv : validRun S pre r0 (evs1 ++ e :: evs2) = true)
    (he : e = Ev.tick (some (run S pre r0 evs1).cur) ∨ e = Ev.watchEvent (some (run S pre r0 evs1).cur))
    (hw : Ev.write ∉ evs2) :
    match (sent (run S pre r0 (evs1 ++ e :: evs2))).getLast? with
    | none => MapEq [] (S (pre + (evs1 ++ e :: evs2).count Ev.write))
    | some p => p.2 = S p.1 ∧ MapEq p.2 (S (pre + (evs1 ++ e :: evs2).count Ev.write)) := by
  obtain ⟨hm, hcur, _, _⟩ := converges_trace hS pre r0 evs1 e evs2 hv he hw
  rw [hcur] at hm
  have hreal := snapshots_real hS pre r0 _ hv
  unfold sent at hreal ⊢
  rw [List.getLast?_reverse]
  cases hsr : (run S pre r0 (evs1 ++ e :: evs2)).sentRev with
  | nil => simpa [view, hsr] using hm
  | cons p tl =>
    simp only [List.head?_cons]
    refine ⟨(hreal p (by simp [hsr])).1, ?_⟩
    simpa [view, hsr] using hm

/-- A pull that succeeded. -/
def okPull : Ev → Bool
  | .tick (some _) => true
  | .watchEvent (some _) => true
  | _ => false

/-- Linearizable reads: every successful pull of the trace returns the state current at that time
(what etcd's `Get` gives; `okOutcome` alone also admits stale reads). -/
def linLoop (S : Nat → Data) : St → List Ev → Bool
  | _, [] => true
  | st, e :: es =>
    (match e with
      | .tick (some i) => decide (i = st.cur)
      | .watchEvent (some i) => decide (i = st.cur)
      | _ => true) && linLoop S (step S st e) es

theorem linLoop_append (S : Nat → Data) : ∀ (a b : List Ev) (st : St),
    linLoop S st (a ++ b) = (linLoop S st a && linLoop S (loop S st a) b)
  | [], _, _ => by simp [linLoop, loop]
  | e :: a, b, st => by
    simp only [List.cons_append, linLoop, loop, linLoop_append S a b, Bool.and_assoc]

/-- **Fairness in its syntactic form**: with linearizable reads it is enough that *some* tick or watch
event after the last write has a successful pull — then the run converges as in `converges_trace` and
`eventually_delivers_final`. -/
theorem converges_fair {S : Nat → Data} (hS : ∀ i, IsMap (S i)) (pre : Nat) (r0 : Option Nat)
    (evs1 : List Ev) (e : Ev) (evs2 : List Ev)
    (hv : validRun S pre r0 (evs1 ++ e :: evs2) = true)
    (hlin : linLoop S (pullCompareSend S (St.start pre) r0) (evs1 ++ e :: evs2) = true)
    (hok : okPull e = true) (hw : Ev.write ∉ evs2) :
    MapEq (view (run S pre r0 (evs1 ++ e :: evs2))) (S (pre + (evs1 ++ e :: evs2).count Ev.write)) ∧
    (match (sent (run S pre r0 (evs1 ++ e :: evs2))).getLast? with
      | none => MapEq [] (S (pre + (evs1 ++ e :: evs2).count Ev.write))
      | some p => p.2 = S p.1 ∧ MapEq p.2 (S (pre + (evs1 ++ e :: evs2).count Ev.write))) := by
  have he : e = Ev.tick (some (run S pre r0 evs1).cur) ∨ e = Ev.watchEvent (some (run S pre r0 evs1).cur) := by
    rw [linLoop_append] at hlin
    simp only [Bool.and_eq_true, linLoop] at hlin
    have h := hlin.2.1
    cases e with
    | tick r => cases r with
      | none => simp [okPull] at hok
      | some i => left; simp only [decide_eq_true_eq] at h; rw [h]; rfl
    | watchEvent r => cases r with
      | none => simp [okPull] at hok
      | some i => right; simp only [decide_eq_true_eq] at h; rw [h]; rfl
    | write => simp [okPull] at hok
    | watchCancel => simp [okPull] at hok
    | progress => simp [okPull] at hok
  obtain ⟨hm, hcur, _, _⟩ := converges_trace hS pre r0 evs1 e evs2 hv he hw
  rw [hcur] at hm
  exact ⟨hm, eventually_delivers_final hS pre r0 evs1 e evs2 hv he hw⟩

/-! ### Slow consumers: the blocking send into the 10-slot channel

`crun` is the syncer together with its channel and a consumer that takes values whenever it likes
(`CEv.consume` events anywhere in the trace — or nowhere for a long time). The send is blocking and is
never abandoned; `data` is assigned just before it. -/

/-- **Nothing is lost, duplicated or reordered between `send` and the consumer**: at every moment
received ++ buffered ++ (the value of the blocked send) is exactly the list of snapshots handed to `send`;
the buffer holds at most 10 values and a send only blocks on a full buffer. -/
theorem channel_conserves (S : Nat → Data) (pre : Nat) (r0 : Option Nat) (cevs : List CEv) :
    (crun S pre r0 cevs).2.recvd ++ (crun S pre r0 cevs).2.buf ++ (crun S pre r0 cevs).2.pending.toList =
      (sent (crun S pre r0 cevs).1).map Prod.snd ∧
    (crun S pre r0 cevs).2.buf.length ≤ chanCap ∧
    ((crun S pre r0 cevs).2.pending.isSome = true → (crun S pre r0 cevs).2.buf.length = chanCap) := by
  have h := chanInv_cloop S cevs (chanInv_cstart S pre r0)
  exact ⟨by simpa [sent, crun] using h.conserve, h.cap, h.full⟩

/-- The syncer inside the combined system behaves as the plain model on the events it processed
(loop events that arrive while it is blocked in a send are not processed), so `snapshots_real`,
`monotone`, `consecutive_differ`, `converges_trace` … apply to `effective …`. -/
theorem crun_refines (S : Nat → Data) (pre : Nat) (r0 : Option Nat) (cevs : List CEv) :
    (crun S pre r0 cevs).1 = run S pre r0 (effective S (cstart S pre r0) cevs) := crun_fst S pre r0 cevs

/-- **Convergence for slow consumers**: whatever the consumer's pauses (buffer full, `run` blocked in a
send for any time, ticks lost meanwhile), if among the events `run` processed there is, after the last
write, one successful pull of the current state, and the consumer has drained the channel at the end,
then the last snapshot the consumer received equals the final store content — or it received nothing
and the final content is empty. No further write is needed. -/
theorem slow_consumer_converges {S : Nat → Data} (hS : ∀ i, IsMap (S i)) (pre : Nat) (r0 : Option Nat)
    (cevs : List CEv) (evs1 : List Ev) (e : Ev) (evs2 : List Ev)
    (heff : effective S (cstart S pre r0) cevs = evs1 ++ e :: evs2)
    (hv : validRun S pre r0 (evs1 ++ e :: evs2) = true)
    (he : e = Ev.tick (some (run S pre r0 evs1).cur) ∨ e = Ev.watchEvent (some (run S pre r0 evs1).cur))
    (hw : Ev.write ∉ evs2)
    (hdrained : (crun S pre r0 cevs).2.buf = [] ∧ (crun S pre r0 cevs).2.pending = none) :
    match (crun S pre r0 cevs).2.recvd.getLast? with
    | none => MapEq [] (S (pre + (evs1 ++ e :: evs2).count Ev.write))
    | some d => MapEq d (S (pre + (evs1 ++ e :: evs2).count Ev.write)) := by
  have hc := (channel_conserves S pre r0 cevs).1
  rw [hdrained.1, hdrained.2, crun_refines, heff] at hc
  simp only [List.append_nil, Option.toList] at hc
  rw [hc, List.getLast?_map]
  have hfin := eventually_delivers_final hS pre r0 evs1 e evs2 hv he hw
  cases hl : (sent (run S pre r0 (evs1 ++ e :: evs2))).getLast? with
  | none => rw [hl] at hfin; simpa using hfin
  | some p => rw [hl] at hfin; simpa using hfin.2

/-- **The consumer can always drain**: from any reachable state, 11 receives without further sends
empty the channel and complete a blocked send (so `hdrained` above is met as soon as the consumer
resumes and the syncer has nothing new to say). -/
theorem consumer_drains (S : Nat → Data) (pre : Nat) (r0 : Option Nat) (cevs : List CEv) :
    (crun S pre r0 (cevs ++ List.replicate (chanCap + 1) CEv.consume)).2.buf = [] ∧
    (crun S pre r0 (cevs ++ List.replicate (chanCap + 1) CEv.consume)).2.pending = none ∧
    (crun S pre r0 (cevs ++ List.replicate (chanCap + 1) CEv.consume)).1 = (crun S pre r0 cevs).1 := by
  have h := chanInv_cloop S cevs (chanInv_cstart S pre r0)
  have := drain_consumes S (chanCap + 1) (crun S pre r0 cevs) h (by
    have hcap : (crun S pre r0 cevs).2.buf.length ≤ chanCap := h.cap
    cases hp : (crun S pre r0 cevs).2.pending <;> simp [Chan.load, hp] <;> omega)
  simp only [crun, cloop_append] at this ⊢
  exact this

/-! ### Tie by translation (`notes/IR.md`): definitions regenerated from syncer.go = the model -/

/-- `isKeyValueEqual` of the source is the model's function and never dereferences nil. -/
theorem isKeyValueEqual_regenerated_from_source (a b : Option KV) :
    Gen.FactsC19IR.extractionFailed = false ∧
    Gen.FactsC19IR.isKeyValueEqualIR a b = some (isKeyValueEqual a b) :=
  ⟨by decide, Syncer.isKeyValueEqual_regenerated_from_source a b⟩

/-- `isDataEqual`: length test, then per entry of `data1` a lookup of its key in `data2`. -/
theorem isDataEqual_regenerated_from_source (d1 d2 : Data) :
    Gen.FactsC19IR.extractionFailed = false ∧ Gen.FactsC19IR.isDataEqualIR d1 d2 = isDataEqual d1 d2 :=
  ⟨by decide, Syncer.isDataEqual_regenerated_from_source d1 d2⟩

/-- `syncer.pull`: key vs prefix read of *this* key, error handed on, missing key = empty map. -/
theorem pull_regenerated_from_source (cl : Bool → String → EtcdResp) (key : String) (pfx : Bool) :
    Gen.FactsC19IR.extractionFailed = false ∧ Gen.FactsC19IR.pullIR cl key pfx = pull pfx (cl pfx key) :=
  ⟨by decide, Syncer.pull_regenerated_from_source cl key pfx⟩

/-! ### The getters of op.go below `pull`: one linearizable read per pull

`snapshots_real` (every delivered snapshot is `S i`) rests on `okOutcome`: a successful pull returns ONE
store state. For a key that is `client.Get(key)`, for a prefix ONE `client.Get(prefix, WithPrefix())` — a single
linearizable range read of etcd. A prefix read assembled from several requests (pages, retries of a part …)
could mix two revisions and would not be an `S i`. The obligations below are what ties this: the generated
definitions contain exactly one `client … key` answer and no loop of reads; a second `Get`, a paging loop or other
read options fail the extraction or change the definition, and the broken theorem names the function. -/

theorem getRaw_regenerated_from_source (cl : Bool → String → EtcdResp) (gc : Bool) (key : String) :
    Gen.FactsC19IR.extractionFailed = false ∧
    Gen.FactsC19IR.getRawIR cl gc key = getRaw (Gen.FactsC19IR.respOf cl gc false key) :=
  ⟨by decide, Syncer.getRaw_regenerated_from_source cl gc key⟩

/-- `GetRawPrefix` = the key-values of ONE `client.Get(ctx, prefix, clientv3.WithPrefix())` (`RespWF`: a range
response lists every key once). -/
theorem getRawPrefix_regenerated_from_source (cl : Bool → String → EtcdResp) (gc : Bool) (key : String)
    (hwf : RespWF (cl true key)) :
    Gen.FactsC19IR.extractionFailed = false ∧
    Gen.FactsC19IR.getRawPrefixIR cl gc key = getRawPrefix (Gen.FactsC19IR.respOf cl gc true key) :=
  ⟨by decide, Syncer.getRawPrefix_regenerated_from_source cl gc key hwf⟩

theorem get_regenerated_from_source (cl : Bool → String → EtcdResp) (gc : Bool) (key : String) :
    Gen.FactsC19IR.extractionFailed = false ∧
    Gen.FactsC19IR.getIR cl gc key = get (Gen.FactsC19IR.respOf cl gc false key) :=
  ⟨by decide, Syncer.get_regenerated_from_source cl gc key⟩

theorem getPrefix_regenerated_from_source (cl : Bool → String → EtcdResp) (gc : Bool) (key : String)
    (hwf : RespWF (cl true key)) :
    Gen.FactsC19IR.extractionFailed = false ∧
    Gen.FactsC19IR.getPrefixIR cl gc key = getPrefix (Gen.FactsC19IR.respOf cl gc true key) :=
  ⟨by decide, Syncer.getPrefix_regenerated_from_source cl gc key hwf⟩

/-- **A pull is one linearizable read**: composing the translated `syncer.pull` with the translated getters, the
map a pull returns is a function of ONE answer of the store — `cl pfx key` — whatever the key / prefix; an
error of that one read (or of `getClient`) is a failed pull. This is the code-level content of `okOutcome`
on which `snapshots_real` rests. -/
theorem pull_is_one_linearizable_read (cl : Bool → String → EtcdResp) (gc : Bool) (key : String) (pfx : Bool)
    (hwf : RespWF (cl true key)) :
    Gen.FactsC19IR.pullIR (Gen.FactsC19IR.respOf cl gc) key pfx =
      pull pfx (if gc then .error else cl pfx key) ∧
    (Gen.FactsC19IR.getRawPrefixIR cl gc key).1 = (getRawPrefix (if gc then .error else cl true key)).1 ∧
    (Gen.FactsC19IR.getRawIR cl gc key).1 = (getRaw (if gc then .error else cl false key)).1 := by
  refine ⟨?_, ?_, ?_⟩
  · rw [Syncer.pull_regenerated_from_source]; rfl
  · rw [Syncer.getRawPrefix_regenerated_from_source cl gc key hwf]; rfl
  · rw [Syncer.getRaw_regenerated_from_source]; rfl

/-- The closure `pullCompareSend` of `run` (captured `data` starts as the empty map): pull of this
key / prefix; error ⇒ return; old `data` compared with the pulled map; `data = newData` before the single
`send(data)`. -/
theorem pullCompareSend_regenerated_from_source (S : Nat → Data) (st : St) (r : Option Nat)
    (pl : String → Bool → Option Data) (key : String) (pfx : Bool) (h : pl key pfx = r.map S) :
    Gen.FactsC19IR.extractionFailed = false ∧
    Gen.FactsC19IR.runDataInit = "make(map[string]*mvccpb.KeyValue)" ∧
    Gen.FactsC19IR.pullCompareSendIR pl key pfx st.last (st.sentRev.map Prod.snd) =
      ((pullCompareSend S st r).last, (pullCompareSend S st r).sentRev.map Prod.snd) :=
  ⟨by decide, by decide, Syncer.pullCompareSend_regenerated_from_source S st r pl key pfx h⟩

/-- The `fn` closures of `Sync` / `SyncRaw`: exactly one value is sent per call, the model's. -/
theorem syncSend_regenerated_from_source (key : String) (data : Data) (out : List (Option String)) :
    Gen.FactsC19IR.extractionFailed = false ∧
    Gen.FactsC19IR.syncSendIR key data out = sendSync key data :: out :=
  ⟨by decide, Syncer.syncSend_regenerated_from_source key data out⟩

theorem syncRawSend_regenerated_from_source (key : String) (data : Data) (out : List (Option KV)) :
    Gen.FactsC19IR.extractionFailed = false ∧
    Gen.FactsC19IR.syncRawSendIR key data out = sendSyncRaw key data :: out :=
  ⟨by decide, Syncer.syncRawSend_regenerated_from_source key data out⟩

/-- The `fn` closures of `SyncPrefix` / `SyncRawPrefix`: a fresh map is filled from `data` (a map: distinct
keys) and that copy is sent (`…Fresh`: the value sent is a map made inside the closure — aliasing is invisible
to a value-level model, so the copy is additionally tied as this syntactic fact); `none` = nil dereference
of `v.Value`. -/
theorem syncPrefixSend_regenerated_from_source (key : String) (data : Data)
    (out : List (List (String × String))) (hm : IsMap data) :
    Gen.FactsC19IR.extractionFailed = false ∧ Gen.FactsC19IR.syncPrefixSendIRFresh = true ∧
    Gen.FactsC19IR.syncPrefixSendIR key data out = (sendSyncPrefix data).map (· :: out) :=
  ⟨by decide, by decide, Syncer.syncPrefixSend_regenerated_from_source key data out hm⟩

theorem syncRawPrefixSend_regenerated_from_source (key : String) (data : Data) (out : List Data)
    (hm : IsMap data) :
    Gen.FactsC19IR.extractionFailed = false ∧ Gen.FactsC19IR.syncRawPrefixSendIRFresh = true ∧
    Gen.FactsC19IR.syncRawPrefixSendIR key data out = sendSyncRawPrefix data :: out :=
  ⟨by decide, by decide, Syncer.syncRawPrefixSend_regenerated_from_source key data out hm⟩

/-! ### Non-vacuity -/

private def kvA : Option KV := some ⟨"p/a", "1"⟩
private def kvB : Option KV := some ⟨"p/b", "2"⟩
/-- store history: {} , {a}, {a,b}, {b}, {b} (same-value put), {} -/
private def Sx : Nat → Data
  | 0 => []
  | 1 => [("p/a", kvA)]
  | 2 => [("p/a", kvA), ("p/b", kvB)]
  | 3 => [("p/b", kvB)]
  | 4 => [("p/b", kvB)]
  | _ => []

example : ∀ i, IsMap (Sx i) := by
  intro i
  match i with
  | 0 | 1 | 2 | 3 | 4 => simp [Sx, IsMap, keys]
  | _ + 5 => simp [Sx, IsMap, keys]

/-- Empty at start (no initial snapshot); a watch event after the first write; two writes whose
events are lost and a cancelled watch; the ticker pull then skips state 2 and delivers state 3;
the same-value put changes nothing; the final delete is only seen by the ticker. -/
private def evx : List Ev :=
  [.write, .watchEvent (some 1), .write, .write, .watchCancel, .tick none, .tick (some 3),
   .write, .watchEvent (some 4), .progress, .write, .tick (some 5)]

example : validRun Sx 0 (some 0) evx = true := by decide
example : (sent (run Sx 0 (some 0) evx)).map Prod.fst = [1, 3, 5] := by decide
example : view (run Sx 0 (some 0) evx) = Sx 5 := by decide
example : (run Sx 0 (some 0) evx).restarts = 1 := by decide
/-- the two arguments are the same map in a different order -/
example : isDataEqual [("p/a", kvA), ("p/b", kvB)] [("p/b", kvB), ("p/a", kvA)] = true := by decide
example : isDataEqual [("p/a", kvA)] [("p/a", some ⟨"p/a", "2"⟩)] = false := by decide

/-- Non-vacuity of the trace theorems: `evx` = fault window (`evs1`: lost events, cancel, failed pull, a
skipped state) ++ the fair tick after the last write ++ a suffix with more faults and no write. -/
private def evs1x : List Ev :=
  [.write, .watchEvent (some 1), .write, .write, .watchCancel, .tick none, .tick (some 3),
   .write, .watchEvent (some 4), .progress, .write, .watchEvent none]
private def evs2x : List Ev := [.tick none, .watchCancel, .progress, .watchEvent (some 5), .tick (some 5)]

example : validRun Sx 0 (some 0) (evs1x ++ Ev.tick (some 5) :: evs2x) = true := by decide
example : Ev.tick (some 5) = Ev.tick (some (run Sx 0 (some 0) evs1x).cur) := by decide
example : Ev.write ∉ evs2x := by decide
example : linLoop Sx (pullCompareSend Sx (St.start 0) (some 0)) (evs1x ++ Ev.tick (some 5) :: evs2x) = true := by decide
example : okPull (Ev.tick (some 5)) = true := rfl
/-- … and the conclusion is not trivially true: three snapshots were delivered, the last is `Sx 5`. -/
example : (sent (run Sx 0 (some 0) (evs1x ++ Ev.tick (some 5) :: evs2x))).map Prod.fst = [1, 3, 5] := by decide
/-- a run that is *not* fair (the last write is followed by failed pulls only) does not converge -/
example : view (run Sx 0 (some 0) (evs1x ++ [.tick none, .watchCancel])) ≠ Sx 5 := by decide
/-- Non-vacuity of the translation tie: the generated definitions compute. -/
example : Gen.FactsC19IR.isDataEqualIR [("p/a", kvA), ("p/b", kvB)] [("p/b", kvB), ("p/a", kvA)] = true := by decide
example : Gen.FactsC19IR.pullCompareSendIR (fun _ _ => some [("p/a", kvA)]) "p/a" false [] [] =
    ([("p/a", kvA)], [[("p/a", kvA)]]) := by decide
example : Gen.FactsC19IR.pullCompareSendIR (fun _ _ => none) "p/a" false [("p/a", kvA)] [] = ([("p/a", kvA)], []) := by decide
example : Gen.FactsC19IR.syncPrefixSendIR "p" [("p/a", kvA), ("p/b", none)] [] = none := by decide

/-- Non-vacuity of the slow-consumer theorems: 12 distinct states are produced while the consumer is away
(buffer full, the 12th send blocks, the ticks that follow are lost), then the consumer drains and a last
tick is processed. -/
private def Sn : Nat → Data := fun i => [("p/a", some ⟨"p/a", toString i⟩)]
private def awayx : List CEv :=
  (List.range 13).flatMap (fun i => [CEv.env .write, CEv.env (.watchEvent (some (i + 1)))])
    ++ [CEv.env (.tick (some 13)), CEv.env (.tick (some 13))]
private def backx : List CEv := List.replicate 11 CEv.consume ++ [CEv.env (.tick (some 13)), CEv.consume]

example : (crun Sn 0 (some 0) awayx).2.buf.length = 10 ∧ (crun Sn 0 (some 0) awayx).2.pending.isSome = true ∧
    (crun Sn 0 (some 0) awayx).2.recvd = [] := by decide
example : (crun Sn 0 (some 0) (awayx ++ backx)).2.buf = [] ∧ (crun Sn 0 (some 0) (awayx ++ backx)).2.pending = none := by
  decide
example : (crun Sn 0 (some 0) (awayx ++ backx)).2.recvd.getLast? = some (Sn 13) := by decide
/-- the events processed: 13 writes, 10 watch events (the 10th blocks in its send; the 11th–13th and two
ticks arrive while blocked and are not processed), and the tick after the consumer came back -/
example : (effective Sn (cstart Sn 0 (some 0)) (awayx ++ backx)).length = 13 + 10 + 1 := by decide

/-! ## Audit repair (notes/AUDIT.md, C19 item 13; engineer mux)

(a) The judge's verdict is `Spec.check` (`real`, `differ`, `converged`), which no theorem mentioned, and it is
strictly stronger than `validRun` (it wants indices `≥ pre`): it is accepted on the model's own behaviour
exactly under the linearizable-read hypothesis `linLoop` (what etcd's `Get` gives). Helper lemmas
(`mapEqB_iff`, `assign_complete`, `differ_iff`): `Proofs/SyncerCheck.lean`.
(b) `snapshots_real` is true by construction of the model (`pullCompareSend` pushes `(i, S i)`); the
statement with content is about the *generated* closure: whatever the pull oracle answers, it only ever
sends what a pull returned (`generated_sends_only_pulled`). -/

/-- all snapshots carry an index `≥ pre` and the store never runs behind `pre` -/
def LowInv (pre : Nat) (st : St) : Prop := pre ≤ st.cur ∧ ∀ p ∈ st.sentRev, pre ≤ p.1

theorem low_pull {S : Nat → Data} {pre : Nat} {st : St} (h : LowInv pre st) (r : Option Nat)
    (hr : ∀ i, r = some i → i = st.cur) : LowInv pre (pullCompareSend S st r) := by
  cases r with
  | none => exact h
  | some i =>
    have hi := hr i rfl
    unfold pullCompareSend
    simp only
    split
    · refine ⟨h.1, fun p hp => ?_⟩
      rcases List.mem_cons.mp hp with rfl | hp
      · have := h.1; simp only; omega
      · exact h.2 p hp
    · exact ⟨h.1, h.2⟩

theorem low_loop {S : Nat → Data} {pre : Nat} : ∀ (evs : List Ev) {st : St}, LowInv pre st →
    linLoop S st evs = true → LowInv pre (loop S st evs)
  | [], _, h, _ => h
  | e :: es, st, h, hl => by
    simp only [linLoop, Bool.and_eq_true] at hl
    refine low_loop es ?_ hl.2
    cases e with
    | write => exact ⟨Nat.le_succ_of_le h.1, h.2⟩
    | tick r => exact low_pull h r (fun i hi => by subst hi; simpa using hl.1)
    | watchEvent r => exact low_pull h r (fun i hi => by subst hi; simpa using hl.1)
    | watchCancel => exact ⟨h.1, h.2⟩
    | progress => exact h

/-- newest-first `Differs` is oldest-first `DiffersFrom []` of the delivered maps -/
theorem differsFrom_append_single : ∀ (prev : Data) (xs : List Data) (d : Data),
    DiffersFrom prev (xs ++ [d]) ↔ DiffersFrom prev xs ∧ ¬ MapEq ((xs.getLast?).getD prev) d
  | prev, [], d => by simp [DiffersFrom]
  | prev, x :: xs, d => by
    simp only [List.cons_append, DiffersFrom, differsFrom_append_single x xs d]
    have : ((x :: xs).getLast?).getD prev = (xs.getLast?).getD x := by
      cases xs with
      | nil => rfl
      | cons y ys =>
        rw [List.getLast?_cons_cons]
        cases hl : (y :: ys).getLast? with
        | none => simp at hl
        | some z => rfl
    rw [this, and_assoc]

theorem differsFrom_of_differs : ∀ (l : List (Nat × Data)), Differs l →
    DiffersFrom [] (l.reverse.map Prod.snd)
  | [], _ => trivial
  | [(i, d)], h => by simpa [DiffersFrom, Differs] using h
  | (i2, d2) :: (i1, d1) :: rest, h => by
    simp only [Differs] at h
    have ih := differsFrom_of_differs ((i1, d1) :: rest) h.2
    have : ((i2, d2) :: (i1, d1) :: rest).reverse.map Prod.snd =
        (((i1, d1) :: rest).reverse.map Prod.snd) ++ [d2] := by simp
    rw [this, differsFrom_append_single]
    refine ⟨ih, ?_⟩
    have hl : ((((i1, d1) :: rest).reverse.map Prod.snd).getLast?).getD [] = d1 := by simp
    rw [hl]; exact h.1

/-- **The judge's `check` accepts the model — `real` and `differ`.** `states` are the store states the judge
replays (`S i = states.getD i []`, all maps), the run is valid with linearizable reads (initial pull failed or
read the state current at start; every later successful pull reads the current state) and never reads beyond
the replayed history. Then the delivered snapshots can be assigned non-decreasing indices `≥ pre`
(`assign` succeeds) and consecutive snapshots differ, the first from the empty map. -/
theorem check_accepts_model (states : List Data) (hmap : ∀ d ∈ states, IsMap d) (pre : Nat) (r0 : Option Nat)
    (evs : List Ev) (hr0 : ∀ i, r0 = some i → i = pre)
    (hv : validRun (fun i => states.getD i []) pre r0 evs = true)
    (hlin : linLoop (fun i => states.getD i []) (pullCompareSend (fun i => states.getD i []) (St.start pre) r0) evs = true)
    (hlen : pre + evs.count Ev.write < states.length) :
    (check states pre ((sent (run (fun i => states.getD i []) pre r0 evs)).map Prod.snd)).real = true ∧
    (check states pre ((sent (run (fun i => states.getD i []) pre r0 evs)).map Prod.snd)).differ = true := by
  have hS : ∀ i, IsMap ((fun i => states.getD i []) i) := by
    intro i
    simp only [List.getD_eq_getElem?_getD]
    cases h : states[i]? with
    | none => simp [IsMap, keys]
    | some d => exact hmap d (List.mem_of_getElem? h)
  generalize hSdef : (fun i => states.getD i []) = S at *
  have hpt : ∀ j, S j = states.getD j [] := fun j => by rw [← hSdef]
  have inv := inv_run hS pre r0 evs hv
  have hreal := snapshots_real hS pre r0 evs hv
  have hmono := monotone hS pre r0 evs hv
  have h0 : LowInv pre (St.start pre) := ⟨Nat.le_refl pre, fun p hp => by simp [St.start] at hp⟩
  have hlow : LowInv pre (run S pre r0 evs) :=
    low_loop evs (low_pull (S := S) h0 r0 (fun i hi => hr0 i hi)) hlin
  have hcur : (run S pre r0 evs).cur = pre + evs.count Ev.write := run_cur S pre r0 evs
  constructor
  · -- real
    simp only [check]
    refine assign_complete states ((sent (run S pre r0 evs)).map Prod.fst) _ pre (by simp) ?_ ?_
    · intro k h1 h2
      simp only [List.length_map] at h1
      simp only [List.getElem_map]
      have hmem : (sent (run S pre r0 evs))[k] ∈ sent (run S pre r0 evs) := List.getElem_mem _
      obtain ⟨hval, hle⟩ := hreal _ hmem
      refine ⟨hlow.2 _ (List.mem_reverse.mp hmem), ?_⟩
      have hlt : (sent (run S pre r0 evs))[k].1 < states.length := by omega
      refine ⟨states[(sent (run S pre r0 evs))[k].1], by simp [hlt], ?_⟩
      have hSi : S (sent (run S pre r0 evs))[k].1 = states[(sent (run S pre r0 evs))[k].1] := by
        rw [hpt]
        simp only [List.getD_eq_getElem?_getD, List.getElem?_eq_getElem hlt, Option.getD_some]
      rw [hval, hSi]
      exact mapEqB_refl (hmap _ (List.getElem_mem _))
    · exact hmono.imp (fun h => Nat.le_of_lt h)
  · -- differ
    simp only [check]
    have hd := differsFrom_of_differs _ (consecutive_differ hS pre r0 evs hv)
    refine (differ_iff [] _ (by simp [IsMap, keys]) ?_).mpr hd
    intro d hdm
    obtain ⟨p, hp, rfl⟩ := List.mem_map.mp hdm
    rw [(hreal p hp).1]; exact hS _

/-- **… and `converged`**, under the fairness hypothesis of `converges_fair` (some successful pull after the
last write) when the replayed history ends with the run's last write. -/
theorem check_converged_model (states : List Data) (hmap : ∀ d ∈ states, IsMap d) (pre : Nat) (r0 : Option Nat)
    (evs1 : List Ev) (e : Ev) (evs2 : List Ev)
    (hv : validRun (fun i => states.getD i []) pre r0 (evs1 ++ e :: evs2) = true)
    (hlin : linLoop (fun i => states.getD i []) (pullCompareSend (fun i => states.getD i []) (St.start pre) r0)
      (evs1 ++ e :: evs2) = true)
    (hok : okPull e = true) (hw : Ev.write ∉ evs2)
    (hlen : pre + (evs1 ++ e :: evs2).count Ev.write + 1 = states.length) :
    (check states pre ((sent (run (fun i => states.getD i []) pre r0 (evs1 ++ e :: evs2))).map Prod.snd)).converged
      = true := by
  have hS : ∀ i, IsMap ((fun i => states.getD i []) i) := by
    intro i
    simp only [List.getD_eq_getElem?_getD]
    cases h : states[i]? with
    | none => simp [IsMap, keys]
    | some d => exact hmap d (List.mem_of_getElem? h)
  obtain ⟨hm, _⟩ := converges_fair hS pre r0 evs1 e evs2 hv hlin hok hw
  have hreal := snapshots_real hS pre r0 _ hv
  generalize hst : run (fun i => states.getD i []) pre r0 (evs1 ++ e :: evs2) = st at *
  simp only [check]
  -- the consumer's final view is `view st`
  have hview : finalView ((sent st).map Prod.snd) = view st := by
    unfold finalView sent view
    cases hsr : st.sentRev with
    | nil => simp
    | cons hd tl => obtain ⟨i, d⟩ := hd; simp
  -- the last replayed state is `S n`
  have hlast : (states.getLast?).getD [] = states.getD (pre + (evs1 ++ e :: evs2).count Ev.write) [] := by
    rw [List.getLast?_eq_getElem?]
    have : states.length - 1 = pre + (evs1 ++ e :: evs2).count Ev.write := by omega
    rw [this, List.getD_eq_getElem?_getD]
  rw [hview, hlast]
  have hvm : IsMap (view st) := by
    unfold view
    split
    · simp [IsMap, keys]
    · rename_i i d tl heq
      have := (hreal (i, d) (by simp [sent, heq])).1
      simp only at this; rw [this]; exact hS i
  exact (mapEqB_iff hvm (hS _)).mpr hm

/-- `check` is strictly stronger than `validRun`: a stale initial read (index 1 when 2 writes preceded the
start) is a valid run of the model, but the judge's `real` rejects it — hence the hypothesis `linLoop` /
`hr0` above is necessary, not a convenience. -/
example : validRun (fun i => [[], [("k", some ⟨"k", "a"⟩)], [("k", some ⟨"k", "b"⟩)]].getD i []) 2 (some 1) [] = true ∧
    (check [[], [("k", some ⟨"k", "a"⟩)], [("k", some ⟨"k", "b"⟩)]] 2
      ((sent (run (fun i => [[], [("k", some ⟨"k", "a"⟩)], [("k", some ⟨"k", "b"⟩)]].getD i []) 2 (some 1) [])).map Prod.snd)).real
      = false := by decide
/-- non-vacuity: a linearizable run over three replayed states; `check` accepts all three parts -/
example :
    let states : List Data := [[], [("k", some ⟨"k", "a"⟩)], [("k", some ⟨"k", "b"⟩)]]
    let S := fun i => states.getD i []
    let evs := [Ev.write, Ev.watchEvent (some 1), Ev.write, Ev.tick none, Ev.tick (some 2)]
    validRun S 0 (some 0) evs = true ∧ linLoop S (pullCompareSend S (St.start 0) (some 0)) evs = true ∧
    (check states 0 ((sent (run S 0 (some 0) evs)).map Prod.snd)).real = true ∧
    (check states 0 ((sent (run S 0 (some 0) evs)).map Prod.snd)).differ = true ∧
    (check states 0 ((sent (run S 0 (some 0) evs)).map Prod.snd)).converged = true ∧
    (sent (run S 0 (some 0) evs)).map Prod.fst = [1, 2] := by decide

/-- **No phantom state, on the generated code**: one invocation of the translated closure
`pullCompareSend` — whatever the pull oracle `pl` answers — leaves `sent` unchanged or adds exactly the map
the pull returned, and `data` is the old `data` or that map. -/
theorem generated_sends_only_pulled (pl : String → Bool → Option Data) (key : String) (pfx : Bool)
    (data : Data) (sent0 : List Data) :
    Gen.FactsC19IR.extractionFailed = false ∧
    ((Gen.FactsC19IR.pullCompareSendIR pl key pfx data sent0) = (data, sent0) ∨
      ∃ d, pl key pfx = some d ∧ Gen.FactsC19IR.pullCompareSendIR pl key pfx data sent0 = (d, d :: sent0)) := by
  refine ⟨by decide, ?_⟩
  unfold Gen.FactsC19IR.pullCompareSendIR Gen.FactsC19IR.pullE
  cases h : pl key pfx with
  | none => left; simp
  | some d =>
    by_cases heq : isDataEqual data d = true
    · left; simp [heq]
    · right
      have : isDataEqual data d = false := by simpa using heq
      exact ⟨d, rfl, by simp [this]⟩

/-- A whole life of the generated closure (the initial call and one per tick / watch event, each with its
own pull answer): **every snapshot ever handed to `send` is a map some pull returned** — no invented,
merged or partial state, by the code itself and not by construction of a model. -/
def generatedRun (key : String) (pfx : Bool) : List (String → Bool → Option Data) → Data × List Data → Data × List Data
  | [], x => x
  | pl :: pls, x => generatedRun key pfx pls (Gen.FactsC19IR.pullCompareSendIR pl key pfx x.1 x.2)

theorem generated_snapshots_real (key : String) (pfx : Bool) :
    ∀ (pls : List (String → Bool → Option Data)) (x : Data × List Data),
      ∀ d ∈ (generatedRun key pfx pls x).2, d ∈ x.2 ∨ ∃ pl ∈ pls, pl key pfx = some d
  | [], x, d, hd => Or.inl hd
  | pl :: pls, x, d, hd => by
    rcases generated_snapshots_real key pfx pls _ d hd with h | ⟨pl', hpl', hd'⟩
    · rcases (generated_sends_only_pulled pl key pfx x.1 x.2).2 with h2 | ⟨d2, hd2, h2⟩
      · rw [h2] at h; exact Or.inl h
      · rw [h2] at h
        rcases List.mem_cons.mp h with rfl | h
        · exact Or.inr ⟨pl, List.mem_cons_self, hd2⟩
        · exact Or.inl h
    · exact Or.inr ⟨pl', List.mem_cons_of_mem _ hpl', hd'⟩

/-- Non-vacuity of the getter tie: a two-key range response, and a failed read. -/
example : Gen.FactsC19IR.getRawPrefixIR (fun _ _ => .kvs [⟨"p/a", "1"⟩, ⟨"p/b", "2"⟩]) false "p/" =
    ([("p/a", kvA), ("p/b", kvB)], false) := by decide
example : RespWF (.kvs [⟨"p/a", "1"⟩, ⟨"p/b", "2"⟩]) := by simp [RespWF]
example : (Gen.FactsC19IR.getRawPrefixIR (fun _ _ => .error) false "p/").2 = true := by decide

end EgVerif.C19
