import EgVerif.Model.Payload
import EgVerif.Spec.Payload
import EgVerif.Gen.FactsC07
import EgVerif.Proofs.PayloadIR
import EgVerif.Model.ProxyE2E
/-!
# C07 — body limits: oversized requests get 413 unforwarded, big responses are withheld

Theorems about `Model.Payload` (line-by-line model of `Request/Response.FetchPayload`,
the limit selection and error mapping in `mux.serveHTTP` and `ServerPool.buildResponse`),
for **every** limit setting at both levels, **every** declared length and **every**
delivered length (no bound). `lim` is always the limit in force
(`Spec.limitInForce`: inner level unless 0, else outer level, else the default).
-/
namespace EgVerif.C07
open EgVerif.Payload

/-- The limit the code ends up using is the declarative "path, else server, else default"
(`effLimit` + `normLimit` of the model = `Spec.limitInForce`). -/
theorem effective_limit (dflt inner outer : Int) :
    normLimit dflt (effLimit inner outer) = Spec.limitInForce dflt inner outer := by
  unfold normLimit effLimit Spec.limitInForce
  by_cases h1 : inner = 0 <;> by_cases h2 : outer = 0 <;> simp [h1, h2]

/-- Path level wins over server level whenever it is set (non-zero), whatever the server says. -/
theorem inner_level_wins (dflt inner outer : Int) (h : inner ≠ 0) :
    Spec.limitInForce dflt inner outer = inner := by
  simp [Spec.limitInForce, h]

theorem both_unset_default (dflt : Int) : Spec.limitInForce dflt 0 0 = dflt := by
  simp [Spec.limitInForce]

/-- **Central decision table**: for every limit and every source, `FetchPayload` behaves as
the size-based specification says. -/
theorem fetch_spec (dflt limit : Int) (s : Src) :
    Spec.fetchOK (normLimit dflt limit) s (fetch dflt limit s) = true := by
  unfold Spec.fetchOK fetch Spec.isShort Spec.size
  generalize normLimit dflt limit = lim
  obtain ⟨d, a⟩ := s
  simp only
  by_cases hneg : lim < 0
  · simp [hneg]
  · simp only [hneg, if_false]
    by_cases hdl : d > lim
    · have : d ≥ 0 := by omega
      simp [hdl, this]
      omega
    · simp only [hdl, if_false]
      by_cases hd0 : d > 0
      · have hge : d ≥ 0 := by omega
        simp only [hd0, if_true, hge, decide_true, Bool.true_and]
        by_cases hs : d.toNat ≤ a
        · have : ¬ a < d.toNat := by omega
          simp [hs, this]
          omega
        · have : a < d.toNat := by omega
          simp [hs, this]
      · simp only [hd0, if_false]
        by_cases hz : d = 0
        · subst hz; simp; omega
        · have hlt : ¬ d ≥ 0 := by omega
          have hz' : (d == 0) = false := by simp [hz]
          simp only [hz', hlt, decide_false, Bool.false_and, Bool.false_eq_true, if_false]
          by_cases h1 : min a lim.toNat < lim.toNat
          · have : a < lim.toNat := by omega
            have h2 : min a lim.toNat = a := by omega
            have h3 : ¬ ((a : Int) > lim) := by omega
            simp [h2, h3]
          · simp only [h1, if_false]
            by_cases h2 : a - min a lim.toNat > 0
            · have h3 : (a : Int) > lim := by omega
              simp [h2, h3]
            · have h3 : ¬ ((a : Int) > lim) := by omega
              have h4 : min a lim.toNat = a := by omega
              simp [h3, h4]

/-- A negative limit in force streams a body of any size (and any declared length). -/
theorem stream_any_size (dflt limit : Int) (s : Src) (h : normLimit dflt limit < 0) :
    fetch dflt limit s = .stream := by
  simp [fetch, h]

/-- A body of exactly the limit passes intact, length-declared … -/
theorem exact_limit_ok_declared (dflt limit : Int) (n : Nat) (h : normLimit dflt limit = n) :
    fetch dflt limit ⟨n, n⟩ = .ok n := by
  have := fetch_spec dflt limit ⟨n, n⟩
  simp [Spec.fetchOK, Spec.isShort, Spec.size, h] at this
  exact this

/-- … and chunked. -/
theorem exact_limit_ok_chunked (dflt limit : Int) (n : Nat) (h : normLimit dflt limit = n) :
    fetch dflt limit ⟨-1, n⟩ = .ok n := by
  have := fetch_spec dflt limit ⟨-1, n⟩
  simp [Spec.fetchOK, Spec.isShort, Spec.size, h] at this
  exact this

/-- One byte more than the limit is refused in both encodings. -/
theorem limit_plus_one_refused (dflt limit : Int) (n : Nat) (h : normLimit dflt limit = n) :
    fetch dflt limit ⟨(n + 1 : Nat), n + 1⟩ = .tooLarge ∧ fetch dflt limit ⟨-1, n + 1⟩ = .tooLarge := by
  have h1 := fetch_spec dflt limit ⟨(n + 1 : Nat), n + 1⟩
  have h2 := fetch_spec dflt limit ⟨-1, n + 1⟩
  simp [Spec.fetchOK, Spec.isShort, Spec.size, h] at h1 h2
  have hn : ¬ ((n : Int) < 0) := by omega
  have hlt : (n : Int) < (n : Int) + 1 := by omega
  rw [if_neg hn, if_pos hlt] at h1 h2
  exact ⟨h1, h2⟩

/-! ### The mux: 413 / 400 are answered before the handler runs -/

/-- An oversized request (declared or chunked) is answered 413 and the handler — hence any
backend — never sees it. -/
theorem too_large_never_handled (dflt pathL serverL : Int) (s : Src)
    (hlim : 0 ≤ Spec.limitInForce dflt pathL serverL) (hshort : Spec.isShort s = false)
    (hbig : (Spec.size s : Int) > Spec.limitInForce dflt pathL serverL) :
    serve dflt pathL serverL s = ⟨413, false, .tooLarge⟩ := by
  have h := fetch_spec dflt (effLimit pathL serverL) s
  rw [effective_limit] at h
  have hn : ¬ Spec.limitInForce dflt pathL serverL < 0 := by omega
  simp [Spec.fetchOK, hn, hshort, hbig] at h
  simp [serve, h]

/-- A body shorter than its declared length is answered 400 (or 413 when the declared
length alone is over the limit), never handled. -/
theorem short_read_400 (dflt pathL serverL : Int) (s : Src)
    (hlim : 0 ≤ Spec.limitInForce dflt pathL serverL) (hshort : Spec.isShort s = true) :
    (serve dflt pathL serverL s).handled = false ∧
    ((serve dflt pathL serverL s).status = 400 ∨ (serve dflt pathL serverL s).status = 413) ∧
    (s.declared ≤ Spec.limitInForce dflt pathL serverL → (serve dflt pathL serverL s).status = 400) := by
  have h := fetch_spec dflt (effLimit pathL serverL) s
  rw [effective_limit] at h
  have hn : ¬ Spec.limitInForce dflt pathL serverL < 0 := by omega
  simp [Spec.fetchOK, hn, hshort] at h
  have hdecl : ¬ s.declared > Spec.limitInForce dflt pathL serverL →
      fetch dflt (effLimit pathL serverL) s = .shortRead := by
    intro hle
    unfold Spec.isShort at hshort
    simp at hshort
    unfold fetch
    rw [effective_limit]
    have hd : s.declared > 0 := by omega
    have hna : ¬ s.declared.toNat ≤ s.actual := by omega
    simp [hn, hle, hd, hna]
  rcases h with h | h
  · simp [serve, h]
  · refine ⟨by simp [serve, h], by simp [serve, h], ?_⟩
    intro hle
    have := hdecl (by omega)
    rw [this] at h
    exact absurd h (by decide)

/-- A consistent body within the limit reaches the handler completely buffered. -/
theorem within_limit_handled (dflt pathL serverL : Int) (s : Src)
    (hlim : 0 ≤ Spec.limitInForce dflt pathL serverL) (hshort : Spec.isShort s = false)
    (hfit : (Spec.size s : Int) ≤ Spec.limitInForce dflt pathL serverL) :
    serve dflt pathL serverL s = ⟨0, true, .ok (Spec.size s)⟩ := by
  have h := fetch_spec dflt (effLimit pathL serverL) s
  rw [effective_limit] at h
  have hn : ¬ Spec.limitInForce dflt pathL serverL < 0 := by omega
  have hb : ¬ (Spec.size s : Int) > Spec.limitInForce dflt pathL serverL := by omega
  simp [Spec.fetchOK, hn, hshort, hb] at h
  simp [serve, h]

/-- With `-1` (any negative limit in force) every request is handled, as a stream. -/
theorem stream_always_handled (dflt pathL serverL : Int) (s : Src)
    (hlim : Spec.limitInForce dflt pathL serverL < 0) :
    serve dflt pathL serverL s = ⟨0, true, .stream⟩ := by
  have : fetch dflt (effLimit pathL serverL) s = .stream :=
    stream_any_size _ _ _ (by rw [effective_limit]; exact hlim)
  simp [serve, this]

/-- The executable request-side specification used by the judge accepts the model. -/
theorem serve_meets_spec (dflt pathL serverL : Int) (s : Src) :
    Spec.requestOK (Spec.limitInForce dflt pathL serverL) s
      (serve dflt pathL serverL s).status (serve dflt pathL serverL s).handled = true := by
  unfold Spec.requestOK
  by_cases hneg : Spec.limitInForce dflt pathL serverL < 0
  · simp [hneg, stream_always_handled dflt pathL serverL s hneg]
  · have hlim : 0 ≤ Spec.limitInForce dflt pathL serverL := by omega
    simp only [hneg, if_false]
    cases hs : Spec.isShort s
    · simp only [Bool.false_eq_true, if_false]
      by_cases hb : (Spec.size s : Int) > Spec.limitInForce dflt pathL serverL
      · simp [hb, too_large_never_handled dflt pathL serverL s hlim hs hb]
      · simp [hb, within_limit_handled dflt pathL serverL s hlim hs (by omega)]
    · obtain ⟨h1, h2, _⟩ := short_read_400 dflt pathL serverL s hlim hs
      rcases h2 with h2 | h2 <;> simp [h1, h2]

/-! ### The proxy: an oversized or short backend response is never delivered -/

theorem resp_too_large_is_5xx_not_delivered (dflt poolL proxyL : Int) (st : Nat) (s : Src)
    (hlim : 0 ≤ Spec.limitInForce dflt poolL proxyL) (hshort : Spec.isShort s = false)
    (hbig : (Spec.size s : Int) > Spec.limitInForce dflt poolL proxyL) :
    poolResp dflt poolL proxyL false st s = ⟨500, false, .tooLarge⟩ := by
  have h := fetch_spec dflt (effLimit poolL proxyL) s
  rw [effective_limit] at h
  have hn : ¬ Spec.limitInForce dflt poolL proxyL < 0 := by omega
  simp [Spec.fetchOK, hn, hshort, hbig] at h
  simp [poolResp, fetchResp, effective_limit, hn, h]

theorem resp_short_is_error (dflt poolL proxyL : Int) (st : Nat) (s : Src)
    (hlim : 0 ≤ Spec.limitInForce dflt poolL proxyL) (hshort : Spec.isShort s = true) :
    (poolResp dflt poolL proxyL false st s).status = 500 ∧
    (poolResp dflt poolL proxyL false st s).delivered = false := by
  have h := fetch_spec dflt (effLimit poolL proxyL) s
  rw [effective_limit] at h
  have hn : ¬ Spec.limitInForce dflt poolL proxyL < 0 := by omega
  simp [Spec.fetchOK, hn, hshort] at h
  rcases h with h | h <;> simp [poolResp, fetchResp, effective_limit, hn, h]

theorem resp_within_delivered (dflt poolL proxyL : Int) (st : Nat) (s : Src)
    (hlim : 0 ≤ Spec.limitInForce dflt poolL proxyL) (hshort : Spec.isShort s = false)
    (hfit : (Spec.size s : Int) ≤ Spec.limitInForce dflt poolL proxyL) :
    poolResp dflt poolL proxyL false st s = ⟨st, true, .ok (Spec.size s)⟩ := by
  have h := fetch_spec dflt (effLimit poolL proxyL) s
  rw [effective_limit] at h
  have hn : ¬ Spec.limitInForce dflt poolL proxyL < 0 := by omega
  have hb : ¬ (Spec.size s : Int) > Spec.limitInForce dflt poolL proxyL := by omega
  simp [Spec.fetchOK, hn, hshort, hb] at h
  simp [poolResp, fetchResp, effective_limit, hn, h]

/-- The reply to a HEAD request (declared length, no body) keeps the backend's status
whatever the limit (repaired code; the unrepaired code answered 500). -/
theorem head_reply_keeps_status (dflt poolL proxyL : Int) (st : Nat) (s : Src) :
    (poolResp dflt poolL proxyL true st s).status = st ∧
    (poolResp dflt poolL proxyL true st s).delivered = true := by
  unfold poolResp fetchResp
  by_cases hn : normLimit dflt (effLimit poolL proxyL) < 0 <;> simp [hn]

/-- The executable response-side specification used by the judge accepts the model. -/
theorem poolResp_meets_spec (dflt poolL proxyL : Int) (st : Nat) (s : Src) :
    Spec.responseOK (Spec.limitInForce dflt poolL proxyL) s st
      (poolResp dflt poolL proxyL false st s).status (poolResp dflt poolL proxyL false st s).delivered = true := by
  unfold Spec.responseOK
  by_cases hneg : Spec.limitInForce dflt poolL proxyL < 0
  · simp [hneg]
  · have hlim : 0 ≤ Spec.limitInForce dflt poolL proxyL := by omega
    simp only [hneg, if_false]
    cases hs : Spec.isShort s
    · by_cases hb : (Spec.size s : Int) > Spec.limitInForce dflt poolL proxyL
      · simp [hb, resp_too_large_is_5xx_not_delivered dflt poolL proxyL st s hlim hs hb]
      · simp [hb, resp_within_delivered dflt poolL proxyL st s hlim hs (by omega)]
    · obtain ⟨h1, h2⟩ := resp_short_is_error dflt poolL proxyL st s hlim hs
      simp [h1, h2]

/-! ### Facts regenerated from the source on every run -/

/-- (The two printed limit-selection statements that stood here are replaced by the stronger
`serve_ / buildResp_regenerated_from_source`, which re-translate them and survive renamings.)
`DefaultMaxPayloadSize` is 4 MiB; `serveHTTP` calls `FetchPayload` before the handler and
leaves through `return` with 413 / 400 in the two error branches; `buildResponse` returns the
`FetchPayload` error and `doHandle` maps it to 500. -/
theorem facts_hold :
    Gen.FactsC07.extractionFailed = false ∧
    Gen.FactsC07.defaultMaxPayloadSize = 4194304 ∧
    Gen.FactsC07.muxTooLargeStatus = "http.StatusRequestEntityTooLarge" ∧
    Gen.FactsC07.muxOtherErrStatus = "http.StatusBadRequest" ∧
    Gen.FactsC07.muxErrBranchesReturn = true ∧
    Gen.FactsC07.muxFetchBeforeHandle = true ∧
    Gen.FactsC07.muxAbortsOnCopyError = true ∧
    Gen.FactsC07.poolFetchErrReturned = true ∧
    Gen.FactsC07.poolBuildErrStatus = "http.StatusInternalServerError" := by decide

/-! ### Regenerated tie by translation (notes/IR.md): the code itself, re-translated on every run

`Gen.FactsC07IR.*` are produced by `harness/factextract/facts_c07_ir.go` (go/ast → Lean) from the
*current* bodies of the four anchored mechanisms; the proofs are in `Proofs/PayloadIR.lean`. `error`
values are the enumeration `Payload.Err`, byte slices are known by length, the body reader is
stateful (`Payload.Rd`; contract of `io.ReadFull` / `io.ReadAll∘io.LimitReader` / `io.Copy` =
`readFull` / `readAllLimited` / `copyDiscard`, trusted and exercised by the `fetch` harness). -/

/-- `Request.FetchPayload` (request.go) = `fetch`, for every limit and every body source. -/
theorem fetchReq_regenerated_from_source (dflt limit : Int) (s : Src) :
    Gen.FactsC07IR.extractionFailed = false ∧
    toOutcome (Gen.FactsC07IR.fetchReqIR dflt limit false s) = some (fetch dflt limit s) :=
  ⟨by decide, Payload.fetchReq_regenerated_from_source dflt limit s⟩

/-- `Response.FetchPayload` (response.go) = `fetchResp`; `m` = method of the answered request. -/
theorem fetchResp_regenerated_from_source (dflt limit : Int) (m : Option String) (s : Src) :
    Gen.FactsC07IR.extractionFailed = false ∧
    toOutcome (Gen.FactsC07IR.fetchRespIR dflt limit m false s) = some (fetchResp dflt limit (m == some "HEAD") s) :=
  ⟨by decide, Payload.fetchResp_regenerated_from_source dflt limit m s⟩

/-- mux.go: limit selection, 413 / 400 mapping, `return` before the handler = `serve`. -/
theorem serve_regenerated_from_source (dflt pathL serverL : Int) (gf : Option Unit) (s : Src) :
    Gen.FactsC07IR.extractionFailed = false ∧
    (Gen.FactsC07IR.serveIR dflt pathL serverL gf false s).1 = (serve dflt pathL serverL s).status ∧
    (Gen.FactsC07IR.serveIR dflt pathL serverL gf false s).2.1 = (serve dflt pathL serverL s).handled ∧
    ((serve dflt pathL serverL s).handled = true →
      toOutcome ((Gen.FactsC07IR.serveIR dflt pathL serverL gf false s).2.2, .nil) = some (serve dflt pathL serverL s).payload) :=
  ⟨by decide, Payload.serve_regenerated_from_source dflt pathL serverL gf s⟩

/-- pool.go `buildResponse`: limit selection, error returned ⇔ not delivered (`spCtx.resp` stays nil ⇒ 500). -/
theorem buildResp_regenerated_from_source (dflt poolL proxyL : Int) (m : Option String) (err0 : Err)
    (st : Nat) (s : Src) :
    Gen.FactsC07IR.extractionFailed = false ∧
    (let r := Gen.FactsC07IR.buildRespIR dflt poolL proxyL m err0 false s
     let w := poolResp dflt poolL proxyL (m == some "HEAD") st s
     (r.1 = .nil ↔ w.delivered = true) ∧ r.2.1 = r.2.2 ∧
     (w.delivered = false → r.2.1 = none ∧ w.status = 500) ∧
     (w.delivered = true → w.status = st ∧ ∃ p, r.2.1 = some p ∧ toOutcome (p, .nil) = some w.payload)) :=
  ⟨by decide, Payload.buildResp_regenerated_from_source dflt poolL proxyL m err0 st s⟩

/-- non-vacuity: the translated code on concrete sources (11 chunked bytes against limit 10; a short body). -/
example : Gen.FactsC07IR.fetchReqIR 4194304 10 false ⟨-1, 11⟩ = (.bytes 10, .tooLarge) ∧
    Gen.FactsC07IR.fetchReqIR 4194304 10 false ⟨8, 5⟩ = (.bytes 5, .unexpectedEOF) ∧
    Gen.FactsC07IR.fetchReqIR 4194304 10 false ⟨8, 0⟩ = (.bytes 0, .unexpectedEOF) ∧
    Gen.FactsC07IR.fetchRespIR 4194304 0 (some "HEAD") false ⟨100, 0⟩ = (.bytes 0, .nil) ∧
    Gen.FactsC07IR.serveIR 4194304 10 1000 none false ⟨-1, 11⟩ = (413, false, .unset) ∧
    Gen.FactsC07IR.serveIR 4194304 0 (-1) (some ()) false ⟨-1, 11⟩ = (0, true, .stream) := by decide

/-! ### Limit selection at all four levels, `-1` at each level -/

/-- The complete table of the two-level selection (path/server for requests, pool/proxy for responses):
a negative inner level streams whatever the outer level says; a positive inner level is the limit even when
the outer level says `-1`; an unset inner level defers to the outer one — which may be `-1` (stream) —
and both unset give the default. -/
theorem limit_levels (dflt inner outer : Int) :
    (inner < 0 → Spec.limitInForce dflt inner outer = inner) ∧
    (inner > 0 → Spec.limitInForce dflt inner outer = inner) ∧
    (inner = 0 → outer ≠ 0 → Spec.limitInForce dflt inner outer = outer) ∧
    (inner = 0 → outer = 0 → Spec.limitInForce dflt inner outer = dflt) := by
  refine ⟨?_, ?_, ?_, ?_⟩ <;> intros <;> simp_all [Spec.limitInForce] <;> omega

/-- `-1` at each of the four levels, on the `serve` / `poolResp` models: (1) path `-1` streams over any
server value; (2) path unset, server `-1` streams; (3) a positive path limit is enforced although the server
says `-1`; (4)–(6) the same for pool / proxy. -/
theorem minus_one_at_each_level (dflt : Int) (outer : Int) (n : Nat) (st : Nat) (s : Src) (hn : 0 < n) :
    serve dflt (-1) outer s = ⟨0, true, .stream⟩ ∧
    serve dflt 0 (-1) s = ⟨0, true, .stream⟩ ∧
    serve dflt n (-1) ⟨-1, n + 1⟩ = ⟨413, false, .tooLarge⟩ ∧
    poolResp dflt (-1) outer false st s = ⟨st, true, .stream⟩ ∧
    poolResp dflt 0 (-1) false st s = ⟨st, true, .stream⟩ ∧
    poolResp dflt n (-1) false st ⟨-1, n + 1⟩ = ⟨500, false, .tooLarge⟩ := by
  have h1 : Spec.limitInForce dflt (-1) outer < 0 := by simp [Spec.limitInForce]
  have h2 : Spec.limitInForce dflt 0 (-1) < 0 := by simp [Spec.limitInForce]
  have h3 : Spec.limitInForce dflt (n : Int) (-1) = n := by
    have : (n : Int) ≠ 0 := by omega
    exact inner_level_wins dflt n (-1) this
  refine ⟨stream_always_handled _ _ _ _ h1, stream_always_handled _ _ _ _ h2, ?_, ?_, ?_, ?_⟩
  · apply too_large_never_handled
    · rw [h3]; omega
    · simp [Spec.isShort]
    · rw [h3]; simp [Spec.size]; omega
  · have : fetchResp dflt (effLimit (-1) outer) false s = .stream := by
      unfold fetchResp; rw [effective_limit]; simp [h1]
    simp [poolResp, this]
  · have : fetchResp dflt (effLimit 0 (-1)) false s = .stream := by
      unfold fetchResp; rw [effective_limit]; simp [h2]
    simp [poolResp, this]
  · apply resp_too_large_is_5xx_not_delivered
    · rw [h3]; omega
    · simp [Spec.isShort]
    · rw [h3]; simp [Spec.size]; omega

/-- (By construction of the model, not counted as an obligation: on the code side `serveIR` has no pool / proxy
parameter and `buildRespIR` no path / server parameter at all.) The request-side limits never touch the response and vice versa: `prepare` (mux + RequestAdaptor +
prepareRequest) is independent of pool / proxy limits, `proxyResp` (transport + buildResponse) of path /
server limits. -/
example {β : Type} (ops : Proxy.BodyOps β) (canon : String → String) (cfg : Proxy.Cfg)
    (q : Proxy.ClientReq β) (x y : Int) (method : String) (outHdr : Proxy.Hdr) (reply : Proxy.BackendReply β) :
    Proxy.prepare ops canon { cfg with poolMax := x, proxyMax := y } q = Proxy.prepare ops canon cfg q ∧
    Proxy.proxyResp ops { cfg with pathMax := x, serverMax := y } method outHdr reply =
      Proxy.proxyResp ops cfg method outHdr reply := ⟨rfl, rfl⟩

/-! ### Lying Content-Length -/

/-- A body *longer* than it declares (within the limit): exactly the declared bytes are taken, never more,
and it is not an error (net/http cuts the rest off). -/
theorem lying_long_reads_declared (dflt limit : Int) (d a : Nat) (hd : 0 < d) (hda : d ≤ a)
    (hl : (d : Int) ≤ normLimit dflt limit) :
    fetch dflt limit ⟨d, a⟩ = .ok d := by
  have h1 : ¬ normLimit dflt limit < 0 := by omega
  have h2 : ¬ (d : Int) > normLimit dflt limit := by omega
  have h3 : (d : Int) > 0 := by omega
  have h4 : d ≠ 0 := by omega
  simp [fetch, h1, h2, hda, h4]

/-- A declared length over the limit is refused **without reading a single byte** whatever the body
really contains — shown on the re-translated `FetchPayload`s themselves: no payload was installed
(`Pay.unset`), i.e. neither `io.ReadFull` nor `io.ReadAll` ran. -/
theorem declared_over_limit_refused_unread (dflt limit : Int) (d : Int) (a : Nat) (m : Option String) (failing : Bool)
    (h0 : 0 ≤ normLimit dflt limit) (hd : d > normLimit dflt limit) (hm : (m == some "HEAD") = false) :
    Gen.FactsC07IR.fetchReqIR dflt limit failing ⟨d, a⟩ = (.unset, .tooLarge) ∧
    Gen.FactsC07IR.fetchRespIR dflt limit m failing ⟨d, a⟩ = (.unset, .tooLarge) := by
  have hmerge : (if (limit == 0) = true then dflt else limit) = normLimit dflt limit := rfl
  have h1 : ¬ normLimit dflt limit < 0 := by omega
  have hm' : (m.isSome && (m.getD "" == "HEAD")) = false := by
    cases m with
    | none => rfl
    | some x => simpa using hm
  constructor
  · simp only [Gen.FactsC07IR.fetchReqIR, hmerge]
    simp [h1, hd]
  · simp only [Gen.FactsC07IR.fetchRespIR, hmerge, hm']
    simp [h1, hd]

/-- A declared length *shorter* … and one *longer* than what arrives, both directions, in one table: short ⇒
never handled / never delivered; long ⇒ exactly the declared bytes. -/
theorem lying_content_length_table (dflt pathL serverL poolL proxyL : Int) (d a st : Nat) (hd : 0 < d)
    (hq : (d : Int) ≤ Spec.limitInForce dflt pathL serverL) (hr : (d : Int) ≤ Spec.limitInForce dflt poolL proxyL) :
    (a < d → (serve dflt pathL serverL ⟨d, a⟩).handled = false ∧ (serve dflt pathL serverL ⟨d, a⟩).status = 400) ∧
    (a < d → (poolResp dflt poolL proxyL false st ⟨d, a⟩).delivered = false ∧
             (poolResp dflt poolL proxyL false st ⟨d, a⟩).status = 500) ∧
    (d ≤ a → serve dflt pathL serverL ⟨d, a⟩ = ⟨0, true, .ok d⟩) ∧
    (d ≤ a → poolResp dflt poolL proxyL false st ⟨d, a⟩ = ⟨st, true, .ok d⟩) := by
  have hq0 : 0 ≤ Spec.limitInForce dflt pathL serverL := by omega
  have hr0 : 0 ≤ Spec.limitInForce dflt poolL proxyL := by omega
  refine ⟨?_, ?_, ?_, ?_⟩
  · intro ha
    have hs : Spec.isShort ⟨(d : Int), a⟩ = true := by simp [Spec.isShort]; omega
    obtain ⟨h1, _, h3⟩ := short_read_400 dflt pathL serverL ⟨d, a⟩ hq0 hs
    exact ⟨h1, h3 hq⟩
  · intro ha
    have hs : Spec.isShort ⟨(d : Int), a⟩ = true := by simp [Spec.isShort]; omega
    obtain ⟨h1, h2⟩ := resp_short_is_error dflt poolL proxyL st ⟨d, a⟩ hr0 hs
    exact ⟨h2, h1⟩
  · intro ha
    have := lying_long_reads_declared dflt (effLimit pathL serverL) d a hd ha (by rw [effective_limit]; exact hq)
    simp [serve, this]
  · intro ha
    have := lying_long_reads_declared dflt (effLimit poolL proxyL) d a hd ha (by rw [effective_limit]; exact hr)
    have hn : ¬ normLimit dflt (effLimit poolL proxyL) < 0 := by rw [effective_limit]; omega
    simp [poolResp, fetchResp, hn, this]

/-! ### A body reader that fails instead of ending (short backend body behind the gzip compressor) -/

/-- Behind the Proxy's `compression:` the declared length is hidden from `FetchPayload`; the short read must
surface as the reader's error. Whatever the limit (≥ 0) and however many bytes came before the failure, the
outcome is an error — never `ok`: the response is not delivered (⇒ 500, `poolResp`'s error mapping). -/
theorem failing_reader_never_delivered (dflt limit : Int) (actual : Nat) (h : 0 ≤ normLimit dflt limit) :
    fetchFailing dflt limit actual = .shortRead ∨ fetchFailing dflt limit actual = .tooLarge := by
  unfold fetchFailing
  have : ¬ normLimit dflt limit < 0 := by omega
  simp only [this, if_false]
  by_cases h2 : actual ≤ (normLimit dflt limit).toNat <;> simp [h2]

example : fetchFailing 4194304 0 10 = .shortRead ∧ fetchFailing 4194304 5 10 = .tooLarge ∧
    fetchFailing 4194304 (-1) 10 = .stream := by decide

example : serve 4194304 (-1) 5 ⟨-1, 99⟩ = ⟨0, true, .stream⟩ ∧ serve 4194304 0 (-1) ⟨7, 7⟩ = ⟨0, true, .stream⟩ ∧
    serve 4194304 3 (-1) ⟨-1, 4⟩ = ⟨413, false, .tooLarge⟩ ∧
    Gen.FactsC07IR.fetchReqIR 4194304 3 false ⟨9, 2⟩ = (.unset, .tooLarge) ∧ fetch 4194304 10 ⟨4, 9⟩ = .ok 4 := by decide

/-! ### The reader oracle with failing readers: `fetchFailing` tied to the code -/

/-- Both `FetchPayload`s for either kind of body reader (ending with `io.EOF`, or failing with
`io.ErrUnexpectedEOF` after `actual` bytes) are the model's `fetchRd`. -/
theorem fetchRd_regenerated_from_source (dflt limit : Int) (m : Option String) (failing : Bool) (s : Src) :
    Gen.FactsC07IR.extractionFailed = false ∧
    toOutcome (Gen.FactsC07IR.fetchReqIR dflt limit failing s) = some (fetchRd dflt limit failing s) ∧
    toOutcome (Gen.FactsC07IR.fetchRespIR dflt limit m failing s) =
      some (if normLimit dflt limit < 0 then .stream else if (m == some "HEAD") then .ok 0 else fetchRd dflt limit failing s) :=
  ⟨by decide, Payload.fetchReqRd_regenerated_from_source dflt limit failing s,
    Payload.fetchRespRd_regenerated_from_source dflt limit m failing s⟩

/-- **`fetchFailing` is the translated `Response.FetchPayload` on a failing reader of hidden length** (what sits
behind the Proxy's gzip compressor or the transparent gunzip when the backend's body is short): with
`failing_reader_never_delivered`, such a response is never a success in buffered mode — now a statement about
response.go, not about a hand-written function. -/
theorem fetchFailing_regenerated_from_source (dflt limit : Int) (m : Option String) (a : Nat)
    (hm : (m == some "HEAD") = false) :
    Gen.FactsC07IR.extractionFailed = false ∧
    toOutcome (Gen.FactsC07IR.fetchRespIR dflt limit m true ⟨-1, a⟩) = some (fetchFailing dflt limit a) :=
  ⟨by decide, Payload.fetchFailing_regenerated_from_source dflt limit m a hm⟩

/-! ### Stream mode: a short body is a visibly aborted transfer, never a clean success -/

section stream
open EgVerif.Proxy
variable {β : Type} (ops : BodyOps β)

/-- **Stream mode, short backend body ⇒ the client's transfer is aborted** (the mux's copy of the response body
fails and it aborts the connection instead of ending the message — `fixes/C07-stream-abort.patch`, fact
`muxAbortsOnCopyError`): for every limit setting with a negative limit in force, every non-HEAD request that
reaches the Proxy, with or without `compression:` / the transparent gunzip in between, as long as no downstream
filter replaces the body. The status line may be out already; what the clause can and does guarantee is that
the client never sees a complete, clean message. -/
theorem stream_short_body_aborted (canon : String → String) (cfg : Cfg) (q : ClientReq β) (reply : BackendReply β)
    (m : ReqMsg β) (seen : BackendSeen β) (hp : prepare ops canon cfg q = .ready m seen)
    (hs : Spec.limitInForce cfg.dflt cfg.poolMax cfg.proxyMax < 0)
    (hhead : (q.method == "HEAD") = false)
    (hshort : Spec.isShort ⟨reply.cl, ops.len reply.body⟩ = true)
    (had : ∀ a, cfg.respAd = some a → a.body = "") :
    clientAborted ops canon cfg q reply = true := by
  unfold clientAborted
  rw [hp]
  have h1 : bodyReaderFails ops cfg q.method seen.hdr reply = true := by
    unfold bodyReaderFails transportFails
    rw [effective_limit]
    unfold Spec.isShort at hshort
    simp only [Bool.and_eq_true, decide_eq_true_eq, ge_iff_le] at hshort
    simp [hs, hhead, hshort.1, hshort.2]
  have h2 : (downstream cfg).all (fun a => a.body == "") = true := by
    unfold downstream
    cases hra : cfg.respAd with
    | none => rfl
    | some a => simp [had a hra]
  simp [h1, h2]

/-- Conversely nothing is ever aborted in buffered mode (a short body is an error *status* there:
`resp_short_is_error`), nor in stream mode for an honest backend whose gzip (if the transport un-gzips it) decodes. -/
theorem not_aborted_when_buffered_or_honest (canon : String → String) (cfg : Cfg) (q : ClientReq β) (reply : BackendReply β)
    (h : 0 ≤ Spec.limitInForce cfg.dflt cfg.poolMax cfg.proxyMax ∨
         (Spec.isShort ⟨reply.cl, ops.len reply.body⟩ = false ∧ (ops.ungz reply.body).isSome = true)) :
    clientAborted ops canon cfg q reply = false := by
  unfold clientAborted
  cases hp : prepare ops canon cfg q with
  | early st => rfl
  | adaptorFailed => rfl
  | ready m seen =>
    have h1 : bodyReaderFails ops cfg q.method seen.hdr reply = false := by
      unfold bodyReaderFails transportFails
      rw [effective_limit]
      rcases h with h | ⟨h1, h2⟩
      · have : ¬ Spec.limitInForce cfg.dflt cfg.poolMax cfg.proxyMax < 0 := by omega
        simp [this]
      · unfold Spec.isShort at h1
        have h2' : (ops.ungz reply.body).isNone = false := by
          cases hu : ops.ungz reply.body <;> simp_all
        simp only [Bool.and_eq_false_iff, decide_eq_false_iff_not, ge_iff_le] at h1
        rcases h1 with h1 | h1 <;> simp [h1, h2']
    simp [h1]

/-! ### The e2e judge's executable specification accepts the model (`run`) -/

/-- Request direction: what `run` does with a request (answered by the mux itself / handed to the backend) meets
`Spec.requestOK` for the limit in force — the judge evaluates the same predicate on the observed status and
"backend contacted". (No RequestAdaptor, as in the C07 scenarios.) -/
theorem run_meets_requestOK (canon : String → String) (cfg : Cfg) (q : ClientReq β) (reply : BackendReply β)
    (hra : cfg.reqAd = none) :
    Spec.requestOK (Spec.limitInForce cfg.dflt cfg.pathMax cfg.serverMax) ⟨q.declared, ops.len q.body⟩
      (match run ops canon cfg q reply with | .early st => st | _ => 0)
      (match run ops canon cfg q reply with | .proxied _ _ _ => true | _ => false) = true := by
  have hspec := serve_meets_spec cfg.dflt cfg.pathMax cfg.serverMax ⟨q.declared, ops.len q.body⟩
  unfold run prepare
  simp only [hra]
  by_cases hh : (serve cfg.dflt cfg.pathMax cfg.serverMax ⟨q.declared, ops.len q.body⟩).handled = true
  · simp only [hh, Bool.not_true, Bool.false_eq_true, if_false]
    have hst : (serve cfg.dflt cfg.pathMax cfg.serverMax ⟨q.declared, ops.len q.body⟩).status = 0 := by
      unfold serve at hh ⊢
      split <;> simp_all
    rw [hh, hst] at hspec
    cases hpr : proxyResp ops cfg q.method _ reply <;> simpa [hpr] using hspec
  · have hh' : (serve cfg.dflt cfg.pathMax cfg.serverMax ⟨q.declared, ops.len q.body⟩).handled = false := by simpa using hh
    simp only [hh', Bool.not_false, if_true]
    rw [hh'] at hspec
    exact hspec

/-- Without `compression:` and without the transparent gunzip, `proxyResp` is `FetchPayload` on the backend's
reply as it is. -/
theorem proxyResp_plain (cfg : Cfg) (method : String) (outHdr : Hdr) (reply : BackendReply β)
    (hhead : (method == "HEAD") = false) (hc : cfg.compression = none) (hg : gunzipApplies method outHdr reply = false) :
    proxyResp ops cfg method outHdr reply =
      fetchPayload ops cfg.dflt (effLimit cfg.poolMax cfg.proxyMax) false ⟨reply.status, reply.hdr, reply.cl, .stream reply.body⟩ := by
  have ht : transportReply ops method outHdr reply = ⟨reply.status, reply.hdr, reply.cl, .stream reply.body⟩ := by
    simp [transportReply, hhead, hg]
  unfold proxyResp fetchOrFail compressed
  simp only [hc, ht, hhead]
  have : (transportFails ops method outHdr reply && decide (reply.cl < (0 : Int))) = false := by
    unfold transportFails
    simp only [hg, Bool.false_and, Bool.or_false]
    by_cases h : reply.cl < 0
    · have : ¬ 0 ≤ reply.cl := by omega
      simp [this]
    · simp [h]
  simp [this]

/-- Response direction, buffered mode: status and "delivered" of `run` meet `Spec.responseOK` for the limit in force
(the scenarios of the judge: no compression, no adaptors, non-HEAD, no transparent gunzip). -/
theorem run_meets_responseOK (canon : String → String) (cfg : Cfg) (q : ClientReq β) (reply : BackendReply β)
    (seen : BackendSeen β) (cl : Resp β) (ok : Bool)
    (hhead : (q.method == "HEAD") = false) (hc : cfg.compression = none) (hra : cfg.respAd = none)
    (hg : gunzipApplies q.method seen.hdr reply = false)
    (hr : run ops canon cfg q reply = .proxied seen cl ok) :
    Spec.responseOK (Spec.limitInForce cfg.dflt cfg.poolMax cfg.proxyMax) ⟨reply.cl, ops.len reply.body⟩
      reply.status cl.status ok = true := by
  have hspec := poolResp_meets_spec cfg.dflt cfg.poolMax cfg.proxyMax reply.status ⟨reply.cl, ops.len reply.body⟩
  unfold run at hr
  cases hp : prepare ops canon cfg q with
  | early st => rw [hp] at hr; cases hr
  | adaptorFailed => rw [hp] at hr; cases hr
  | ready m s =>
    rw [hp] at hr
    simp only [] at hr
    have hseen : s = seen := by
      cases hpr : proxyResp ops cfg q.method s.hdr reply <;> rw [hpr] at hr <;>
        simp only [Result.proxied.injEq] at hr <;> exact hr.1
    subst hseen
    rw [proxyResp_plain ops cfg q.method s.hdr reply hhead hc hg] at hr
    unfold fetchPayload at hr
    unfold poolResp at hspec
    simp only [Pl.content] at hr
    generalize fetchResp cfg.dflt (effLimit cfg.poolMax cfg.proxyMax) false ⟨reply.cl, ops.len reply.body⟩ = o at hr hspec
    have hd : downstream cfg = [] := by simp [downstream, hra]
    cases o <;> simp only [Result.proxied.injEq, hd, adaptorChain, List.foldl_nil] at hr <;>
      obtain ⟨_, h2, h3⟩ := hr <;> subst h2 <;> subst h3 <;> simpa [failureResp] using hspec

/-- Response direction, **stream mode**: `run` + `clientAborted` meet `Spec.streamResponseOK` — a short body is an
aborted transfer, an honest one arrives complete with the backend's status (same scenario class). This is the
statement `Spec.responseOK` is silent about (`lim < 0 ⇒ true`). -/
theorem run_meets_streamResponseOK (canon : String → String) (cfg : Cfg) (q : ClientReq β) (reply : BackendReply β)
    (seen : BackendSeen β) (cl : Resp β) (ok : Bool)
    (hs : Spec.limitInForce cfg.dflt cfg.poolMax cfg.proxyMax < 0)
    (hhead : (q.method == "HEAD") = false) (hc : cfg.compression = none) (hra : cfg.respAd = none)
    (hg : gunzipApplies q.method seen.hdr reply = false)
    (hr : run ops canon cfg q reply = .proxied seen cl ok) :
    Spec.streamResponseOK ⟨reply.cl, ops.len reply.body⟩ reply.status cl.status (clientAborted ops canon cfg q reply) = true := by
  unfold run at hr
  cases hp : prepare ops canon cfg q with
  | early st => rw [hp] at hr; cases hr
  | adaptorFailed => rw [hp] at hr; cases hr
  | ready m s =>
    rw [hp] at hr
    simp only [] at hr
    have hseen : s = seen := by
      cases hpr : proxyResp ops cfg q.method s.hdr reply <;> rw [hpr] at hr <;>
        simp only [Result.proxied.injEq] at hr <;> exact hr.1
    subst hseen
    unfold Spec.streamResponseOK
    by_cases hsh : Spec.isShort ⟨reply.cl, ops.len reply.body⟩ = true
    · simp only [hsh, if_true]
      exact stream_short_body_aborted ops canon cfg q reply m s hp hs hhead hsh (by intro a ha; rw [hra] at ha; cases ha)
    · have hsh' : Spec.isShort ⟨reply.cl, ops.len reply.body⟩ = false := by simpa using hsh
      simp only [hsh', Bool.false_eq_true, if_false]
      have hna : clientAborted ops canon cfg q reply = false := by
        unfold clientAborted
        rw [hp]
        have : bodyReaderFails ops cfg q.method s.hdr reply = false := by
          unfold bodyReaderFails transportFails
          unfold Spec.isShort at hsh'
          simp only [Bool.and_eq_false_iff, decide_eq_false_iff_not, ge_iff_le] at hsh'
          rcases hsh' with h1 | h1 <;> simp [h1, hg]
        simp [this]
      rw [proxyResp_plain ops cfg q.method s.hdr reply hhead hc hg] at hr
      have hlim : normLimit cfg.dflt (effLimit cfg.poolMax cfg.proxyMax) < 0 := by rw [effective_limit]; exact hs
      have hd : downstream cfg = [] := by simp [downstream, hra]
      simp only [fetchPayload, fetchResp, hlim, if_true, hd, adaptorChain, List.foldl_nil, Result.proxied.injEq] at hr
      obtain ⟨_, h2, _⟩ := hr
      subst h2
      simp [hna]


end stream

/-! ### `effective_limit` over update histories -/

/-- Histories compose: what happens after a prefix depends on the prefix only through the spec it leaves in force. -/
theorem muxHistory_append (dflt : Int) (cur : Int × Int) (pre ops : List MuxOp) :
    muxHistory dflt cur (pre ++ ops) = muxHistory dflt cur pre ++ muxHistory dflt (specAfter cur pre) ops := by
  induction pre generalizing cur with
  | nil => rfl
  | cons o t ih =>
    cases o with
    | reload p s => simp only [List.cons_append, muxHistory, specAfter]; exact ih (p, s)
    | request x => simp only [List.cons_append, muxHistory, specAfter, ih cur, List.cons_append]

/-- **The limit applied to a request is the one of the spec in force when it arrives** — whatever updates came
before (only the server level changed, nothing changed, rules changed too, any number of them), the request right
after a history `pre` is served with `Spec.limitInForce` of the *latest* spec: over the limit ⇒ 413 unhandled, within
⇒ handled, negative ⇒ streamed. -/
theorem effective_limit_over_reload_histories (dflt : Int) (init : Int × Int) (pre : List MuxOp) (x : Src) (rest : List MuxOp) :
    (muxHistory dflt init (pre ++ .request x :: rest))[(muxHistory dflt init pre).length]? =
      some (serve dflt (specAfter init pre).1 (specAfter init pre).2 x) ∧
    Spec.requestOK (Spec.limitInForce dflt (specAfter init pre).1 (specAfter init pre).2) x
      (serve dflt (specAfter init pre).1 (specAfter init pre).2 x).status
      (serve dflt (specAfter init pre).1 (specAfter init pre).2 x).handled = true := by
  refine ⟨?_, serve_meets_spec _ _ _ _⟩
  rw [muxHistory_append]
  simp [muxHistory]

/-- In particular an update of the server level alone takes effect for the very next request. -/
theorem server_level_update_takes_effect (dflt : Int) (init : Int × Int) (pre : List MuxOp) (pathL serverL : Int) (x : Src) :
    muxHistory dflt init (pre ++ [.reload pathL serverL, .request x]) =
      muxHistory dflt init pre ++ [serve dflt pathL serverL x] := by
  rw [muxHistory_append]; rfl

/-- Facts behind "the limits are read from the current spec at request time": the only place that writes a path's
`clientMaxBodySize` is `newMuxPath` (from the path's own spec value), `reload` builds every path through it and
publishes an instance carrying the new spec (`spec: spec`); the read side is `serve_regenerated_from_source`
(`route.path.clientMaxBodySize`, then `mi.spec.ClientMaxBodySize`). -/
theorem reload_facts :
    Gen.FactsC07.pathLimitWrittenOnlyByNewMuxPath = true ∧ Gen.FactsC07.reloadPublishesNewSpec = true := ⟨rfl, rfl⟩

/-- The seeded defect C07-m4 in the model: limit 64 → 16 by an update that leaves the rules alone; a 17-byte body
is refused by the code (413) but accepted with the stale table; 16 → -1: a 100 000-byte body streams, but is
refused with the stale table. -/
example :
    muxHistory 4194304 (0, 64) [.reload 0 16, .request ⟨17, 17⟩] = [⟨413, false, .tooLarge⟩] ∧
    muxHistoryStale 4194304 64 [(false, .reload 0 16), (false, .request ⟨17, 17⟩)] = [⟨0, true, .ok 17⟩] ∧
    muxHistory 4194304 (0, 16) [.reload 0 (-1), .request ⟨-1, 100000⟩] = [⟨0, true, .stream⟩] ∧
    muxHistoryStale 4194304 16 [(false, .reload 0 (-1)), (false, .request ⟨-1, 100000⟩)] = [⟨413, false, .tooLarge⟩] := by
  decide

/-! ### The int64 boundary: no overflow in either `FetchPayload` -/

/-- The model computes in unbounded `Int`; the Go code in `int64`. They agree because **neither `FetchPayload` does any
arithmetic**: the regenerated list of every `+ - * / % << >> & | ^`, unary minus, `++`/`--` and op-assignment in both
bodies is empty — the limit is only compared, converted between 64-bit integer types (`int(maxPayloadSize)`) and handed
to `io.LimitReader`; in particular no `limit + 1` exists that could wrap at `math.MaxInt64`. (The translated bodies
`fetchReqIR` / `fetchRespIR` contain no Int arithmetic either: the only sums are the `Nat` counters of consumed bytes.) -/
theorem fetch_no_int64_arithmetic : Gen.FactsC07.fetchArithmetic = [] := rfl

/-- … so the boundary behaves like any other limit, on the re-translated code itself: with `clientMaxBodySize` (or
`serverMaxBodySize`) of `math.MaxInt64` or `math.MaxInt64 - 1`, a chunked body of any size that fits and a declared one
pass intact, buffered — not "accepted with an empty payload". -/
theorem int64_boundary_limit_passes_intact (dflt : Int) (k : Nat) (hk : k ≤ 1) (a : Nat) (m : Option String)
    (ha : (a : Int) ≤ 9223372036854775807 - k) (hm : (m == some "HEAD") = false) :
    toOutcome (Gen.FactsC07IR.fetchReqIR dflt (9223372036854775807 - k) false ⟨-1, a⟩) = some (.ok a) ∧
    toOutcome (Gen.FactsC07IR.fetchReqIR dflt (9223372036854775807 - k) false ⟨a, a⟩) = some (.ok a) ∧
    toOutcome (Gen.FactsC07IR.fetchRespIR dflt (9223372036854775807 - k) m false ⟨-1, a⟩) = some (.ok a) := by
  have hl : normLimit dflt (9223372036854775807 - (k : Int)) = 9223372036854775807 - (k : Int) := by
    unfold normLimit
    have : ¬ (9223372036854775807 - (k : Int)) = 0 := by omega
    simp [this]
  have hspec : ∀ s : Src, Spec.isShort s = false → (Spec.size s : Int) ≤ 9223372036854775807 - (k : Int) →
      fetch dflt (9223372036854775807 - (k : Int)) s = .ok (Spec.size s) := by
    intro s h1 h2
    have h := fetch_spec dflt (9223372036854775807 - (k : Int)) s
    rw [hl] at h
    have hn : ¬ (9223372036854775807 - (k : Int)) < 0 := by omega
    have hb : ¬ (Spec.size s : Int) > 9223372036854775807 - (k : Int) := by omega
    simpa [Spec.fetchOK, hn, h1, hb] using h
  have h1 := hspec ⟨-1, a⟩ (by simp [Spec.isShort]) (by simpa [Spec.size] using ha)
  have h2 := hspec ⟨a, a⟩ (by simp [Spec.isShort]) (by simpa [Spec.size] using ha)
  refine ⟨?_, ?_, ?_⟩
  · rw [Payload.fetchReq_regenerated_from_source, h1]; simp [Spec.size]
  · rw [Payload.fetchReq_regenerated_from_source, h2]; simp [Spec.size]
  · rw [Payload.fetchResp_regenerated_from_source]
    have hn : ¬ normLimit dflt (9223372036854775807 - (k : Int)) < 0 := by rw [hl]; omega
    simp only [fetchResp, hn, if_false, hm, Bool.false_eq_true]
    rw [h1]; simp [Spec.size]

/-- non-vacuity / the seeded defect C07-m5 in numbers: at limit MaxInt64 a 100-byte chunked body is `ok 100`; a reader
limited to `MaxInt64 + 1` wrapped to `-2^63` would deliver nothing. -/
example : fetch 4194304 9223372036854775807 ⟨-1, 100⟩ = .ok 100 ∧
    (readAllLimited (⟨⟨-1, 100⟩, 0, false⟩, (-9223372036854775808 : Int))).1 = 0 := by decide

/-! ### Non-vacuity -/

private def exOpsS : Proxy.BodyOps (List Nat) :=
  ⟨List.length, fun b => 31 :: b, fun b => match b with | 31 :: t => some t | _ => none,
   fun s => s.toList.map Char.toNat, List.take, []⟩
private def exCfgS (proxyMax : Int) : Proxy.Cfg :=
  ⟨⟨"http://127.0.0.1:9", "127.0.0.1:9", false, false⟩, some 1, 4096, 50, 0, proxyMax, none, none, 4194304, {}, fun _ p _ => p, id⟩
private def exQS : Proxy.ClientReq (List Nat) := ⟨"PATCH", "/upload", "", "", "client.example", [], 3, [7, 7, 7]⟩
private def exReplyS : Proxy.BackendReply (List Nat) := ⟨200, [("Content-Length", ["101"])], 101, [5]⟩

/-- stream mode, a backend that declares 101 bytes and sends 1, compression on: the model says "aborted"; the same
reply in buffered mode is an error status instead (the replay input of fixes/C07-stream-abort.md). -/
example :
    Proxy.clientAborted exOpsS id (exCfgS (-1)) exQS exReplyS = true ∧ Proxy.clientAborted exOpsS id (exCfgS 0) exQS exReplyS = false ∧
    (match Proxy.run exOpsS id (exCfgS 0) exQS exReplyS with | .proxied _ cl ok => (cl.status, ok) | _ => (0, true)) = (500, false) :=
  ⟨by rfl, by rfl, by rfl⟩


/-- limit 10 at path level, 1000 at server level: 10 bytes pass, 11 chunked bytes get 413. -/
example : serve 4194304 10 1000 ⟨10, 10⟩ = ⟨0, true, .ok 10⟩ ∧
    serve 4194304 10 1000 ⟨-1, 11⟩ = ⟨413, false, .tooLarge⟩ ∧
    serve 4194304 0 0 ⟨-1, 4194304⟩ = ⟨0, true, .ok 4194304⟩ ∧
    serve 4194304 (-1) 5 ⟨-1, 99⟩ = ⟨0, true, .stream⟩ ∧
    serve 4194304 10 0 ⟨8, 5⟩ = ⟨400, false, .shortRead⟩ := by decide

example : poolResp 4194304 0 10 false 200 ⟨-1, 11⟩ = ⟨500, false, .tooLarge⟩ ∧
    poolResp 4194304 0 10 false 404 ⟨10, 10⟩ = ⟨404, true, .ok 10⟩ ∧
    poolResp 4194304 0 10 true 200 ⟨100, 0⟩ = ⟨200, true, .ok 0⟩ := by decide

end EgVerif.C07
