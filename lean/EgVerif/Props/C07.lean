import EgVerif.Model.Payload
import EgVerif.Spec.Payload
import EgVerif.Gen.FactsC07
/-!
# C07 — body limits: oversized requests get 413 unforwarded, big responses are withheld

Theorems about `Model.Payload` (line-by-line model of `Request/Response.FetchPayload`,
the limit selection and error mapping in `mux.serveHTTP` and `ServerPool.buildResponse`),
for **every** limit setting at both levels, **every** declared length and **every**
delivered length (no bound). `lim` is always the limit in force
(`Spec.limitInForce`: inner level unless 0, else outer level, else the default).
-/
namespace EgVerif.C07
open EgVerif.Payload

/-- The limit the code ends up using is the declarative "path, else server, else default"
(`effLimit` + `normLimit` of the model = `Spec.limitInForce`). -/
theorem effective_limit (dflt inner outer : Int) :
    normLimit dflt (effLimit inner outer) = Spec.limitInForce dflt inner outer := by
  unfold normLimit effLimit Spec.limitInForce
  by_cases h1 : inner = 0 <;> by_cases h2 : outer = 0 <;> simp [h1, h2]

/-- Path level wins over server level whenever it is set (non-zero), whatever the server says. -/
theorem inner_level_wins (dflt inner outer : Int) (h : inner ≠ 0) :
    Spec.limitInForce dflt inner outer = inner := by
  simp [Spec.limitInForce, h]

theorem both_unset_default (dflt : Int) : Spec.limitInForce dflt 0 0 = dflt := by
  simp [Spec.limitInForce]

/-- **Central decision table**: for every limit and every source, `FetchPayload` behaves as
the size-based specification says. -/
theorem fetch_spec (dflt limit : Int) (s : Src) :
    Spec.fetchOK (normLimit dflt limit) s (fetch dflt limit s) = true := by
  unfold Spec.fetchOK fetch Spec.isShort Spec.size
  generalize normLimit dflt limit = lim
  obtain ⟨d, a⟩ := s
  simp only
  by_cases hneg : lim < 0
  · simp [hneg]
  · simp only [hneg, if_false]
    by_cases hdl : d > lim
    · have : d ≥ 0 := by omega
      simp [hdl, this]
      omega
    · simp only [hdl, if_false]
      by_cases hd0 : d > 0
      · have hge : d ≥ 0 := by omega
        simp only [hd0, if_true, hge, decide_true, Bool.true_and]
        by_cases hs : d.toNat ≤ a
        · have : ¬ a < d.toNat := by omega
          simp [hs, this]
          omega
        · have : a < d.toNat := by omega
          simp [hs, this]
      · simp only [hd0, if_false]
        by_cases hz : d = 0
        · subst hz; simp; omega
        · have hlt : ¬ d ≥ 0 := by omega
          have hz' : (d == 0) = false := by simp [hz]
          simp only [hz', hlt, decide_false, Bool.false_and, Bool.false_eq_true, if_false]
          by_cases h1 : min a lim.toNat < lim.toNat
          · have : a < lim.toNat := by omega
            have h2 : min a lim.toNat = a := by omega
            have h3 : ¬ ((a : Int) > lim) := by omega
            simp [h2, h3]
          · simp only [h1, if_false]
            by_cases h2 : a - min a lim.toNat > 0
            · have h3 : (a : Int) > lim := by omega
              simp [h2, h3]
            · have h3 : ¬ ((a : Int) > lim) := by omega
              have h4 : min a lim.toNat = a := by omega
              simp [h3, h4]

/-- A negative limit in force streams a body of any size (and any declared length). -/
theorem stream_any_size (dflt limit : Int) (s : Src) (h : normLimit dflt limit < 0) :
    fetch dflt limit s = .stream := by
  simp [fetch, h]

/-- A body of exactly the limit passes intact, length-declared … -/
theorem exact_limit_ok_declared (dflt limit : Int) (n : Nat) (h : normLimit dflt limit = n) :
    fetch dflt limit ⟨n, n⟩ = .ok n := by
  have := fetch_spec dflt limit ⟨n, n⟩
  simp [Spec.fetchOK, Spec.isShort, Spec.size, h] at this
  exact this

/-- … and chunked. -/
theorem exact_limit_ok_chunked (dflt limit : Int) (n : Nat) (h : normLimit dflt limit = n) :
    fetch dflt limit ⟨-1, n⟩ = .ok n := by
  have := fetch_spec dflt limit ⟨-1, n⟩
  simp [Spec.fetchOK, Spec.isShort, Spec.size, h] at this
  exact this

/-- One byte more than the limit is refused in both encodings. -/
theorem limit_plus_one_refused (dflt limit : Int) (n : Nat) (h : normLimit dflt limit = n) :
    fetch dflt limit ⟨(n + 1 : Nat), n + 1⟩ = .tooLarge ∧ fetch dflt limit ⟨-1, n + 1⟩ = .tooLarge := by
  have h1 := fetch_spec dflt limit ⟨(n + 1 : Nat), n + 1⟩
  have h2 := fetch_spec dflt limit ⟨-1, n + 1⟩
  simp [Spec.fetchOK, Spec.isShort, Spec.size, h] at h1 h2
  have hn : ¬ ((n : Int) < 0) := by omega
  have hlt : (n : Int) < (n : Int) + 1 := by omega
  rw [if_neg hn, if_pos hlt] at h1 h2
  exact ⟨h1, h2⟩

/-! ### The mux: 413 / 400 are answered before the handler runs -/

/-- An oversized request (declared or chunked) is answered 413 and the handler — hence any
backend — never sees it. -/
theorem too_large_never_handled (dflt pathL serverL : Int) (s : Src)
    (hlim : 0 ≤ Spec.limitInForce dflt pathL serverL) (hshort : Spec.isShort s = false)
    (hbig : (Spec.size s : Int) > Spec.limitInForce dflt pathL serverL) :
    serve dflt pathL serverL s = ⟨413, false, .tooLarge⟩ := by
  have h := fetch_spec dflt (effLimit pathL serverL) s
  rw [effective_limit] at h
  have hn : ¬ Spec.limitInForce dflt pathL serverL < 0 := by omega
  simp [Spec.fetchOK, hn, hshort, hbig] at h
  simp [serve, h]

/-- A body shorter than its declared length is answered 400 (or 413 when the declared
length alone is over the limit), never handled. -/
theorem short_read_400 (dflt pathL serverL : Int) (s : Src)
    (hlim : 0 ≤ Spec.limitInForce dflt pathL serverL) (hshort : Spec.isShort s = true) :
    (serve dflt pathL serverL s).handled = false ∧
    ((serve dflt pathL serverL s).status = 400 ∨ (serve dflt pathL serverL s).status = 413) ∧
    (s.declared ≤ Spec.limitInForce dflt pathL serverL → (serve dflt pathL serverL s).status = 400) := by
  have h := fetch_spec dflt (effLimit pathL serverL) s
  rw [effective_limit] at h
  have hn : ¬ Spec.limitInForce dflt pathL serverL < 0 := by omega
  simp [Spec.fetchOK, hn, hshort] at h
  have hdecl : ¬ s.declared > Spec.limitInForce dflt pathL serverL →
      fetch dflt (effLimit pathL serverL) s = .shortRead := by
    intro hle
    unfold Spec.isShort at hshort
    simp at hshort
    unfold fetch
    rw [effective_limit]
    have hd : s.declared > 0 := by omega
    have hna : ¬ s.declared.toNat ≤ s.actual := by omega
    simp [hn, hle, hd, hna]
  rcases h with h | h
  · simp [serve, h]
  · refine ⟨by simp [serve, h], by simp [serve, h], ?_⟩
    intro hle
    have := hdecl (by omega)
    rw [this] at h
    exact absurd h (by decide)

/-- A consistent body within the limit reaches the handler completely buffered. -/
theorem within_limit_handled (dflt pathL serverL : Int) (s : Src)
    (hlim : 0 ≤ Spec.limitInForce dflt pathL serverL) (hshort : Spec.isShort s = false)
    (hfit : (Spec.size s : Int) ≤ Spec.limitInForce dflt pathL serverL) :
    serve dflt pathL serverL s = ⟨0, true, .ok (Spec.size s)⟩ := by
  have h := fetch_spec dflt (effLimit pathL serverL) s
  rw [effective_limit] at h
  have hn : ¬ Spec.limitInForce dflt pathL serverL < 0 := by omega
  have hb : ¬ (Spec.size s : Int) > Spec.limitInForce dflt pathL serverL := by omega
  simp [Spec.fetchOK, hn, hshort, hb] at h
  simp [serve, h]

/-- With `-1` (any negative limit in force) every request is handled, as a stream. -/
theorem stream_always_handled (dflt pathL serverL : Int) (s : Src)
    (hlim : Spec.limitInForce dflt pathL serverL < 0) :
    serve dflt pathL serverL s = ⟨0, true, .stream⟩ := by
  have : fetch dflt (effLimit pathL serverL) s = .stream :=
    stream_any_size _ _ _ (by rw [effective_limit]; exact hlim)
  simp [serve, this]

/-- The executable request-side specification used by the judge accepts the model. -/
theorem serve_meets_spec (dflt pathL serverL : Int) (s : Src) :
    Spec.requestOK (Spec.limitInForce dflt pathL serverL) s
      (serve dflt pathL serverL s).status (serve dflt pathL serverL s).handled = true := by
  unfold Spec.requestOK
  by_cases hneg : Spec.limitInForce dflt pathL serverL < 0
  · simp [hneg, stream_always_handled dflt pathL serverL s hneg]
  · have hlim : 0 ≤ Spec.limitInForce dflt pathL serverL := by omega
    simp only [hneg, if_false]
    cases hs : Spec.isShort s
    · simp only [Bool.false_eq_true, if_false]
      by_cases hb : (Spec.size s : Int) > Spec.limitInForce dflt pathL serverL
      · simp [hb, too_large_never_handled dflt pathL serverL s hlim hs hb]
      · simp [hb, within_limit_handled dflt pathL serverL s hlim hs (by omega)]
    · obtain ⟨h1, h2, _⟩ := short_read_400 dflt pathL serverL s hlim hs
      rcases h2 with h2 | h2 <;> simp [h1, h2]

/-! ### The proxy: an oversized or short backend response is never delivered -/

theorem resp_too_large_is_5xx_not_delivered (dflt poolL proxyL : Int) (st : Nat) (s : Src)
    (hlim : 0 ≤ Spec.limitInForce dflt poolL proxyL) (hshort : Spec.isShort s = false)
    (hbig : (Spec.size s : Int) > Spec.limitInForce dflt poolL proxyL) :
    poolResp dflt poolL proxyL false st s = ⟨500, false, .tooLarge⟩ := by
  have h := fetch_spec dflt (effLimit poolL proxyL) s
  rw [effective_limit] at h
  have hn : ¬ Spec.limitInForce dflt poolL proxyL < 0 := by omega
  simp [Spec.fetchOK, hn, hshort, hbig] at h
  simp [poolResp, fetchResp, effective_limit, hn, h]

theorem resp_short_is_error (dflt poolL proxyL : Int) (st : Nat) (s : Src)
    (hlim : 0 ≤ Spec.limitInForce dflt poolL proxyL) (hshort : Spec.isShort s = true) :
    (poolResp dflt poolL proxyL false st s).status = 500 ∧
    (poolResp dflt poolL proxyL false st s).delivered = false := by
  have h := fetch_spec dflt (effLimit poolL proxyL) s
  rw [effective_limit] at h
  have hn : ¬ Spec.limitInForce dflt poolL proxyL < 0 := by omega
  simp [Spec.fetchOK, hn, hshort] at h
  rcases h with h | h <;> simp [poolResp, fetchResp, effective_limit, hn, h]

theorem resp_within_delivered (dflt poolL proxyL : Int) (st : Nat) (s : Src)
    (hlim : 0 ≤ Spec.limitInForce dflt poolL proxyL) (hshort : Spec.isShort s = false)
    (hfit : (Spec.size s : Int) ≤ Spec.limitInForce dflt poolL proxyL) :
    poolResp dflt poolL proxyL false st s = ⟨st, true, .ok (Spec.size s)⟩ := by
  have h := fetch_spec dflt (effLimit poolL proxyL) s
  rw [effective_limit] at h
  have hn : ¬ Spec.limitInForce dflt poolL proxyL < 0 := by omega
  have hb : ¬ (Spec.size s : Int) > Spec.limitInForce dflt poolL proxyL := by omega
  simp [Spec.fetchOK, hn, hshort, hb] at h
  simp [poolResp, fetchResp, effective_limit, hn, h]

/-- The reply to a HEAD request (declared length, no body) keeps the backend's status
whatever the limit (repaired code; the unrepaired code answered 500). -/
theorem head_reply_keeps_status (dflt poolL proxyL : Int) (st : Nat) (s : Src) :
    (poolResp dflt poolL proxyL true st s).status = st ∧
    (poolResp dflt poolL proxyL true st s).delivered = true := by
  unfold poolResp fetchResp
  by_cases hn : normLimit dflt (effLimit poolL proxyL) < 0 <;> simp [hn]

/-- The executable response-side specification used by the judge accepts the model. -/
theorem poolResp_meets_spec (dflt poolL proxyL : Int) (st : Nat) (s : Src) :
    Spec.responseOK (Spec.limitInForce dflt poolL proxyL) s st
      (poolResp dflt poolL proxyL false st s).status (poolResp dflt poolL proxyL false st s).delivered = true := by
  unfold Spec.responseOK
  by_cases hneg : Spec.limitInForce dflt poolL proxyL < 0
  · simp [hneg]
  · have hlim : 0 ≤ Spec.limitInForce dflt poolL proxyL := by omega
    simp only [hneg, if_false]
    cases hs : Spec.isShort s
    · by_cases hb : (Spec.size s : Int) > Spec.limitInForce dflt poolL proxyL
      · simp [hb, resp_too_large_is_5xx_not_delivered dflt poolL proxyL st s hlim hs hb]
      · simp [hb, resp_within_delivered dflt poolL proxyL st s hlim hs (by omega)]
    · obtain ⟨h1, h2⟩ := resp_short_is_error dflt poolL proxyL st s hlim hs
      simp [h1, h2]

/-! ### Facts regenerated from the source on every run -/

/-- `DefaultMaxPayloadSize` is 4 MiB; `serveHTTP` calls `FetchPayload` before the handler and
leaves through `return` with 413 / 400 in the two error branches; `buildResponse` returns the
`FetchPayload` error and `doHandle` maps it to 500. -/
theorem facts_hold :
    Gen.FactsC07.extractionFailed = false ∧
    Gen.FactsC07.defaultMaxPayloadSize = 4194304 ∧
    Gen.FactsC07.muxTooLargeStatus = "http.StatusRequestEntityTooLarge" ∧
    Gen.FactsC07.muxOtherErrStatus = "http.StatusBadRequest" ∧
    Gen.FactsC07.muxErrBranchesReturn = true ∧
    Gen.FactsC07.muxFetchBeforeHandle = true ∧
    Gen.FactsC07.muxLimitSelection = "maxBodySize := route.path.clientMaxBodySize; if maxBodySize == 0 { maxBodySize = mi.spec.ClientMaxBodySize }" ∧
    Gen.FactsC07.poolLimitSelection = "maxBodySize := sp.spec.ServerMaxBodySize; if maxBodySize == 0 { maxBodySize = sp.proxy.spec.ServerMaxBodySize }" ∧
    Gen.FactsC07.poolFetchErrReturned = true ∧
    Gen.FactsC07.poolBuildErrStatus = "http.StatusInternalServerError" := by decide

/-! ### Non-vacuity -/

/-- limit 10 at path level, 1000 at server level: 10 bytes pass, 11 chunked bytes get 413. -/
example : serve 4194304 10 1000 ⟨10, 10⟩ = ⟨0, true, .ok 10⟩ ∧
    serve 4194304 10 1000 ⟨-1, 11⟩ = ⟨413, false, .tooLarge⟩ ∧
    serve 4194304 0 0 ⟨-1, 4194304⟩ = ⟨0, true, .ok 4194304⟩ ∧
    serve 4194304 (-1) 5 ⟨-1, 99⟩ = ⟨0, true, .stream⟩ ∧
    serve 4194304 10 0 ⟨8, 5⟩ = ⟨400, false, .shortRead⟩ := by decide

example : poolResp 4194304 0 10 false 200 ⟨-1, 11⟩ = ⟨500, false, .tooLarge⟩ ∧
    poolResp 4194304 0 10 false 404 ⟨10, 10⟩ = ⟨404, true, .ok 10⟩ ∧
    poolResp 4194304 0 10 true 200 ⟨100, 0⟩ = ⟨200, true, .ok 0⟩ := by decide

end EgVerif.C07
