import EgVerif.Model.Payload
import EgVerif.Spec.Payload
import EgVerif.Gen.FactsC07
import EgVerif.Proofs.PayloadIR
import EgVerif.Model.ProxyE2E
/-!
# C07 — body limits: oversized requests get 413 unforwarded, big responses are withheld

Theorems about `Model.Payload` (line-by-line model of `Request/Response.FetchPayload`,
the limit selection and error mapping in `mux.serveHTTP` and `ServerPool.buildResponse`),
for **every** limit setting at both levels, **every** declared length and **every**
delivered length (no bound). `lim` is always the limit in force
(`Spec.limitInForce`: inner level unless 0, else outer level, else the default).
-/
namespace EgVerif.C07
open EgVerif.Payload

/-- The limit the code ends up using is the declarative "path, else server, else default"
(`effLimit` + `normLimit` of the model = `Spec.limitInForce`). -/
theorem effective_limit (dflt inner outer : Int) :
    normLimit dflt (effLimit inner outer) = Spec.limitInForce dflt inner outer := by
  unfold normLimit effLimit Spec.limitInForce
  by_cases h1 : inner = 0 <;> by_cases h2 : outer = 0 <;> simp [h1, h2]

/-- Path level wins over server level whenever it is set (non-zero), whatever the server says. -/
theorem inner_level_wins (dflt inner outer : Int) (h : inner ≠ 0) :
    Spec.limitInForce dflt inner outer = inner := by
  simp [Spec.limitInForce, h]

theorem both_unset_default (dflt : Int) : Spec.limitInForce dflt 0 0 = dflt := by
  simp [Spec.limitInForce]

/-- **Central decision table**: for every limit and every source, `FetchPayload` behaves as
the size-based specification says. -/
theorem fetch_spec (dflt limit : Int) (s : Src) :
    Spec.fetchOK (normLimit dflt limit) s (fetch dflt limit s) = true := by
  unfold Spec.fetchOK fetch Spec.isShort Spec.size
  generalize normLimit dflt limit = lim
  obtain ⟨d, a⟩ := s
  simp only
  by_cases hneg : lim < 0
  · simp [hneg]
  · simp only [hneg, if_false]
    by_cases hdl : d > lim
    · have : d ≥ 0 := by omega
      simp [hdl, this]
      omega
    · simp only [hdl, if_false]
      by_cases hd0 : d > 0
      · have hge : d ≥ 0 := by omega
        simp only [hd0, if_true, hge, decide_true, Bool.true_and]
        by_cases hs : d.toNat ≤ a
        · have : ¬ a < d.toNat := by omega
          simp [hs, this]
          omega
        · have : a < d.toNat := by omega
          simp [hs, this]
      · simp only [hd0, if_false]
        by_cases hz : d = 0
        · subst hz; simp; omega
        · have hlt : ¬ d ≥ 0 := by omega
          have hz' : (d == 0) = false := by simp [hz]
          simp only [hz', hlt, decide_false, Bool.false_and, Bool.false_eq_true, if_false]
          by_cases h1 : min a lim.toNat < lim.toNat
          · have : a < lim.toNat := by omega
            have h2 : min a lim.toNat = a := by omega
            have h3 : ¬ ((a : Int) > lim) := by omega
            simp [h2, h3]
          · simp only [h1, if_false]
            by_cases h2 : a - min a lim.toNat > 0
            · have h3 : (a : Int) > lim := by omega
              simp [h2, h3]
            · have h3 : ¬ ((a : Int) > lim) := by omega
              have h4 : min a lim.toNat = a := by omega
              simp [h3, h4]

/-- A negative limit in force streams a body of any size (and any declared length). -/
theorem stream_any_size (dflt limit : Int) (s : Src) (h : normLimit dflt limit < 0) :
    fetch dflt limit s = .stream := by
  simp [fetch, h]

/-- A body of exactly the limit passes intact, length-declared … -/
theorem exact_limit_ok_declared (dflt limit : Int) (n : Nat) (h : normLimit dflt limit = n) :
    fetch dflt limit ⟨n, n⟩ = .ok n := by
  have := fetch_spec dflt limit ⟨n, n⟩
  simp [Spec.fetchOK, Spec.isShort, Spec.size, h] at this
  exact this

/-- … and chunked. -/
theorem exact_limit_ok_chunked (dflt limit : Int) (n : Nat) (h : normLimit dflt limit = n) :
    fetch dflt limit ⟨-1, n⟩ = .ok n := by
  have := fetch_spec dflt limit ⟨-1, n⟩
  simp [Spec.fetchOK, Spec.isShort, Spec.size, h] at this
  exact this

/-- One byte more than the limit is refused in both encodings. -/
theorem limit_plus_one_refused (dflt limit : Int) (n : Nat) (h : normLimit dflt limit = n) :
    fetch dflt limit ⟨(n + 1 : Nat), n + 1⟩ = .tooLarge ∧ fetch dflt limit ⟨-1, n + 1⟩ = .tooLarge := by
  have h1 := fetch_spec dflt limit ⟨(n + 1 : Nat), n + 1⟩
  have h2 := fetch_spec dflt limit ⟨-1, n + 1⟩
  simp [Spec.fetchOK, Spec.isShort, Spec.size, h] at h1 h2
  have hn : ¬ ((n : Int) < 0) := by omega
  have hlt : (n : Int) < (n : Int) + 1 := by omega
  rw [if_neg hn, if_pos hlt] at h1 h2
  exact ⟨h1, h2⟩

/-! ### The mux: 413 / 400 are answered before the handler runs -/

/-- An oversized request (declared or chunked) is answered 413 and the handler — hence any
backend — never sees it. -/
theorem too_large_never_handled (dflt pathL serverL : Int) (s : Src)
    (hlim : 0 ≤ Spec.limitInForce dflt pathL serverL) (hshort : Spec.isShort s = false)
    (hbig : (Spec.size s : Int) > Spec.limitInForce dflt pathL serverL) :
    serve dflt pathL serverL s = ⟨413, false, .tooLarge⟩ := by
  have h := fetch_spec dflt (effLimit pathL serverL) s
  rw [effective_limit] at h
  have hn : ¬ Spec.limitInForce dflt pathL serverL < 0 := by omega
  simp [Spec.fetchOK, hn, hshort, hbig] at h
  simp [serve, h]

/-- A body shorter than its declared length is answered 400 (or 413 when the declared
length alone is over the limit), never handled. -/
theorem short_read_400 (dflt pathL serverL : Int) (s : Src)
    (hlim : 0 ≤ Spec.limitInForce dflt pathL serverL) (hshort : Spec.isShort s = true) :
    (serve dflt pathL serverL s).handled = false ∧
    ((serve dflt pathL serverL s).status = 400 ∨ (serve dflt pathL serverL s).status = 413) ∧
    (s.declared ≤ Spec.limitInForce dflt pathL serverL → (serve dflt pathL serverL s).status = 400) := by
  have h := fetch_spec dflt (effLimit pathL serverL) s
  rw [effective_limit] at h
  have hn : ¬ Spec.limitInForce dflt pathL serverL < 0 := by omega
  simp [Spec.fetchOK, hn, hshort] at h
  have hdecl : ¬ s.declared > Spec.limitInForce dflt pathL serverL →
      fetch dflt (effLimit pathL serverL) s = .shortRead := by
    intro hle
    unfold Spec.isShort at hshort
    simp at hshort
    unfold fetch
    rw [effective_limit]
    have hd : s.declared > 0 := by omega
    have hna : ¬ s.declared.toNat ≤ s.actual := by omega
    simp [hn, hle, hd, hna]
  rcases h with h | h
  · simp [serve, h]
  · refine ⟨by simp [serve, h], by simp [serve, h], ?_⟩
    intro hle
    have := hdecl (by omega)
    rw [this] at h
    exact absurd h (by decide)

/-- A consistent body within the limit reaches the handler completely buffered. -/
theorem within_limit_handled (dflt pathL serverL : Int) (s : Src)
    (hlim : 0 ≤ Spec.limitInForce dflt pathL serverL) (hshort : Spec.isShort s = false)
    (hfit : (Spec.size s : Int) ≤ Spec.limitInForce dflt pathL serverL) :
    serve dflt pathL serverL s = ⟨0, true, .ok (Spec.size s)⟩ := by
  have h := fetch_spec dflt (effLimit pathL serverL) s
  rw [effective_limit] at h
  have hn : ¬ Spec.limitInForce dflt pathL serverL < 0 := by omega
  have hb : ¬ (Spec.size s : Int) > Spec.limitInForce dflt pathL serverL := by omega
  simp [Spec.fetchOK, hn, hshort, hb] at h
  simp [serve, h]

/-- With `-1` (any negative limit in force) every request is handled, as a stream. -/
theorem stream_always_handled (dflt pathL serverL : Int) (s : Src)
    (hlim : Spec.limitInForce dflt pathL serverL < 0) :
    serve dflt pathL serverL s = ⟨0, true, .stream⟩ := by
  have : fetch dflt (effLimit pathL serverL) s = .stream :=
    stream_any_size _ _ _ (by rw [effective_limit]; exact hlim)
  simp [serve, this]

/-- The executable request-side specification used by the judge accepts the model. -/
theorem serve_meets_spec (dflt pathL serverL : Int) (s : Src) :
    Spec.requestOK (Spec.limitInForce dflt pathL serverL) s
      (serve dflt pathL serverL s).status (serve dflt pathL serverL s).handled = true := by
  unfold Spec.requestOK
  by_cases hneg : Spec.limitInForce dflt pathL serverL < 0
  · simp [hneg, stream_always_handled dflt pathL serverL s hneg]
  · have hlim : 0 ≤ Spec.limitInForce dflt pathL serverL := by omega
    simp only [hneg, if_false]
    cases hs : Spec.isShort s
    · simp only [Bool.false_eq_true, if_false]
      by_cases hb : (Spec.size s : Int) > Spec.limitInForce dflt pathL serverL
      · simp [hb, too_large_never_handled dflt pathL serverL s hlim hs hb]
      · simp [hb, within_limit_handled dflt pathL serverL s hlim hs (by omega)]
    · obtain ⟨h1, h2, _⟩ := short_read_400 dflt pathL serverL s hlim hs
      rcases h2 with h2 | h2 <;> simp [h1, h2]

/-! ### The proxy: an oversized or short backend response is never delivered -/

theorem resp_too_large_is_5xx_not_delivered (dflt poolL proxyL : Int) (st : Nat) (s : Src)
    (hlim : 0 ≤ Spec.limitInForce dflt poolL proxyL) (hshort : Spec.isShort s = false)
    (hbig : (Spec.size s : Int) > Spec.limitInForce dflt poolL proxyL) :
    poolResp dflt poolL proxyL false st s = ⟨500, false, .tooLarge⟩ := by
  have h := fetch_spec dflt (effLimit poolL proxyL) s
  rw [effective_limit] at h
  have hn : ¬ Spec.limitInForce dflt poolL proxyL < 0 := by omega
  simp [Spec.fetchOK, hn, hshort, hbig] at h
  simp [poolResp, fetchResp, effective_limit, hn, h]

theorem resp_short_is_error (dflt poolL proxyL : Int) (st : Nat) (s : Src)
    (hlim : 0 ≤ Spec.limitInForce dflt poolL proxyL) (hshort : Spec.isShort s = true) :
    (poolResp dflt poolL proxyL false st s).status = 500 ∧
    (poolResp dflt poolL proxyL false st s).delivered = false := by
  have h := fetch_spec dflt (effLimit poolL proxyL) s
  rw [effective_limit] at h
  have hn : ¬ Spec.limitInForce dflt poolL proxyL < 0 := by omega
  simp [Spec.fetchOK, hn, hshort] at h
  rcases h with h | h <;> simp [poolResp, fetchResp, effective_limit, hn, h]

theorem resp_within_delivered (dflt poolL proxyL : Int) (st : Nat) (s : Src)
    (hlim : 0 ≤ Spec.limitInForce dflt poolL proxyL) (hshort : Spec.isShort s = false)
    (hfit : (Spec.size s : Int) ≤ Spec.limitInForce dflt poolL proxyL) :
    poolResp dflt poolL proxyL false st s = ⟨st, true, .ok (Spec.size s)⟩ := by
  have h := fetch_spec dflt (effLimit poolL proxyL) s
  rw [effective_limit] at h
  have hn : ¬ Spec.limitInForce dflt poolL proxyL < 0 := by omega
  have hb : ¬ (Spec.size s : Int) > Spec.limitInForce dflt poolL proxyL := by omega
  simp [Spec.fetchOK, hn, hshort, hb] at h
  simp [poolResp, fetchResp, effective_limit, hn, h]

/-- The reply to a HEAD request (declared length, no body) keeps the backend's status
whatever the limit (repaired code; the unrepaired code answered 500). -/
theorem head_reply_keeps_status (dflt poolL proxyL : Int) (st : Nat) (s : Src) :
    (poolResp dflt poolL proxyL true st s).status = st ∧
    (poolResp dflt poolL proxyL true st s).delivered = true := by
  unfold poolResp fetchResp
  by_cases hn : normLimit dflt (effLimit poolL proxyL) < 0 <;> simp [hn]

/-- The executable response-side specification used by the judge accepts the model. -/
theorem poolResp_meets_spec (dflt poolL proxyL : Int) (st : Nat) (s : Src) :
    Spec.responseOK (Spec.limitInForce dflt poolL proxyL) s st
      (poolResp dflt poolL proxyL false st s).status (poolResp dflt poolL proxyL false st s).delivered = true := by
  unfold Spec.responseOK
  by_cases hneg : Spec.limitInForce dflt poolL proxyL < 0
  · simp [hneg]
  · have hlim : 0 ≤ Spec.limitInForce dflt poolL proxyL := by omega
    simp only [hneg, if_false]
    cases hs : Spec.isShort s
    · by_cases hb : (Spec.size s : Int) > Spec.limitInForce dflt poolL proxyL
      · simp [hb, resp_too_large_is_5xx_not_delivered dflt poolL proxyL st s hlim hs hb]
      · simp [hb, resp_within_delivered dflt poolL proxyL st s hlim hs (by omega)]
    · obtain ⟨h1, h2⟩ := resp_short_is_error dflt poolL proxyL st s hlim hs
      simp [h1, h2]

/-! ### Facts regenerated from the source on every run -/

/-- (The two printed limit-selection statements that stood here are replaced by the stronger
`serve_ / buildResp_regenerated_from_source`, which re-translate them and survive renamings.)
`DefaultMaxPayloadSize` is 4 MiB; `serveHTTP` calls `FetchPayload` before the handler and
leaves through `return` with 413 / 400 in the two error branches; `buildResponse` returns the
`FetchPayload` error and `doHandle` maps it to 500. -/
theorem facts_hold :
    Gen.FactsC07.extractionFailed = false ∧
    Gen.FactsC07.defaultMaxPayloadSize = 4194304 ∧
    Gen.FactsC07.muxTooLargeStatus = "http.StatusRequestEntityTooLarge" ∧
    Gen.FactsC07.muxOtherErrStatus = "http.StatusBadRequest" ∧
    Gen.FactsC07.muxErrBranchesReturn = true ∧
    Gen.FactsC07.muxFetchBeforeHandle = true ∧
    Gen.FactsC07.poolFetchErrReturned = true ∧
    Gen.FactsC07.poolBuildErrStatus = "http.StatusInternalServerError" := by decide

/-! ### Regenerated tie by translation (notes/IR.md): the code itself, re-translated on every run

`Gen.FactsC07IR.*` are produced by `harness/factextract/facts_c07_ir.go` (go/ast → Lean) from the
*current* bodies of the four anchored mechanisms; the proofs are in `Proofs/PayloadIR.lean`. `error`
values are the enumeration `Payload.Err`, byte slices are known by length, the body reader is
stateful (`Payload.Rd`; contract of `io.ReadFull` / `io.ReadAll∘io.LimitReader` / `io.Copy` =
`readFull` / `readAllLimited` / `copyDiscard`, trusted and exercised by the `fetch` harness). -/

/-- `Request.FetchPayload` (request.go) = `fetch`, for every limit and every body source. -/
theorem fetchReq_regenerated_from_source (dflt limit : Int) (s : Src) :
    Gen.FactsC07IR.extractionFailed = false ∧
    toOutcome (Gen.FactsC07IR.fetchReqIR dflt limit s) = some (fetch dflt limit s) :=
  ⟨by decide, Payload.fetchReq_regenerated_from_source dflt limit s⟩

/-- `Response.FetchPayload` (response.go) = `fetchResp`; `m` = method of the answered request. -/
theorem fetchResp_regenerated_from_source (dflt limit : Int) (m : Option String) (s : Src) :
    Gen.FactsC07IR.extractionFailed = false ∧
    toOutcome (Gen.FactsC07IR.fetchRespIR dflt limit m s) = some (fetchResp dflt limit (m == some "HEAD") s) :=
  ⟨by decide, Payload.fetchResp_regenerated_from_source dflt limit m s⟩

/-- mux.go: limit selection, 413 / 400 mapping, `return` before the handler = `serve`. -/
theorem serve_regenerated_from_source (dflt pathL serverL : Int) (gf : Option Unit) (s : Src) :
    Gen.FactsC07IR.extractionFailed = false ∧
    (Gen.FactsC07IR.serveIR dflt pathL serverL gf s).1 = (serve dflt pathL serverL s).status ∧
    (Gen.FactsC07IR.serveIR dflt pathL serverL gf s).2.1 = (serve dflt pathL serverL s).handled ∧
    ((serve dflt pathL serverL s).handled = true →
      toOutcome ((Gen.FactsC07IR.serveIR dflt pathL serverL gf s).2.2, .nil) = some (serve dflt pathL serverL s).payload) :=
  ⟨by decide, Payload.serve_regenerated_from_source dflt pathL serverL gf s⟩

/-- pool.go `buildResponse`: limit selection, error returned ⇔ not delivered (`spCtx.resp` stays nil ⇒ 500). -/
theorem buildResp_regenerated_from_source (dflt poolL proxyL : Int) (m : Option String) (err0 : Err)
    (st : Nat) (s : Src) :
    Gen.FactsC07IR.extractionFailed = false ∧
    (let r := Gen.FactsC07IR.buildRespIR dflt poolL proxyL m err0 s
     let w := poolResp dflt poolL proxyL (m == some "HEAD") st s
     (r.1 = .nil ↔ w.delivered = true) ∧ r.2.1 = r.2.2 ∧
     (w.delivered = false → r.2.1 = none ∧ w.status = 500) ∧
     (w.delivered = true → w.status = st ∧ ∃ p, r.2.1 = some p ∧ toOutcome (p, .nil) = some w.payload)) :=
  ⟨by decide, Payload.buildResp_regenerated_from_source dflt poolL proxyL m err0 st s⟩

/-- non-vacuity: the translated code on concrete sources (11 chunked bytes against limit 10; a short body). -/
example : Gen.FactsC07IR.fetchReqIR 4194304 10 ⟨-1, 11⟩ = (.bytes 10, .tooLarge) ∧
    Gen.FactsC07IR.fetchReqIR 4194304 10 ⟨8, 5⟩ = (.bytes 5, .unexpectedEOF) ∧
    Gen.FactsC07IR.fetchReqIR 4194304 10 ⟨8, 0⟩ = (.bytes 0, .unexpectedEOF) ∧
    Gen.FactsC07IR.fetchRespIR 4194304 0 (some "HEAD") ⟨100, 0⟩ = (.bytes 0, .nil) ∧
    Gen.FactsC07IR.serveIR 4194304 10 1000 none ⟨-1, 11⟩ = (413, false, .unset) ∧
    Gen.FactsC07IR.serveIR 4194304 0 (-1) (some ()) ⟨-1, 11⟩ = (0, true, .stream) := by decide

/-! ### Limit selection at all four levels, `-1` at each level -/

/-- The complete table of the two-level selection (path/server for requests, pool/proxy for responses):
a negative inner level streams whatever the outer level says; a positive inner level is the limit even when
the outer level says `-1`; an unset inner level defers to the outer one — which may be `-1` (stream) —
and both unset give the default. -/
theorem limit_levels (dflt inner outer : Int) :
    (inner < 0 → Spec.limitInForce dflt inner outer = inner) ∧
    (inner > 0 → Spec.limitInForce dflt inner outer = inner) ∧
    (inner = 0 → outer ≠ 0 → Spec.limitInForce dflt inner outer = outer) ∧
    (inner = 0 → outer = 0 → Spec.limitInForce dflt inner outer = dflt) := by
  refine ⟨?_, ?_, ?_, ?_⟩ <;> intros <;> simp_all [Spec.limitInForce] <;> omega

/-- `-1` at each of the four levels, on the `serve` / `poolResp` models: (1) path `-1` streams over any
server value; (2) path unset, server `-1` streams; (3) a positive path limit is enforced although the server
says `-1`; (4)–(6) the same for pool / proxy. -/
theorem minus_one_at_each_level (dflt : Int) (outer : Int) (n : Nat) (st : Nat) (s : Src) (hn : 0 < n) :
    serve dflt (-1) outer s = ⟨0, true, .stream⟩ ∧
    serve dflt 0 (-1) s = ⟨0, true, .stream⟩ ∧
    serve dflt n (-1) ⟨-1, n + 1⟩ = ⟨413, false, .tooLarge⟩ ∧
    poolResp dflt (-1) outer false st s = ⟨st, true, .stream⟩ ∧
    poolResp dflt 0 (-1) false st s = ⟨st, true, .stream⟩ ∧
    poolResp dflt n (-1) false st ⟨-1, n + 1⟩ = ⟨500, false, .tooLarge⟩ := by
  have h1 : Spec.limitInForce dflt (-1) outer < 0 := by simp [Spec.limitInForce]
  have h2 : Spec.limitInForce dflt 0 (-1) < 0 := by simp [Spec.limitInForce]
  have h3 : Spec.limitInForce dflt (n : Int) (-1) = n := by
    have : (n : Int) ≠ 0 := by omega
    exact inner_level_wins dflt n (-1) this
  refine ⟨stream_always_handled _ _ _ _ h1, stream_always_handled _ _ _ _ h2, ?_, ?_, ?_, ?_⟩
  · apply too_large_never_handled
    · rw [h3]; omega
    · simp [Spec.isShort]
    · rw [h3]; simp [Spec.size]; omega
  · have : fetchResp dflt (effLimit (-1) outer) false s = .stream := by
      unfold fetchResp; rw [effective_limit]; simp [h1]
    simp [poolResp, this]
  · have : fetchResp dflt (effLimit 0 (-1)) false s = .stream := by
      unfold fetchResp; rw [effective_limit]; simp [h2]
    simp [poolResp, this]
  · apply resp_too_large_is_5xx_not_delivered
    · rw [h3]; omega
    · simp [Spec.isShort]
    · rw [h3]; simp [Spec.size]; omega

/-- The request-side limits never touch the response and vice versa: `prepare` (mux + RequestAdaptor +
prepareRequest) is independent of pool / proxy limits, `proxyResp` (transport + buildResponse) of path /
server limits. -/
theorem levels_do_not_cross {β : Type} (ops : Proxy.BodyOps β) (canon : String → String) (cfg : Proxy.Cfg)
    (q : Proxy.ClientReq β) (x y : Int) (method : String) (outHdr : Proxy.Hdr) (reply : Proxy.BackendReply β) :
    Proxy.prepare ops canon { cfg with poolMax := x, proxyMax := y } q = Proxy.prepare ops canon cfg q ∧
    Proxy.proxyResp ops { cfg with pathMax := x, serverMax := y } method outHdr reply =
      Proxy.proxyResp ops cfg method outHdr reply := ⟨rfl, rfl⟩

/-! ### Lying Content-Length -/

/-- A body *longer* than it declares (within the limit): exactly the declared bytes are taken, never more,
and it is not an error (net/http cuts the rest off). -/
theorem lying_long_reads_declared (dflt limit : Int) (d a : Nat) (hd : 0 < d) (hda : d ≤ a)
    (hl : (d : Int) ≤ normLimit dflt limit) :
    fetch dflt limit ⟨d, a⟩ = .ok d := by
  have h1 : ¬ normLimit dflt limit < 0 := by omega
  have h2 : ¬ (d : Int) > normLimit dflt limit := by omega
  have h3 : (d : Int) > 0 := by omega
  have h4 : d ≠ 0 := by omega
  simp [fetch, h1, h2, hda, h4]

/-- A declared length over the limit is refused **without reading a single byte** whatever the body
really contains — shown on the re-translated `FetchPayload`s themselves: no payload was installed
(`Pay.unset`), i.e. neither `io.ReadFull` nor `io.ReadAll` ran. -/
theorem declared_over_limit_refused_unread (dflt limit : Int) (d : Int) (a : Nat) (m : Option String)
    (h0 : 0 ≤ normLimit dflt limit) (hd : d > normLimit dflt limit) (hm : (m == some "HEAD") = false) :
    Gen.FactsC07IR.fetchReqIR dflt limit ⟨d, a⟩ = (.unset, .tooLarge) ∧
    Gen.FactsC07IR.fetchRespIR dflt limit m ⟨d, a⟩ = (.unset, .tooLarge) := by
  have hmerge : (if (limit == 0) = true then dflt else limit) = normLimit dflt limit := rfl
  have h1 : ¬ normLimit dflt limit < 0 := by omega
  have hm' : (m.isSome && (m.getD "" == "HEAD")) = false := by
    cases m with
    | none => rfl
    | some x => simpa using hm
  constructor
  · simp only [Gen.FactsC07IR.fetchReqIR, hmerge]
    simp [h1, hd]
  · simp only [Gen.FactsC07IR.fetchRespIR, hmerge, hm']
    simp [h1, hd]

/-- A declared length *shorter* … and one *longer* than what arrives, both directions, in one table: short ⇒
never handled / never delivered; long ⇒ exactly the declared bytes. -/
theorem lying_content_length_table (dflt pathL serverL poolL proxyL : Int) (d a st : Nat) (hd : 0 < d)
    (hq : (d : Int) ≤ Spec.limitInForce dflt pathL serverL) (hr : (d : Int) ≤ Spec.limitInForce dflt poolL proxyL) :
    (a < d → (serve dflt pathL serverL ⟨d, a⟩).handled = false ∧ (serve dflt pathL serverL ⟨d, a⟩).status = 400) ∧
    (a < d → (poolResp dflt poolL proxyL false st ⟨d, a⟩).delivered = false ∧
             (poolResp dflt poolL proxyL false st ⟨d, a⟩).status = 500) ∧
    (d ≤ a → serve dflt pathL serverL ⟨d, a⟩ = ⟨0, true, .ok d⟩) ∧
    (d ≤ a → poolResp dflt poolL proxyL false st ⟨d, a⟩ = ⟨st, true, .ok d⟩) := by
  have hq0 : 0 ≤ Spec.limitInForce dflt pathL serverL := by omega
  have hr0 : 0 ≤ Spec.limitInForce dflt poolL proxyL := by omega
  refine ⟨?_, ?_, ?_, ?_⟩
  · intro ha
    have hs : Spec.isShort ⟨(d : Int), a⟩ = true := by simp [Spec.isShort]; omega
    obtain ⟨h1, _, h3⟩ := short_read_400 dflt pathL serverL ⟨d, a⟩ hq0 hs
    exact ⟨h1, h3 hq⟩
  · intro ha
    have hs : Spec.isShort ⟨(d : Int), a⟩ = true := by simp [Spec.isShort]; omega
    obtain ⟨h1, h2⟩ := resp_short_is_error dflt poolL proxyL st ⟨d, a⟩ hr0 hs
    exact ⟨h2, h1⟩
  · intro ha
    have := lying_long_reads_declared dflt (effLimit pathL serverL) d a hd ha (by rw [effective_limit]; exact hq)
    simp [serve, this]
  · intro ha
    have := lying_long_reads_declared dflt (effLimit poolL proxyL) d a hd ha (by rw [effective_limit]; exact hr)
    have hn : ¬ normLimit dflt (effLimit poolL proxyL) < 0 := by rw [effective_limit]; omega
    simp [poolResp, fetchResp, hn, this]

/-! ### A body reader that fails instead of ending (short backend body behind the gzip compressor) -/

/-- Behind the Proxy's `compression:` the declared length is hidden from `FetchPayload`; the short read must
surface as the reader's error. Whatever the limit (≥ 0) and however many bytes came before the failure, the
outcome is an error — never `ok`: the response is not delivered (⇒ 500, `poolResp`'s error mapping). -/
theorem failing_reader_never_delivered (dflt limit : Int) (actual : Nat) (h : 0 ≤ normLimit dflt limit) :
    fetchFailing dflt limit actual = .shortRead ∨ fetchFailing dflt limit actual = .tooLarge := by
  unfold fetchFailing
  have : ¬ normLimit dflt limit < 0 := by omega
  simp only [this, if_false]
  by_cases h2 : actual ≤ (normLimit dflt limit).toNat <;> simp [h2]

example : fetchFailing 4194304 0 10 = .shortRead ∧ fetchFailing 4194304 5 10 = .tooLarge ∧
    fetchFailing 4194304 (-1) 10 = .stream := by decide

example : serve 4194304 (-1) 5 ⟨-1, 99⟩ = ⟨0, true, .stream⟩ ∧ serve 4194304 0 (-1) ⟨7, 7⟩ = ⟨0, true, .stream⟩ ∧
    serve 4194304 3 (-1) ⟨-1, 4⟩ = ⟨413, false, .tooLarge⟩ ∧
    Gen.FactsC07IR.fetchReqIR 4194304 3 ⟨9, 2⟩ = (.unset, .tooLarge) ∧ fetch 4194304 10 ⟨4, 9⟩ = .ok 4 := by decide

/-! ### Non-vacuity -/

/-- limit 10 at path level, 1000 at server level: 10 bytes pass, 11 chunked bytes get 413. -/
example : serve 4194304 10 1000 ⟨10, 10⟩ = ⟨0, true, .ok 10⟩ ∧
    serve 4194304 10 1000 ⟨-1, 11⟩ = ⟨413, false, .tooLarge⟩ ∧
    serve 4194304 0 0 ⟨-1, 4194304⟩ = ⟨0, true, .ok 4194304⟩ ∧
    serve 4194304 (-1) 5 ⟨-1, 99⟩ = ⟨0, true, .stream⟩ ∧
    serve 4194304 10 0 ⟨8, 5⟩ = ⟨400, false, .shortRead⟩ := by decide

example : poolResp 4194304 0 10 false 200 ⟨-1, 11⟩ = ⟨500, false, .tooLarge⟩ ∧
    poolResp 4194304 0 10 false 404 ⟨10, 10⟩ = ⟨404, true, .ok 10⟩ ∧
    poolResp 4194304 0 10 true 200 ⟨100, 0⟩ = ⟨200, true, .ok 0⟩ := by decide

end EgVerif.C07
