import EgVerif.Proofs.RateLimiter
import EgVerif.Gen.FactsC09
/-!
# C09 — the rate limiter never releases more than `limitForPeriod` per period

Property theorems about `Model.RateLimiter.acquire` (a line-by-line model of
`RateLimiter.acquirePermission`), for **every** well-formed policy and **every**
non-decreasing arrival sequence (`Reach`). Helper lemmas live in
`Proofs/RateLimiter.lean`.
-/
namespace EgVerif.C09
open EgVerif.RateLimiter

/-- `Reach p s h lo`: `(s, h)` is the limiter state and history after some finite
non-decreasing sequence of single-permit arrivals, the last of which was at `lo`. -/
inductive Reach (p : Policy) : RL → Hist → Int → Prop
  | init : Reach p RateLimiter.init [] 0
  | step {s h lo} (now : Int) : Reach p s h lo → lo ≤ now →
      Reach p (acquire p s now 1).1 (h ++ [(now, (acquire p s now 1).2)]) now

theorem reach_inv {p : Policy} (wf : p.WF) {s h lo} (r : Reach p s h lo) :
    Inv p s h ∧ 0 ≤ lo ∧ s.cycle ≤ lo / p.P := by
  induction r with
  | init =>
    refine ⟨⟨by simp [RateLimiter.init], ?_, ?_⟩, le_refl _, by simp [RateLimiter.init]⟩
    · intro j; simp [cnt, clamp, RateLimiter.init]
      have := wf.hL
      have : 0 ≤ (j : Int) * p.L := Int.mul_nonneg (Int.natCast_nonneg j) (le_of_lt this)
      omega
    · intro c _; simp [cnt]
  | step now _ hle ih =>
    obtain ⟨inv, hlo, hcy⟩ := ih
    have hnow : 0 ≤ now := le_trans hlo hle
    have hmono : _ ≤ now / p.P := le_trans hcy (Int.ediv_le_ediv wf.hP hle)
    have := step_inv p wf _ _ now hnow hmono inv
    exact ⟨this.1, hnow, this.2⟩

/-- `runH` (the executable history builder used by the judge) only produces reachable pairs. -/
def Sorted (lo : Int) : List Int → Prop
  | [] => True
  | a :: r => lo ≤ a ∧ Sorted a r

theorem reach_runH {p : Policy} : ∀ (as : List Int) {s h lo}, Reach p s h lo → Sorted lo as →
    ∃ lo', Reach p (runH p s as h).1 (runH p s as h).2 lo'
  | [], _, _, lo, r, _ => ⟨lo, by simpa [runH] using r⟩
  | a :: rest, _, _, _, r, hs => by
    simp only [runH]
    exact reach_runH rest (Reach.step a r hs.1) hs.2

/-- **C09 main statement**: in each aligned refresh period at most `L` admitted requests
are released, for every arrival pattern. -/
theorem cycle_bound {p : Policy} (wf : p.WF) {s h lo} (r : Reach p s h lo) (c : Int) :
    cnt p.P h c ≤ p.L.toNat := by
  obtain ⟨inv, _, _⟩ := reach_inv wf r
  by_cases hc : c < s.cycle
  · exact inv.past c hc
  · obtain ⟨d, hd⟩ := Int.eq_ofNat_of_zero_le (show 0 ≤ c - s.cycle by omega)
    have : c = s.cycle + (d : Int) := by omega
    rw [this, inv.packed d]
    exact clamp_le _ _

/-- One step: an admitted request waits within `[0, T]`; a rejection reports `T`. -/
theorem step_wait_bounds {p : Policy} (wf : p.WF) {s h lo} (r : Reach p s h lo) (now : Int)
    (hle : lo ≤ now) :
    let o := (acquire p s now 1).2
    (o.permitted = true → 0 ≤ o.wait ∧ o.wait ≤ p.T) ∧ (o.permitted = false → o.wait = p.T) := by
  obtain ⟨_, hlo, _⟩ := reach_inv wf r
  have hnow : 0 ≤ now := le_trans hlo hle
  have hL := wf.hL; have hP := wf.hP; have hT := wf.hT
  rcases acquire_cases p wf s now hnow with ⟨_, e⟩ | ⟨hlt, e⟩
  · simp [e]
  · simp only [e]
    refine ⟨fun _ => ?_, fun hf => by simp at hf⟩
    have ht := rebased_nonneg p s now
    generalize rebased p s now = t at *
    split
    · exact ⟨le_refl _, hT⟩
    · rename_i hge
      have hq1 : 1 ≤ t / p.L := by
        have := Int.ediv_le_ediv hL (show p.L ≤ t by omega)
        rwa [Int.ediv_self (ne_of_gt hL)] at this
      have hq2 : t / p.L < p.T / p.P + 1 := Int.ediv_lt_of_lt_mul hL (by linarith)
      have hc1 : now / p.P * p.P ≤ now := Int.ediv_mul_le now (ne_of_gt hP)
      have hc2 : now < (now / p.P + 1) * p.P := Int.lt_ediv_add_one_mul_self now hP
      have hc3 : p.T / p.P * p.P ≤ p.T := Int.ediv_mul_le p.T (ne_of_gt hP)
      have hm1 : p.P * 1 ≤ p.P * (t / p.L) := Int.mul_le_mul_of_nonneg_left hq1 (le_of_lt hP)
      have hm2 : p.P * (t / p.L) ≤ p.P * (p.T / p.P) :=
        Int.mul_le_mul_of_nonneg_left (by omega) (le_of_lt hP)
      constructor <;> nlinarith

/-- No admitted request is ever made to wait longer than `timeoutDuration` (or a negative time). -/
theorem wait_le_timeout {p : Policy} (wf : p.WF) {s h lo} (r : Reach p s h lo) :
    ∀ e ∈ h, (e.2.permitted = true → 0 ≤ e.2.wait ∧ e.2.wait ≤ p.T) ∧
             (e.2.permitted = false → e.2.wait = p.T) := by
  induction r with
  | init => intro e he; simp at he
  | step now r' hle ih =>
    intro e he
    rcases List.mem_append.mp he with h1 | h1
    · exact ih e h1
    · simp only [List.mem_singleton] at h1
      subst h1
      exact step_wait_bounds wf r' now hle

/-- A request arriving while its current period still has spare permits proceeds immediately. -/
theorem spare_immediate {p : Policy} (wf : p.WF) {s h lo} (r : Reach p s h lo) (now : Int)
    (hle : lo ≤ now) (hspare : cnt p.P h (now / p.P) < p.L.toNat) :
    (acquire p s now 1).2 = ⟨true, 0⟩ := by
  obtain ⟨inv, hlo, hcy⟩ := reach_inv wf r
  have hnow : 0 ≤ now := le_trans hlo hle
  have hmono : s.cycle ≤ now / p.P := le_trans hcy (Int.ediv_le_ediv wf.hP hle)
  have h0 := cnt_rebased p wf s h now hmono inv 0
  simp only [Nat.cast_zero, add_zero, zero_mul, sub_zero] at h0
  have ht := rebased_nonneg p s now
  have hL := wf.hL
  have hlt : rebased p s now < p.L := by
    rw [h0] at hspare; unfold clamp at hspare; omega
  have hq : 0 ≤ p.T / p.P := Int.ediv_nonneg wf.hT (le_of_lt wf.hP)
  rcases acquire_cases p wf s now hnow with ⟨hge, _⟩ | ⟨_, e⟩
  · exfalso; nlinarith
  · simp [e, hlt]

/-- A request is rejected **iff** every period of its timeout horizon
`c, c+1, …, c + ⌊T/P⌋` already holds `L` reserved releases. -/
theorem reject_iff_horizon_full {p : Policy} (wf : p.WF) {s h lo} (r : Reach p s h lo) (now : Int)
    (hle : lo ≤ now) :
    (acquire p s now 1).2.permitted = false ↔
      ∀ j : Nat, (j : Int) ≤ p.T / p.P → cnt p.P h (now / p.P + j) = p.L.toNat := by
  obtain ⟨inv, hlo, hcy⟩ := reach_inv wf r
  have hnow : 0 ≤ now := le_trans hlo hle
  have hmono : s.cycle ≤ now / p.P := le_trans hcy (Int.ediv_le_ediv wf.hP hle)
  have hL := wf.hL
  have hq : 0 ≤ p.T / p.P := Int.ediv_nonneg wf.hT (le_of_lt wf.hP)
  have ht := rebased_nonneg p s now
  have hc := cnt_rebased p wf s h now hmono inv
  rcases acquire_cases p wf s now hnow with ⟨hge, e⟩ | ⟨hlt, e⟩
  · simp only [e, true_iff]
    intro j hj
    rw [hc j]; unfold clamp
    have : ((j : Int) + 1) * p.L ≤ (p.T / p.P + 1) * p.L :=
      Int.mul_le_mul_of_nonneg_right (by omega) (le_of_lt hL)
    have : p.L ≤ rebased p s now - j * p.L := by nlinarith
    omega
  · simp only [e, Bool.true_eq_false, false_iff]
    intro hall
    obtain ⟨d, hd⟩ := Int.eq_ofNat_of_zero_le hq
    have := hall d (by omega)
    rw [hc d] at this; unfold clamp at this
    have : p.L ≤ rebased p s now - d * p.L := by omega
    rw [hd] at hlt
    nlinarith

/-- Arrivals after an idle gap that covers every reserved period start from a clean slate. -/
theorem idle_gap_resets {p : Policy} (wf : p.WF) {s h lo} (r : Reach p s h lo) (now : Int)
    (hle : lo ≤ now) (hgap : s.tokens ≤ (now / p.P - s.cycle) * p.L) :
    (acquire p s now 1) = (⟨now / p.P, 1⟩, ⟨true, 0⟩) := by
  obtain ⟨_, hlo, _⟩ := reach_inv wf r
  have hnow : 0 ≤ now := le_trans hlo hle
  have hL := wf.hL
  have hq : 0 ≤ p.T / p.P := Int.ediv_nonneg wf.hT (le_of_lt wf.hP)
  have h0 : rebased p s now = 0 := by unfold rebased; simp only; split <;> omega
  rcases acquire_cases p wf s now hnow with ⟨hge, _⟩ | ⟨_, e⟩
  · exfalso; rw [h0] at hge; nlinarith
  · rw [e, h0]; simp [hL]

/-- Facts obligation (regenerated from the source on every run): the modelled function is
one critical section under the limiter's mutex with a single clock read, so concurrent
acquirers are a sequential history of `acquire` steps in lock order. -/
theorem acquire_serialised :
    Gen.FactsC09.extractionFailed = false ∧ Gen.FactsC09.acquireLocksFirst = true ∧
      Gen.FactsC09.acquireClockReads = 1 := by decide

/-! ### Non-vacuity: concrete reachable states meeting the hypotheses -/

private def pEx : Policy := { L := 2, P := 10, T := 10 }

example : pEx.WF := ⟨by decide, by decide, by decide⟩

/-- L = 2, P = 10, T = 10: five arrivals at time 3. Two go at once, two wait for
the next period (7 ns), the fifth is rejected because both horizon periods are full. -/
example : (runH pEx RateLimiter.init [3, 3, 3, 3, 3] []).2.map (·.2) =
    [⟨true, 0⟩, ⟨true, 0⟩, ⟨true, 7⟩, ⟨true, 7⟩, ⟨false, 10⟩] := by decide

example : Sorted 0 [3, 3, 3, 3, 3] := by simp [Sorted]

end EgVerif.C09
