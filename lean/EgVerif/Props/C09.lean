import EgVerif.Proofs.RateLimiter
import EgVerif.Proofs.RateLimiterExt
import EgVerif.Proofs.RateLimiterFilter
import EgVerif.Gen.FactsC09
import EgVerif.Proofs.RateLimiterIR
import EgVerif.Proofs.RateLimiterIRb
import EgVerif.Proofs.URLRuleIR
import EgVerif.Proofs.RateLimiterIRr
/-!
# C09 — the rate limiter never releases more than `limitForPeriod` per period

Property theorems about `Model.RateLimiter.acquire` (a line-by-line model of
`RateLimiter.acquirePermission`), for **every** well-formed policy and **every**
non-decreasing arrival sequence (`Reach`). Helper lemmas live in
`Proofs/RateLimiter.lean`.
-/
namespace EgVerif.C09
open EgVerif.RateLimiter

/-- `Reach p s h lo`: `(s, h)` is the limiter state and history after some finite
non-decreasing sequence of single-permit arrivals, the last of which was at `lo`. -/
inductive Reach (p : Policy) : RL → Hist → Int → Prop
  | init : Reach p RateLimiter.init [] 0
  | step {s h lo} (now : Int) : Reach p s h lo → lo ≤ now →
      Reach p (acquire p s now 1).1 (h ++ [(now, (acquire p s now 1).2)]) now

theorem reach_inv {p : Policy} (wf : p.WF) {s h lo} (r : Reach p s h lo) :
    Inv p s h ∧ 0 ≤ lo ∧ s.cycle ≤ lo / p.P := by
  induction r with
  | init =>
    refine ⟨⟨by simp [RateLimiter.init], ?_, ?_⟩, le_refl _, by simp [RateLimiter.init]⟩
    · intro j; simp [cnt, clamp, RateLimiter.init]
      have := wf.hL
      have : 0 ≤ (j : Int) * p.L := Int.mul_nonneg (Int.natCast_nonneg j) (le_of_lt this)
      omega
    · intro c _; simp [cnt]
  | step now _ hle ih =>
    obtain ⟨inv, hlo, hcy⟩ := ih
    have hnow : 0 ≤ now := le_trans hlo hle
    have hmono : _ ≤ now / p.P := le_trans hcy (Int.ediv_le_ediv wf.hP hle)
    have := step_inv p wf _ _ now hnow hmono inv
    exact ⟨this.1, hnow, this.2⟩

/-- `runH` (the executable history builder used by the judge) only produces reachable pairs. -/
def Sorted (lo : Int) : List Int → Prop
  | [] => True
  | a :: r => lo ≤ a ∧ Sorted a r

theorem reach_runH {p : Policy} : ∀ (as : List Int) {s h lo}, Reach p s h lo → Sorted lo as →
    ∃ lo', Reach p (runH p s as h).1 (runH p s as h).2 lo'
  | [], _, _, lo, r, _ => ⟨lo, by simpa [runH] using r⟩
  | a :: rest, _, _, _, r, hs => by
    simp only [runH]
    exact reach_runH rest (Reach.step a r hs.1) hs.2

/-- **C09 main statement**: in each aligned refresh period at most `L` admitted requests
are released, for every arrival pattern. -/
theorem cycle_bound {p : Policy} (wf : p.WF) {s h lo} (r : Reach p s h lo) (c : Int) :
    cnt p.P h c ≤ p.L.toNat := by
  obtain ⟨inv, _, _⟩ := reach_inv wf r
  by_cases hc : c < s.cycle
  · exact inv.past c hc
  · obtain ⟨d, hd⟩ := Int.eq_ofNat_of_zero_le (show 0 ≤ c - s.cycle by omega)
    have : c = s.cycle + (d : Int) := by omega
    rw [this, inv.packed d]
    exact clamp_le _ _

/-- One step: an admitted request waits within `[0, T]`; a rejection reports `T`. -/
theorem step_wait_bounds {p : Policy} (wf : p.WF) {s h lo} (r : Reach p s h lo) (now : Int)
    (hle : lo ≤ now) :
    let o := (acquire p s now 1).2
    (o.permitted = true → 0 ≤ o.wait ∧ o.wait ≤ p.T) ∧ (o.permitted = false → o.wait = p.T) := by
  obtain ⟨_, hlo, _⟩ := reach_inv wf r
  have hnow : 0 ≤ now := le_trans hlo hle
  have hL := wf.hL; have hP := wf.hP; have hT := wf.hT
  rcases acquire_cases p wf s now hnow with ⟨_, e⟩ | ⟨hlt, e⟩
  · simp [e]
  · simp only [e]
    refine ⟨fun _ => ?_, fun hf => by simp at hf⟩
    have ht := rebased_nonneg p s now
    generalize rebased p s now = t at *
    split
    · exact ⟨le_refl _, hT⟩
    · rename_i hge
      have hq1 : 1 ≤ t / p.L := by
        have := Int.ediv_le_ediv hL (show p.L ≤ t by omega)
        rwa [Int.ediv_self (ne_of_gt hL)] at this
      have hq2 : t / p.L < p.T / p.P + 1 := Int.ediv_lt_of_lt_mul hL (by linarith)
      have hc1 : now / p.P * p.P ≤ now := Int.ediv_mul_le now (ne_of_gt hP)
      have hc2 : now < (now / p.P + 1) * p.P := Int.lt_ediv_add_one_mul_self now hP
      have hc3 : p.T / p.P * p.P ≤ p.T := Int.ediv_mul_le p.T (ne_of_gt hP)
      have hm1 : p.P * 1 ≤ p.P * (t / p.L) := Int.mul_le_mul_of_nonneg_left hq1 (le_of_lt hP)
      have hm2 : p.P * (t / p.L) ≤ p.P * (p.T / p.P) :=
        Int.mul_le_mul_of_nonneg_left (by omega) (le_of_lt hP)
      constructor <;> nlinarith

/-- No admitted request is ever made to wait longer than `timeoutDuration` (or a negative time). -/
theorem wait_le_timeout {p : Policy} (wf : p.WF) {s h lo} (r : Reach p s h lo) :
    ∀ e ∈ h, (e.2.permitted = true → 0 ≤ e.2.wait ∧ e.2.wait ≤ p.T) ∧
             (e.2.permitted = false → e.2.wait = p.T) := by
  induction r with
  | init => intro e he; simp at he
  | step now r' hle ih =>
    intro e he
    rcases List.mem_append.mp he with h1 | h1
    · exact ih e h1
    · simp only [List.mem_singleton] at h1
      subst h1
      exact step_wait_bounds wf r' now hle

/-- A request arriving while its current period still has spare permits proceeds immediately. -/
theorem spare_immediate {p : Policy} (wf : p.WF) {s h lo} (r : Reach p s h lo) (now : Int)
    (hle : lo ≤ now) (hspare : cnt p.P h (now / p.P) < p.L.toNat) :
    (acquire p s now 1).2 = ⟨true, 0⟩ := by
  obtain ⟨inv, hlo, hcy⟩ := reach_inv wf r
  have hnow : 0 ≤ now := le_trans hlo hle
  have hmono : s.cycle ≤ now / p.P := le_trans hcy (Int.ediv_le_ediv wf.hP hle)
  have h0 := cnt_rebased p wf s h now hmono inv 0
  simp only [Nat.cast_zero, add_zero, zero_mul, sub_zero] at h0
  have ht := rebased_nonneg p s now
  have hL := wf.hL
  have hlt : rebased p s now < p.L := by
    rw [h0] at hspare; unfold clamp at hspare; omega
  have hq : 0 ≤ p.T / p.P := Int.ediv_nonneg wf.hT (le_of_lt wf.hP)
  rcases acquire_cases p wf s now hnow with ⟨hge, _⟩ | ⟨_, e⟩
  · exfalso; nlinarith
  · simp [e, hlt]

/-- A request is rejected **iff** every period of its timeout horizon
`c, c+1, …, c + ⌊T/P⌋` already holds `L` reserved releases. -/
theorem reject_iff_horizon_full {p : Policy} (wf : p.WF) {s h lo} (r : Reach p s h lo) (now : Int)
    (hle : lo ≤ now) :
    (acquire p s now 1).2.permitted = false ↔
      ∀ j : Nat, (j : Int) ≤ p.T / p.P → cnt p.P h (now / p.P + j) = p.L.toNat := by
  obtain ⟨inv, hlo, hcy⟩ := reach_inv wf r
  have hnow : 0 ≤ now := le_trans hlo hle
  have hmono : s.cycle ≤ now / p.P := le_trans hcy (Int.ediv_le_ediv wf.hP hle)
  have hL := wf.hL
  have hq : 0 ≤ p.T / p.P := Int.ediv_nonneg wf.hT (le_of_lt wf.hP)
  have ht := rebased_nonneg p s now
  have hc := cnt_rebased p wf s h now hmono inv
  rcases acquire_cases p wf s now hnow with ⟨hge, e⟩ | ⟨hlt, e⟩
  · simp only [e, true_iff]
    intro j hj
    rw [hc j]; unfold clamp
    have : ((j : Int) + 1) * p.L ≤ (p.T / p.P + 1) * p.L :=
      Int.mul_le_mul_of_nonneg_right (by omega) (le_of_lt hL)
    have : p.L ≤ rebased p s now - j * p.L := by nlinarith
    omega
  · simp only [e, Bool.true_eq_false, false_iff]
    intro hall
    obtain ⟨d, hd⟩ := Int.eq_ofNat_of_zero_le hq
    have := hall d (by omega)
    rw [hc d] at this; unfold clamp at this
    have : p.L ≤ rebased p s now - d * p.L := by omega
    rw [hd] at hlt
    nlinarith

/-- Arrivals after an idle gap that covers every reserved period start from a clean slate. -/
theorem idle_gap_resets {p : Policy} (wf : p.WF) {s h lo} (r : Reach p s h lo) (now : Int)
    (hle : lo ≤ now) (hgap : s.tokens ≤ (now / p.P - s.cycle) * p.L) :
    (acquire p s now 1) = (⟨now / p.P, 1⟩, ⟨true, 0⟩) := by
  obtain ⟨_, hlo, _⟩ := reach_inv wf r
  have hnow : 0 ≤ now := le_trans hlo hle
  have hL := wf.hL
  have hq : 0 ≤ p.T / p.P := Int.ediv_nonneg wf.hT (le_of_lt wf.hP)
  have h0 : rebased p s now = 0 := by unfold rebased; simp only; split <;> omega
  rcases acquire_cases p wf s now hnow with ⟨hge, _⟩ | ⟨_, e⟩
  · exfalso; rw [h0] at hge; nlinarith
  · rw [e, h0]; simp [hL]

/-- **Regenerated tie (translator).** `Gen.FactsC09IR.acquireIR` is produced on every run by the
go/ast micro-translator (`harness/factextract/facts_c09_ir.go`) from the *current body* of
`RateLimiter.acquirePermission`; it coincides with the hand-written model `acquire` on every
input (enabled limiter). A source change that alters the arithmetic, a comparison or the branch
structure changes `acquireIR` and this obligation stops checking. -/
theorem acquire_regenerated_from_source (p : Policy) (s : RL) (now count : Int) :
    Gen.FactsC09IR.extractionFailed = false ∧
      Gen.FactsC09IR.acquireIR p s now count false = acquire p s now count :=
  ⟨by decide, RateLimiter.acquire_regenerated_from_source p s now count⟩

/-- Facts obligation (regenerated from the source on every run): the modelled function is
one critical section under the limiter's mutex with a single clock read, so concurrent
acquirers are a sequential history of `acquire` steps in lock order. -/
theorem acquire_serialised :
    Gen.FactsC09.extractionFailed = false ∧ Gen.FactsC09.acquireLocksFirst = true ∧
      Gen.FactsC09.acquireClockReads = 1 := by decide

/-! ### Non-vacuity: concrete reachable states meeting the hypotheses -/

private def pEx : Policy := { L := 2, P := 10, T := 10 }

example : pEx.WF := ⟨by decide, by decide, by decide⟩

/-- L = 2, P = 10, T = 10: five arrivals at time 3. Two go at once, two wait for
the next period (7 ns), the fifth is rejected because both horizon periods are full. -/
example : (runH pEx RateLimiter.init [3, 3, 3, 3, 3] []).2.map (·.2) =
    [⟨true, 0⟩, ⟨true, 0⟩, ⟨true, 7⟩, ⟨true, 7⟩, ⟨false, 10⟩] := by decide

example : Sorted 0 [3, 3, 3, 3, 3] := by simp [Sorted]

/-! ## The judge's executable specification accepts every reachable model history -/

theorem specHist_append (p : Policy) : ∀ (l b : Hist) (e : Int × Out),
    specHist p b (l ++ [e]) = (specHist p b l && specStep p (b ++ l) e)
  | [], b, e => by simp [specHist]
  | x :: l, b, e => by
    simp only [List.cons_append, specHist]
    rw [specHist_append p l (b ++ [x]) e, Bool.and_assoc]
    simp

theorem horizonFull_iff (p : Policy) (wf : p.WF) (h : Hist) (c : Int) :
    ((List.range (p.T / p.P + 1).toNat).all (fun j => cnt p.P h (c + (j : Int)) == p.L.toNat)) = true ↔
      ∀ j : Nat, (j : Int) ≤ p.T / p.P → cnt p.P h (c + j) = p.L.toNat := by
  have hq : 0 ≤ p.T / p.P := Int.ediv_nonneg wf.hT (le_of_lt wf.hP)
  simp only [List.all_eq_true, List.mem_range, beq_iff_eq]
  constructor
  · intro hh j hj; exact hh j (by omega)
  · intro hh j hj; exact hh j (by omega)

/-- One more arrival of a reachable history satisfies the executable per-step specification that the
judge evaluates on the implementation's observations. -/
theorem specStep_of_reach {p : Policy} (wf : p.WF) {s h lo} (r : Reach p s h lo) (now : Int) (hle : lo ≤ now) :
    specStep p h (now, (acquire p s now 1).2) = true := by
  have hb := step_wait_bounds wf r now hle
  have hrej := reject_iff_horizon_full wf r now hle
  have hhor := horizonFull_iff p wf h (now / p.P)
  have hcb := cycle_bound wf (Reach.step now r hle) (relCycle p.P (now, (acquire p s now 1).2))
  have hsp : cnt p.P h (now / p.P) < p.L.toNat → (acquire p s now 1).2 = ⟨true, 0⟩ := spare_immediate wf r now hle
  simp only at hb
  unfold specStep
  simp only
  generalize (acquire p s now 1).2 = o at *
  cases hperm : o.permitted with
  | true =>
    obtain ⟨w0, w1⟩ := hb.1 hperm
    have hnf : ¬ ∀ j : Nat, (j : Int) ≤ p.T / p.P → cnt p.P h (now / p.P + j) = p.L.toNat := by
      intro hall; have := hrej.mpr hall; rw [hperm] at this; simp at this
    have hnf' : ((List.range (p.T / p.P + 1).toNat).all
        (fun j => cnt p.P h (now / p.P + (j : Int)) == p.L.toNat)) = false := by
      by_contra hc
      exact hnf (hhor.mp (by simpa using hc))
    simp only [if_true, hnf', Bool.not_false, Bool.and_true, Bool.and_eq_true, decide_eq_true_eq,
      Bool.or_eq_true, Bool.not_eq_true', decide_eq_false_iff_not, beq_iff_eq]
    refine ⟨⟨⟨w0, w1⟩, ?_⟩, hcb⟩
    by_cases hs : cnt p.P h (now / p.P) < p.L.toNat
    · right; rw [hsp hs]
    · left; exact hs
  | false =>
    have hall := hrej.mp hperm
    have h0 := hall 0 (by simpa using Int.ediv_nonneg wf.hT (le_of_lt wf.hP))
    simp only [Nat.cast_zero, add_zero] at h0
    simp only [Bool.false_eq_true, if_false, Bool.and_eq_true, Bool.not_eq_true', decide_eq_false_iff_not]
    exact ⟨by omega, hhor.mpr hall⟩

/-- **The executable specification used by the judge accepts the model's own behaviour**: every
reachable history passes `specHist`. (Ties the judge's `spec` verdict to the theorems above: a
`spec = false` on an observation that the model reproduces would contradict this theorem.) -/
theorem spec_accepts_model {p : Policy} (wf : p.WF) {s h lo} (r : Reach p s h lo) :
    specHist p [] h = true := by
  induction r with
  | init => simp [specHist]
  | step now r' hle ih =>
    rw [specHist_append, ih, List.nil_append, specStep_of_reach wf r' now hle]
    rfl

/-! ## Extension 1 — the MQTT limiters (timeout 0, `AcquireNPermission`, multi limiter)

A limiter with `timeoutDuration = 0` asked for `n ≥ 0` permits per arrival (`n` = packet size for the
byte limiter, `n = 1` for the request limiter). History entries are (arrival, permits asked, admitted);
with timeout 0 an admitted request never waits, so the period of release is the period of arrival.
The packed-token invariant of the core limiter (one release per token) is replaced by `VInv`
(`Proofs/RateLimiterExt.lean`): the tokens of the current period bound what was admitted in it and
stay below `L` + the largest admitted request. -/

/-- reachable states of a single limiter asked `n ≥ 0` permits per arrival -/
inductive ReachN (p : Policy) : RL → NHist → Int → Prop
  | init : ReachN p RateLimiter.init [] 0
  | step {s h lo} (now n : Int) : ReachN p s h lo → lo ≤ now → 0 ≤ n →
      ReachN p (acquire p s now n).1 (h ++ [(now, n, (acquire p s now n).2.permitted)]) now

theorem reachN_inv {p : Policy} (hL : 0 < p.L) (hP : 0 < p.P) (hT : p.T = 0) {s h lo}
    (r : ReachN p s h lo) : VInv p.L p.P s h ∧ 0 ≤ lo ∧ s.cycle ≤ lo / p.P := by
  induction r with
  | init => exact ⟨vinv_init p.L p.P hL, le_refl _, by simp [RateLimiter.init]⟩
  | step now n _ hle hn ih =>
    obtain ⟨inv, hlo, hcy⟩ := ih
    have hnow : 0 ≤ now := le_trans hlo hle
    have hmono := le_trans hcy (Int.ediv_le_ediv hP hle)
    obtain ⟨e1, e2, _⟩ := acquire_T0 p hL hP hT _ now n hnow
    have := vinv_step p.L p.P hL _ _ now n false hn hmono inv
    rw [e1, e2]
    exact ⟨this.1, hnow, this.2⟩

/-- **MQTT byte limiter** (`AcquireNPermission(packet size)`, timeout 0): in every period the admitted
bytes stay below `bytesRate` + the largest admitted packet — for every arrival pattern and every
sequence of packet sizes; and an admitted packet never waits. -/
theorem mqtt_bytes_overshoot_lt_packet {p : Policy} (hL : 0 < p.L) (hP : 0 < p.P) (hT : p.T = 0)
    {s h lo} (r : ReachN p s h lo) (c : Int) : usedIn p.P h c < p.L + maxIn p.P h c := by
  obtain ⟨inv, _, _⟩ := reachN_inv hL hP hT r
  by_cases hc : c = s.cycle
  · rw [hc]; have := inv.used_le; have := inv.tok_lt; omega
  · exact inv.past c hc

theorem maxIn_le (P : Int) (h : NHist) (c b : Int) (hb : 0 ≤ b) (hall : ∀ e ∈ h, e.2.1 ≤ b) :
    maxIn P h c ≤ b := by
  unfold maxIn
  have key : ∀ (l : List (Int × Int × Bool)) (a : Int), a ≤ b → (∀ e ∈ l, e.2.1 ≤ b) →
      l.foldl (fun a e => if e.2.1 > a then e.2.1 else a) a ≤ b := by
    intro l
    induction l with
    | nil => intro a ha _; simpa using ha
    | cons x xs ih =>
      intro a ha hl
      simp only [List.foldl_cons]
      apply ih
      · have := hl x (by simp); split_ifs <;> omega
      · intro e he; exact hl e (by simp [he])
  apply key _ 0 hb
  intro e he
  exact hall e (List.mem_filter.mp he).1

/-- **MQTT request limiter** (one permit per packet, timeout 0): at most `requestRate` packets are
admitted per period. (`usedIn` sums the permits of the admitted arrivals: with one permit each it
is their number.) -/
theorem mqtt_request_bound {p : Policy} (hL : 0 < p.L) (hP : 0 < p.P) (hT : p.T = 0)
    {s h lo} (r : ReachN p s h lo) (hone : ∀ e ∈ h, e.2.1 = 1) (c : Int) : usedIn p.P h c ≤ p.L := by
  have h1 := mqtt_bytes_overshoot_lt_packet hL hP hT r c
  have h2 := maxIn_le p.P h c 1 (by decide) (fun e he => by rw [hone e he])
  omega

/-- reachable states of the two-dimensional multi limiter `[requests, bytes]` with timeout 0, with
the per-dimension histories -/
inductive ReachM (L0 L1 P : Int) : MRL → NHist → NHist → Int → Prop
  | init : ReachM L0 L1 P (minit ⟨[L0, L1], P, 0⟩) [] [] 0
  | step {s h0 h1 lo} (now n0 n1 : Int) : ReachM L0 L1 P s h0 h1 lo → lo ≤ now → 0 ≤ n0 → 0 ≤ n1 →
      ReachM L0 L1 P (macquire ⟨[L0, L1], P, 0⟩ s now [n0, n1]).1
        (h0 ++ [(now, n0, (macquire ⟨[L0, L1], P, 0⟩ s now [n0, n1]).2.permitted)])
        (h1 ++ [(now, n1, (macquire ⟨[L0, L1], P, 0⟩ s now [n0, n1]).2.permitted)]) now

theorem reachM_inv {L0 L1 P : Int} (hL0 : 0 < L0) (hL1 : 0 < L1) (hP : 0 < P) {s h0 h1 lo}
    (r : ReachM L0 L1 P s h0 h1 lo) :
    ∃ c t0 t1, s = ⟨c, [t0, t1]⟩ ∧ VInv L0 P ⟨c, t0⟩ h0 ∧ VInv L1 P ⟨c, t1⟩ h1 ∧ 0 ≤ lo ∧ c ≤ lo / P := by
  induction r with
  | init =>
    exact ⟨0, 0, 0, by simp [minit], vinv_init L0 P hL0, vinv_init L1 P hL1, le_refl _, by simp⟩
  | step now n0 n1 _ hle hn0 hn1 ih =>
    obtain ⟨c, t0, t1, hs, i0, i1, hlo, hcy⟩ := ih
    have hnow : 0 ≤ now := le_trans hlo hle
    have hmono : c ≤ now / P := le_trans hcy (Int.ediv_le_ediv hP hle)
    obtain ⟨e, e2, e3⟩ := macquire2_T0 L0 L1 P c t0 t1 now n0 n1 hnow
    have s0 := vinv_step L0 P hL0 ⟨c, t0⟩ _ now n0 (decide (reb L1 P c t1 now ≥ L1)) hn0 hmono i0
    have s1 := vinv_step L1 P hL1 ⟨c, t1⟩ _ now n1 (decide (reb L0 P c t0 now ≥ L0)) hn1 hmono i1
    rw [hs, e]
    refine ⟨_, _, _, rfl, s0.1, ?_, hnow, s0.2⟩
    simp only
    rw [e2, e3]
    exact s1.1

/-- **MQTT multi limiter** (`[requestRate, bytesRate]`, `AcquirePermission([1, size])`, timeout 0):
per period at most `requestRate` packets are admitted (first dimension, one permit per packet) and
the admitted bytes stay below `bytesRate` + the largest admitted packet. -/
theorem mqtt_multi_bounds {L0 L1 P : Int} (hL0 : 0 < L0) (hL1 : 0 < L1) (hP : 0 < P) {s h0 h1 lo}
    (r : ReachM L0 L1 P s h0 h1 lo) (c : Int) :
    usedIn P h0 c < L0 + maxIn P h0 c ∧ usedIn P h1 c < L1 + maxIn P h1 c ∧
    ((∀ e ∈ h0, e.2.1 = 1) → usedIn P h0 c ≤ L0) := by
  obtain ⟨c', t0, t1, _, i0, i1, _, _⟩ := reachM_inv hL0 hL1 hP r
  have b0 : usedIn P h0 c < L0 + maxIn P h0 c := by
    by_cases hc : c = c'
    · rw [hc]; have := i0.used_le; have := i0.tok_lt; simp only at *; omega
    · exact i0.past c hc
  have b1 : usedIn P h1 c < L1 + maxIn P h1 c := by
    by_cases hc : c = c'
    · rw [hc]; have := i1.used_le; have := i1.tok_lt; simp only at *; omega
    · exact i1.past c hc
  refine ⟨b0, b1, fun hone => ?_⟩
  have h2 := maxIn_le P h0 c 1 (by decide) (fun e he => by rw [hone e he])
  omega

/-- `newLimiter` gives every limiter timeout 0 and a positive whole-second period, so the three
theorems above apply to whatever the MQTT proxy builds from a `RateLimit` spec. -/
theorem mqtt_newLimiter_policy (sp : RateLimitSpec) :
    match newLimiter (some sp) with
    | Limiter.none => sp.requestRate ≤ 0 ∧ sp.bytesRate ≤ 0
    | Limiter.multi p s => p.T = 0 ∧ 0 < p.P ∧ p.Ls = [sp.requestRate, sp.bytesRate] ∧
        0 < sp.requestRate ∧ 0 < sp.bytesRate ∧ s = minit p
    | Limiter.request p s => p.T = 0 ∧ 0 < p.P ∧ p.L = sp.requestRate ∧ 0 < p.L ∧ s = RateLimiter.init
    | Limiter.byte p s => p.T = 0 ∧ 0 < p.P ∧ p.L = sp.bytesRate ∧ 0 < p.L ∧ s = RateLimiter.init := by
  unfold newLimiter
  simp only [second]
  split_ifs <;> simp <;> omega

/-- Non-vacuity: bytesRate 10 per 1 s; packets 7, 7, 7 at t = 0: two are admitted (14 bytes
< 10 + 7), the third is refused; in the next period the 4 bytes of overshoot are carried. -/
example : ((Limiter.byte ⟨10, 1000000000, 0⟩ RateLimiter.init).run [(0, 7), (0, 7), (0, 7), (1000000000, 7), (1000000000, 7)])
    = [true, true, false, true, false] := by decide

/-! ## Extension 2 — the `RateLimiter` filter: `Handle` and `reload`

`ms[i]` says whether URL rule `i` matches the request (computed by `urlrule`, an oracle here);
`rls[i]` is the limiter object of rule `i`; the heap maps object ids to limiter states. -/
section Filter
open EgVerif.RateLimiterFilter

/-- A request that matches no URL rule is never limited: no limiter is asked, nothing changes, no
response is written. -/
theorem unmatched_never_limited (now : Nat → Int) (ms : List Bool) (rls : List (Option Nat)) (h : Heap)
    (hall : ∀ b ∈ ms, b = false) : handle now ms rls h = some (h, noLimit) :=
  handle_all_false now ms rls h hall

/-- Only the first matching rule counts: the outcome of `Handle` is that of asking the limiter of
the first matching rule — whatever later rules (`ms`, `post`) match or hold — and no other limiter
object is touched. -/
theorem first_matching_rule_only (now : Nat → Int) (pre post : List (Option Nat)) (ms : List Bool)
    (id : Nat) (h : Heap) (l : Lim) (hl : heapGet h id = some l) :
    handle now (List.replicate pre.length false ++ true :: ms) (pre ++ some id :: post) h =
      handle now [true] [some id] h ∧
    ∃ h' out, handle now [true] [some id] h = some (h', out) ∧ out.asked = some id ∧
      ∀ id', id' ≠ id → heapGet h' id' = heapGet h id' := by
  constructor
  · rw [handle_skip, handle_at_match now ms id post h l hl, handle_at_match now [] id [] h l hl]
  · rw [handle_at_match now [] id [] h l hl]
    simp only
    split_ifs <;>
      exact ⟨_, _, rfl, rfl, fun id' hne => heapGet_heapSet_other h id id' _ hne⟩

/-- A request is answered 429 exactly when the result is `rateLimited`, which happens exactly when
the limiter of the first matching rule refused; otherwise the result is empty and no response is
written (after waiting the duration the limiter imposed). -/
theorem reject_is_429 (now : Nat → Int) (ms : List Bool) (rls : List (Option Nat)) (h h' : Heap) (out : HOut)
    (e : handle now ms rls h = some (h', out)) :
    (out.result = "rateLimited" ↔ out.status = some 429) ∧
    (out.result = "rateLimited" ∨ (out.result = "" ∧ out.status = none)) ∧
    (out.result = "rateLimited" → ∃ id l, out.asked = some id ∧ heapGet h id = some l ∧
      (acquire l.policy l.state (now id) 1).2.permitted = false) := by
  rcases handle_out_shape now ms rls h h' out e with ⟨a, _, _⟩ | ⟨id, l, h1, h2, _, h4⟩
  · subst a; simp [noLimit]
  · rcases h4 with ⟨p, r, s⟩ | ⟨p, r, s, _⟩
    · exact ⟨by simp [r, s], Or.inl r, fun _ => ⟨id, l, h1, h2, p⟩⟩
    · exact ⟨by simp [r, s], Or.inr ⟨r, s⟩, fun hr => by simp [r] at hr⟩

/-- **Reload keeps the state of unchanged rules** (`Inherit`, as repaired by
fixes/C11-ratelimiter-prev-nil.patch). If every previous rule owns a limiter and every new rule has
a policy (guaranteed by `Init` resp. `Validate`), then `reload` does not panic, gives every new rule
a limiter, leaves every existing limiter object (policy and accumulated state) untouched, and
* a new rule equal to a previous rule (`URLRule.DeepEqual`) whose policy is unchanged
  (`isSamePolicy`) points to the *same limiter object* as the first such previous rule;
* a new rule with no equal previous rule, or whose policy changed, gets a fresh limiter object
  created with the defaults of `createRateLimiter` and the initial (empty) state. -/
theorem reload_keeps_state (newSpec : Spec) (g : Gen) (heap : Heap) (next : Nat)
    (hok : ∀ e ∈ heap, e.1 < next) (hall : ∀ r ∈ g.rls, r ≠ none)
    (hbind : ∀ u ∈ newSpec.urls, (bindPolicy newSpec u).isSome) :
    let st := reload newSpec (some g) heap next
    st.panicked = false ∧ st.rls.length = newSpec.urls.length ∧
    (∀ id l, heapGet heap id = some l → heapGet st.heap id = some l) ∧
    ∀ (i : Nat) (u : URLRule), newSpec.urls[i]? = some u →
      (∀ (j id : Nat), g.spec.urls[j]? = some u → (∀ k : Nat, k < j → g.spec.urls[k]? ≠ some u) →
          g.rls[j]? = some (some id) →
          isSamePolicy newSpec g.spec u.policyRef = true → st.rls[i]? = some (some id)) ∧
      ((u ∉ g.spec.urls ∨ isSamePolicy newSpec g.spec u.policyRef = false) →
          ∃ id p, next ≤ id ∧ st.rls[i]? = some (some id) ∧ bindPolicy newSpec u = some p ∧
            heapGet st.heap id = some { policy := limiterPolicy p, state := RateLimiter.init }) := by
  have hnn : ∀ u ∈ newSpec.urls, claim newSpec g.spec u g.spec.urls g.rls ≠ some none := by
    intro u _ hc
    obtain ⟨j, _, h2, _, _⟩ := claim_some newSpec g.spec u _ _ _ hc
    exact hall none (List.mem_of_getElem? h2) rfl
  have key := reloadLoop_spec newSpec g.spec g.rls newSpec.urls ⟨[], heap, next, false⟩ rfl hok hnn hbind
  simp only [List.length_nil, Nat.zero_add] at key
  obtain ⟨k1, _, _, k4, _, k6⟩ := key
  refine ⟨k1, k4, fun id l hl => reloadLoop_heap newSpec g.spec g.rls _ _ id l hl, ?_⟩
  intro i u hu
  obtain ⟨c1, c2⟩ := k6 i u hu
  constructor
  · intro j id hj hfirst hrl hsame
    apply c1
    cases hcl : claim newSpec g.spec u g.spec.urls g.rls with
    | none =>
      exfalso
      have := claim_none_of_found newSpec g.spec u g.spec.urls g.rls j (some id) hj hrl hsame
      rw [hcl] at this; exact this rfl
    | some r =>
      obtain ⟨j', h1, h2, _, h4⟩ := claim_some newSpec g.spec u _ _ r hcl
      have hjj : j' = j := by
        rcases Nat.lt_trichotomy j' j with h | h | h
        · exact absurd h1 (hfirst j' h)
        · exact h
        · exact absurd hj (h4 j h)
      subst hjj
      rw [hrl] at h2
      simp only [Option.some.injEq] at h2
      rw [← h2]
  · intro hno
    have := claim_none_of newSpec g.spec u g.spec.urls g.rls hno
    simpa [reload] using c2 this

/-- `createRateLimiter`'s defaults: limit 50, timeout 100 ms, refresh period 10 ms (the same values as
`librl.NewDefaultPolicy`), and a configured value is taken as it is. -/
theorem create_defaults (name : String) (t r : Int) :
    limiterPolicy ⟨name, "", "", 0, t, r⟩ = { L := 50, P := 10000000, T := 100000000 } ∧
    (∀ (ts rs : String) (l : Int), ts ≠ "" → rs ≠ "" → l ≠ 0 →
      limiterPolicy ⟨name, ts, rs, l, t, r⟩ = { L := l, P := r, T := t }) := by
  constructor
  · simp [limiterPolicy]
  · intro ts rs l h1 h2 h3
    simp [limiterPolicy, h1, h2, h3]

/-- Facts obligation (regenerated from the source on every run): the constants and the shape the
filter / multi-limiter models assume — `createRateLimiter`'s literal defaults, the result string and
the status code of a rejection, one `AcquirePermission` per `Handle`, `reload` shares the limiter and
does not clear the previous generation's pointer (fixes/C11-ratelimiter-prev-nil.patch), and
`MultiRateLimiter.AcquirePermission` is one critical section with a single clock read. -/
theorem filter_source_facts :
    Gen.FactsC09.extractionFailed = false ∧
    Gen.FactsC09.createDefaults = ["policy.LimitForPeriod = 50",
      "policy.TimeoutDuration = 100 * time.Millisecond", "policy.LimitRefreshPeriod = 10 * time.Millisecond"] ∧
    Gen.FactsC09.resultRateLimited = "rateLimited" ∧
    Gen.FactsC09.handleStatusCodes = ["http.StatusTooManyRequests"] ∧
    -- (one `AcquirePermission` per request, on the first matching rule: `handle_regenerated_from_source`;
    -- the count of the printed callee `u.rl.AcquirePermission` that stood here alarmed on a rename of `u`)
    -- (`reload` shares the limiter and does not clear the previous generation's pointer:
    -- `reload_regenerated_from_source`; the counts of the printed statements `url.rl = prev.rl` / `prev.rl = nil`
    -- that stood here alarmed on a rename of the loop variables)
    Gen.FactsC09.multiLocksFirst = true ∧ Gen.FactsC09.multiClockReads = 1 := by decide

end Filter

/-! ### second part of the tie by translation (Extension resil): `Gen.FactsC09IRb`

The filter's `Handle`, the MQTT proxy's `newLimiter` / `Limiter.acquirePermission` and the util limiter's
`SetState`, re-translated from their bodies on every run (proofs: `Proofs/RateLimiterIRb.lean`). -/
section IRb
open EgVerif.RateLimiterFilter

/-- the filter's `Handle` = the model's `handle` (`us` = per URL rule: does it match, its limiter id) -/
theorem handle_regenerated_from_source (now : Nat → Int) (cancelled : Bool) (us : List (Bool × Option Nat))
    (h0 : Heap) :
    Gen.FactsC09IRb.extractionFailed = false ∧
    Gen.FactsC09IRb.handleIR now cancelled us h0 = handle now (us.map (·.1)) (us.map (·.2)) h0 :=
  ⟨by decide, RateLimiterFilter.handle_regenerated_from_source now cancelled us h0⟩

theorem newLimiter_regenerated_from_source (spec : Option RateLimitSpec) :
    Gen.FactsC09IRb.extractionFailed = false ∧ Gen.FactsC09IRb.newLimiterIR spec = newLimiter spec :=
  ⟨by decide, RateLimiter.newLimiter_regenerated_from_source spec⟩

theorem limiterAcquire_regenerated_from_source (lm : Option (MPolicy × MRL)) (lq lb : Option (Policy × RL))
    (now byteNum : Int) :
    Gen.FactsC09IRb.extractionFailed = false ∧
    (let r := Gen.FactsC09IRb.limiterAcquireIR lm lq lb now byteNum
     (ofFields r.1.1 r.1.2.1 r.1.2.2, r.2)) = (ofFields lm lq lb).acquire now byteNum :=
  ⟨by decide, RateLimiter.limiterAcquire_regenerated_from_source lm lq lb now byteNum⟩

theorem setState_regenerated_from_source (s : RL) (cur st : Nat) :
    Gen.FactsC09IRb.extractionFailed = false ∧ Gen.FactsC09IRb.setStateIR s cur st = setState s cur st :=
  ⟨by decide, RateLimiter.setState_regenerated_from_source s cur st⟩

/-- two rules, the first does not match, the second matches and its limiter (id 7, limit 1, one token
already taken, timeout 0) refuses: 429 from rule 2 only; a nil limiter on a matching rule panics -/
example :
    let heap : Heap := [(7, ⟨⟨1, 1000, 0⟩, ⟨0, 1⟩⟩)]
    (Gen.FactsC09IRb.handleIR (fun _ => 0) false [(false, some 3), (true, some 7)] heap).map (·.2) =
      some ⟨"rateLimited", some 429, some 7, 0⟩ ∧
    Gen.FactsC09IRb.handleIR (fun _ => 0) false [(true, none)] heap = none ∧
    Gen.FactsC09IRb.newLimiterIR (some ⟨5, 0, 0⟩) = Limiter.request ⟨5, 1000000000, 0⟩ init := by
  decide

end IRb

/-! ### waiting requests whose client goes away (Extension resil, second round) -/
section Cancel
open EgVerif.RateLimiterFilter

/-- counting only part of a history (e.g. the admitted requests that were *not* cancelled while they
waited) never counts more than the whole history -/
theorem cnt_filter_le (P : Int) (h : Hist) (q : Int × Out → Bool) (c : Int) :
    cnt P (h.filter q) c ≤ cnt P h c := by
  unfold cnt
  induction h with
  | nil => simp
  | cons e t ih =>
    simp only [List.filter_cons]
    by_cases hq : q e = true
    · simp only [hq, if_true, List.filter_cons]
      split
      · simp only [List.length_cons]; omega
      · exact ih
    · simp only [hq, Bool.false_eq_true, if_false]
      split
      · simp only [List.length_cons]; omega
      · exact ih

/-- **Cancelled waiters never make a period over-full.** The filter leaves the limiter exactly as it is
when a waiting request's client goes away (`handleIR … cancelled = true` and `= false` are the same
function — `handle_regenerated_from_source` — so the reservation stays where it was made); the requests
that really are released are a sub-history of the reservations, hence at most `L` of them per period, for
every arrival pattern and whichever waiters are cancelled. (What the `wait` judge checks on the observed
release times.) -/
theorem cancelled_waiters_keep_cycle_bound {p : Policy} (wf : p.WF) {s h lo} (r : Reach p s h lo)
    (notCancelled : Int × Out → Bool) (c : Int) :
    cnt p.P (h.filter notCancelled) c ≤ p.L.toNat :=
  Nat.le_trans (cnt_filter_le p.P h notCancelled c) (cycle_bound wf r c)

theorem cancel_keeps_reservation (now : Nat → Int) (us : List (Bool × Option Nat)) (h0 : Heap) :
    Gen.FactsC09IRb.handleIR now true us h0 = Gen.FactsC09IRb.handleIR now false us h0 := by
  rw [(handle_regenerated_from_source now true us h0).2, (handle_regenerated_from_source now false us h0).2]

/-- L = 1: A at once, B waits for period 1, C for period 2; B's client goes away; E is then given period 3
— not B's or C's slot (`run` is the model, whose state a cancellation does not touch) -/
example : (run ⟨1, 40, 160⟩ init [(0, 1), (0, 1), (0, 1), (1, 1)]).map (fun o => (o.permitted, o.wait)) =
    [(true, 0), (true, 40), (true, 80), (true, 119)] := by decide

end Cancel

/-! ### which rule applies: `pkg/util/urlrule` (Extension resil, round 3) -/
section WhichRule
open EgVerif.RateLimiterFilter EgVerif.URLRule

/-- `pkg/util/urlrule`, re-translated from the source on every run: `StringMatch.Validate` / `Match`,
`URLRule.Match` / `Init` / `DeepEqual` are the model's (`DeepEqual` ignores `Empty`). -/
theorem urlrule_regenerated_from_source (re : String → String → Bool) (r r1 : Rule) (method path : String) :
    Gen.FactsC09IRu.extractionFailed = false ∧
    Gen.FactsC09IRu.smValidIR r.url = r.url.valid ∧
    Gen.FactsC09IRu.smMatchIR re r.url path = r.url.matches re path ∧
    Gen.FactsC09IRu.ruleMatchIR re r method path = r.matches re method path ∧
    Gen.FactsC09IRu.ruleInitIR r = (r.init.1, r.init.2 || r.url.compiled) ∧
    Gen.FactsC09IRu.deepEqualIR r r1 = r.deepEqual r1 :=
  ⟨by decide, smValid_regenerated_from_source _, smMatch_regenerated_from_source re _ path,
    ruleMatch_regenerated_from_source re r method path, ruleInit_regenerated_from_source r,
    deepEqual_regenerated_from_source r r1⟩

theorem findIdx_none_all_false : ∀ (ms : List Bool), ms.findIdx? id = none → ∀ b ∈ ms, b = false
  | [], _, b, hb => by simp at hb
  | m :: t, h, b, hb => by
    cases m with
    | true => simp [List.findIdx?_cons] at h
    | false =>
      simp only [List.findIdx?_cons, id, Bool.false_eq_true, if_false, Option.map_eq_none_iff] at h
      rcases List.mem_cons.mp hb with rfl | hb
      · rfl
      · exact findIdx_none_all_false t h b hb

theorem findIdx_some_split : ∀ (ms : List Bool) (i : Nat), ms.findIdx? id = some i →
    ms = List.replicate i false ++ true :: ms.drop (i + 1)
  | [], i, h => by simp at h
  | m :: t, i, h => by
    cases m with
    | true =>
      simp only [List.findIdx?_cons, id, if_true, Option.some.injEq] at h
      subst h; simp
    | false =>
      simp only [List.findIdx?_cons, id, Bool.false_eq_true, if_false, Option.map_eq_some_iff] at h
      obtain ⟨j, hj, rfl⟩ := h
      have := findIdx_some_split t j hj
      simp only [List.replicate_succ, List.cons_append, List.drop_succ_cons]
      rw [← this]

/-- **A request is limited by the first rule whose methods and URL match — with that rule's policy, or the
default policy when the rule names none — and not at all when no rule matches.** `rules` are the
filter's URL rules (after `Init`), `rls` their limiters; the match of rule `k` is the declarative
`Rule.spec` (method list empty or containing the method; `empty` / exact / prefix / regexp on the path). -/
theorem limited_by_first_matching_rule (re : String → String → Bool) (rules : List Rule)
    (rls : List (Option Nat)) (hlen : rls.length = rules.length) (method path : String)
    (now : Nat → Int) (h : Heap) :
    let ms := rules.map (fun r => r.inited.matches re method path)
    (∀ (k : Nat) (r : Rule), rules[k]? = some r → ms[k]? = some (r.spec re method path)) ∧
    (firstMatch re rules method path = none → handle now ms rls h = some (h, noLimit)) ∧
    (∀ i lid l, firstMatch re rules method path = some i → rls[i]? = some (some lid) → heapGet h lid = some l →
      (∀ k, k < i → ∀ r, rules[k]? = some r → r.spec re method path = false) ∧
      handle now ms rls h = handle now [true] [some lid] h ∧
      ∃ h' out, handle now ms rls h = some (h', out) ∧ out.asked = some lid ∧
        ∀ lid', lid' ≠ lid → heapGet h' lid' = heapGet h lid') := by
  simp only
  refine ⟨?_, ?_, ?_⟩
  · intro k r hk
    simp [List.getElem?_map, hk, matches_eq_spec]
  · intro hn
    exact unmatched_never_limited now _ rls h (findIdx_none_all_false _ hn)
  · intro i lid l hi hr hl
    have hsplit := findIdx_some_split _ i hi
    have hilt : i < rls.length := by
      have := List.findIdx?_eq_some_iff_getElem.mp hi
      obtain ⟨hlt, _⟩ := this
      simpa [hlen] using hlt
    have hrls : rls = rls.take i ++ some lid :: rls.drop (i + 1) := by
      have : rls[i] = some lid := by
        have := List.getElem?_eq_getElem hilt
        rw [this] at hr; exact Option.some.inj hr
      rw [← this]
      exact (List.take_append_drop i rls).symm.trans (by rw [List.drop_eq_getElem_cons hilt])
    have htl : (rls.take i).length = i := by simp; omega
    have key := first_matching_rule_only now (rls.take i) (rls.drop (i + 1))
      ((rules.map (fun r => r.inited.matches re method path)).drop (i + 1)) lid h l hl
    rw [htl, ← hsplit, ← hrls] at key
    refine ⟨?_, key.1, ?_⟩
    · intro k hk r hrk
      have hms := List.findIdx?_eq_some_iff_getElem.mp hi
      obtain ⟨hlt, _, hprev⟩ := hms
      have hk' : k < (rules.map (fun r => r.inited.matches re method path)).length := by omega
      have := hprev k hk
      simp only [List.getElem_map, _root_.id] at this
      have hrk' : rules[k] = r := by
        have h1 := List.getElem?_eq_getElem (l := rules) (i := k) (by simpa using hk')
        rw [h1] at hrk; exact Option.some.inj hrk
      rw [hrk', matches_eq_spec] at this
      simpa using this
    · rw [key.1]; exact key.2

/-- a rule that names no policy uses the default one -/
theorem default_policy_when_unnamed (s : Spec) (u : RateLimiterFilter.URLRule) (hu : u.policyRef = "") :
    bindPolicy s u = findPolicy s.policies s.defaultRef := by
  simp [bindPolicy, hu]

/-- overlapping rules: `POST /a/b` skips the GET-only exact rule and is limited by the regexp rule behind
it; `GET /a/b` is limited by the exact rule; `GET /c` by none; an `empty` rule only sees the empty path -/
example :
    let re : String → String → Bool := fun p v => p == "r" && v == "/a/b"
    let rules : List Rule := [⟨["GET"], ⟨"/a/b", "", "", false, false⟩, "p1"⟩, ⟨[], ⟨"", "", "r", false, false⟩, ""⟩,
      ⟨[], ⟨"", "", "", true, false⟩, ""⟩]
    firstMatch re rules "POST" "/a/b" = some 1 ∧ firstMatch re rules "GET" "/a/b" = some 0 ∧
    firstMatch re rules "GET" "/c" = none ∧ firstMatch re rules "PUT" "" = some 2 := by
  decide

end WhichRule

/-! ### `reload` tied by translation (Extension resil, round 3) -/
section ReloadIR
open EgVerif.RateLimiterFilter

/-- the filter's `reload` (`Init` / `Inherit`), re-translated from its body on every run, is the model's
`reload` — so `reload_keeps_state` is about the regenerated definition -/
theorem reload_regenerated_from_source (s : Spec) (prev : Option Gen) (heap : Heap) (next : Nat) :
    Gen.FactsC09IRr.extractionFailed = false ∧ Gen.FactsC09IRr.reloadIR s prev heap next = reload s prev heap next :=
  ⟨by decide, RateLimiterFilter.reload_regenerated_from_source s prev heap next⟩

/-- `isSamePolicy` and `bindPolicyToURL`, re-translated from their bodies: which policy a rule is bound to
(own reference, else the default one) and when a rule's policy counts as unchanged -/
theorem policy_lookup_regenerated_from_source (s1 s2 : Spec) (n : String) (u : URLRule) :
    Gen.FactsC09IRr.extractionFailed = false ∧
    Gen.FactsC09IRr.isSamePolicyIR s1 s2 n = isSamePolicy s1 s2 n ∧
    Gen.FactsC09IRr.bindPolicyIR s1 u = bindPolicy s1 u :=
  ⟨by decide, RateLimiterFilter.isSamePolicy_regenerated_from_source s1 s2 n,
    RateLimiterFilter.bindPolicy_regenerated_from_source s1 u⟩

/-- **State carry-over, of the regenerated `reload`**: an unchanged rule with an unchanged policy keeps the
very limiter object (hence its accumulated tokens) of the first equal previous rule; every existing limiter
object is left untouched. -/
theorem reload_ir_keeps_state (newSpec : Spec) (g : Gen) (heap : Heap) (next : Nat)
    (hok : ∀ e ∈ heap, e.1 < next) (hall : ∀ r ∈ g.rls, r ≠ none)
    (hbind : ∀ u ∈ newSpec.urls, (bindPolicy newSpec u).isSome) :
    let st := Gen.FactsC09IRr.reloadIR newSpec (some g) heap next
    st.panicked = false ∧
    (∀ id l, heapGet heap id = some l → heapGet st.heap id = some l) ∧
    ∀ (i : Nat) (u : URLRule), newSpec.urls[i]? = some u →
      ∀ (j id : Nat), g.spec.urls[j]? = some u → (∀ k : Nat, k < j → g.spec.urls[k]? ≠ some u) →
        g.rls[j]? = some (some id) → isSamePolicy newSpec g.spec u.policyRef = true →
        st.rls[i]? = some (some id) := by
  simp only
  rw [RateLimiterFilter.reload_regenerated_from_source]
  obtain ⟨h1, _, h3, h4⟩ := reload_keeps_state newSpec g heap next hok hall hbind
  exact ⟨h1, h3, fun i u hu => (h4 i u hu).1⟩

/-- rule 0 unchanged (same policy) keeps limiter 7, rule 1 is new and gets the fresh object 9 -/
example :
    let pol : Pol := ⟨"p", "", "", 5, 0, 0⟩
    let u0 : URLRule := ⟨[], "/a", "", "", ""⟩
    let u1 : URLRule := ⟨["GET"], "", "/b", "", ""⟩
    (Gen.FactsC09IRr.reloadIR ⟨[pol], "p", [u0, u1]⟩ (some ⟨⟨[pol], "p", [u0]⟩, [some 7]⟩) [] 9).rls = [some 7, some 9] := by
  decide

end ReloadIR

/-! ### audit round (item 11): sequences, the converse of the 429 clause, well-formedness, examples -/
section Audit
open EgVerif.RateLimiterFilter

/-- **MQTT request limiter over a whole packet sequence**: running `Limiter.request` over non-decreasing
arrival times produces a reachable limiter history whose admissions are exactly the flags returned — so
`cycle_bound` (≤ L admitted packets per period) holds for `Limiter.run`, not only for single steps. -/
theorem limiter_run_reach (p : Policy) : ∀ (arr : List (Int × Int)) {s h lo}, Reach p s h lo →
    Sorted lo (arr.map (·.1)) →
    ∃ s' h' lo', Reach p s' h' lo' ∧ h'.take h.length = h ∧
      (Limiter.request p s).run arr = (h'.drop h.length).map (·.2.permitted) ∧
      (h'.drop h.length).map (·.1) = arr.map (·.1)
  | [], s, h, lo, r, _ => ⟨s, h, lo, r, by simp, by simp [Limiter.run], by simp⟩
  | (now, n) :: rest, s, h, lo, r, hs => by
    simp only [List.map_cons, Sorted] at hs
    obtain ⟨s', h', lo', r', ht, hrun, htimes⟩ := limiter_run_reach p rest (Reach.step now r hs.1) hs.2
    refine ⟨s', h', lo', r', ?_, ?_, ?_⟩
    · have := congrArg (List.take h.length) ht
      simpa [List.take_take, List.take_append_of_le_length] using this
    · have hd : h'.drop h.length = (now, (acquire p s now 1).2) :: h'.drop (h.length + 1) := by
        have h1 : h' = (h ++ [(now, (acquire p s now 1).2)]) ++ h'.drop (h.length + 1) := by
          conv_lhs => rw [← List.take_append_drop (h.length + 1) h']
          rw [show h.length + 1 = (h ++ [(now, (acquire p s now 1).2)]).length by simp, ht]
        conv_lhs => rw [h1]
        simp
      rw [hd]
      simp only [Limiter.run, Limiter.acquire, List.map_cons]
      rw [hrun]
      simp
    · have hd : h'.drop h.length = (now, (acquire p s now 1).2) :: h'.drop (h.length + 1) := by
        have h1 : h' = (h ++ [(now, (acquire p s now 1).2)]) ++ h'.drop (h.length + 1) := by
          conv_lhs => rw [← List.take_append_drop (h.length + 1) h']
          rw [show h.length + 1 = (h ++ [(now, (acquire p s now 1).2)]).length by simp, ht]
        conv_lhs => rw [h1]
        simp
      rw [hd]
      simp only [List.map_cons]
      rw [show h.length + 1 = (h ++ [(now, (acquire p s now 1).2)]).length by simp, htimes]

/-- per period at most `L` packets of an MQTT request-limited connection are admitted, over the whole run -/
theorem mqtt_run_cycle_bound {p : Policy} (wf : p.WF) (arr : List (Int × Int)) (hs : Sorted 0 (arr.map (·.1))) :
    ∃ h : Hist, (Limiter.request p RateLimiter.init).run arr = h.map (·.2.permitted) ∧
      h.map (·.1) = arr.map (·.1) ∧ ∀ c, cnt p.P h c ≤ p.L.toNat := by
  obtain ⟨s', h', lo', r', _, hrun, ht⟩ := limiter_run_reach p arr (Reach.init (p := p)) hs
  exact ⟨h', by simpa using hrun, by simpa using ht, fun c => cycle_bound wf r' c⟩

theorem heapGet_heapSet_same : ∀ (h : Heap) (id : Nat) (l l' : Lim), heapGet h id = some l' →
    heapGet (heapSet h id l) id = some l
  | [], _, _, _, hl => by simp [heapGet] at hl
  | e :: t, id, l, l', hl => by
    by_cases he : e.1 = id
    · simp [heapGet, heapSet, he]
    · have hne : (e.1 == id) = false := by simpa using he
      simp only [heapGet, List.find?_cons, hne] at hl
      have ih := heapGet_heapSet_same t id l l' (by simpa [heapGet] using hl)
      simp only [heapGet, heapSet, List.map_cons, hne, Bool.false_eq_true, if_false, List.find?_cons] at ih ⊢
      exact ih

/-- every limiter object of the heap is a reachable limiter, last asked at `last id` -/
def HeapReach (h : Heap) (last : Nat → Int) : Prop :=
  ∀ id l, heapGet h id = some l → ∃ hist, Reach l.policy l.state hist (last id)

/-- one `Handle` keeps every limiter reachable (clock not running backwards for the limiter asked) -/
theorem handle_keeps_reach (now : Nat → Int) (ms : List Bool) (rls : List (Option Nat)) (h h' : Heap)
    (out : HOut) (last : Nat → Int) (hr : HeapReach h last) (hmono : ∀ id, last id ≤ now id)
    (e : handle now ms rls h = some (h', out)) :
    HeapReach h' (fun id => if out.asked = some id then now id else last id) := by
  rcases handle_out_shape now ms rls h h' out e with ⟨rfl, rfl, _⟩ | ⟨id, l, h1, h2, h3, _⟩
  · intro id l hl
    simpa [noLimit] using hr id l hl
  · subst h3
    intro id' l' hl'
    by_cases hid : id' = id
    · subst hid
      rw [heapGet_heapSet_same h id' _ l h2] at hl'
      obtain ⟨hist, rh⟩ := hr id' l h2
      have := Reach.step (now id') rh (hmono id')
      cases hl'
      simp only [h1, if_true]
      exact ⟨_, this⟩
    · rw [heapGet_heapSet_other h id id' _ hid] at hl'
      have hne : out.asked ≠ some id' := by rw [h1]; intro hc; exact hid (Option.some.inj hc).symm
      simp only [hne, if_false]
      exact hr id' l' hl'

/-- a sequence of requests through the filter (`reqs`: per request its match flags and the limiters' clocks) -/
def handleSeq (rls : List (Option Nat)) : Heap → List (List Bool × (Nat → Int)) → Option Heap
  | h, [] => some h
  | h, (ms, now) :: rest =>
    match handle now ms rls h with
    | none => none
    | some (h', _) => handleSeq rls h' rest

/-- **`cycle_bound` for every limiter of the filter over any request sequence**: whatever rules the requests
match, each limiter object stays a reachable limiter (so in each of its periods it released ≤ L of the
requests routed to it), provided each limiter's clock does not run backwards. -/
theorem handle_seq_reach (rls : List (Option Nat)) : ∀ (reqs : List (List Bool × (Nat → Int))) (h h' : Heap)
    (last : Nat → Int), HeapReach h last →
    (∀ r ∈ reqs, ∀ id, last id ≤ r.2 id) → (List.Pairwise (fun a b => ∀ id, a.2 id ≤ b.2 id) reqs) →
    handleSeq rls h reqs = some h' →
    ∃ last', HeapReach h' last' ∧ ∀ id l, heapGet h' id = some l → l.policy.WF → ∃ hist,
      Reach l.policy l.state hist (last' id) ∧ ∀ c, cnt l.policy.P hist c ≤ l.policy.L.toNat
  | [], h, h', last, hr, _, _, e => by
    simp only [handleSeq, Option.some.injEq] at e
    subst e
    exact ⟨last, hr, fun id l hl wf => by
      obtain ⟨hist, rh⟩ := hr id l hl
      exact ⟨hist, rh, fun c => cycle_bound wf rh c⟩⟩
  | (ms, now) :: rest, h, h', last, hr, hm, hp, e => by
    simp only [handleSeq] at e
    cases hh : handle now ms rls h with
    | none => simp [hh] at e
    | some pr =>
      obtain ⟨h1, out⟩ := pr
      simp only [hh] at e
      have hr1 := handle_keeps_reach now ms rls h h1 out last hr (fun id => hm _ (List.mem_cons_self) id) hh
      have hp' := List.pairwise_cons.mp hp
      refine handle_seq_reach rls rest h1 h' _ hr1 ?_ hp'.2 e
      intro r hrm id
      by_cases ha : out.asked = some id
      · simp only [ha, if_true]; exact hp'.1 r hrm id
      · simp only [ha, if_false]; exact hm r (List.mem_cons_of_mem _ hrm) id

/-- **429 exactly when refused** (both directions): the result is `rateLimited` iff a limiter was asked and
it refused (the converse of the third clause of `reject_is_429`). -/
theorem rateLimited_iff_refused (now : Nat → Int) (ms : List Bool) (rls : List (Option Nat)) (h h' : Heap)
    (out : HOut) (e : handle now ms rls h = some (h', out)) :
    out.result = "rateLimited" ↔
      ∃ id l, out.asked = some id ∧ heapGet h id = some l ∧
        (acquire l.policy l.state (now id) 1).2.permitted = false := by
  constructor
  · exact (reject_is_429 now ms rls h h' out e).2.2
  · rintro ⟨id, l, ha, hl, hp⟩
    rcases handle_out_shape now ms rls h h' out e with ⟨rfl, _, _⟩ | ⟨id', l', h1, h2, _, h4⟩
    · simp [noLimit] at ha
    · rw [h1] at ha
      have hid : id' = id := Option.some.inj ha
      subst hid
      rw [h2] at hl
      cases hl
      rcases h4 with ⟨_, r, _⟩ | ⟨p', _, _, _⟩
      · exact r
      · rw [hp] at p'; cases p'

/-- well-formed generation: one limiter per URL rule, none nil — what `handle`'s totalisation (a missing
limiter entry reads as "no more rules") must never meet -/
def GenWF (g : Gen) : Prop := g.rls.length = g.spec.urls.length ∧ ∀ r ∈ g.rls, r ≠ none

/-- under `GenWF` and one match flag per rule, "not limited" really means that no rule matched: the
totalised branches of `handle` (lists of different length) are not what answers -/
theorem unlimited_only_if_unmatched (now : Nat → Int) (g : Gen) (ms : List Bool) (h : Heap) (wf : GenWF g)
    (hms : ms.length = g.spec.urls.length) (e : handle now ms g.rls h = some (h, noLimit)) :
    ∀ b ∈ ms, b = false := by
  rcases handle_out_shape now ms g.rls h h noLimit e with ⟨_, _, hall⟩ | ⟨id, l, h1, _⟩
  · have : ms.take g.rls.length = ms := by rw [wf.1, ← hms]; exact List.take_length
    rwa [this] at hall
  · simp [noLimit] at h1

/-- `Init` / `Inherit` establish `GenWF` (under `Validate`'s guarantee that every rule has a policy, and a
well-formed previous generation) -/
theorem reload_establishes_wf (newSpec : Spec) (g : Gen) (heap : Heap) (next : Nat)
    (hok : ∀ e ∈ heap, e.1 < next) (wf : GenWF g)
    (hbind : ∀ u ∈ newSpec.urls, (bindPolicy newSpec u).isSome) :
    let st := reload newSpec (some g) heap next
    st.panicked = false ∧ st.rls.length = newSpec.urls.length := by
  obtain ⟨h1, h2, _, _⟩ := reload_keeps_state newSpec g heap next hok wf.2 hbind
  exact ⟨h1, h2⟩

/-- non-vacuity of `spare_immediate`: one of two permits of period 0 is taken, the next arrival in that
period meets the hypothesis -/
example : ∃ s h lo, Reach ⟨2, 10, 0⟩ s h lo ∧ lo ≤ 3 ∧ cnt 10 h (3 / 10) < (2 : Int).toNat :=
  ⟨_, _, _, Reach.step 0 Reach.init (le_refl _), by decide, by decide⟩

/-- non-vacuity of `reload_keeps_state` / `reload_establishes_wf`: a previous generation with one rule and
limiter 7, a new spec with that rule and another one -/
example :
    let pol : Pol := ⟨"p", "", "", 5, 0, 0⟩
    let u0 : URLRule := ⟨[], "/a", "", "", ""⟩
    let u1 : URLRule := ⟨["GET"], "", "/b", "", ""⟩
    let g : Gen := ⟨⟨[pol], "p", [u0]⟩, [some 7]⟩
    let heap : Heap := [(7, ⟨⟨5, 10, 0⟩, ⟨0, 3⟩⟩)]
    (∀ e ∈ heap, e.1 < 9) ∧ GenWF g ∧ (∀ u ∈ [u0, u1], (bindPolicy ⟨[pol], "p", [u0, u1]⟩ u).isSome) ∧
    (reload ⟨[pol], "p", [u0, u1]⟩ (some g) heap 9).rls = [some 7, some 9] := by
  refine ⟨by decide, ⟨by decide, by decide⟩, by decide, by decide⟩

/-! ### round 7: the byte limiter and the multi limiter composed with `Limiter.run` -/

/-- **MQTT byte limiter over a whole packet sequence**: running `Limiter.byte` over non-decreasing arrival
times and non-negative packet sizes extends a reachable (`ReachN`) history by exactly (time, size, flag
returned by `Limiter.run`) per packet. -/
theorem byte_run_reachN (p : Policy) : ∀ (arr : List (Int × Int)) {s h lo}, ReachN p s h lo →
    Sorted lo (arr.map (·.1)) → (∀ a ∈ arr, 0 ≤ a.2) →
    ∃ s' lo', ReachN p s' (h ++ runHist arr ((Limiter.byte p s).run arr) (·.2)) lo'
  | [], s, h, lo, r, _, _ => ⟨s, lo, by simpa [runHist] using r⟩
  | (now, n) :: rest, s, h, lo, r, hs, hn => by
    simp only [List.map_cons, Sorted] at hs
    have hn0 : 0 ≤ n := hn (now, n) (List.mem_cons_self ..)
    obtain ⟨s', lo', r'⟩ := byte_run_reachN p rest (ReachN.step now n r hs.1 hn0) hs.2
      (fun a ha => hn a (List.mem_cons_of_mem _ ha))
    refine ⟨s', lo', ?_⟩
    simpa [runHist, Limiter.run, Limiter.acquire, List.append_assoc] using r'

/-- **`mqtt_bytes_overshoot_lt_packet` over the whole packet sequence of a connection**: for the byte limiter
`newLimiter` builds (timeout 0), every arrival pattern and every sequence of packet sizes, in every period the
bytes `Limiter.run` admitted stay below `bytesRate` + the largest admitted packet — and the judge's
`overshootOk` accepts the run. -/
theorem mqtt_bytes_run_bound {p : Policy} (hL : 0 < p.L) (hP : 0 < p.P) (hT : p.T = 0)
    (arr : List (Int × Int)) (hs : Sorted 0 (arr.map (·.1))) (hn : ∀ a ∈ arr, 0 ≤ a.2) :
    let h := runHist arr ((Limiter.byte p RateLimiter.init).run arr) (·.2)
    (∀ c, usedIn p.P h c < p.L + maxIn p.P h c) ∧ overshootOk p.L p.P h = true := by
  obtain ⟨s', lo', r'⟩ := byte_run_reachN p arr (ReachN.init (p := p)) hs hn
  simp only [List.nil_append] at r'
  have hb := fun c => mqtt_bytes_overshoot_lt_packet hL hP hT r' c
  exact ⟨hb, by simp only [overshootOk, List.all_eq_true, decide_eq_true_eq]; exact fun e _ => hb _⟩

/-- the request limiter asks one permit per packet: its run is the byte limiter's run over sizes 1 -/
theorem request_run_eq_byte_run (p : Policy) : ∀ (arr : List (Int × Int)) (s : RL),
    (Limiter.request p s).run arr = (Limiter.byte p s).run (arr.map (fun a => (a.1, 1)))
  | [], _ => by simp [Limiter.run]
  | (now, n) :: rest, s => by
    simp only [Limiter.run, Limiter.acquire, List.map_cons]
    rw [request_run_eq_byte_run p rest]

/-- **MQTT request limiter over the whole packet sequence, in the judge's terms**: per period at most
`requestRate` packets are admitted by `Limiter.run`; the judge's `requestsOk` accepts the run. -/
theorem mqtt_request_run_bound {p : Policy} (hL : 0 < p.L) (hP : 0 < p.P) (hT : p.T = 0)
    (arr : List (Int × Int)) (hs : Sorted 0 (arr.map (·.1))) :
    let h := runHist arr ((Limiter.request p RateLimiter.init).run arr) (fun _ => 1)
    (∀ c, usedIn p.P h c ≤ p.L) ∧ requestsOk p.L p.P h = true := by
  have hs' : Sorted 0 ((arr.map (fun a => (a.1, (1 : Int)))).map (·.1)) := by
    have : ((fun x : Int × Int => x.1) ∘ fun a : Int × Int => (a.1, (1 : Int))) = (fun x => x.1) := rfl
    simpa [List.map_map, this] using hs
  obtain ⟨s', lo', r'⟩ := byte_run_reachN p (arr.map (fun a => (a.1, 1))) (ReachN.init (p := p)) hs'
    (fun a ha => by simp only [List.mem_map] at ha; obtain ⟨x, _, rfl⟩ := ha; exact Int.zero_le_ofNat 1)
  simp only [List.nil_append] at r'
  have heq : runHist (arr.map (fun a => (a.1, (1 : Int))))
      ((Limiter.byte p RateLimiter.init).run (arr.map (fun a => (a.1, 1)))) (·.2) =
      runHist arr ((Limiter.request p RateLimiter.init).run arr) (fun _ => 1) := by
    rw [request_run_eq_byte_run]
    simp [runHist, List.zip_map_left, List.map_map]
  rw [heq] at r'
  have hb := fun c => mqtt_request_bound hL hP hT r' (fun e he => by
    simp only [runHist, List.mem_map] at he
    obtain ⟨x, _, rfl⟩ := he
    rfl) c
  exact ⟨hb, by simp only [requestsOk, List.all_eq_true, decide_eq_true_eq]; exact fun e _ => hb _⟩

/-- the judge's arrival times are non-decreasing from 0 (the hypothesis `Sorted 0` of the run theorems) -/
theorem arrivalTimes_sorted : ∀ (n : Nat) (t : Int) (dts : List Int), Sorted t (arrivalTimes t dts n)
  | 0, _, _ => by simp [arrivalTimes, Sorted]
  | n + 1, t, dts => by
    simp only [arrivalTimes, Sorted]
    refine ⟨by split <;> omega, arrivalTimes_sorted n _ _⟩

/-- the multi limiter `[requests, bytes]` over a whole packet sequence: both per-dimension histories are
extended by the flag `Limiter.run` returned (one permit resp. `size` permits per packet) -/
theorem multi_run_reachM (L0 L1 P : Int) : ∀ (arr : List (Int × Int)) {s h0 h1 lo}, ReachM L0 L1 P s h0 h1 lo →
    Sorted lo (arr.map (·.1)) → (∀ a ∈ arr, 0 ≤ a.2) →
    ∃ s' lo', ReachM L0 L1 P s'
      (h0 ++ runHist arr ((Limiter.multi ⟨[L0, L1], P, 0⟩ s).run arr) (fun _ => 1))
      (h1 ++ runHist arr ((Limiter.multi ⟨[L0, L1], P, 0⟩ s).run arr) (·.2)) lo'
  | [], s, h0, h1, lo, r, _, _ => ⟨s, lo, by simpa [runHist] using r⟩
  | (now, n) :: rest, s, h0, h1, lo, r, hs, hn => by
    simp only [List.map_cons, Sorted] at hs
    have hn0 : 0 ≤ n := hn (now, n) (List.mem_cons_self ..)
    obtain ⟨s', lo', r'⟩ := multi_run_reachM L0 L1 P rest (ReachM.step now 1 n r hs.1 (by decide) hn0) hs.2
      (fun a ha => hn a (List.mem_cons_of_mem _ ha))
    refine ⟨s', lo', ?_⟩
    simpa [runHist, Limiter.run, Limiter.acquire, List.append_assoc] using r'

/-- **MQTT multi limiter over the whole packet sequence** (`requestRate` and `bytesRate` both set): per period
`Limiter.run` admits at most `requestRate` packets, and the admitted bytes stay below `bytesRate` + the largest
admitted packet; `overshootOk` accepts the byte history. -/
theorem mqtt_multi_run_bounds {L0 L1 P : Int} (hL0 : 0 < L0) (hL1 : 0 < L1) (hP : 0 < P)
    (arr : List (Int × Int)) (hs : Sorted 0 (arr.map (·.1))) (hn : ∀ a ∈ arr, 0 ≤ a.2) :
    let flags := (Limiter.multi ⟨[L0, L1], P, 0⟩ (minit ⟨[L0, L1], P, 0⟩)).run arr
    (∀ c, usedIn P (runHist arr flags (fun _ => 1)) c ≤ L0) ∧
    (∀ c, usedIn P (runHist arr flags (·.2)) c < L1 + maxIn P (runHist arr flags (·.2)) c) ∧
    overshootOk L1 P (runHist arr flags (·.2)) = true := by
  obtain ⟨s', lo', r'⟩ := multi_run_reachM L0 L1 P arr (ReachM.init (L0 := L0) (L1 := L1) (P := P)) hs hn
  simp only [List.nil_append] at r'
  have hb := fun c => mqtt_multi_bounds hL0 hL1 hP r' c
  refine ⟨fun c => (hb c).2.2 ?_, fun c => (hb c).2.1, ?_⟩
  · intro e he
    simp only [runHist, List.mem_map] at he
    obtain ⟨x, _, rfl⟩ := he
    rfl
  · simp only [overshootOk, List.all_eq_true, decide_eq_true_eq]; exact fun e _ => (hb _).2.1

/-- non-vacuity: 2 packets and 10 bytes per second; sizes 4, 7, 1 at t = 0 (the third packet is refused by the
request dimension although bytes would fit), then 7 in the next second -/
example :
    let arr : List (Int × Int) := [(0, 4), (0, 7), (0, 1), (1000000000, 7)]
    let flags := (Limiter.multi ⟨[2, 10], 1000000000, 0⟩ (minit ⟨[2, 10], 1000000000, 0⟩)).run arr
    flags = [true, true, false, true] ∧ usedIn 1000000000 (runHist arr flags (·.2)) 0 = 11 ∧
    Sorted 0 (arr.map (·.1)) := by
  refine ⟨by decide, by decide, by simp [Sorted]⟩

theorem arrivalTimes_length : ∀ (n : Nat) (t : Int) (dts : List Int), (arrivalTimes t dts n).length = n
  | 0, _, _ => rfl
  | n + 1, t, dts => by simp [arrivalTimes, arrivalTimes_length n]

/-- **the MQTT judge's spec accepts the model** — for every `RateLimit` spec, every sequence of clock advances
and every sequence of (non-negative) packet sizes, the run of whatever limiter `newLimiter` builds satisfies the
two clauses the judge evaluates on the observed flags (`requestsOk` when `requestRate > 0`, `overshootOk` when
`bytesRate > 0`, period = the configured whole seconds, at least 1). -/
theorem mqtt_spec_accepts_model (sp : RateLimitSpec) (dts pk : List Int) (hpk : ∀ n ∈ pk, 0 ≤ n) :
    let arr := (arrivalTimes 0 dts pk.length).zip pk
    let P := (if sp.timePeriod > 0 then sp.timePeriod else 1) * second
    let got := (newLimiter (some sp)).run arr
    (0 < sp.requestRate → requestsOk sp.requestRate P (runHist arr got (fun _ => 1)) = true) ∧
    (0 < sp.bytesRate → overshootOk sp.bytesRate P (runHist arr got (·.2)) = true) := by
  intro arr P got
  have hfst : arr.map (·.1) = arrivalTimes 0 dts pk.length := by
    simp only [arr]
    exact List.map_fst_zip (by rw [arrivalTimes_length])
  have hs : Sorted 0 (arr.map (·.1)) := by rw [hfst]; exact arrivalTimes_sorted _ _ _
  have hn : ∀ a ∈ arr, 0 ≤ a.2 := fun a ha => hpk a.2 (List.of_mem_zip (a := a.1) (b := a.2) ha).2
  have hP : 0 < P := by
    simp only [P, second]
    split <;> omega
  have hnl : newLimiter (some sp) =
      if sp.requestRate = 0 ∧ sp.bytesRate = 0 then Limiter.none
      else if sp.requestRate > 0 ∧ sp.bytesRate > 0 then
        Limiter.multi ⟨[sp.requestRate, sp.bytesRate], P, 0⟩ (minit ⟨[sp.requestRate, sp.bytesRate], P, 0⟩)
      else if sp.requestRate > 0 then Limiter.request ⟨sp.requestRate, P, 0⟩ RateLimiter.init
      else if sp.bytesRate > 0 then Limiter.byte ⟨sp.bytesRate, P, 0⟩ RateLimiter.init
      else Limiter.none := rfl
  simp only [got, hnl]
  clear_value P
  split_ifs with h0 h1 h2 h3
  · exact ⟨fun h => by omega, fun h => by omega⟩
  · have hb := mqtt_multi_run_bounds h1.1 h1.2 hP arr hs hn
    simp only at hb
    refine ⟨fun _ => ?_, fun _ => hb.2.2⟩
    simp only [requestsOk, List.all_eq_true, decide_eq_true_eq]
    exact fun e _ => hb.1 _
  · have hb := mqtt_request_run_bound (p := ⟨sp.requestRate, P, 0⟩) h2 hP rfl arr hs
    exact ⟨fun _ => hb.2, fun h => by omega⟩
  · have hb := mqtt_bytes_run_bound (p := ⟨sp.bytesRate, P, 0⟩) h3 hP rfl arr hs hn
    exact ⟨fun h => by omega, fun _ => hb.2⟩
  · exact ⟨fun h => by omega, fun h => by omega⟩

/-- non-vacuity of the varied clock: request rate 2 per second, five packets at 0, 0, 0, 1 s, 1 s -/
example :
    let arr := (arrivalTimes 0 [0, 0, 0, 1000000000] 5).zip [3, 3, 3, 3, 3]
    (newLimiter (some ⟨2, 0, 1⟩)).run arr = [true, true, false, true, true] ∧
    requestsOk 2 1000000000 (runHist arr [true, true, true, true, true] (fun _ => 1)) = false := by
  refine ⟨by decide, by decide⟩

end Audit

end EgVerif.C09
