import EgVerif.Proofs.MuxCache
import EgVerif.Spec.MuxCache
import EgVerif.Gen.FactsC12
import EgVerif.Proofs.MuxSearchIR
/-!
# C12 — the route cache is transparent

Property theorems about `Model/MuxCache.lean` (the cached `muxInstance.search` of the repaired
`mux.go`, layered on the cache-less `Mux.search` of `Model/Mux.lean`): for **every** configuration,
**every** request history, **every** eviction behaviour of the cache (hence ARC at every
`cacheSize ≥ 1`) and every answer of the regexp / IP-filter oracles, the cached instance routes each
request exactly as the cache-less search does. Helper lemmas: `Proofs/MuxCache.lean`.

Requests are well-formed (`WF strip q`): `hostNoPort` is `strip host`, i.e. the value the Go code
derives with `net.SplitHostPort` from the very `Host` that is part of the key.

The model of the code *before* the repair (`MuxCache.Old`) violates the property in four different
ways; each is exhibited below by a concrete two-request history (`by decide`). The same histories
are in `corpus/C12/twin.jsonl` and fail against the unpatched Go code.
-/
namespace EgVerif.C12
open EgVerif.Mux EgVerif.MuxCache
open EgVerif.Gen

/-! ## Key -/

/-- Equal cache keys ⇒ equal host, method and path (the struct key is unambiguous). -/
theorem key_injective (q q' : Req) (h : keyOf q = keyOf q') :
    q.host = q'.host ∧ q.method = q'.method ∧ q.path = q'.path := by
  simp only [keyOf, Key.mk.injEq] at h
  exact h

/-- The old concatenated key is not injective: `"a"+"bGET"` = `"ab"+"GET"`. -/
theorem old_key_not_injective :
    ∃ q q' : Req, Old.keyOf q = Old.keyOf q' ∧ (q.host ≠ q'.host ∧ q.method ≠ q'.method) :=
  ⟨⟨"a", "a", "bGET", "/x", [], "1.1.1.1"⟩, ⟨"ab", "ab", "GET", "/x", [], "1.1.1.1"⟩, by decide⟩

/-! ## Misses and put sites -/

/-- A cache miss returns exactly what the cache-less search returns. -/
theorem miss_eq_search (o : Oracle) (c : Cfg) (q : Req) : (searchMiss o c q).1 = search o c q :=
  searchMiss_fst o c q

/-- Whatever one of the three put sites stores under `keyOf q` answers every request with that key
(other headers, other client address) exactly as the cache-less search would. -/
theorem put_answers_like_search (o : Oracle) (c : Cfg) (strip : String → String) (q q' : Req)
    (hq : WF strip q) (hq' : WF strip q') (hk : keyOf q' = keyOf q) (r : CRoute)
    (h : (searchMiss o c q).2 = some r) : hit o r q' = search o c q' :=
  put_sound o c (sameKey_of_key hq hq' hk.symm) r h

/-- Nothing is cached once a header-conditioned entry was skipped because of *this* request's headers
(its result is not a function of the key). -/
theorem no_put_after_header_mismatch (o : Oracle) (q : Req) (rs : List Rule) (ri : Nat) (cs : List Nat)
    (mm : Bool) : (searchRulesC o q ri rs cs true mm).2 = none :=
  searchRulesC_hm o q rs ri cs mm

/-! ## Invariant over request histories -/

/-- The cache after serving `reqs` (from request number `n` and cache `cache`). -/
def cacheAfter (o : Oracle) (c : Cfg) (ev : Nat → Key → Bool) : Nat → Cache → List Req → Cache
  | _, cache, [] => cache
  | n, cache, q :: qs => cacheAfter o c ev (n + 1) (searchCached o c (ev n) cache q).2 qs

/-- **`cache_inv`**: after any history, under any eviction behaviour, every cached entry `(k ↦ r)`
satisfies `∀ req, key req = k → hit r req = searchUncached cfg req`. -/
theorem cache_inv (o : Oracle) (c : Cfg) (strip : String → String) (ev : Nat → Key → Bool) :
    ∀ (reqs : List Req) (n : Nat) (cache : Cache), (∀ q ∈ reqs, WF strip q) → CacheInv o c strip cache →
      CacheInv o c strip (cacheAfter o c ev n cache reqs)
  | [], _, _, _, inv => inv
  | q :: qs, n, cache, hw, inv => by
    simp only [cacheAfter]
    exact cache_inv o c strip ev qs (n + 1) _ (fun q' h => hw q' (List.mem_cons_of_mem _ h))
      (searchCached_step o c strip (ev n) cache q (hw q List.mem_cons_self) inv).2

/-- One request against any cache that satisfies the invariant: hit or miss, evicted or not, the
answer is the cache-less one. -/
theorem request_transparent (o : Oracle) (c : Cfg) (strip : String → String) (ev : Key → Bool)
    (cache : Cache) (q : Req) (hq : WF strip q) (inv : CacheInv o c strip cache) :
    (searchCached o c ev cache q).1 = search o c q :=
  (searchCached_step o c strip ev cache q hq inv).1

/-! ## The property -/

/-- **C12 (routes)**: for every configuration, oracle, eviction behaviour and request history the
cached instance returns, request by request, the route of the cache-less search. -/
theorem cache_transparent (o : Oracle) (c : Cfg) (strip : String → String) (ev : Nat → Key → Bool)
    (reqs : List Req) (hw : ∀ q ∈ reqs, WF strip q) :
    runCached o c ev reqs = reqs.map (search o c) :=
  runFrom_eq o c strip ev reqs 0 [] hw (cacheInv_nil o c strip)

/-- The same from any later point of a generation's life (any request number, any cache that the
generation can have built). -/
theorem cache_transparent_from (o : Oracle) (c : Cfg) (strip : String → String) (ev : Nat → Key → Bool)
    (pre reqs : List Req) (hp : ∀ q ∈ pre, WF strip q) (hw : ∀ q ∈ reqs, WF strip q) :
    runFrom o c ev pre.length (cacheAfter o c ev 0 [] pre) reqs = reqs.map (search o c) :=
  runFrom_eq o c strip ev reqs _ _ hw (cache_inv o c strip ev pre 0 [] hp (cacheInv_nil o c strip))

/-- **C12 (observables)**: status, chosen backend and handler-visible path — or any other function
`obs` of the route and the request — coincide with the cache-less instance for every request. -/
theorem cache_transparent_obs {α : Type} (obs : Route → Req → α) (o : Oracle) (c : Cfg)
    (strip : String → String) (ev : Nat → Key → Bool) (reqs : List Req) (hw : ∀ q ∈ reqs, WF strip q) :
    List.zipWith obs (runCached o c ev reqs) reqs = reqs.map (fun q => obs (search o c q) q) := by
  rw [cache_transparent o c strip ev reqs hw]
  clear hw
  induction reqs with
  | nil => rfl
  | cons q qs ih => simpa using ih

/-- In particular an earlier request never changes how a later one is routed: the answer to the last
request does not depend on the history before it. -/
theorem history_independent (o : Oracle) (c : Cfg) (strip : String → String) (ev ev' : Nat → Key → Bool)
    (pre pre' : List Req) (q : Req) (hp : ∀ x ∈ pre, WF strip x) (hp' : ∀ x ∈ pre', WF strip x)
    (hq : WF strip q) :
    (runCached o c ev (pre ++ [q])).getLast? = (runCached o c ev' (pre' ++ [q])).getLast? := by
  have w : ∀ (p : List Req), (∀ x ∈ p, WF strip x) → ∀ x ∈ p ++ [q], WF strip x := by
    intro p hp x hx
    rcases List.mem_append.mp hx with h | h
    · exact hp x h
    · simp only [List.mem_singleton] at h; subst h; exact hq
  rw [cache_transparent o c strip ev _ (w pre hp), cache_transparent o c strip ev' _ (w pre' hp')]
  simp

/-- The executable specification used by the judge accepts the model's own behaviour. -/
theorem spec_accepts_model (known : String → Bool) (rw : PathEntry → String → String) (o : Oracle)
    (c : Cfg) (strip : String → String) (ev : Nat → Key → Bool) (reqs : List Req)
    (hw : ∀ q ∈ reqs, WF strip q) :
    specOK (List.zipWith (obsOf known rw) (runCached o c ev reqs) reqs)
      (reqs.map (fun q => obsOf known rw (search o c q) q)) = true := by
  rw [cache_transparent_obs (obsOf known rw) o c strip ev reqs hw]
  simp [specOK]

/-! ## Reloads (Extension mux): transparency over histories of requests *and* in-place reloads

`Op = request q | reload g`; `reload` installs the new configuration with a fresh cache
(`MuxCache.reload`, mirroring `mux.reload`'s `lru.NewARC`). `refOps` answers every request with the
cache-less search under the configuration current when it is served. -/

/-- **C12 across reloads**: for every history of requests and reloads (any configurations, with or
without a cache in any generation), every eviction behaviour and every oracle, each response of the
mux equals the cache-less search under the configuration current at that point. -/
theorem cache_transparent_across_reloads (o : Oracle) (strip : String → String) (ev : Nat → Key → Bool)
    (ops : List Op) (hw : OpsWF strip ops) :
    runOps o ev 0 newMux ops = refOps o {} ops :=
  runOps_eq o strip ev ops 0 newMux hw (instInv_newMux o strip)

/-- The same from any published instance whose cache satisfies the invariant for *its own*
configuration — in particular from any instance reached by a history (`inst_inv_across_reloads`). -/
theorem cache_transparent_across_reloads_from (o : Oracle) (strip : String → String)
    (ev : Nat → Key → Bool) (n : Nat) (i : Inst) (ops : List Op) (hw : OpsWF strip ops)
    (inv : InstInv o strip i) : runOps o ev n i ops = refOps o i.cfg ops :=
  runOps_eq o strip ev ops n i hw inv

/-- The instance published after serving `ops`. -/
def instAfter (o : Oracle) (ev : Nat → Key → Bool) : Nat → Inst → List Op → Inst
  | _, i, [] => i
  | n, _, .reload g :: ops => instAfter o ev n (reload g) ops
  | n, i, .request q :: ops => instAfter o ev (n + 1) (i.search o (ev n) q).2 ops

/-- **Invariant over histories with reloads**: the cache of the instance published after any history
answers every request with a cached key as the cache-less search does *under that instance's own
configuration* — a reload never leaves entries of an earlier generation behind. -/
theorem inst_inv_across_reloads (o : Oracle) (strip : String → String) (ev : Nat → Key → Bool) :
    ∀ (ops : List Op) (n : Nat) (i : Inst), OpsWF strip ops → InstInv o strip i →
      InstInv o strip (instAfter o ev n i ops) ∧ (instAfter o ev n i ops).cfg = cfgAfter i.cfg ops
  | [], _, _, _, inv => ⟨inv, rfl⟩
  | .reload g :: ops, n, _, hw, _ => by
    simp only [instAfter, cfgAfter]
    exact inst_inv_across_reloads o strip ev ops n (reload g) (fun q h => hw q (List.mem_cons_of_mem _ h))
      (instInv_reload o strip g)
  | .request q :: ops, n, i, hw, inv => by
    obtain ⟨_, h2, h3⟩ := instSearch_step o strip (ev n) i q (hw q List.mem_cons_self) inv
    simp only [instAfter, cfgAfter]
    rw [← h2]
    exact inst_inv_across_reloads o strip ev ops (n + 1) _ (fun q' h => hw q' (List.mem_cons_of_mem _ h)) h3

/-- **History independence across reloads**: the answer to a request depends only on the request and
on the configuration installed by the last reload before it — not on the requests, reloads, caches or
evictions before. -/
theorem history_independent_across_reloads (o : Oracle) (strip : String → String)
    (ev : Nat → Key → Bool) (pre : List Op) (q : Req) (hp : OpsWF strip pre) (hq : WF strip q) :
    (runOps o ev 0 newMux (pre ++ [.request q])).getLast? = some (search o (cfgAfter {} pre) q) := by
  have hw : OpsWF strip (pre ++ [.request q]) := by
    intro x hx
    rcases List.mem_append.mp hx with h | h
    · exact hp x h
    · simp only [List.mem_singleton, Op.request.injEq] at h; subst h; exact hq
  rw [cache_transparent_across_reloads o strip ev _ hw]
  simp [refOps, reqCfgs_append, reqCfgs]

/-- Two histories that end in the same configuration answer the same last request identically, whatever
else differs (other requests, other earlier generations, other eviction behaviour). -/
theorem history_independent_across_reloads' (o : Oracle) (strip : String → String)
    (ev ev' : Nat → Key → Bool) (pre pre' : List Op) (q : Req) (hp : OpsWF strip pre)
    (hp' : OpsWF strip pre') (hq : WF strip q) (hc : cfgAfter {} pre = cfgAfter {} pre') :
    (runOps o ev 0 newMux (pre ++ [.request q])).getLast? =
      (runOps o ev' 0 newMux (pre' ++ [.request q])).getLast? := by
  rw [history_independent_across_reloads o strip ev pre q hp hq,
    history_independent_across_reloads o strip ev' pre' q hp' hq, hc]

/-- Observables across reloads: any function of (route, request) — status, backend, rewritten path. -/
theorem cache_transparent_across_reloads_obs {α : Type} (obs : Route → Req → α) (o : Oracle)
    (strip : String → String) (ev : Nat → Key → Bool) (ops : List Op) (hw : OpsWF strip ops) :
    List.zipWith obs (runOps o ev 0 newMux ops) ((reqCfgs {} ops).map (·.2)) =
      (reqCfgs {} ops).map (fun p => obs (search o p.1 p.2) p.2) := by
  rw [cache_transparent_across_reloads o strip ev ops hw, refOps]
  generalize reqCfgs {} ops = l
  induction l with
  | nil => rfl
  | cons p ps ih => simp [ih]

/-- (audit repair) The judge's executable spec, as it is applied since the reload extension — cached
observations of `runOps` against cache-less observations of `refOps` — accepts the model's own behaviour. -/
theorem spec_accepts_model_across_reloads (known : String → Bool) (rw : PathEntry → String → String)
    (o : Oracle) (strip : String → String) (ev : Nat → Key → Bool) (ops : List Op) (hw : OpsWF strip ops) :
    specOK (List.zipWith (obsOf known rw) (runOps o ev 0 newMux ops) ((reqCfgs {} ops).map (·.2)))
      (List.zipWith (obsOf known rw) (refOps o {} ops) ((reqCfgs {} ops).map (·.2))) = true := by
  rw [cache_transparent_across_reloads o strip ev ops hw]
  simp [specOK]

/-! ### Witness: a reload that kept the previous cache would not be transparent

Server filter 0 blocks `10.0.0.1`; generation 1 has no server filter, generation 2 (same rules, same
cache size) has it. With the cache carried over (`runOpsKeep`) the blocked client is still served from
the entry cached in generation 1 — the seeded change C05-m4. -/

open EgVerif.C12w in

theorem kept_cache_across_reload_not_transparent :
    runOpsKeep oR (fun _ _ => false) 0 newMux histR
      ≠ refOps oR {} histR := by decide

open EgVerif.C12w

/-- Non-vacuity: on that history the model's second generation really starts with an empty cache, the
first generation had both keys resident, and the model agrees with the reference (403, 403). -/
example : runOps oR (fun _ _ => false) 0 newMux histR
    = [.path 0 0 { path := "/x", backend := "p1" }, .code 404, .code 403, .code 403] := by decide
example : runOpsKeep oR (fun _ _ => false) 0 newMux histR
    = [.path 0 0 { path := "/x", backend := "p1" }, .code 404, .path 0 0 { path := "/x", backend := "p1" }, .code 404] := by decide
example : residentOps (⟨fun _ _ => false, fun _ _ => true⟩) (fun _ _ => false) 0 newMux
    [.reload ⟨cfgR1, true⟩, .request (qR "1"), .request (qR "2"), .reload ⟨cfgR1, true⟩, .request (qR "3"), .request (qR "4")]
    = [false, true, false, true] := by decide
example : OpsWF id histR := by
  intro q h
  simp only [histR, List.mem_cons, List.not_mem_nil, or_false, Op.request.injEq, reduceCtorEq, false_or] at h
  rcases h with rfl | rfl | rfl | rfl <;> rfl

/-! ## Witnesses: the four defects of the code before the repair, and non-vacuity

One oracle for all: no regexps; filter 0 blocks `10.0.0.1`. -/

def wo : Oracle := ⟨fun _ _ => false, fun i ip => !(i == 0 && ip == "10.0.0.1")⟩
def noEv : Nat → String → Bool := fun _ _ => false
def noEvK : Nat → Key → Bool := fun _ _ => false
def always : Nat → Key → Bool := fun _ _ => true

/-- (a) rule for host `ab`; `a`+`bGET` poisons the key of `ab`+`GET` with a 404. -/
def cfgA : Cfg := { rules := [{ host := "ab", paths := [{ path := "/x", backend := "p1" }] }] }
def histA : List Req := [⟨"a", "a", "bGET", "/x", [], "10.0.0.2"⟩, ⟨"ab", "ab", "GET", "/x", [], "10.0.0.2"⟩]

theorem old_key_collision : Old.runCached wo cfgA noEv histA ≠ histA.map (search wo cfgA) := by decide
example : (Old.runCached wo cfgA noEv histA).getLast? = some (.code 404) := by decide
example : (histA.map (search wo cfgA)).getLast? = some (.path 0 0 { path := "/x", backend := "p1" }) := by decide

/-- (b) a header-conditioned entry ahead of an unconditional one with the same path. -/
def cfgB : Cfg := { rules := [{ paths := [
  { path := "/x", headers := [⟨"X-T", ["1"], none⟩], backend := "p1" },
  { path := "/x", backend := "p2" }] }] }
def histB : List Req := [⟨"a", "a", "GET", "/x", [], "10.0.0.2"⟩, ⟨"a", "a", "GET", "/x", [("X-T", "1")], "10.0.0.2"⟩]

theorem old_header_shadow : Old.runCached wo cfgB noEv histB ≠ histB.map (search wo cfgB) := by decide

/-- (c) server-level filter; a cached 404 is returned to the blocked client. -/
def cfgC : Cfg := { ipFilter := some 0, rules := [{ host := "b", paths := [{ path := "/x", backend := "p1" }] }] }
def histC : List Req := [⟨"a", "a", "GET", "/x", [], "10.0.0.2"⟩, ⟨"a", "a", "GET", "/x", [], "10.0.0.1"⟩]

theorem old_ip_bypass_404 : Old.runCached wo cfgC noEv histC ≠ histC.map (search wo cfgC) := by decide
example : Old.runCached wo cfgC noEv histC = [.code 404, .code 404] := by decide
example : histC.map (search wo cfgC) = [.code 404, .code 403] := by decide

/-- (d) an earlier host-matching rule with a filter and no matching path; the hit skips its filter. -/
def cfgD : Cfg := { rules := [
  { ipFilter := some 0, paths := [{ path := "/y", backend := "p1" }] },
  { paths := [{ path := "/x", backend := "p2" }] }] }
def histD : List Req := histC

theorem old_ip_bypass_rule : Old.runCached wo cfgD noEv histD ≠ histD.map (search wo cfgD) := by decide
example : (Old.runCached wo cfgD noEv histD).getLast? = some (.path 1 0 { path := "/x", backend := "p2" }) := by decide

/-- Non-vacuity: on the same four histories the repaired model really serves the second request from
the cache (the key is resident) and agrees with the cache-less search; the histories are well-formed. -/
example : residentFrom wo cfgB noEvK 0 [] histB = [false, false] := by decide   -- not cached: header mismatch seen
example : residentFrom wo cfgC noEvK 0 [] histC = [false, true] := by decide
example : residentFrom wo cfgD noEvK 0 [] histD = [false, true] := by decide
example : runCached wo cfgA noEvK histA = histA.map (search wo cfgA) := by decide
example : runCached wo cfgB noEvK histB = histB.map (search wo cfgB) := by decide
example : runCached wo cfgC noEvK histC = histC.map (search wo cfgC) := by decide
example : runCached wo cfgD noEvK histD = histD.map (search wo cfgD) := by decide
example : runCached wo cfgD always histD = histD.map (search wo cfgD) := by decide
example : ∀ q ∈ histA ++ histB ++ histC, WF id q := by
  intro q h; simp only [histA, histB, histC, List.cons_append, List.nil_append, List.mem_cons, List.not_mem_nil, or_false] at h
  rcases h with rfl | rfl | rfl | rfl | rfl | rfl <;> rfl

/-! ## Regenerated source facts (the syntactic shape of mux.go the model relies on) -/

/-- The facts could be extracted from the working tree. -/
theorem facts_extracted : FactsC12.extractionFailed = false := by decide

/-- Get and put build the same key, a struct of (host, method, path) — `keyOf`. -/
theorem key_shape :
    FactsC12.keyExprGet = FactsC12.keyExprPut ∧
    FactsC12.keyExprGet = "routeCacheKey{req.Host(), req.Method(), req.Path()}" ∧
    FactsC12.keyFields = ["host string", "method string", "path string"] := by decide

/-- `search` looks the cache up once and has three `putRouteToCache` call sites. *What* is put under
*which* guard (the path while no header mismatch was seen, the 405, the 404, each with the consulted
filters) is no longer pinned as source text here (`FactsC12.putArgs` / `putGuards` are still generated
for the reader): since Extension mux it is proved semantically by `search_regenerated_from_source`
below, which survives renamings. -/
theorem put_sites :
    FactsC12.searchGetCalls = 1 ∧ FactsC12.searchPutCalls = 3 := by decide

/-- A `route` carries the consulted filters. That every IP check of `search` goes through the recording
closure and that the hit branch re-checks exactly the recorded list is `search_regenerated_from_source`
/ `search_hit_regenerated_from_source` (the former textual facts `searchAllowCalls`, `hitBranch` are
still generated, but no longer pinned: they broke on a mere renaming of `allow` / `consulted`). -/
theorem ip_checks_recorded :
    "ipFilters []*ipfilter.IPFilter" ∈ FactsC12.routeFields := by
  decide

/-- One fresh cache per generation (`runCached` starts from the empty cache). -/
theorem one_cache_per_generation : FactsC12.reloadNewARCCalls = 1 := by decide

/-- `mux.reload` gives the new instance a cache from exactly one source, a freshly created ARC, and never
reads a `.cache` field (the previous instance's cache is not carried over): `MuxCache.reload`. -/
theorem fresh_cache_per_generation :
    FactsC12.reloadCacheSources = ["lru.NewARC(int(spec.CacheSize))"] ∧
    FactsC12.reloadCacheReads = [] := by decide

/-! ## Regenerated tie by translation (`notes/IR.md`, Extension mux)

`Gen.FactsMuxIR.searchIR o c q cached` is re-translated on every run from the current body of
`muxInstance.search` (go/ast → Lean, `harness/factextract/irlib.go`; `cached` = what `getRouteFromCache`
returned, second component = the route handed to `putRouteToCache`). Proofs: `Proofs/MuxSearchIR.lean`. -/

/-- **Miss path**: with no cached route the generated definition returns the model's `searchMiss` — the
route *and* the put (which route, under which guard, with which consulted filters), through the Go view
of routes (`routeGo` / `CRoute.go`). -/
theorem search_regenerated_from_source (o : Oracle) (c : Cfg) (q : Req) :
    Gen.FactsMuxIR.extractionFailed = false ∧
    Gen.FactsMuxIR.searchIR o c q none = (routeGo (searchMiss o c q).1, (searchMiss o c q).2.map CRoute.go) :=
  ⟨by decide, MuxCache.search_regenerated_from_source o c q⟩

/-- **Hit branch**: with a cached route the generated definition is the model's `hit` (re-check exactly the
recorded filters, else 403) and puts nothing. -/
theorem search_hit_regenerated_from_source (o : Oracle) (c : Cfg) (q : Req) (r : CRoute) :
    Gen.FactsMuxIR.extractionFailed = false ∧
    Gen.FactsMuxIR.searchIR o c q (some r.go) = (routeGo (hit o r q), none) :=
  ⟨by decide, MuxCache.search_regenerated_from_source_hit o c q r⟩

/-- `CRoute.go` loses nothing the hit branch reads: route (up to indices) and filter list are recovered. -/
theorem go_faithful (r r' : CRoute) (h : r.go = r'.go) :
    routeGo r.route = routeGo r'.route ∧ r.filters = r'.filters := by
  simp only [CRoute.go, GoRoute.mk.injEq] at h
  obtain ⟨h1, h2, h3⟩ := h
  exact ⟨Prod.ext h1 h2, (List.map_inj_right (fun _ _ h => Option.some.inj h)).mp h3⟩

end EgVerif.C12
