import EgVerif.Proofs.Retry
import EgVerif.Gen.FactsC10
/-!
# C10 — retry and time-limit policies bound attempts and waiting; one breaker record per request

Property theorems about `Model.Retry` (mirror of `RetryPolicy.Wrap`, `circuitBreakerWrapper.Wrap`,
`ServerPool.handle`, `ServerPool.doHandle`). They hold for **every** policy (`maxAttempts`, wait,
randomisation factor, back-off kind), every environment `env` (what each backend call meets, the
`rand.Intn` values, at which `select` the client's context is done), stream or buffered requests.
Helper lemmas: `Proofs/Retry.lean`.

**Partial** in the sense of the brief: durations are exact rationals; the `float64` rounding and
the truncation of `time.Duration(d)` in the implementation are not modelled (the judge allows 2 ns);
when the client's cancellation and the timer expire together Go's `select` may pick either — the
model takes the choice as the oracle `env.done`; real timers / `context` deadlines are trusted.
-/
namespace EgVerif.C10
open EgVerif.Retry

/-- the transport calls of one client request, as attempt indices -/
def callsOf (pool : Pool) (stream permitted : Bool) (env : Env) : List Nat :=
  calls (handle pool stream permitted env).events

theorem inner_calls (pool : Pool) (stream : Bool) (env : Env) :
    ∃ m, m ≤ maxCalls pool stream ∧ calls (inner pool stream env).events = List.range' 0 m := by
  unfold inner maxCalls
  cases hr : pool.retry with
  | none => exact ⟨1, le_refl _, by simp [calls_cons_call, calls_nil, List.range']⟩
  | some p =>
    cases stream with
    | true => exact ⟨1, by simp, by simp [calls_cons_call, calls_nil, List.range']⟩
    | false =>
      obtain ⟨m, hm, _, hc⟩ := calls_range pool.failureCodes p env p.maxAttempts.toNat 0 (none, none)
      exact ⟨m, by simpa using hm, by simpa using hc⟩

theorem handle_events (pool : Pool) (stream permitted : Bool) (env : Env) :
    (handle pool stream permitted env).events =
      if pool.hasCB && !permitted then [] else (inner pool stream env).events := by
  unfold handle
  by_cases h : (pool.hasCB && !permitted) = true
  · simp only [h, if_true]
  · simp only [h, if_false]
    exact finish_events _ _ _

/-- **At most `maxAttempts` attempts** (1 without a retry policy or for a stream), and the attempts are
`0, 1, …, m-1` in order. -/
theorem attempts_le_max (pool : Pool) (stream permitted : Bool) (env : Env) :
    ∃ m, m ≤ maxCalls pool stream ∧ callsOf pool stream permitted env = List.range' 0 m := by
  unfold callsOf
  rw [handle_events]
  split_ifs
  · exact ⟨0, Nat.zero_le _, by simp [calls_nil]⟩
  · exact inner_calls pool stream env

/-- **Streamed request bodies are never re-sent**: at most one transport call, whatever the policy. -/
theorem stream_single_attempt (pool : Pool) (permitted : Bool) (env : Env) :
    (callsOf pool true permitted env).length ≤ 1 := by
  obtain ⟨m, hm, hc⟩ := attempts_le_max pool true permitted env
  rw [hc, List.length_range']
  have : maxCalls pool true ≤ 1 := by unfold maxCalls; cases pool.retry <;> simp
  omega

/-- **Stops at the first success / no attempt once the client is gone**: an attempt that is followed
by another one returned an error, and the client's context was not done at its `select`. -/
theorem stops_at_first_success (pool : Pool) (stream permitted : Bool) (env : Env) (i : Nat)
    (h1 : i ∈ callsOf pool stream permitted env) (h2 : i + 1 ∈ callsOf pool stream permitted env) :
    fails pool.failureCodes env i = true ∧ env.done i = false := by
  unfold callsOf at h1 h2
  rw [handle_events] at h1 h2
  split_ifs at h1 h2
  · simp [calls_nil] at h1
  · unfold inner at h1 h2
    cases hr : pool.retry with
    | none => simp [hr, calls_cons_call, calls_nil] at h1 h2
    | some p =>
      cases stream with
      | true => simp [hr, calls_cons_call, calls_nil] at h1 h2
      | false =>
        simp only [hr, Bool.not_false, if_true] at h1 h2
        exact followed_failed _ p env _ 0 _ i h1 h2

/-- the same, in the words of the statement -/
theorem cancel_stops (pool : Pool) (stream permitted : Bool) (env : Env) (j : Nat)
    (hd : env.done j = true) : j + 1 ∉ callsOf pool stream permitted env := by
  intro h2
  obtain ⟨m, _, hc⟩ := attempts_le_max pool stream permitted env
  have h1 : j ∈ callsOf pool stream permitted env := by
    rw [hc] at h2 ⊢
    have := List.mem_range'_1.mp h2
    exact List.mem_range'_1.mpr ⟨by omega, by omega⟩
  have := (stops_at_first_success pool stream permitted env j h1 h2).2
  rw [hd] at this; cases this

/-- … and the policy does retry: a failed attempt, client still there, attempts left ⇒ next attempt. -/
theorem retries_until_max (fc : List Nat) (p : RetryPolicy) (hasCB permitted : Bool) (env : Env) (i : Nat)
    (hperm : (hasCB && !permitted) = false)
    (h1 : i ∈ callsOf ⟨fc, some p, hasCB⟩ false permitted env)
    (hf : fails fc env i = true) (hd : env.done i = false) (hlt : i + 1 < p.maxAttempts.toNat) :
    i + 1 ∈ callsOf ⟨fc, some p, hasCB⟩ false permitted env := by
  unfold callsOf at h1 ⊢
  rw [handle_events] at h1 ⊢
  simp only [hperm, Bool.false_eq_true, if_false, inner, Bool.not_false, if_true] at h1 ⊢
  exact retries fc p env _ 0 _ i h1 hf hd (by omega)

/-- **The client sees the outcome of the last attempt** (result string and status code), for every
outcome sequence; `spCtx.resp` is reset before each attempt. -/
theorem result_is_last_attempt (pool : Pool) (stream permitted : Bool) (env : Env)
    (hperm : (pool.hasCB && !permitted) = false)
    (hmax : ∀ p, pool.retry = some p → 1 ≤ p.maxAttempts) :
    let out := handle pool stream permitted env
    let last := (callsOf pool stream permitted env).length - 1
    (out.result, out.status) = render (doHandle pool.failureCodes (env.attempt last) none) := by
  have hlast := inner_last pool stream env hmax
  simp only
  unfold callsOf
  rw [handle_events]
  simp only [hperm, Bool.false_eq_true, if_false]
  rw [← hlast]
  unfold handle
  simp only [hperm, Bool.false_eq_true, if_false]
  exact finish_render _ _ _

/-- Without the per-attempt reset the client could see a stale response: attempt 0 answers 500 (a
failure code), attempt 1 is a network error; the result is `serverError` with status 503 — with the
reset removed the status would be the stale 500. -/
example :
    let env : Env := ⟨fun k => if k = 0 then .resp 500 else .sendErr .none, fun _ => 0, fun _ => false⟩
    let p : RetryPolicy := ⟨2, 1000000, false, 0, 1⟩
    render ((retryLoopWith (handler [500] env) p env 2 0 (none, none)).err,
            (retryLoopWith (handler [500] env) p env 2 0 (none, none)).resp) = ("serverError", some 503) ∧
    render ((retryLoopWith (handlerNoReset [500] env) p env 2 0 (none, none)).err,
            (retryLoopWith (handlerNoReset [500] env) p env 2 0 (none, none)).resp) = ("serverError", some 500) := by
  decide

/-! ### waiting -/

/-- **Between two consecutive attempts the back-off timer fired**, and its duration `d = num/den`
satisfies `base_k·(1 − f) ≤ d`; with `rand.Intn`'s contract (`r ≤ 2δ`) also `d ≤ base_k·(1 + f)`.
`base_k = wait·1.5^k` for the exponential policy, `wait` otherwise (`base_growth`, `base_fixed`). -/
theorem wait_ge_backoff (fc : List Nat) (p : RetryPolicy) (hasCB permitted : Bool) (env : Env) (i : Nat)
    (hperm : (hasCB && !permitted) = false)
    (h1 : i ∈ callsOf ⟨fc, some p, hasCB⟩ false permitted env)
    (h2 : i + 1 ∈ callsOf ⟨fc, some p, hasCB⟩ false permitted env) :
    ∃ num den, [Event.call i, .sleep i num den, .call (i + 1)] <:+:
        (handle ⟨fc, some p, hasCB⟩ false permitted env).events ∧
      den = baseDen p i * p.fDen ∧
      baseNum p i * (p.fDen - p.fNum) ≤ num ∧
      backoffLower p i ≤ num / den ∧
      (p.fNum ≤ p.fDen → env.jitter i * den ≤ 2 * (baseNum p i * p.fNum) →
        num ≤ baseNum p i * (p.fDen + p.fNum)) := by
  unfold callsOf at h1 h2
  rw [handle_events] at h1 h2 ⊢
  simp only [hperm, Bool.false_eq_true, if_false, inner, Bool.not_false, if_true] at h1 h2 ⊢
  refine ⟨sleepNum p i (env.jitter i), sleepDen p i, sleep_between fc p env _ 0 _ i h1 h2, rfl,
    sleepNum_ge p i _, ?_, fun hf hr => sleepNum_le p i _ hf hr⟩
  unfold backoffLower
  exact Nat.div_le_div_right (by unfold sleepNum; omega)

/-- exponential back-off grows by the factor 3/2 per attempt; the fixed one stays at `wait` -/
theorem backoff_base (p : RetryPolicy) (k : Nat) :
    (p.exponential = true → 2 * (baseNum p (k + 1) * baseDen p k) = 3 * (baseNum p k * baseDen p (k + 1))) ∧
    (p.exponential = false → baseNum p k = p.wait ∧ baseDen p k = 1) ∧
    baseNum p 0 = p.wait ∧ baseDen p 0 = 1 :=
  ⟨base_growth p k, base_fixed p k, by simp [baseNum], by simp [baseDen]⟩

/-- `CreateWrapper`: an absent / unparsable / non-positive wait duration becomes 500 ms. -/
theorem create_wrapper_default (d : Int) :
    (d ≤ 0 → createWrapper d = 500000000) ∧ (0 < d → (createWrapper d : Int) = d) := by
  unfold createWrapper
  constructor
  · intro h; simp [h]
  · intro h
    have : ¬ d ≤ 0 := by omega
    simp only [this, if_false]
    omega

/-- wait 2 ms, exponential, f = 1/2, three failing attempts: sleeps of ≥ 1 ms and ≥ 1.5 ms separate
the three calls (jitter 0), then a third back-off and the last error. -/
example :
    let env : Env := ⟨fun _ => .sendErr .none, fun _ => 0, fun _ => false⟩
    (handle ⟨[], some ⟨3, 2000000, true, 1, 2⟩, false⟩ false true env).events =
      [.call 0, .sleep 0 2000000 2, .call 1, .sleep 1 6000000 4, .call 2, .sleep 2 18000000 8] := by
  decide

/-! ### time limit and classification -/

/-- `doHandle`'s classification of what an attempt meets. -/
theorem classify_spec (fc : List Nat) (st : Nat) (resp : Option Nat) :
    doHandle fc .noServer resp = (some ⟨503, "internalError"⟩, resp) ∧
    doHandle fc .prepareFail resp = (some ⟨500, "internalError"⟩, resp) ∧
    doHandle fc (.sendErr .none) resp = (some ⟨503, "serverError"⟩, resp) ∧
    doHandle fc (.sendErr .deadline) resp = (some ⟨408, "timeout"⟩, resp) ∧
    doHandle fc (.sendErr .canceled) resp = (some ⟨499, "clientError"⟩, resp) ∧
    doHandle fc .buildFail resp = (some ⟨500, "internalError"⟩, resp) ∧
    (st ∈ fc → doHandle fc (.resp st) resp = (some ⟨st, "failureCode"⟩, some st)) ∧
    (st ∉ fc → doHandle fc (.resp st) resp = (none, some st)) := by
  refine ⟨rfl, rfl, rfl, rfl, rfl, rfl, ?_, ?_⟩
  · intro h; simp [doHandle, h]
  · intro h; simp [doHandle, h]

/-- **A backend that does not answer within the pool timeout yields 408 `timeout`** (instead of
hanging): for every request whose last attempt met a hanging backend while the client was present. -/
theorem timeout_is_408 (pool : Pool) (stream permitted : Bool) (env : Env) (timeout : Nat)
    (hperm : (pool.hasCB && !permitted) = false)
    (hmax : ∀ p, pool.retry = some p → 1 ≤ p.maxAttempts) (ht : 0 < timeout)
    (hlast : env.attempt ((callsOf pool stream permitted env).length - 1) = meet timeout false .hang) :
    (handle pool stream permitted env).result = "timeout" ∧
      (handle pool stream permitted env).status = some 408 := by
  have h := result_is_last_attempt pool stream permitted env hperm hmax
  simp only at h
  rw [hlast] at h
  have hm : meet timeout false .hang = .sendErr .deadline := by
    unfold meet; simp [ht]
  rw [hm] at h
  have : render (doHandle pool.failureCodes (.sendErr .deadline) none) = ("timeout", some 408) := rfl
  rw [this] at h
  exact ⟨congrArg Prod.fst h, congrArg Prod.snd h⟩

/-- what an attempt meets: client gone ⇒ 499, otherwise by the backend's behaviour -/
theorem meet_spec (timeout : Nat) (b : Backend) (st : Nat) :
    meet timeout true b = .sendErr .canceled ∧
    meet timeout false (.respond st) = .resp st ∧
    meet timeout false .netErr = .sendErr .none ∧
    meet timeout false .badResp = .buildFail ∧
    (0 < timeout → meet timeout false .hang = .sendErr .deadline) := by
  refine ⟨by simp [meet], by simp [meet], by simp [meet], by simp [meet], fun h => by simp [meet, h]⟩

/-! ### circuit breaker -/

/-- **Exactly one acquire and one record per client request**, however many retries it contained:
permitted ⇒ one `RecordResult`, whose failure flag is "the (wrapped) handler returned an error";
not permitted ⇒ no record, no transport call, 503 `shortCircuited`. Without a breaker: none. -/
theorem cb_one_record (pool : Pool) (stream permitted : Bool) (env : Env) :
    let out := handle pool stream permitted env
    (pool.hasCB = true → out.cbAcquires = 1) ∧
    (pool.hasCB = true → permitted = true → out.cbRecords = [(inner pool stream env).err.isSome]) ∧
    (pool.hasCB = true → permitted = false →
        out.cbRecords = [] ∧ out.events = [] ∧ out.result = "shortCircuited" ∧ out.status = some 503) ∧
    (pool.hasCB = false → out.cbAcquires = 0 ∧ out.cbRecords = []) := by
  simp only
  refine ⟨?_, ?_, ?_, ?_⟩
  · intro h
    unfold handle
    cases permitted with
    | false => simp [h]
    | true =>
      simp only [h, Bool.not_true, Bool.and_false, Bool.false_eq_true, if_false, if_true]
      exact finish_acq _ _ _
  · intro h hp
    unfold handle
    simp only [h, hp, Bool.not_true, Bool.and_false, Bool.false_eq_true, if_false, if_true]
    exact finish_recs _ _ _
  · intro h hp
    unfold handle
    simp [h, hp]
  · intro h
    unfold handle
    simp only [h, Bool.false_and, Bool.false_eq_true, if_false]
    exact ⟨finish_acq _ _ _, finish_recs _ _ _⟩

/-- the recorded flag is "the last attempt failed" -/
theorem cb_record_is_last_attempt (pool : Pool) (stream : Bool) (env : Env)
    (hcb : pool.hasCB = true) (hmax : ∀ p, pool.retry = some p → 1 ≤ p.maxAttempts) :
    (handle pool stream true env).cbRecords =
      [fails pool.failureCodes env ((callsOf pool stream true env).length - 1)] := by
  rw [((cb_one_record pool stream true env).2.1 hcb rfl)]
  have hlast := inner_last pool stream env hmax
  have hev : (handle pool stream true env).events = (inner pool stream env).events := by
    rw [handle_events]; simp
  unfold callsOf fails
  rw [hev, ← hlast]

/-- five failing attempts inside one client request: one acquire, one record (failure) -/
example :
    let env : Env := ⟨fun _ => .sendErr .none, fun _ => 0, fun _ => false⟩
    let out := handle ⟨[], some ⟨5, 1000000, false, 0, 1⟩, true⟩ false true env
    (calls out.events).length = 5 ∧ out.cbAcquires = 1 ∧ out.cbRecords = [true] := by
  decide

/-! ### the judge's executable spec accepts the model's own behaviour -/

theorem spec_accepts_model (pool : Pool) (stream permitted : Bool) (env : Env)
    (hperm : (pool.hasCB && !permitted) = false)
    (hmax : ∀ p, pool.retry = some p → 1 ≤ p.maxAttempts) :
    let out := handle pool stream permitted env
    let m := (callsOf pool stream permitted env).length
    m ≤ maxCalls pool stream ∧
    noCallAfterSuccess pool.failureCodes env.attempt m = true ∧
    lastAttemptSeen pool.failureCodes env.attempt ⟨m, [], out.result, out.status.getD 0⟩ = true ∨
      out.status = none := by
  simp only
  by_cases hs : (handle pool stream permitted env).status = none
  · right; exact hs
  · left
    obtain ⟨m, hm, hc⟩ := attempts_le_max pool stream permitted env
    refine ⟨by rw [hc, List.length_range']; exact hm, ?_, ?_⟩
    · unfold noCallAfterSuccess
      simp only [List.all_eq_true, List.mem_range]
      intro k hk
      have h1 : k ∈ callsOf pool stream permitted env := by
        rw [hc]; rw [hc, List.length_range'] at hk
        exact List.mem_range'_1.mpr ⟨by omega, by omega⟩
      have h2 : k + 1 ∈ callsOf pool stream permitted env := by
        rw [hc]; rw [hc, List.length_range'] at hk
        exact List.mem_range'_1.mpr ⟨by omega, by omega⟩
      exact (stops_at_first_success pool stream permitted env k h1 h2).1
    · have hl := result_is_last_attempt pool stream permitted env hperm hmax
      unfold lastAttemptSeen
      simp only [Bool.or_eq_true, beq_iff_eq]
      right
      rw [← hl]
      obtain ⟨st, hst⟩ := Option.ne_none_iff_exists'.mp hs
      simp [hst]

/-! ### facts re-derived from the source on every run -/

theorem source_facts :
    Gen.FactsC10.extractionFailed = false ∧
    -- RetryPolicy.Wrap: `for attempt := 0; attempt < p.MaxAttempts; …`, handler first, nil ⇒ return,
    -- one handler call per iteration, select between ctx.Done (return err) and the timer
    Gen.FactsC10.retryLoopCond = "attempt < p.MaxAttempts" ∧
    Gen.FactsC10.retryLoopFirstStmt = "err = handler(ctx)" ∧
    Gen.FactsC10.retryReturnsOnNil = true ∧ Gen.FactsC10.retryHandlerCalls = 1 ∧
    Gen.FactsC10.retrySelectCases = ["<-ctx.Done() => return err", "<-time.After(time.Duration(d)) => "] ∧
    Gen.FactsC10.retryGrowth = "base *= 1.5" ∧
    Gen.FactsC10.retryDelta = "base * p.RandomizationFactor" ∧
    Gen.FactsC10.retryDuration = "base - delta + float64(rand.Intn(int(delta*2+1)))" ∧
    Gen.FactsC10.retryDefaultWait = "p.waitDuration = time.Millisecond * 500" ∧
    -- breaker wrapper: one acquire, one handler call, record sites = normal path + panic path
    Gen.FactsC10.cbAcquireCalls = 1 ∧ Gen.FactsC10.cbRecordCalls = 2 ∧ Gen.FactsC10.cbHandlerCalls = 1 ∧
    Gen.FactsC10.cbRecordsErrFlag = true ∧
    -- handle: retry (non-stream only) applied first, breaker outermost; per-attempt reset; timeout ctx
    Gen.FactsC10.handleWraps =
      ["sp.retryWrapper != nil && !spCtx.req.IsStream() => sp.retryWrapper.Wrap(handler)",
       "sp.circuitBreakerWrapper != nil => sp.circuitBreakerWrapper.Wrap(handler)"] ∧
    Gen.FactsC10.handleResets = ["spCtx.stdReq", "spCtx.resp", "spCtx.stdResp"] ∧
    Gen.FactsC10.handleTimeoutContext = true ∧ Gen.FactsC10.handleCalls = 1 ∧
    -- doHandle: the classification table, one transport call
    Gen.FactsC10.doHandleErrors =
      ["serverPoolError{http.StatusServiceUnavailable, resultInternalError}",
       "serverPoolError{http.StatusInternalServerError, resultInternalError}",
       "serverPoolError{http.StatusServiceUnavailable, resultServerError}",
       "serverPoolError{http.StatusRequestTimeout, resultTimeout}",
       "serverPoolError{499, resultClientError}",
       "serverPoolError{http.StatusInternalServerError, resultInternalError}",
       "serverPoolError{resp.StatusCode, resultFailureCode}"] ∧
    Gen.FactsC10.doHandleSends = 1 ∧
    Gen.FactsC10.doHandleCtxTests = ["err == nil", "err == stdcontext.DeadlineExceeded"] ∧
    Gen.FactsC10.resultConsts =
      ["resultInternalError=\"internalError\"", "resultClientError=\"clientError\"",
       "resultServerError=\"serverError\"", "resultFailureCode=\"failureCode\"",
       "resultTimeout=\"timeout\"", "resultShortCircuited=\"shortCircuited\""] := by
  decide

end EgVerif.C10
