import EgVerif.Proofs.Retry
import EgVerif.Proofs.RetryIR
import EgVerif.Proofs.RetryAccept
import EgVerif.Gen.FactsC10
/-!
# C10 — retry and time-limit policies bound attempts and waiting; one breaker record per request

Property theorems about `Model.Retry` (mirror of `RetryPolicy.Wrap`, `circuitBreakerWrapper.Wrap`,
`ServerPool.handle`, `ServerPool.doHandle`). They hold for **every** policy (`maxAttempts`, wait,
randomisation factor, back-off kind), every environment `env` (what each backend call meets, the
`rand.Intn` values, at which `select` the client's context is done), stream or buffered requests.
Helper lemmas: `Proofs/Retry.lean`.

**Partial** in the sense of the brief: durations are exact rationals; the `float64` rounding and
the truncation of `time.Duration(d)` in the implementation are not modelled (the judge allows 2 ns);
when the client's cancellation and the timer expire together Go's `select` may pick either — the
model takes the choice as the oracle `env.done`; real timers / `context` deadlines are trusted.
-/
namespace EgVerif.C10
open EgVerif.Retry

/-- the transport calls of one client request, as attempt indices -/
def callsOf (pool : Pool) (stream permitted : Bool) (env : Env) : List Nat :=
  calls (handle pool stream permitted env).events

theorem inner_calls (pool : Pool) (stream : Bool) (env : Env) :
    ∃ m, m ≤ maxCalls pool stream ∧ calls (inner pool stream env).events = List.range' 0 m := by
  unfold inner maxCalls
  cases hr : pool.retry with
  | none => exact ⟨1, le_refl _, by simp [calls_cons_call, calls_nil, List.range']⟩
  | some p =>
    cases stream with
    | true => exact ⟨1, by simp, by simp [calls_cons_call, calls_nil, List.range']⟩
    | false =>
      obtain ⟨m, hm, _, hc⟩ := calls_range pool.failureCodes p env p.maxAttempts.toNat 0 (none, none)
      exact ⟨m, by simpa using hm, by simpa using hc⟩

theorem handle_events (pool : Pool) (stream permitted : Bool) (env : Env) :
    (handle pool stream permitted env).events =
      if pool.hasCB && !permitted then [] else (inner pool stream env).events := by
  unfold handle
  by_cases h : (pool.hasCB && !permitted) = true
  · simp only [h, if_true]
  · simp only [h, if_false]
    exact finish_events _ _ _

/-- **At most `maxAttempts` attempts** (1 without a retry policy or for a stream), and the attempts are
`0, 1, …, m-1` in order. -/
theorem attempts_le_max (pool : Pool) (stream permitted : Bool) (env : Env) :
    ∃ m, m ≤ maxCalls pool stream ∧ callsOf pool stream permitted env = List.range' 0 m := by
  unfold callsOf
  rw [handle_events]
  split_ifs
  · exact ⟨0, Nat.zero_le _, by simp [calls_nil]⟩
  · exact inner_calls pool stream env

/-- **Streamed request bodies are never re-sent**: at most one transport call, whatever the policy. -/
theorem stream_single_attempt (pool : Pool) (permitted : Bool) (env : Env) :
    (callsOf pool true permitted env).length ≤ 1 := by
  obtain ⟨m, hm, hc⟩ := attempts_le_max pool true permitted env
  rw [hc, List.length_range']
  have : maxCalls pool true ≤ 1 := by unfold maxCalls; cases pool.retry <;> simp
  omega

/-- **Stops at the first success / no attempt once the client is gone**: an attempt that is followed
by another one returned an error, and the client's context was not done at its `select`. -/
theorem stops_at_first_success (pool : Pool) (stream permitted : Bool) (env : Env) (i : Nat)
    (h1 : i ∈ callsOf pool stream permitted env) (h2 : i + 1 ∈ callsOf pool stream permitted env) :
    fails pool.failureCodes env i = true ∧ env.done i = false := by
  unfold callsOf at h1 h2
  rw [handle_events] at h1 h2
  split_ifs at h1 h2
  · simp [calls_nil] at h1
  · unfold inner at h1 h2
    cases hr : pool.retry with
    | none => simp [hr, calls_cons_call, calls_nil] at h1 h2
    | some p =>
      cases stream with
      | true => simp [hr, calls_cons_call, calls_nil] at h1 h2
      | false =>
        simp only [hr, Bool.not_false, if_true] at h1 h2
        exact followed_failed _ p env _ 0 _ i h1 h2

/-- the same, in the words of the statement -/
theorem cancel_stops (pool : Pool) (stream permitted : Bool) (env : Env) (j : Nat)
    (hd : env.done j = true) : j + 1 ∉ callsOf pool stream permitted env := by
  intro h2
  obtain ⟨m, _, hc⟩ := attempts_le_max pool stream permitted env
  have h1 : j ∈ callsOf pool stream permitted env := by
    rw [hc] at h2 ⊢
    have := List.mem_range'_1.mp h2
    exact List.mem_range'_1.mpr ⟨by omega, by omega⟩
  have := (stops_at_first_success pool stream permitted env j h1 h2).2
  rw [hd] at this; cases this

/-- … and the policy does retry: a failed attempt, client still there, attempts left ⇒ next attempt. -/
theorem retries_until_max (fc : List Nat) (p : RetryPolicy) (hasCB permitted : Bool) (env : Env) (i : Nat)
    (hperm : (hasCB && !permitted) = false)
    (h1 : i ∈ callsOf ⟨fc, some p, hasCB⟩ false permitted env)
    (hf : fails fc env i = true) (hd : env.done i = false) (hlt : i + 1 < p.maxAttempts.toNat) :
    i + 1 ∈ callsOf ⟨fc, some p, hasCB⟩ false permitted env := by
  unfold callsOf at h1 ⊢
  rw [handle_events] at h1 ⊢
  simp only [hperm, Bool.false_eq_true, if_false, inner, Bool.not_false, if_true] at h1 ⊢
  exact retries fc p env _ 0 _ i h1 hf hd (by omega)

/-- **The client sees the outcome of the last attempt** (result string and status code), for every
outcome sequence; `spCtx.resp` is reset before each attempt. -/
theorem result_is_last_attempt (pool : Pool) (stream permitted : Bool) (env : Env)
    (hperm : (pool.hasCB && !permitted) = false)
    (hmax : ∀ p, pool.retry = some p → 1 ≤ p.maxAttempts) :
    let out := handle pool stream permitted env
    let last := (callsOf pool stream permitted env).length - 1
    (out.result, out.status) = render (doHandle pool.failureCodes (env.attempt last) none) := by
  have hlast := inner_last pool stream env hmax
  simp only
  unfold callsOf
  rw [handle_events]
  simp only [hperm, Bool.false_eq_true, if_false]
  rw [← hlast]
  unfold handle
  simp only [hperm, Bool.false_eq_true, if_false]
  exact finish_render _ _ _

/-- Without the per-attempt reset the client could see a stale response: attempt 0 answers 500 (a
failure code), attempt 1 is a network error; the result is `serverError` with status 503 — with the
reset removed the status would be the stale 500. -/
example :
    let env : Env := ⟨fun k => if k = 0 then .resp 500 else .sendErr .none, fun _ => 0, fun _ => false⟩
    let p : RetryPolicy := ⟨2, 1000000, false, 0, 1⟩
    render ((retryLoopWith (handler [500] env) p env 2 0 (none, none)).err,
            (retryLoopWith (handler [500] env) p env 2 0 (none, none)).resp) = ("serverError", some 503) ∧
    render ((retryLoopWith (handlerNoReset [500] env) p env 2 0 (none, none)).err,
            (retryLoopWith (handlerNoReset [500] env) p env 2 0 (none, none)).resp) = ("serverError", some 500) := by
  decide

/-! ### waiting -/

/-- **Between two consecutive attempts the back-off timer fired**, and its duration `d = num/den`
satisfies `base_k·(1 − f) ≤ d`; with `rand.Intn`'s contract (`r ≤ 2δ`) also `d ≤ base_k·(1 + f)`.
`base_k = wait·1.5^k` for the exponential policy, `wait` otherwise (`base_growth`, `base_fixed`). -/
theorem wait_ge_backoff (fc : List Nat) (p : RetryPolicy) (hasCB permitted : Bool) (env : Env) (i : Nat)
    (hperm : (hasCB && !permitted) = false)
    (h1 : i ∈ callsOf ⟨fc, some p, hasCB⟩ false permitted env)
    (h2 : i + 1 ∈ callsOf ⟨fc, some p, hasCB⟩ false permitted env) :
    ∃ num den, [Event.call i, .sleep i num den, .call (i + 1)] <:+:
        (handle ⟨fc, some p, hasCB⟩ false permitted env).events ∧
      den = baseDen p i * p.fDen ∧
      baseNum p i * (p.fDen - p.fNum) ≤ num ∧
      backoffLower p i ≤ num / den ∧
      (p.fNum ≤ p.fDen → env.jitter i * den ≤ 2 * (baseNum p i * p.fNum) →
        num ≤ baseNum p i * (p.fDen + p.fNum)) := by
  unfold callsOf at h1 h2
  rw [handle_events] at h1 h2 ⊢
  simp only [hperm, Bool.false_eq_true, if_false, inner, Bool.not_false, if_true] at h1 h2 ⊢
  refine ⟨sleepNum p i (env.jitter i), sleepDen p i, sleep_between fc p env _ 0 _ i h1 h2, rfl,
    sleepNum_ge p i _, ?_, fun hf hr => sleepNum_le p i _ hf hr⟩
  unfold backoffLower
  exact Nat.div_le_div_right (by unfold sleepNum; omega)

/-- exponential back-off grows by the factor 3/2 per attempt; the fixed one stays at `wait` -/
theorem backoff_base (p : RetryPolicy) (k : Nat) :
    (p.exponential = true → 2 * (baseNum p (k + 1) * baseDen p k) = 3 * (baseNum p k * baseDen p (k + 1))) ∧
    (p.exponential = false → baseNum p k = p.wait ∧ baseDen p k = 1) ∧
    baseNum p 0 = p.wait ∧ baseDen p 0 = 1 :=
  ⟨base_growth p k, base_fixed p k, by simp [baseNum], by simp [baseDen]⟩

/-- `CreateWrapper`: an absent / unparsable / non-positive wait duration becomes 500 ms. -/
theorem create_wrapper_default (d : Int) :
    (d ≤ 0 → createWrapper d = 500000000) ∧ (0 < d → (createWrapper d : Int) = d) := by
  unfold createWrapper
  constructor
  · intro h; simp [h]
  · intro h
    have : ¬ d ≤ 0 := by omega
    simp only [this, if_false]
    omega

/-- wait 2 ms, exponential, f = 1/2, three failing attempts: sleeps of ≥ 1 ms and ≥ 1.5 ms separate
the three calls (jitter 0), then a third back-off and the last error. -/
example :
    let env : Env := ⟨fun _ => .sendErr .none, fun _ => 0, fun _ => false⟩
    (handle ⟨[], some ⟨3, 2000000, true, 1, 2⟩, false⟩ false true env).events =
      [.call 0, .sleep 0 2000000 2, .call 1, .sleep 1 6000000 4, .call 2, .sleep 2 18000000 8] := by
  decide

/-! ### time limit and classification -/

/-- `doHandle`'s classification of what an attempt meets. -/
theorem classify_spec (fc : List Nat) (st : Nat) (resp : Option Nat) :
    doHandle fc .noServer resp = (some ⟨503, "internalError"⟩, resp) ∧
    doHandle fc .prepareFail resp = (some ⟨500, "internalError"⟩, resp) ∧
    doHandle fc (.sendErr .none) resp = (some ⟨503, "serverError"⟩, resp) ∧
    doHandle fc (.sendErr .deadline) resp = (some ⟨408, "timeout"⟩, resp) ∧
    doHandle fc (.sendErr .canceled) resp = (some ⟨499, "clientError"⟩, resp) ∧
    doHandle fc .buildFail resp = (some ⟨500, "internalError"⟩, resp) ∧
    (st ∈ fc → doHandle fc (.resp st) resp = (some ⟨st, "failureCode"⟩, some st)) ∧
    (st ∉ fc → doHandle fc (.resp st) resp = (none, some st)) := by
  refine ⟨rfl, rfl, rfl, rfl, rfl, rfl, ?_, ?_⟩
  · intro h; simp [doHandle, h]
  · intro h; simp [doHandle, h]

/-- **A backend that does not answer within the pool timeout yields 408 `timeout`** (instead of
hanging): for every request whose last attempt met a hanging backend while the client was present. -/
theorem timeout_is_408 (pool : Pool) (stream permitted : Bool) (env : Env) (timeout : Nat)
    (hperm : (pool.hasCB && !permitted) = false)
    (hmax : ∀ p, pool.retry = some p → 1 ≤ p.maxAttempts) (ht : 0 < timeout)
    (hlast : env.attempt ((callsOf pool stream permitted env).length - 1) = meet timeout false .hang) :
    (handle pool stream permitted env).result = "timeout" ∧
      (handle pool stream permitted env).status = some 408 := by
  have h := result_is_last_attempt pool stream permitted env hperm hmax
  simp only at h
  rw [hlast] at h
  have hm : meet timeout false .hang = .sendErr .deadline := by
    unfold meet; simp [ht]
  rw [hm] at h
  have : render (doHandle pool.failureCodes (.sendErr .deadline) none) = ("timeout", some 408) := rfl
  rw [this] at h
  exact ⟨congrArg Prod.fst h, congrArg Prod.snd h⟩

/-- what an attempt meets: client gone ⇒ 499, otherwise by the backend's behaviour -/
theorem meet_spec (timeout : Nat) (b : Backend) (st : Nat) :
    meet timeout true b = .sendErr .canceled ∧
    meet timeout false (.respond st) = .resp st ∧
    meet timeout false .netErr = .sendErr .none ∧
    meet timeout false .badResp = .buildFail ∧
    (0 < timeout → meet timeout false .hang = .sendErr .deadline) := by
  refine ⟨by simp [meet], by simp [meet], by simp [meet], by simp [meet], fun h => by simp [meet, h]⟩

/-! ### the payload of retried attempts -/

/-- **Every attempt sends the client's full payload.** A buffered payload is re-read from the start for
each attempt; a stream can be read only once — and a stream request makes at most one attempt
(`stream_single_attempt`), so no attempt ever carries a drained (empty / truncated) body. This is why
"streamed request bodies are never re-sent" matters. -/
theorem attempt_sends_full_payload (pool : Pool) (pl : Payload) (permitted : Bool) (env : Env) :
    ∀ b ∈ sentBodies pl (callsOf pool pl.isStream permitted env).length, b = pl.bytes := by
  intro b hb
  unfold sentBodies at hb
  obtain ⟨k, hk, rfl⟩ := List.mem_map.mp hb
  have hk' := List.mem_range.mp hk
  cases pl with
  | buffered s => rfl
  | stream s =>
    have h1 := stream_single_attempt pool permitted env
    simp only [Payload.isStream] at hk'
    have : k = 0 := by omega
    subst this
    simp [Payload.sent, Payload.bytes]

/-- the judge's `payloadOK` accepts the model -/
theorem payloadOK_model (pool : Pool) (pl : Payload) (permitted : Bool) (env : Env) :
    payloadOK pl.bytes (sentBodies pl (callsOf pool pl.isStream permitted env).length) = true := by
  unfold payloadOK
  simp only [List.all_eq_true, beq_iff_eq]
  exact attempt_sends_full_payload pool pl permitted env

/-- were a stream retried, the second attempt would carry nothing: the clause is not vacuous -/
example : sentBodies (.stream "payload") 2 = ["payload", ""] ∧
    sentBodies (.buffered "payload") 3 = ["payload", "payload", "payload"] := by decide

/-! ### circuit breaker -/

/-- **Exactly one acquire and one record per client request**, however many retries it contained:
permitted ⇒ one `RecordResult`, whose failure flag is "the (wrapped) handler returned an error";
not permitted ⇒ no record, no transport call, 503 `shortCircuited`. Without a breaker: none. -/
theorem cb_one_record (pool : Pool) (stream permitted : Bool) (env : Env) :
    let out := handle pool stream permitted env
    (pool.hasCB = true → out.cbAcquires = 1) ∧
    (pool.hasCB = true → permitted = true → out.cbRecords = [(inner pool stream env).err.isSome]) ∧
    (pool.hasCB = true → permitted = false →
        out.cbRecords = [] ∧ out.events = [] ∧ out.result = "shortCircuited" ∧ out.status = some 503) ∧
    (pool.hasCB = false → out.cbAcquires = 0 ∧ out.cbRecords = []) := by
  simp only
  refine ⟨?_, ?_, ?_, ?_⟩
  · intro h
    unfold handle
    cases permitted with
    | false => simp [h]
    | true =>
      simp only [h, Bool.not_true, Bool.and_false, Bool.false_eq_true, if_false, if_true]
      exact finish_acq _ _ _
  · intro h hp
    unfold handle
    simp only [h, hp, Bool.not_true, Bool.and_false, Bool.false_eq_true, if_false, if_true]
    exact finish_recs _ _ _
  · intro h hp
    unfold handle
    simp [h, hp]
  · intro h
    unfold handle
    simp only [h, Bool.false_and, Bool.false_eq_true, if_false]
    exact ⟨finish_acq _ _ _, finish_recs _ _ _⟩

/-- the recorded flag is "the last attempt failed" -/
theorem cb_record_is_last_attempt (pool : Pool) (stream : Bool) (env : Env)
    (hcb : pool.hasCB = true) (hmax : ∀ p, pool.retry = some p → 1 ≤ p.maxAttempts) :
    (handle pool stream true env).cbRecords =
      [fails pool.failureCodes env ((callsOf pool stream true env).length - 1)] := by
  rw [((cb_one_record pool stream true env).2.1 hcb rfl)]
  have hlast := inner_last pool stream env hmax
  have hev : (handle pool stream true env).events = (inner pool stream env).events := by
    rw [handle_events]; simp
  unfold callsOf fails
  rw [hev, ← hlast]

/-- five failing attempts inside one client request: one acquire, one record (failure) -/
example :
    let env : Env := ⟨fun _ => .sendErr .none, fun _ => 0, fun _ => false⟩
    let out := handle ⟨[], some ⟨5, 1000000, false, 0, 1⟩, true⟩ false true env
    (calls out.events).length = 5 ∧ out.cbAcquires = 1 ∧ out.cbRecords = [true] := by
  decide

/-! ### audit round: the breaker clause on the real wrapper; the two back-off bounds are one; more of the judge's spec -/

/-- **One outcome per client request, on the composed handler** — no longer true by construction: the
breaker layer of `runHF … (.cb inner)` (what `handleIR` runs, for `inner = retry p base` or `base`) *is*
C08's `circuitBreakerWrapper.Wrap` model `CircuitBreaker.wrap` (tied to the regenerated `wrapIR` by C08's
`wrap_regenerated_from_source`): one acquire; refused ⇒ no record, the inner handler (all its retries) does
not run; admitted ⇒ the whole retry loop runs once inside and exactly one flag is recorded. -/
theorem cb_one_record_is_breaker_wrap (fc : List Nat) (env : Env) (permitted : Bool) (p : RetryPolicy) :
    let inner := HF.retry p HF.base
    let I := runHF fc env permitted inner
    let R := runHF fc env permitted (.cb inner)
    let W := cbView (CircuitBreaker.wrap permitted (outcomeOf I.err)).1
    R.acq = W.1 ∧ R.recs = W.2.1 ∧ W.1 = 1 ∧ W.2.1.length = (if permitted then 1 else 0) ∧
    (calls R.events).length = (if permitted then (calls I.events).length else 0) := by
  have h := runHF_cb_is_wrap fc env permitted (HF.retry p HF.base)
  simp only at h ⊢
  obtain ⟨h1, h2, h3, _, _⟩ := h
  have hI : (runHF fc env permitted (HF.retry p HF.base)).acq = 0 ∧
      (runHF fc env permitted (HF.retry p HF.base)).recs = [] := by simp [runHF]
  cases permitted with
  | false => simp [runHF, cbView, CircuitBreaker.wrap, calls_nil]
  | true =>
    rw [h1, h2, hI.1, hI.2, h3]
    generalize (runHF fc env true (HF.retry p HF.base)) = I
    cases hb : I.err.isSome <;> simp [cbView, CircuitBreaker.wrap, outcomeOf, hb]

/-- … and `handle`'s own counters are those of that composed handler (`handle_regenerated_from_source`) -/
theorem handle_counts_are_runHF (pool : Pool) (permitted : Bool) (env : Env) (p : RetryPolicy)
    (hr : pool.retry = some p) (hcb : pool.hasCB = true) :
    (handle pool false permitted env).cbAcquires =
        (runHF pool.failureCodes env permitted (.cb (.retry p .base))).acq ∧
    (handle pool false permitted env).cbRecords =
        (runHF pool.failureCodes env permitted (.cb (.retry p .base))).recs := by
  obtain ⟨fc, retry, hasCB⟩ := pool
  simp only at hr hcb
  subst hr hcb
  cases permitted <;> simp [handle, inner, runHF, finish_acq, finish_recs]

/-- **One back-off, two notations**: the judge's integer lower bound `backoffLower` (model of the
property theorems, fractions of naturals) is the floor of the exact rational bound `base_k·(1−f)` of
`backoff_exact` (the regenerated `wrapIR` at the rational instance) — for a well-formed factor
(`0 < fDen`, `fNum ≤ fDen`; the judge maps `fDen = 0` to `0/1`). -/
theorem backoffLower_is_floor_of_exact (p : RetryPolicy) (k : Nat) (hd : 0 < p.fDen) (hf : p.fNum ≤ p.fDen) :
    (backoffLower p k : Int) = (baseQ p k * (1 - (p.fNum : Rat) / (p.fDen : Rat))).floor :=
  backoffLower_eq_floor p k hd hf

/-- `fDen = 0` is outside the theorems' reading of `f` (then `sleepDen = 0` and `backoffLower = 0`): the
guard is explicit here -/
example : backoffLower ⟨3, 1000, false, 1, 0⟩ 0 = 0 ∧ backoffLower ⟨3, 1000, false, 1, 2⟩ 0 = 500 := by decide

/-- the judge's `cancelOK` accepts the model: if `ctx.Done()` wins the `select` after attempt `j`, at most
`j + 1` calls are made -/
theorem cancelOK_accepts_model (pool : Pool) (stream permitted : Bool) (env : Env) (j : Nat)
    (hd : env.done j = true) :
    cancelOK (some j) (callsOf pool stream permitted env).length = true := by
  obtain ⟨m, _, hc⟩ := attempts_le_max pool stream permitted env
  have hn := cancel_stops pool stream permitted env j hd
  rw [hc] at hn ⊢
  simp only [cancelOK, List.length_range', decide_eq_true_eq]
  by_contra hlt
  exact hn (List.mem_range'_1.mpr ⟨by omega, by omega⟩)

/-! ### round 7: the judge's `gapsOK` and spec breaker `CB` accept the model (audit item 16, open part) -/

/-- **the judge's `gapsOK` accepts the model**: if every observed gap between two consecutive transport calls is
at least the whole-ns duration of the model's back-off timer at that position (Go timers do not fire early —
trusted), `gapsOK` holds — for every pool, stream or buffered, every environment (jitter, cancellation), and
however many of the model's back-offs were observed. The model has a back-off between any two calls
(`sleepDurs_length`), so the hypothesis is about every observed gap. -/
theorem gapsOK_accepts_model (pool : Pool) (stream permitted : Bool) (env : Env) (o : ReqObs)
    (hlen : o.gaps.length ≤ (sleepDurs (handle pool stream permitted env).events).length)
    (hge : ∀ k d, (sleepDurs (handle pool stream permitted env).events)[k]? = some d →
      k < o.gaps.length → d ≤ o.gaps[k]!) :
    gapsOK pool o = true ∧
    (callsOf pool stream permitted env).length ≤ (sleepDurs (handle pool stream permitted env).events).length + 1 := by
  have hev := handle_events pool stream permitted env
  by_cases hperm : (pool.hasCB && !permitted) = true
  · rw [hev] at hlen
    simp only [hperm, if_true, sleepDurs_nil, List.length_nil, Nat.le_zero, List.length_eq_zero_iff] at hlen
    refine ⟨?_, by unfold callsOf; rw [hev]; simp [hperm, calls_nil]⟩
    unfold gapsOK; split <;> simp [hlen]
  · have hperm' : (pool.hasCB && !permitted) = false := by simpa using hperm
    unfold callsOf
    rw [hev] at hlen hge ⊢
    simp only [hperm', Bool.false_eq_true, if_false] at hlen hge ⊢
    unfold gapsOK
    cases hr : pool.retry with
    | none =>
      refine ⟨rfl, ?_⟩
      simp [inner, hr, calls_cons_call, calls_nil]
    | some p =>
      cases stream with
      | true =>
        refine ⟨?_, by simp [inner, hr, calls_cons_call, calls_nil]⟩
        simp only [inner, hr, Bool.not_true, Bool.false_eq_true, if_false, sleepDurs_cons_call, sleepDurs_nil,
          List.length_nil, Nat.le_zero, List.length_eq_zero_iff] at hlen
        simp [hlen]
      | false =>
        simp only [inner, hr, Bool.not_false, if_true] at hlen hge ⊢
        refine ⟨?_, sleepDurs_length pool.failureCodes p env _ 0 _⟩
        simp only [List.all_eq_true, List.mem_range, decide_eq_true_eq]
        intro k hk
        have hk' : k < (sleepDurs (retryLoop pool.failureCodes p env p.maxAttempts.toNat 0 (none, none)).events).length :=
          by omega
        have hget := List.getElem?_eq_getElem hk'
        have h1 := sleepDurs_ge pool.failureCodes p env _ 0 _ k _ hget
        have h2 := hge k _ hget hk
        rw [Nat.zero_add] at h1
        omega

/-- `gapsOK` is not vacuous: a 1 ms fixed back-off with `f = 1/2` demands ≥ 500 µs (−2 ns) between the calls -/
example : gapsOK ⟨[], some ⟨3, 1000000, false, 1, 2⟩, false⟩ ⟨2, [499997], "", 200⟩ = false ∧
    gapsOK ⟨[], some ⟨3, 1000000, false, 1, 2⟩, false⟩ ⟨2, [499998], "", 200⟩ = true := by decide

/-- **the judge's breaker bookkeeping accepts the model** (one step of the judge's fold, clause `s8`): with the
permission the spec breaker grants (`!cb.isOpen`), the model's `handle` is short-circuited exactly when the spec
breaker is open, and recording the *client-visible* outcome (`result ≠ ""`, what the judge's spec does) is the same
as recording the flag the model passes to `RecordResult` (what the judge's model does). -/
theorem cb_spec_accepts_model (pool : Pool) (stream : Bool) (env : Env) (cb : CB)
    (hcb : pool.hasCB = true) (hmax : ∀ p, pool.retry = some p → 1 ≤ p.maxAttempts) :
    let out := handle pool stream (!cb.isOpen) env
    let shortObs := out.result == "shortCircuited"
    let cbM := match out.cbRecords with | f :: _ => cb.record f | [] => cb
    let cbS := if pool.hasCB && !shortObs then cb.record (out.result != "") else cb
    cbS = cbM ∧ shortObs = cb.isOpen := by
  cases ho : cb.isOpen with
  | true => simp [handle, hcb]
  | false =>
    have hl := inner_last pool stream env hmax
    simp only [handle, hcb, Bool.not_false, Bool.not_true, Bool.and_false, Bool.false_eq_true, if_false, if_true,
      Bool.true_and]
    cases he : (inner pool stream env).err with
    | none => simp [finish, he]
    | some e =>
      have hne := doHandle_result_ne pool.failureCodes _ none e
        (by rw [← he]; exact (congrArg Prod.fst hl).symm)
      have hb : (e.result != "") = true := by simp [bne_iff_ne, hne.1]
      simp [finish, he, hb, hne.2]

/-- **the judge's spec breaker is C08's circuit breaker** under the policy the harness injects (count based window
of `N`, permitted-in-half-open 1, slow-call threshold 100 %, slow-call and open durations `W` = 1 h): for every
sequence of client requests shorter than the window whose acquires happen less than `W` after the breaker was
created and whose calls are not slow, C08's model (`acquire` + `record` per request, tied to the Go breaker by
C08's ties) is in the state the spec breaker predicts, and the next `AcquirePermission` answers `!isOpen`. -/
theorem spec_breaker_is_c08_breaker (mc th N : Nat) (W t0 : Int) (rs : List (Bool × Int × Int × Int))
    (hN : rs.length < N) (hr : ∀ r ∈ rs, r.2.1 < t0 + W ∧ r.2.2.1 < W ∧ t0 ≤ r.2.2.2)
    (now : Int) (hnow : now < t0 + W) :
    let s := rs.foldl (fun s r => s.record r.1) ({ minCalls := mc, threshold := th } : CB)
    let c := rs.foldl (c08Step (harnessPolicy mc th N W)) (CircuitBreaker.new (harnessPolicy mc th N W) t0)
    c.st.toNat = s.state ∧
    (CircuitBreaker.acquire (harnessPolicy mc th N W) c now).2.permitted = !s.isOpen := by
  have h := cbrel_run (W := W) rs _ _ (cbrel_new mc th N W t0) rfl rfl (by simpa using hN) hr
  exact ⟨cbrel_state h, by rw [cbrel_acquire h hnow]⟩

/-- two failures out of two calls at `minCalls = 2`, threshold 50 %: both breakers open, the third request is refused -/
example :
    let P := harnessPolicy 2 50 100 3600000000000
    let rs : List (Bool × Int × Int × Int) := [(true, 0, 5, 5), (true, 10, 5, 15), (false, 20, 5, 25)]
    (rs.foldl (c08Step P) (CircuitBreaker.new P 0)).st = .open ∧
    (rs.foldl (fun s r => s.record r.1) ({ minCalls := 2, threshold := 50 } : CB)).state = 3 := by decide

/-! ### the judge's executable spec accepts the model's own behaviour -/

theorem spec_accepts_model (pool : Pool) (stream permitted : Bool) (env : Env)
    (hperm : (pool.hasCB && !permitted) = false)
    (hmax : ∀ p, pool.retry = some p → 1 ≤ p.maxAttempts) :
    let out := handle pool stream permitted env
    let m := (callsOf pool stream permitted env).length
    m ≤ maxCalls pool stream ∧
    noCallAfterSuccess pool.failureCodes env.attempt m = true ∧
    lastAttemptSeen pool.failureCodes env.attempt ⟨m, [], out.result, out.status.getD 0⟩ = true ∨
      out.status = none := by
  simp only
  by_cases hs : (handle pool stream permitted env).status = none
  · right; exact hs
  · left
    obtain ⟨m, hm, hc⟩ := attempts_le_max pool stream permitted env
    refine ⟨by rw [hc, List.length_range']; exact hm, ?_, ?_⟩
    · unfold noCallAfterSuccess
      simp only [List.all_eq_true, List.mem_range]
      intro k hk
      have h1 : k ∈ callsOf pool stream permitted env := by
        rw [hc]; rw [hc, List.length_range'] at hk
        exact List.mem_range'_1.mpr ⟨by omega, by omega⟩
      have h2 : k + 1 ∈ callsOf pool stream permitted env := by
        rw [hc]; rw [hc, List.length_range'] at hk
        exact List.mem_range'_1.mpr ⟨by omega, by omega⟩
      exact (stops_at_first_success pool stream permitted env k h1 h2).1
    · have hl := result_is_last_attempt pool stream permitted env hperm hmax
      unfold lastAttemptSeen
      simp only [Bool.or_eq_true, beq_iff_eq]
      right
      rw [← hl]
      obtain ⟨st, hst⟩ := Option.ne_none_iff_exists'.mp hs
      simp [hst]

/-! ### tie by translation (Extension resil): definitions regenerated from the Go source on every run

`Gen.FactsC10IR.*IR` are produced by the go/ast → Lean micro-translator (`harness/factextract/irlib.go`,
`facts_c10_ir.go`) from the *bodies* of the Go functions; the theorems below (proofs: `Proofs/RetryIR.lean`,
same names) show them equal to the hand-written model for all inputs. A changed comparison, a dropped
`return`, a swapped `select` body, another wrapper order … changes the generated definition and breaks
the corresponding theorem. -/

/-- `RetryPolicy.Wrap`'s closure = the generic mirror `wrapG`, for **every** float algebra (so for
`float64`), policy, handler behaviour, jitter and cancellation oracle. -/
theorem wrap_regenerated_from_source :
    Gen.FactsC10IR.extractionFailed = false ∧
    ∀ {F : Type} (A : FloatOps F) (p : RetryPolicy) (f : F)
      (h : Nat → Option Nat → Option SPErr × Option Nat) (env : EnvG) (resp0 : Option Nat),
      Gen.FactsC10IR.wrapIR A p f h env resp0 = wrapG A p f h env resp0 :=
  ⟨by decide, fun A p f h env resp0 => Retry.wrap_regenerated_from_source A p f h env resp0⟩

theorem createWrapper_regenerated_from_source :
    Gen.FactsC10IRc.extractionFailed = false ∧
    ∀ (wd0 : Int) (ws : String) (parse : String → Int × Bool),
      Gen.FactsC10IRc.createWrapperIR wd0 ws parse = createWrapperG wd0 ws parse ∧
      (createWrapperG wd0 ws parse : Int) =
        (createWrapper (if ws != "" then (parse ws).1 else wd0) : Nat) :=
  ⟨by decide, fun wd0 ws parse => ⟨Retry.createWrapper_regenerated_from_source wd0 ws parse, rfl⟩⟩

/-- **Wrappers created from one policy object are independent**: `CreateWrapper` (regenerated: a function of
the policy's own fields that writes only `waitDuration`) is idempotent, so after `k ≥ 1` calls on the same
object — `InjectResiliencePolicy` makes one per server pool that names the policy — `waitDuration` is what one
call gives; the closure returned by `Wrap` reads only the policy's fields, hence every wrapped call behaves
as if its wrapper were the only one: in particular it makes at most `maxAttempts` attempts however many
wrappers exist. (A `CreateWrapper` that accumulates state in the shared policy breaks
`createWrapper_regenerated_from_source`.) -/
theorem wrappers_independent {F : Type} (A : FloatOps F) (p : RetryPolicy) (f : F)
    (h : Nat → Option Nat → Option SPErr × Option Nat) (env : EnvG) (resp0 : Option Nat)
    (wd0 : Int) (ws : String) (parse : String → Int × Bool) (k : Nat) :
    createWrapperTimes ws parse (k + 1) wd0 = Gen.FactsC10IRc.createWrapperIR wd0 ws parse ∧
    Gen.FactsC10IR.wrapIR A { p with wait := (createWrapperTimes ws parse (k + 1) wd0).toNat } f h env resp0 =
      Gen.FactsC10IR.wrapIR A { p with wait := (createWrapperTimes ws parse 1 wd0).toNat } f h env resp0 := by
  rw [createWrapperTimes_succ, createWrapperTimes_succ, Retry.createWrapper_regenerated_from_source]
  exact ⟨rfl, rfl⟩

/-- three pools share a policy with `waitDuration: ""`: 500 ms after the first, the second and the third call -/
example : createWrapperTimes "" (fun _ => (0, true)) 3 0 = 500000000 ∧
    createWrapperTimes "" (fun _ => (0, true)) 1 0 = 500000000 := by decide

/-- `ServerPool.doHandle` = the model's classification (no server ⇒ 503 internalError … deadline ⇒ 408
timeout, client gone ⇒ 499, failure code keeps the response). -/
theorem doHandle_regenerated_from_source :
    Gen.FactsC10IRp.extractionFailed = false ∧
    ∀ (fc : List Nat) (o : DoEnv) (resp0 : Option Nat),
      Gen.FactsC10IRp.doHandleIR fc o resp0 = doHandle fc o.attempt resp0 :=
  ⟨by decide, Retry.doHandle_regenerated_from_source⟩

/-- `ServerPool.handle` (mirror = false, cache miss) = the model's `handle`: retry wrapper first and only
for non-stream requests, circuit breaker outermost, the result / status mapping of the three outcomes. -/
theorem handle_regenerated_from_source :
    Gen.FactsC10IRp.extractionFailed = false ∧
    ∀ (pool : Pool) (stream permitted : Bool) (env : Env),
      Gen.FactsC10IRp.handleIR pool stream permitted env = handle pool stream permitted env :=
  ⟨by decide, Retry.handle_regenerated_from_source⟩

/-- the handler closure inside `handle`: the pool timeout is applied to the context of every single
call (so inside the retry loop), and `spCtx.resp` / `stdReq` / `stdResp` are reset before `doHandle` — which
is why the model's `handler` passes `none` to `doHandle` and `meet` sees the deadline per attempt. -/
theorem handler_regenerated_from_source :
    Gen.FactsC10IRp.extractionFailed = false ∧
    ∀ (timeout : Int) (resp0 : Option Nat),
      Gen.FactsC10IRp.handlerIR timeout resp0 = (decide (timeout > 0), none, true) :=
  ⟨by decide, Retry.handler_regenerated_from_source⟩

/-- the wrapper composition for a pool with both policies: breaker around retry around the closure;
a stream request skips the retry wrapper -/
example :
    let pool : Pool := ⟨[], some ⟨3, 1000, false, 0, 1⟩, true⟩
    let env : Env := ⟨fun _ => .sendErr .none, fun _ => 0, fun _ => false⟩
    (calls (Gen.FactsC10IRp.handleIR pool false true env).events).length = 3 ∧
    (calls (Gen.FactsC10IRp.handleIR pool true true env).events).length = 1 ∧
    (Gen.FactsC10IRp.handleIR pool false true env).cbRecords = [true] ∧
    (Gen.FactsC10IRp.handleIR pool false false env).result = "shortCircuited" := by
  decide

/-- **The regenerated closure refines the model the theorems above are about**: with any float algebra
it makes the same handler calls, sleeps and stop, in the same order, and returns the same error and
response as `retryLoopWith` (what `inner` / `handle` run). Hence `attempts_le_max`,
`stops_at_first_success`, `cancel_stops`, `retries_until_max`, `result_is_last_attempt` hold of the
regenerated definition, not only of the hand-written one. -/
theorem wrap_ir_refines_model {F : Type} (A : FloatOps F) (p : RetryPolicy) (f : F)
    (h : Nat → Option Nat → Option SPErr × Option Nat) (env : EnvG) (envM : Env)
    (hd : ∀ k, envM.done k = env.done k) (resp0 : Option Nat) :
    let R := Gen.FactsC10IR.wrapIR A p f h env resp0
    let M := retryLoopWith h p envM p.maxAttempts.toNat 0 (none, resp0)
    R.events.map EventG.skel = M.events.map Event.skel ∧ R.err = M.err ∧ R.resp = M.resp :=
  wrapIR_refines_model A p f h env envM hd resp0

/-- … e.g. attempt counting, directly for the regenerated closure wrapped around the pool's handler -/
theorem wrap_ir_attempts_le_max {F : Type} (A : FloatOps F) (p : RetryPolicy) (f : F) (fc : List Nat)
    (env : EnvG) (envM : Env) (hd : ∀ k, envM.done k = env.done k) :
    ∃ m, m ≤ p.maxAttempts.toNat ∧
      callsS ((Gen.FactsC10IR.wrapIR A p f (handler fc envM) env none).events.map EventG.skel) =
        List.range' 0 m := by
  obtain ⟨h1, _, _⟩ := wrapIR_refines_model A p f (handler fc envM) env envM hd none
  obtain ⟨m, hm, _, hc⟩ := calls_range fc p envM p.maxAttempts.toNat 0 (none, none)
  refine ⟨m, hm, ?_⟩
  rw [h1, ← calls_eq_callsS]
  exact hc

/-- a toy float algebra (integers, `1.5 ↦ 1`) — the logic theorems do not care -/
def intOps : FloatOps Int := ⟨id, (· + ·), (· - ·), (· * ·), id, fun m e => m / 10 ^ e⟩

/-- three attempts: 500 (failure code), network error, 200: two sleeps, then success -/
example :
    let h : Nat → Option Nat → Option SPErr × Option Nat :=
      handler [500] ⟨fun k => if k = 0 then .resp 500 else if k = 1 then .sendErr .none else .resp 200,
        fun _ => 0, fun _ => false⟩
    (Gen.FactsC10IR.wrapIR intOps ⟨5, 1000, true, 0, 1⟩ 0 h ⟨fun _ _ => 0, fun _ => false⟩ none) =
      ⟨[.call 0, .sleep 0 1000, .call 1, .sleep 1 1000, .call 2], none, some 200⟩ := by
  decide

/-- cancellation at the second `select` -/
example :
    let h : Nat → Option Nat → Option SPErr × Option Nat :=
      handler [] ⟨fun _ => .sendErr .none, fun _ => 0, fun _ => false⟩
    (Gen.FactsC10IR.wrapIR intOps ⟨5, 1000, false, 0, 1⟩ 0 h ⟨fun _ _ => 0, fun k => k == 1⟩ none).events =
      [.call 0, .sleep 0 1000, .call 1, .stop 1] := by
  decide

/-! ### waiting: exact durations and the exact bound on total waiting

For the **exact rational instance** `ratOps` of the float algebra (rounding of `float64` is not modelled).
The statement says "waits at least the configured back-off between attempts"; the code waits a back-off
after *every* failed attempt, the last one included (DESIGN §10.3), so the total waiting of one wrapped
call is bounded by the sum over all `maxAttempts` back-offs — not `maxAttempts − 1`. -/

/-- **Exact back-off**: the `j`-th sleep lasts `⌊d_j⌋` ns, `d_j = base_j − base_j·f + r_j`,
`base_j = wait·1.5^j` (exponential) or `wait`; and `base_j(1−f) ≤ d_j ≤ base_j(1+f)` under `rand.Intn`'s
contract `0 ≤ r < n`. -/
theorem backoff_exact (p : RetryPolicy) (f : Rat) (h : Nat → Option Nat → Option SPErr × Option Nat)
    (env : EnvG) (resp0 : Option Nat) (j : Nat) (dur : Int)
    (hm : EventG.sleep j dur ∈ (Gen.FactsC10IR.wrapIR ratOps p f h env resp0).events) :
    j < p.maxAttempts.toNat ∧ dur = truncQ (durQ p f env j) ∧
    (0 ≤ f → JitterOK env →
      baseQ p j * (1 - f) ≤ durQ p f env j ∧ durQ p f env j ≤ baseQ p j * (1 + f)) := by
  rw [Retry.wrap_regenerated_from_source] at hm
  unfold wrapG at hm
  rw [ofInt_wait_ratOps] at hm
  obtain ⟨_, h2, h3⟩ := wrapLoopG_sleeps h p f env _ 0 _ j dur hm
  exact ⟨by omega, h3, fun hf hj => durQ_bounds p f env j hf hj⟩

/-- **Total waiting is bounded** by `Σ_{k<maxAttempts} base_k·(1+f)` — `maxAttempts·wait·(1+f)` for the
fixed and `2·wait·(1+f)·(1.5^maxAttempts − 1)` for the exponential policy — and at most `maxAttempts`
back-offs are waited. -/
theorem total_wait_bounded (p : RetryPolicy) (f : Rat) (h : Nat → Option Nat → Option SPErr × Option Nat)
    (env : EnvG) (resp0 : Option Nat) (hf : 0 ≤ f) (hf1 : f ≤ 1) (hj : JitterOK env) :
    let evs := (Gen.FactsC10IR.wrapIR ratOps p f h env resp0).events
    let n := p.maxAttempts.toNat
    ((sleepTotal evs : Int) : Rat) ≤
      (if p.exponential then 2 * (p.wait : Rat) * (1 + f) * ((3 / 2) ^ n - 1)
       else (n : Rat) * (p.wait : Rat) * (1 + f)) ∧
    sleepCount evs ≤ n := by
  simp only
  rw [Retry.wrap_regenerated_from_source]
  unfold wrapG
  rw [ofInt_wait_ratOps]
  obtain ⟨h1, _, h3⟩ := wrapLoopG_total_le h p f env hf hf1 hj p.maxAttempts.toNat 0 (none, resp0)
  rw [capFrom_closed] at h1
  simp only [Nat.zero_add, pow_zero] at h1
  exact ⟨h1, h3⟩

/-- **The bound's `maxAttempts` (not `maxAttempts − 1`) terms are all used**: if every attempt fails and
the client stays, the closure's events are `call 0, sleep 0, …, call (m−1), sleep (m−1)` — one back-off is
waited after the last failed attempt, before the error is returned. -/
theorem waits_after_last_failed_attempt {F : Type} (A : FloatOps F) (p : RetryPolicy) (f : F)
    (h : Nat → Option Nat → Option SPErr × Option Nat) (env : EnvG) (resp0 : Option Nat)
    (hfail : ∀ k r, (h k r).1.isSome = true) (hnd : ∀ k, env.done k = false) :
    (Gen.FactsC10IR.wrapIR A p f h env resp0).events.map EventG.skel =
      (List.range' 0 p.maxAttempts.toNat).flatMap (fun j => [Skel.call j, Skel.sleep j]) := by
  rw [Retry.wrap_regenerated_from_source]
  exact wrapLoopG_all_fail A h p.exponential f env hfail hnd _ _ _ _

/-- **No attempt outlives the pool timeout, and the client-visible wait is bounded** by
`maxAttempts · timeout + Σ back-offs`. The deadline is put on the context of every single call by the
handler closure (regenerated: `handlerIR timeout r = (true, …)` for `timeout > 0`), which `handle` wraps
*inside* the retry loop (`handle_regenerated_from_source`); `dur k` is the backend's own answer time
(`none` = never). Trusted: the transport returns when its context's deadline passes. -/
theorem timeout_bounds_every_attempt_and_the_wait (p : RetryPolicy) (f : Rat)
    (h : Nat → Option Nat → Option SPErr × Option Nat) (env : EnvG) (resp0 : Option Nat)
    (timeout : Nat) (ht : 0 < timeout) (dur : Nat → Option Nat)
    (hf : 0 ≤ f) (hf1 : f ≤ 1) (hj : JitterOK env) :
    (Gen.FactsC10IRp.handlerIR (timeout : Int) resp0).1 = true ∧
    (∀ k, attemptTime timeout dur k ≤ timeout) ∧
    let evs := (Gen.FactsC10IR.wrapIR ratOps p f h env resp0).events
    let n := p.maxAttempts.toNat
    ((elapsed timeout dur evs : Int) : Rat) ≤ (n : Rat) * (timeout : Rat) +
      (if p.exponential then 2 * (p.wait : Rat) * (1 + f) * ((3 / 2) ^ n - 1)
       else (n : Rat) * (p.wait : Rat) * (1 + f)) := by
  refine ⟨?_, fun k => attemptTime_le timeout dur k, ?_⟩
  · rw [Retry.handler_regenerated_from_source]
    simp [handlerG]; omega
  · simp only
    have hb := total_wait_bounded p f h env resp0 hf hf1 hj
    simp only at hb
    have he := elapsed_le timeout dur (Gen.FactsC10IR.wrapIR ratOps p f h env resp0).events
    have hc : callCount (Gen.FactsC10IR.wrapIR ratOps p f h env resp0).events ≤ p.maxAttempts.toNat := by
      rw [Retry.wrap_regenerated_from_source]
      exact wrapLoopG_callCount ratOps h p.exponential f env _ _ _ _
    have hmul : callCount (Gen.FactsC10IR.wrapIR ratOps p f h env resp0).events * timeout ≤
        p.maxAttempts.toNat * timeout := Nat.mul_le_mul_right _ hc
    have he' : ((elapsed timeout dur (Gen.FactsC10IR.wrapIR ratOps p f h env resp0).events : Int) : Rat) ≤
        ((p.maxAttempts.toNat * timeout : Nat) : Rat) +
          ((sleepTotal (Gen.FactsC10IR.wrapIR ratOps p f h env resp0).events : Int) : Rat) := by
      have : elapsed timeout dur (Gen.FactsC10IR.wrapIR ratOps p f h env resp0).events ≤
          ((p.maxAttempts.toNat * timeout : Nat) : Int) +
            sleepTotal (Gen.FactsC10IR.wrapIR ratOps p f h env resp0).events := by
        have : ((callCount (Gen.FactsC10IR.wrapIR ratOps p f h env resp0).events * timeout : Nat) : Int) ≤
            ((p.maxAttempts.toNat * timeout : Nat) : Int) := by exact_mod_cast hmul
        omega
      exact_mod_cast this
    have := hb.1
    push_cast at he' ⊢
    linarith

/-- a hanging backend (never answers), timeout 10 ms, three attempts: 30 ms of attempts plus the back-offs -/
example : elapsed 10000000 (fun _ => none) [.call 0, .sleep 0 1000, .call 1, .sleep 1 1500, .call 2, .sleep 2 2250] =
    30004750 := by decide

/-- non-vacuity: `rand.Intn ↦ 0` meets the contract; `f = 1/2` is in range -/
example : JitterOK ⟨fun _ _ => 0, fun _ => false⟩ ∧ (0 : Rat) ≤ 1 / 2 ∧ (1 / 2 : Rat) ≤ 1 :=
  ⟨fun _ _ => ⟨le_refl _, fun h => h⟩, by norm_num, by norm_num⟩

/-- wait 1000 ns, exponential, three failing attempts: three sleeps (1000, 1500, 2250 ns) -/
example : baseQ ⟨3, 1000, true, 0, 1⟩ 2 = 2250 := by
  simp only [baseQ, if_true]; norm_num

/-! ### facts re-derived from the source on every run -/

theorem source_facts :
    Gen.FactsC10.extractionFailed = false ∧
    -- (RetryPolicy.Wrap's loop, select, back-off arithmetic and the 500 ms default are tied by
    -- `wrap_/createWrapper_regenerated_from_source`; the printed-statement facts that used to stand here
    -- alarmed on mere renames)
    -- breaker wrapper: one acquire, one handler call, record sites = normal path + panic path
    -- (its body is tied by C08's `wrap_regenerated_from_source`)
    Gen.FactsC10.cbAcquireCalls = 1 ∧ Gen.FactsC10.cbRecordCalls = 2 ∧ Gen.FactsC10.cbHandlerCalls = 1 ∧
    Gen.FactsC10.cbRecordsErrFlag = true ∧
    -- handle: timeout context (wrapper order, resets, the single call of the composed handler and the
    -- result mapping: `handle_/handler_regenerated_from_source`)
    Gen.FactsC10.handleTimeoutContext = true ∧
    -- doHandle: one transport call (classification: `doHandle_regenerated_from_source`)
    Gen.FactsC10.doHandleSends = 1 ∧
    Gen.FactsC10.resultConsts =
      ["resultInternalError=\"internalError\"", "resultClientError=\"clientError\"",
       "resultServerError=\"serverError\"", "resultFailureCode=\"failureCode\"",
       "resultTimeout=\"timeout\"", "resultShortCircuited=\"shortCircuited\""] := by
  decide

end EgVerif.C10
