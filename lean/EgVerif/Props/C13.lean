import EgVerif.Proofs.SpecGuards
import EgVerif.Gen.FactsC13
import EgVerif.Proofs.SpecGuardsIR
import EgVerif.Spec.SpecGuards
/-!
# C13 — configs accepted by validation instantiate and serve requests without panicking

`KValid` is what validation accepts, `KInitOK` / `KHandleOK` are the conjunctions of the negated
guards of every panic site reachable from Init / Inherit / InjectResiliencePolicy / Handle
(`Model/SpecGuards.lean`). All theorems hold for **every** document tree and **every** oracle.

Where the unchanged (or repaired) code really satisfies the property the theorem is
`valid_implies_init_ok_K`; where it does not (open known findings) the negation is proved with a
concrete witness and the positive statement is kept as `…_partial` with the excluding hypothesis.
-/
namespace EgVerif.C13
open EgVerif.SpecGuards

/-! ### helpers -/

theorem all_imp {α} {p q : α → Bool} (h : ∀ a, p a = true → q a = true) :
    ∀ l : List α, l.all p = true → l.all q = true := by
  intro l hl
  rw [List.all_eq_true] at hl ⊢
  intro a ha
  exact h a (hl a ha)

theorem smValid_init (o : Oracle) (j : J) : smValid o j = true → smInitOK o j = true := by
  unfold smValid smInitOK
  intro h
  rw [Bool.and_eq_true] at h
  exact h.1

/-! ### adaptors -/

/-- ResponseAdaptor (repaired `Validate`): accepted ⇒ none of the four `Init` panics. -/
theorem valid_implies_init_ok_ResponseAdaptor (j : J) :
    respAdaptorValid j = true → respAdaptorInitOK j = true := by
  unfold respAdaptorValid respAdaptorInitOK
  intro h
  rw [Bool.and_eq_true] at h
  exact h.2

/-- RequestAdaptor has no `Validate()`: the full statement
`reqAdaptorValid o j = true → reqAdaptorInitOK j = true` is FALSE (witness below, open finding
`panic:Init:RequestAdaptor.*`). Proved part: specs that leave `decompress` empty and use gzip. -/
theorem valid_implies_init_ok_RequestAdaptor_partial (o : Oracle) (j : J)
    (hd : j.sget "decompress" = "") (hc : j.sget "compress" = "" ∨ j.sget "compress" = "gzip") :
    reqAdaptorValid o j = true → reqAdaptorInitOK j = true := by
  intro _
  unfold reqAdaptorInitOK adaptorGuardsOK
  rcases hc with hc | hc <;> simp [hd, hc]

private def oTrue : Oracle := ⟨fun _ => true, fun _ => some 1, fun _ => true, fun _ _ _ => true, fun _ => true⟩

/-- negation witness: `compress: zip` is accepted and panics in `Init`. -/
theorem requestAdaptor_violates :
    ∃ j, reqAdaptorValid oTrue j = true ∧ reqAdaptorInitOK j = false :=
  ⟨.obj [("name", .str "a"), ("kind", .str "RequestAdaptor"), ("compress", .str "zip")], by decide⟩

/-! ### RateLimiter (repaired `Policy.Validate`) -/

theorem valid_implies_init_ok_RateLimiter (o : Oracle) (j : J) :
    rateLimiterValid o j = true → rateLimiterInitOK o j = true ∧ rateLimiterHandleOK o j = true := by
  unfold rateLimiterValid rateLimiterInitOK rateLimiterHandleOK
  intro h
  simp only [Bool.and_eq_true] at h
  obtain ⟨⟨hp, hu⟩, _⟩ := h
  constructor
  · refine all_imp ?_ _ hu
    intro u hu'
    unfold urlRuleOK at hu'
    rw [Bool.and_eq_true] at hu'
    exact smValid_init o _ hu'.2
  · rw [List.all_eq_true]
    intro u _
    cases hf : rlFind j u with
    | none => rfl
    | some p =>
      have hm : p ∈ j.aget "policies" := by
        unfold rlFind at hf
        exact List.mem_of_find?_eq_some hf
      have := (List.all_eq_true.mp hp) p hm
      unfold rlPolicyOK at this
      simp only [Bool.and_eq_true, Bool.or_eq_true, decide_eq_true_eq] at this
      show rlPeriodNZ o p = true
      unfold rlPeriodNZ
      rcases this.2 with h0 | h0
      · simp [h0]
      · have : durNs o (p.sget "limitRefreshPeriod") ≠ 0 := by omega
        simp [this]

/-! ### Validator (repaired `Spec.Validate`) -/

theorem valid_implies_init_ok_Validator (o : Oracle) (j : J) :
    validatorValid o j = true → validatorHandleOK j = true := by
  unfold validatorValid validatorHandleOK
  intro h
  simp only [Bool.and_eq_true, Bool.or_eq_true] at h
  rcases h.2 with hs | hs
  · simp [hs]
  · unfold signatureOK at hs
    simp only [Bool.and_eq_true] at hs
    simp [hs.2]

/-! ### builders (repaired `builder.Spec.Validate`) -/

theorem valid_implies_init_ok_Builder (o : Oracle) (j : J) :
    builderValid o j = true → builderInitOK o j = true := by
  unfold builderValid builderInitOK
  intro h
  simp only [Bool.and_eq_true, Bool.or_eq_true, Bool.not_eq_true', Bool.and_eq_false_iff] at h
  obtain ⟨⟨⟨_, h1⟩, _⟩, h3⟩ := h
  rw [Bool.or_eq_true]
  rcases h3 with ht | ht
  · rcases h1 with hn | hn
    · left; simpa using hn
    · rw [ht] at hn; cases hn
  · right; exact ht

/-! ### Proxy: every `regexp.MustCompile` of the request matchers is guarded by `format=regexp` -/

theorem matcherOK_init (o : Oracle) (f : J) : matcherOK o f = true → matcherInitOK o f = true := by
  unfold matcherOK matcherInitOK
  intro h
  simp only [Bool.and_eq_true] at h
  obtain ⟨⟨⟨_, hh⟩, hu⟩, _⟩ := h
  rw [Bool.and_eq_true]
  constructor
  · exact all_imp (fun kv hk => smValid_init o kv.2 hk) _ hh
  · refine all_imp ?_ _ hu
    intro u hu'
    unfold urlMatcherOK at hu'
    simp only [Bool.and_eq_true] at hu'
    exact smValid_init o _ hu'.2

theorem poolOK_init (o : Oracle) (p : J) : poolOK o p = true → poolInitOK o p = true := by
  unfold poolOK poolInitOK
  intro h
  simp only [Bool.and_eq_true] at h
  have h1 := h.1.1.1.1.1.1.1
  rw [Bool.or_eq_true] at h1 ⊢
  rcases h1 with h1 | h1
  · left; exact h1
  · right; exact matcherOK_init o _ h1

theorem valid_implies_init_ok_Proxy (o : Oracle) (j : J) :
    proxyValid o j = true → proxyInitOK o j = true := by
  unfold proxyValid proxyInitOK
  intro h
  simp only [Bool.and_eq_true] at h
  obtain ⟨⟨hp, _⟩, hm⟩ := h
  rw [Bool.and_eq_true]
  refine ⟨all_imp (poolOK_init o) _ hp, ?_⟩
  rw [Bool.or_eq_true] at hm ⊢
  rcases hm with hm | hm
  · left; exact hm
  · right
    simp only [Bool.and_eq_true] at hm
    exact poolOK_init o _ hm.1.1

/-! ### every filter kind at once -/

/-- `filters.NewSpec` accepts ⇒ `Create`+`Init`/`Inherit` of the filter does not hit a modelled
guard — for every first-wave kind except RequestAdaptor (open finding). -/
theorem valid_implies_init_ok_filter (o : Oracle) (j : J) (hk : j.sget "kind" ≠ "RequestAdaptor") :
    filterValid o j = true → filterInitOK o j = true := by
  unfold filterValid kindValid filterInitOK
  intro h
  rw [Bool.and_eq_true] at h
  have h2 := h.2
  clear h
  simp only []
  split at h2
  · rename_i k; simp only [k, if_true]; exact valid_implies_init_ok_Proxy o j h2
  · rename_i k1
    split at h2
    · rename_i k; exact absurd (by simpa using k) hk
    · rename_i k2
      split at h2
      · rename_i k; simp only [k1, k2, k, if_true, if_false, Bool.false_eq_true]
        exact valid_implies_init_ok_ResponseAdaptor j h2
      · rename_i k3
        split at h2
        · rename_i k; simp only [k1, k2, k3, k, if_true, if_false, Bool.false_eq_true]
          exact (valid_implies_init_ok_RateLimiter o j h2).1
        · rename_i k4
          split at h2
          · rename_i k
            have : j.sget "kind" = "Validator" := by simpa using k
            simp [this]
          · split at h2
            · rename_i k
              have : j.sget "kind" = "Mock" := by simpa using k
              simp [this]
            · split at h2
              · rename_i k
                have : j.sget "kind" = "Fallback" := by simpa using k
                simp [this]
              · split at h2
                · rename_i k
                  have : j.sget "kind" = "CORSAdaptor" := by simpa using k
                  simp [this]
                · split at h2
                  · rename_i k
                    simp only [k1, k2, k3, k4, k, if_true, if_false, Bool.false_eq_true]
                    exact valid_implies_init_ok_Builder o j h2
                  · exact absurd h2 (by simp)

/-- … and `Handle` does not hit a modelled guard inside the filter — for every first-wave kind
(Fallback: repaired `Handle`; Proxy: repaired weightedRandom, 7c1d2bb). The remaining Handle
hazards are pipeline-level (`pipelineHandleOK`: namespace without request, Retry overflow). -/
theorem valid_implies_handle_ok_filter (o : Oracle) (j : J) :
    filterValid o j = true → filterHandleOK o j = true := by
  unfold filterValid kindValid filterHandleOK
  intro h
  rw [Bool.and_eq_true] at h
  have h2 := h.2
  clear h
  simp only [] at h2 ⊢
  by_cases hr : (j.sget "kind" == "RateLimiter") = true
  · have e : j.sget "kind" = "RateLimiter" := by simpa using hr
    simp only [e] at h2 ⊢
    simp only [show ("RateLimiter" == "Proxy") = false by decide,
      show ("RateLimiter" == "RequestAdaptor") = false by decide,
      show ("RateLimiter" == "ResponseAdaptor") = false by decide,
      show ("RateLimiter" == "RateLimiter") = true by decide, if_true, if_false, Bool.false_eq_true] at h2 ⊢
    exact (valid_implies_init_ok_RateLimiter o j h2).2
  · by_cases hv : (j.sget "kind" == "Validator") = true
    · have e : j.sget "kind" = "Validator" := by simpa using hv
      simp only [e] at h2 ⊢
      simp only [show ("Validator" == "Proxy") = false by decide,
        show ("Validator" == "RequestAdaptor") = false by decide,
        show ("Validator" == "ResponseAdaptor") = false by decide,
        show ("Validator" == "RateLimiter") = false by decide,
        show ("Validator" == "Validator") = true by decide, if_true, if_false, Bool.false_eq_true] at h2 ⊢
      exact valid_implies_init_ok_Validator o j h2
    · simp only [Bool.not_eq_true] at hr hv
      simp [hr, hv]

/-! ### resilience policies -/

/-- Retry (repaired `RetryPolicy.Validate`): accepted ⇒ `0 ≤ randomizationFactor ≤ 1`, hence the
argument of `rand.Intn` is ≥ 1; that it also fits an int64 is `retry_valid_no_overflow` below. -/
theorem retry_factor_range (o : Oracle) (p : J) (m : Int) (e : Nat)
    (hf : p.get "randomizationFactor" = .num m e) :
    retryValid o p = true → 0 ≤ m ∧ m ≤ (10 : Int) ^ e := by
  unfold retryValid
  intro h
  simp only [Bool.and_eq_true, hf, decide_eq_true_eq] at h
  exact h.1.2

private def oBig : Oracle := ⟨fun _ => true, fun _ => some 7200000000000000000, fun _ => true, fun _ _ _ => true, fun _ => true⟩

/-- **Retry overflow, repaired** (`fixes/C13-retry-overflow.patch`): every accepted Retry policy keeps the
argument of `rand.Intn` in `RetryPolicy.Wrap` below 2^63 at every attempt — for every document and every
duration oracle. (Before the repair this was an open finding: `retry_overflow_unrepaired`.) -/
theorem retry_valid_no_overflow (o : Oracle) (p : J) :
    retryValid o p = true → retryNoOverflow o p = true := by
  unfold retryValid retryFits retryNoOverflow
  intro h
  simp only [Bool.and_eq_true] at h
  obtain ⟨⟨_, hrange⟩, hfit⟩ := h
  dsimp only at hfit ⊢
  have hw : (0 : Int) ≤ (if durNs o (p.sget "waitDuration") ≤ 0 then 500000000 else durNs o (p.sget "waitDuration")) := by
    split <;> omega
  generalize (if durNs o (p.sget "waitDuration") ≤ 0 then (500000000 : Int) else durNs o (p.sget "waitDuration")) = w at *
  cases hf : p.get "randomizationFactor" with
  | num m e =>
    simp only [hf, Bool.and_eq_true, decide_eq_true_eq] at hrange hfit ⊢
    split
    · rename_i hg
      simp only [hg, if_true, decide_eq_true_eq] at hfit ⊢
      have hA : (0 : Int) ≤ w * 3 ^ ((p.iget "maxAttempts" 3).toNat - 1) :=
        Int.mul_nonneg hw (Int.pow_nonneg (by omega))
      have := fits_core _ _ _ _ hA hrange.2 hfit
      calc w * m * 2 * 3 ^ ((p.iget "maxAttempts" 3).toNat - 1)
          = w * 3 ^ ((p.iget "maxAttempts" 3).toNat - 1) * m * 2 := by
            simp only [Int.mul_assoc, Int.mul_comm, Int.mul_left_comm]
        _ < 9223372036854775807 * (2 ^ ((p.iget "maxAttempts" 3).toNat - 1) * 10 ^ e) := this
        _ = 9223372036854775807 * 10 ^ e * 2 ^ ((p.iget "maxAttempts" 3).toNat - 1) := by
            simp only [Int.mul_assoc, Int.mul_comm, Int.mul_left_comm]
    · rename_i hg
      simp only [hg, if_false, decide_eq_true_eq, Bool.false_eq_true] at hfit ⊢
      exact fits_core _ _ _ _ hw hrange.2 hfit
  | null => simp
  | bool _ => simp
  | str _ => simp
  | arr _ => simp
  | obj _ => simp

/-- the witness of the former open finding `C13-retry-overflow` (2000000h, factor 1): the repaired validation
rejects it; without the new conjunct it was accepted and `rand.Intn` got a negative argument. -/
theorem retry_overflow_unrepaired :
    ∃ p, retryValid oBig p = false ∧ retryFits oBig p = false ∧ retryNoOverflow oBig p = false :=
  ⟨.obj [("name", .str "r"), ("kind", .str "Retry"), ("waitDuration", .str "2000000h"),
         ("randomizationFactor", .num 1 0)], by decide⟩

/-- non-vacuity: an ordinary policy (here with the oracle's 1 ns wait and 200 exponential attempts) is accepted -/
example : retryValid oTrue (.obj [("name", .str "r"), ("kind", .str "Retry"), ("maxAttempts", .num 50 0),
    ("backOffPolicy", .str "exponential"), ("randomizationFactor", .num 5 1)]) = true := by decide

/-! ### Pipeline -/

theorem pipeline_filters_valid (o : Oracle) (j : J) :
    pipelineValid o j = true → (j.aget "filters").all (filterValid o) = true := by
  unfold pipelineValid
  intro h
  simp only [Bool.and_eq_true] at h
  exact h.1.1.1.2

/-- Full statement `pipelineValid o j = true → pipelineInitOK o j = true` is FALSE (dangling /
wrong-kind `retryPolicy`, `circuitBreakerPolicy`; RequestAdaptor guards): witnesses below, open
findings. Proved: an accepted pipeline whose resilience references resolve
(`filterInjectOK`) and whose RequestAdaptors satisfy their guards instantiates without panic. -/
theorem valid_implies_init_ok_Pipeline_partial (o : Oracle) (j : J)
    (hinj : (j.aget "filters").all (filterInjectOK (j.aget "resilience")) = true)
    (hra : ∀ f ∈ j.aget "filters", f.sget "kind" = "RequestAdaptor" → adaptorGuardsOK f = true) :
    pipelineValid o j = true → pipelineInitOK o j = true := by
  intro h
  unfold pipelineInitOK
  rw [Bool.and_eq_true]
  refine ⟨?_, hinj⟩
  have hv := pipeline_filters_valid o j h
  rw [List.all_eq_true] at hv ⊢
  intro f hf
  by_cases hk : f.sget "kind" = "RequestAdaptor"
  · have := hra f hf hk
    unfold filterInitOK reqAdaptorInitOK
    simp [hk, this]
  · exact valid_implies_init_ok_filter o f hk (hv f hf)

/-- Handle: every filter of an accepted pipeline is free of modelled filter-level Handle guards.
(`pipelineHandleOK` as a whole is FALSE in general: namespace / Retry overflow witnesses.) -/
theorem valid_implies_handle_ok_Pipeline_partial (o : Oracle) (j : J) :
    pipelineValid o j = true → (j.aget "filters").all (filterHandleOK o) = true := by
  intro h
  have hv := pipeline_filters_valid o j h
  rw [List.all_eq_true] at hv ⊢
  intro f hf
  exact valid_implies_handle_ok_filter o f (hv f hf)

/-- **Retry-overflow hazard closed at pipeline level** (repaired validation): in an accepted pipeline every
Proxy pool's retry policy — whichever resilience entry the name resolves to — satisfies `retryNoOverflow`;
the former Handle hazard `Retry.waitDuration-overflow` cannot fail for an accepted document. -/
theorem valid_implies_retry_ok_Pipeline (o : Oracle) (j : J) :
    pipelineValid o j = true → (j.aget "filters").all (filterRetryOK o (j.aget "resilience")) = true := by
  intro h
  unfold pipelineValid at h
  simp only [Bool.and_eq_true] at h
  have hres := h.2
  rw [List.all_eq_true] at hres ⊢
  intro f _
  unfold filterRetryOK proxyRetryOK
  rw [Bool.or_eq_true]
  right
  rw [List.all_eq_true]
  intro pl _
  unfold poolRetryOK
  cases hq : (j.aget "resilience").reverse.find? (fun q => q.sget "name" == pl.sget "retryPolicy") with
  | none => rfl
  | some q =>
    have hmem : q ∈ j.aget "resilience" := List.mem_reverse.mp (List.mem_of_find?_eq_some hq)
    have hpv := hres q hmem
    unfold policyValid at hpv
    rw [Bool.and_eq_true] at hpv
    by_cases hk : q.sget "kind" = "Retry"
    · have hv : retryValid o q = true := by simpa [hk] using hpv.2
      simp [retry_valid_no_overflow o q hv]
    · simp [hk]

private def proxyDangling : J :=
  .obj [("filters", .arr [.obj [("name", .str "a"), ("kind", .str "Proxy"),
    ("pools", .arr [.obj [("retryPolicy", .str "nope"),
      ("servers", .arr [.obj [("url", .str "http://127.0.0.1:1")]])]])]])]

/-- negation witness: `retryPolicy: nope` with no such policy is accepted, panics in Inject. -/
theorem pipeline_inject_violates :
    pipelineValid oTrue proxyDangling = true ∧ pipelineInitOK oTrue proxyDangling = false := by decide

private def nsPipeline : J :=
  .obj [("flow", .arr [.obj [("filter", .str "a"), ("namespace", .str "ns1")]]),
        ("filters", .arr [.obj [("name", .str "a"), ("kind", .str "Mock"), ("rules", .arr [])]])]

/-- negation witness: a flow node with a namespace nobody filled is accepted; the filter's
unchecked `GetInputRequest().(*httpprot.Request)` panics. -/
theorem pipeline_namespace_violates :
    pipelineValid oTrue nsPipeline = true ∧ pipelineHandleOK oTrue nsPipeline = false := by decide

/-! ### facts obligations (regenerated from the source on every run) -/

/-! ### GlobalFilter object -/

/-- A GlobalFilter part (`beforePipeline` / `afterPipeline`) that the object accepts is an accepted
Pipeline spec. -/
theorem globalFilter_parts_valid (o : Oracle) (j : J) (h : globalFilterValid o j = true) :
    pipelineValid o (j.get "beforePipeline") = true ∧ pipelineValid o (j.get "afterPipeline") = true := by
  unfold globalFilterValid at h
  rwa [Bool.and_eq_true] at h

/-- Full statement `globalFilterValid o j = true → globalFilterInitOK o j = true` is FALSE for the same
reasons as for Pipeline (open findings: Proxy resilience references, RequestAdaptor guards; witness
below). Proved: an accepted GlobalFilter instantiates (`Init` / `Inherit` → `reload`) without hitting a
modelled guard when, in every part **that is instantiated** (non-empty flow), the resilience references
resolve and the RequestAdaptors satisfy their guards. A part with an empty flow is never instantiated,
whatever its filters are. -/
theorem valid_implies_init_ok_GlobalFilter_partial (o : Oracle) (j : J)
    (hinj : ∀ k ∈ ["beforePipeline", "afterPipeline"], gfActive (j.get k) = true →
      ((j.get k).aget "filters").all (filterInjectOK ((j.get k).aget "resilience")) = true)
    (hra : ∀ k ∈ ["beforePipeline", "afterPipeline"], gfActive (j.get k) = true →
      ∀ f ∈ (j.get k).aget "filters", f.sget "kind" = "RequestAdaptor" → adaptorGuardsOK f = true) :
    globalFilterValid o j = true → globalFilterInitOK o j = true := by
  intro h
  obtain ⟨hb, ha⟩ := globalFilter_parts_valid o j h
  unfold globalFilterInitOK gfPartInitOK
  rw [Bool.and_eq_true]
  constructor
  · cases hact : gfActive (j.get "beforePipeline")
    · rfl
    · simpa using valid_implies_init_ok_Pipeline_partial o _ (hinj _ (by simp) hact) (hra _ (by simp) hact) hb
  · cases hact : gfActive (j.get "afterPipeline")
    · rfl
    · simpa using valid_implies_init_ok_Pipeline_partial o _ (hinj _ (by simp) hact) (hra _ (by simp) hact) ha

/-- Handle: every filter of every part of an accepted GlobalFilter is free of modelled filter-level
Handle guards (the flow-namespace / Retry-overflow hazards of `pipelineHandleOK` remain, as for Pipeline). -/
theorem valid_implies_handle_ok_GlobalFilter_partial (o : Oracle) (j : J) (h : globalFilterValid o j = true) :
    ((j.get "beforePipeline").aget "filters").all (filterHandleOK o) = true ∧
    ((j.get "afterPipeline").aget "filters").all (filterHandleOK o) = true :=
  ⟨valid_implies_handle_ok_Pipeline_partial o _ (globalFilter_parts_valid o j h).1,
   valid_implies_handle_ok_Pipeline_partial o _ (globalFilter_parts_valid o j h).2⟩

private def gfDangling (flow : List J) : J :=
  .obj [("beforePipeline", .obj [("flow", .arr flow), ("filters", .arr [.obj [("name", .str "a"), ("kind", .str "Proxy"),
    ("pools", .arr [.obj [("retryPolicy", .str "nope"),
      ("servers", .arr [.obj [("url", .str "http://127.0.0.1:1")]])]])]])])]

/-- negation witness + the role of the flow: the dangling `retryPolicy` is accepted; with a flow the
before pipeline is instantiated and `InjectResiliencePolicy` panics, without a flow nothing is instantiated. -/
theorem globalFilter_inject_violates :
    globalFilterValid oTrue (gfDangling [.obj [("filter", .str "a")]]) = true ∧
    globalFilterInitOK oTrue (gfDangling [.obj [("filter", .str "a")]]) = false ∧
    gfInitGuard oTrue (gfDangling [.obj [("filter", .str "a")]]) = some ("Inject", "Proxy.retryPolicy") ∧
    globalFilterValid oTrue (gfDangling []) = true ∧ globalFilterInitOK oTrue (gfDangling []) = true := by decide

/-- non-vacuity: an accepted GlobalFilter with both parts instantiated and all guards satisfied -/
example : globalFilterValid oTrue (.obj [
      ("beforePipeline", .obj [("flow", .arr [.obj [("filter", .str "a")]]),
        ("filters", .arr [.obj [("name", .str "a"), ("kind", .str "Mock"), ("rules", .arr [])]])]),
      ("afterPipeline", .obj [("flow", .arr [.obj [("filter", .str "b")], .obj [("filter", .str "END")]]),
        ("filters", .arr [.obj [("name", .str "b"), ("kind", .str "Fallback"), ("mockCode", .num 200 0)]])])]) = true ∧
    globalFilterInitOK oTrue (.obj [
      ("beforePipeline", .obj [("flow", .arr [.obj [("filter", .str "a")]]),
        ("filters", .arr [.obj [("name", .str "a"), ("kind", .str "Mock"), ("rules", .arr [])]])]),
      ("afterPipeline", .obj [("flow", .arr [.obj [("filter", .str "b")], .obj [("filter", .str "END")]]),
        ("filters", .arr [.obj [("name", .str "b"), ("kind", .str "Fallback"), ("mockCode", .num 200 0)]])])]) = true := by
  decide

/-! ### HTTPServer object (mux level) -/

/-- **An accepted HTTPServer spec builds its mux without panicking** (full statement, every document and
oracle): the only panic site of `mux.reload` is `regexp.MustCompile` in `Header.initHeaderRoute`, and
`format=regexp` on `Header.regexp` has already compiled that very string. -/
theorem valid_implies_init_ok_HTTPServer (o : Oracle) (j : J) :
    httpServerValid o j = true → httpServerInitOK o j = true := by
  intro h
  unfold httpServerValid at h
  simp only [Bool.and_eq_true] at h
  have hr := h.1.2
  unfold httpServerInitOK
  rw [List.all_eq_true] at hr ⊢
  intro r hrm
  have h1 := hr r hrm
  unfold hsRuleOK at h1
  simp only [Bool.and_eq_true] at h1
  have hp := h1.2
  rw [List.all_eq_true] at hp ⊢
  intro p hpm
  have h2 := hp p hpm
  unfold hsPathOK at h2
  simp only [Bool.and_eq_true] at h2
  have hh := h2.1.2
  unfold hsPathInitOK
  rw [List.all_eq_true] at hh ⊢
  intro hd hdm
  have h3 := hh hd hdm
  unfold hsHeaderOK at h3
  simp only [Bool.and_eq_true] at h3
  exact h3.1.2

private def hsDoc (re : String) : J :=
  .obj [("port", .num 10080 0), ("keepAlive", .bool true), ("https", .bool false),
    ("rules", .arr [.obj [("host", .str "a.test"), ("paths", .arr [.obj [("pathPrefix", .str "/a"),
      ("rewriteTarget", .str "/r"), ("backend", .str "b0"),
      ("headers", .arr [.obj [("key", .str "X-A"), ("regexp", .str re)]])]])]])]

/-- non-vacuity, and the guard is the one that matters: with an oracle that refuses the header regexp the
same document is rejected. -/
example : httpServerValid oTrue (hsDoc "^1$") = true ∧ httpServerInitOK oTrue (hsDoc "^1$") = true ∧
    httpServerValid ⟨fun _ => false, fun _ => some 1, fun _ => true, fun _ _ _ => true, fun _ => true⟩ (hsDoc "(") = false := by
  decide

/-! ### MQTTProxy object -/

/-- **An accepted MQTTProxy spec starts its broker without panicking** (repaired: `Spec.Validate` of
`fixes/C13-mqttproxy-rules.patch` runs the very `getPipelineMap` that `newBroker` turns into a panic, after
checking that every rule has a `when`). Full statement, every document. -/
theorem valid_implies_init_ok_MQTTProxy (j : J) : mqttProxyValid j = true → mqttProxyInitOK j = true := by
  unfold mqttProxyValid
  intro h
  rw [Bool.and_eq_true] at h
  exact h.2

/-- The code as found (no `Validate()` on the MQTTProxy spec) violates the property, three ways: a rule
without `when` (nil dereference in `getPipelineMap`), an unknown packet type and a repeated packet type
(`panic("create pipeline map failed …")` in `newBroker`) are all accepted. Replayed on the real code:
`corpus/C13/mqtt.jsonl` 9301–9303. -/
theorem mqttProxy_unrepaired_violates :
    (mqttProxyValidUnrepaired (.obj [("port", .num 0 0), ("rules", .arr [.obj [("pipeline", .str "p")]])]) = true ∧
      mqttRuleGuard [.obj [("pipeline", .str "p")]] [] = some "MQTTProxy.rules.when-missing") ∧
    (mqttProxyValidUnrepaired (.obj [("rules", .arr [.obj [("when", .obj [("packetType", .str "publish")])]])]) = true ∧
      mqttRuleGuard [.obj [("when", .obj [("packetType", .str "publish")])]] [] = some "MQTTProxy.rules.unknown-packet-type") ∧
    mqttRuleGuard [.obj [("when", .obj [("packetType", .str "Publish")])],
                   .obj [("when", .obj [("packetType", .str "Publish")])]] [] = some "MQTTProxy.rules.repeated-packet-type" := by
  decide

/-- non-vacuity: a proxy routing three packet types is accepted -/
example : mqttProxyValid (.obj [("port", .num 1883 0), ("rules", .arr [
    .obj [("when", .obj [("packetType", .str "Connect")]), ("pipeline", .str "auth")],
    .obj [("when", .obj [("packetType", .str "Publish")]), ("pipeline", .str "kafka")],
    .obj [("when", .obj [("packetType", .str "Subscribe")]), ("pipeline", .str "acl")]])]) = true := by decide

/-! ## Validation ⇒ no panic with BOTH sides regenerated from the source (audit repair 7)

The theorems above are statements about the hand-written predicates `…Valid` / `…InitOK` (where `…Valid`
contains the guard as a conjunct they are consistency projections — `notes/AUDIT.md`). The theorems below are
about definitions **translated on every run** from the Go bodies (`Gen/FactsC13IR.lean`,
`harness/factextract/facts_c13_ir.go`): `validateIR_<Kind>` = the kind's `Validate()`, `panicsIR_<Kind>` = the
function containing the panic site. A change of either side changes a generated definition and breaks the
theorem of that kind. Proofs: `Proofs/SpecGuardsIR.lean` (same names, namespace `EgVerif.SpecGuards`). Each
repair has an `unrepaired_<Kind>` witness: the statement is false for the validation before the `fix:` commit. -/

open EgVerif.Gen.FactsC13IR in
/-- ResponseAdaptor: `Spec.Validate` accepts ⇒ `Init` does not panic; in fact `Validate` accepts **iff** `Init`
does not panic. -/
theorem validate_no_panic_ResponseAdaptor (s : RASpec) :
    Gen.FactsC13IR.extractionFailed = false ∧
    (validateIR_ResponseAdaptor s = true → panicsIR_ResponseAdaptor s = false) ∧
    validateIR_ResponseAdaptor s = !panicsIR_ResponseAdaptor s :=
  ⟨by decide, SpecGuards.validate_no_panic_ResponseAdaptor s, SpecGuards.validate_iff_no_panic_ResponseAdaptor s⟩

open EgVerif.Gen.FactsC13IR in
/-- RequestBuilder / ResponseBuilder: `Spec.Validate` accepts ⇒ `Builder.reload` (`template.Must`) does not
panic — for every spec and every answer of the template parser. -/
theorem validate_no_panic_Builder (s : BSpec) :
    Gen.FactsC13IR.extractionFailed = false ∧ (validateIR_Builder s = true → panicsIR_Builder s = false) :=
  ⟨by decide, SpecGuards.validate_no_panic_Builder s⟩

open EgVerif.Gen.FactsC13IR in
/-- Fallback **handles any request**: the response lookup at the head of `Handle` does not panic for any
request context (with or without a response in the context). -/
theorem no_panic_Fallback (q : ReqCtx) :
    Gen.FactsC13IR.extractionFailed = false ∧ panicsIR_Fallback q = false :=
  ⟨by decide, SpecGuards.no_panic_Fallback q⟩

open EgVerif.Gen.FactsC13IR in
/-- RateLimiter: tag `format=duration` + `Policy.Validate` ⇒ the refresh period `createRateLimiter` hands to
the limiter is positive, and every division of `acquirePermission` is by that period or by `LimitForPeriod`. -/
theorem validate_no_panic_RLPolicy (p : RLPolicy) :
    Gen.FactsC13IR.extractionFailed = false ∧
    (tagOK_RLPolicy p = true → validateIR_RLPolicy p = true → 0 < refreshPeriodIR_RLPolicy p) ∧
    rlDivisors = ["rl.policy.LimitRefreshPeriod", "rl.policy.LimitRefreshPeriod", "rl.policy.LimitForPeriod"] :=
  ⟨by decide, SpecGuards.validate_no_panic_RLPolicy p, SpecGuards.rl_divisors_as_modelled⟩

open EgVerif.Gen.FactsC13IR in
/-- Validator: `Spec.Validate` accepts ⇒ the signer `CreateFromSpec` builds has a key store, so `Signer.Verify`
does not panic (for every request: the panic does not depend on it); wiring of reload / Handle as a fact. -/
theorem validate_no_panic_Validator (s : VSpec) :
    Gen.FactsC13IR.extractionFailed = false ∧ validatorWiring = true ∧
    (validateIR_Validator s = true → panicsIR_Validator s = false) :=
  ⟨by decide, by decide, SpecGuards.validate_no_panic_Validator s⟩

open EgVerif.Gen.FactsC13IR in
/-- MQTTProxy: `Spec.Validate` accepts ⇒ `getPipelineMap` neither dereferences nil nor returns an error, so
`newBroker` does not panic on it. -/
theorem validate_no_panic_MQTTProxy (s : MqttSpec) :
    Gen.FactsC13IR.extractionFailed = false ∧ newBrokerPanicsOnMapError = true ∧
    (validateIR_MQTTProxy s = true → panicsIR_MQTTProxy s = false) :=
  ⟨by decide, by decide, SpecGuards.validate_no_panic_MQTTProxy s⟩

open EgVerif.Gen.FactsC13IR in
/-- CircuitBreaker policy (sizes and admission test translated from `pkg/util/circuitbreaker`): for every
accepted policy, every window a result can be pushed into has ≥ 1 bucket — closed-state windows always, the
half-open window whenever a call is admitted in half-open state; `CountBasedWindow.Push` cannot index an empty
bucket slice. (`cb_min_sized_window_violates`: false for the seeded sizing `min(minimumNumberOfCalls, permitted)`.) -/
theorem cb_pushed_windows_have_buckets (p : CBLibPolicy) (h : p.accepted = true) :
    Gen.FactsC13IR.extractionFailed = false ∧ cbPushSites = 1 ∧
    (∀ e ∈ cbWindowSizesIR p, e.1 = "Closed" → 1 ≤ e.2) ∧
    (∀ n : Int, 0 ≤ n → cbHalfOpenAdmitIR p n = true → ∀ e ∈ cbWindowSizesIR p, e.1 = "HalfOpen" → 1 ≤ e.2) ∧
    (∀ e ∈ cbWindowSizesIR p, e.1 = "Closed" ∨ e.1 = "HalfOpen") :=
  ⟨by decide, by decide, SpecGuards.cb_pushed_windows_have_buckets p h⟩

/-- non-vacuity: the default policy and the boundary policy (1, 0, 0) are accepted -/
example : (CBLibPolicy.ofJ (.obj [])).accepted = true ∧ (⟨1, 0, 0⟩ : CBLibPolicy).accepted = true := by decide

/-- `ServerPool.handle` panics with "should not reach here" when a resilience wrapper hands it an error that is
neither `ErrShortCircuited` nor the handler's own `serverPoolError`. Regenerated fact: every `return` of the closure
`RetryPolicy.Wrap` builds returns `nil` or `err`, and a variable named `err` is only ever bound to `handler(ctx)` —
in particular a context that ends during the back-off wait returns the handler's last error, not `ctx.Err()`. -/
theorem retry_wrap_only_passes_handler_error :
    Gen.FactsC13IR.extractionFailed = false ∧
    Gen.FactsC13IR.retryWrapReturns = ["nil", "err", "err"] ∧
    Gen.FactsC13IR.retryWrapErrSources = ["handler(ctx)"] := by decide

open EgVerif.Gen.FactsC13IR in
/-- HTTPServer: the tracer `mux.reload` stores into the new instance is non-nil for every combination of old /
new tracing sections and every outcome of `tracing.New` (selection statements translated; `tracing.New` returns
nil exactly with an error: pattern fact) — `serveHTTP` and `close` cannot dereference a nil tracer. Validation
accepts sections `tracing.New` rejects (negative `sampleRate`: `tracingSpecOK`), so this does not follow from
validation. (`tracer_seeded_can_be_nil`: false for the seeded selection.) -/
theorem tracer_never_nil (sameSpec newOK oldNonNil : Bool) :
    Gen.FactsC13IR.extractionFailed = false ∧ tracingNewNilOnError = true ∧
    tracerNonNilIR_mux sameSpec newOK oldNonNil = true :=
  ⟨by decide, by decide, SpecGuards.tracer_never_nil sameSpec newOK oldNonNil⟩

/-- non-vacuity of `tracingSpecOK`: a negative sample rate is accepted, 1.5 is not -/
example : tracingSpecOK oTrue (.obj [("serviceName", .str "s"), ("zipkin", .obj [("serverURL", .str "http://z"), ("sampleRate", .num (-5) 1)])]) = true ∧
    tracingSpecOK oTrue (.obj [("zipkin", .obj [("serverURL", .str "http://z"), ("sampleRate", .num 15 1)])]) = false := by decide

open EgVerif.Gen.FactsC13IR in
/-- **Every one of these statements is false for the validation before its `fix:` commit** (34c5ca9, 3dbd6e1,
49d7036, e912cc4, 4536822, 4f68600): a spec / request the old validation accepted on which the translated
panic side panics. -/
theorem unrepaired_validations_violate :
    (∃ s : RASpec, panicsIR_ResponseAdaptor s = true) ∧
    (∃ s : BSpec, validateUnrepaired_Builder s = true ∧ panicsIR_Builder s = true) ∧
    (∃ q : ReqCtx, panicsUnrepaired_Fallback q = true) ∧
    (∃ p : RLPolicy, tagOK_RLPolicy p = true ∧ refreshPeriodIR_RLPolicy p = 0) ∧
    (∃ s : VSpec, validateUnrepaired_Validator s = true ∧ panicsIR_Validator s = true) ∧
    (∃ s : MqttSpec, panicsIR_MQTTProxy s = true) :=
  ⟨unrepaired_ResponseAdaptor, unrepaired_Builder, unrepaired_Fallback, unrepaired_RLPolicy, unrepaired_Validator,
   ⟨_, unrepaired_MQTTProxy.1⟩⟩

/-- The hand-written predicates over document trees (what the judge evaluates on every harness case) imply the
generated validations / exclude the generated panics on the corresponding records. -/
theorem handwritten_valid_implies_validateIR (o : Oracle) (j : J) :
    (respAdaptorValid j = true → Gen.FactsC13IR.validateIR_ResponseAdaptor (RASpec.ofJ j) = true) ∧
    (builderValid o j = true → Gen.FactsC13IR.validateIR_Builder (BSpec.ofJ o j) = true) ∧
    (rlPolicyOK o j = true → tagOK_RLPolicy (RLPolicy.ofJ o j) = true ∧
      Gen.FactsC13IR.validateIR_RLPolicy (RLPolicy.ofJ o j) = true) ∧
    (mqttProxyValid j = true → panicsIR_MQTTProxy (MqttSpec.ofJ j) = false) ∧
    (validatorValid o j = true → Gen.FactsC13IR.validateIR_Validator (VSpec.ofJ j) = true) ∧
    (cbValid o j = true → (CBLibPolicy.ofJ j).accepted = true) :=
  ⟨respAdaptorValid_implies_validateIR j, builderValid_implies_validateIR o j, rlPolicyOK_implies_validateIR o j,
   mqttProxyValid_implies_no_panicIR j, validatorValid_implies_validateIR o j, cbValid_implies_accepted o j⟩

/-- non-vacuity: accepted records on which the translated validations compute `true` -/
example : Gen.FactsC13IR.validateIR_ResponseAdaptor ⟨"gzip", "", "x"⟩ = true ∧
    Gen.FactsC13IR.validateIR_Builder ⟨"", "{{ .x }}", true⟩ = true ∧
    Gen.FactsC13IR.validateIR_RLPolicy ⟨"10ms", some 10000000⟩ = true ∧
    Gen.FactsC13IR.validateIR_Validator ⟨false, some ⟨2⟩⟩ = true ∧
    Gen.FactsC13IR.validateIR_MQTTProxy ⟨[some ⟨some ⟨"Publish"⟩, "p"⟩, some ⟨some ⟨"Connect"⟩, "q"⟩]⟩ = true := by
  decide

/-! ## The judges' executable specification accepts the model (audit, cross-cutting point)

Every C13 judge decides with `Spec/SpecGuards.judgeCore valid initOK nullElem obs` (`Driver/C13.lean`); the
lemmas below connect that function to the theorems. -/

/-- **spec accepts model**: if the implementation does what the model predicts for a document outside the
null stream — accepts exactly the valid documents and does not crash — and validity excludes the modelled Init
panics (the `valid ⇒ initOK` theorem of the kind), the judge answers agree ∧ spec. -/
theorem judge_accepts_model (valid initOK : Bool) (h : valid = true → initOK = true) (initPhase explained : Bool) :
    judgeCore valid initOK false ⟨valid, false, initPhase, explained⟩ = (true, true) := by
  cases valid <;> cases initOK <;> simp [judgeCore] at h ⊢

/-- instances for the objects whose `valid ⇒ initOK` is a full theorem: the expected class is `ok` or `rejected` -/
theorem judge_accepts_model_objects (o : Oracle) (j : J) (a b : Bool) :
    judgeCore (httpServerValid o j) (httpServerInitOK o j) false ⟨httpServerValid o j, false, a, b⟩ = (true, true) ∧
    judgeCore (mqttProxyValid j) (mqttProxyInitOK j) false ⟨mqttProxyValid j, false, a, b⟩ = (true, true) :=
  ⟨judge_accepts_model _ _ (valid_implies_init_ok_HTTPServer o j) a b,
   judge_accepts_model _ _ (valid_implies_init_ok_MQTTProxy j) a b⟩

/-- … and for every first-wave filter kind except RequestAdaptor (open finding) -/
theorem judge_accepts_model_filter (o : Oracle) (j : J) (hk : j.sget "kind" ≠ "RequestAdaptor") (a b : Bool) :
    judgeCore (filterValid o j) (filterInitOK o j) false ⟨filterValid o j, false, a, b⟩ = (true, true) :=
  judge_accepts_model _ _ (valid_implies_init_ok_filter o j hk) a b

/-- **an accepted document that crashes is always reported**: whatever the model says, `spec = false` -/
theorem judge_flags_accepted_crash (valid initOK nullElem initPhase explained : Bool) :
    (judgeCore valid initOK nullElem ⟨true, true, initPhase, explained⟩).2 = false := by
  cases valid <;> cases initOK <;> cases nullElem <;> cases initPhase <;> cases explained <;> rfl

/-- **converse for the guarded rows**: when a modelled Init guard fails for an accepted, valid document, the
judge agrees only with an Init-phase crash that the guard explains (and reports it as a violation); no crash, or
an unexplained one, is a disagreement between model and code. -/
theorem judge_guard_converse (nullElem : Bool) (hn : nullElem = false) :
    judgeCore true false nullElem ⟨true, false, false, false⟩ = (false, true) ∧
    judgeCore true false nullElem ⟨true, true, true, true⟩ = (true, false) ∧
    judgeCore true false nullElem ⟨true, true, true, false⟩ = (false, false) ∧
    judgeCore true false nullElem ⟨true, true, false, true⟩ = (false, false) := by
  subst hn; decide

/-- rejecting a valid document or accepting an invalid one is never agreed with -/
theorem judge_rejects_validation_mismatch (valid initOK : Bool) (o : JObs) (h : o.accepted ≠ valid) :
    (judgeCore valid initOK false o).1 = false := by
  obtain ⟨a, c, p, e⟩ := o
  cases valid <;> cases a <;> simp_all [judgeCore]

/-! ## The panic-site table, split by what is actually known about each site (audit repair 7) -/

/-- sites whose condition is a modelled guard (`guard:` rows) -/
def guardedSites : List (String × String × Nat) :=
  (guardTable.filter (·.2.1 == .guard)).map (·.1)
/-- sites argued unreachable / converted to errors in prose (`allow:` rows) — **not proved**, the prose is the claim -/
def allowedSites : List (String × String × Nat) :=
  (guardTable.filter (·.2.1 == .allow)).map (·.1)
/-- sites nobody instantiates (`not-covered:` rows) — honest gap -/
def notCoveredSites : List (String × String × Nat) :=
  (guardTable.filter (·.2.1 == .notCovered)).map (·.1)

/-- every regenerated panic site is in exactly one of the three lists; their sizes -/
theorem guard_table_partition :
    Gen.FactsC13.extractionFailed = false ∧
    (∀ s ∈ Gen.FactsC13.panicSites, (guardedSites.contains s || allowedSites.contains s || notCoveredSites.contains s) = true) ∧
    (∀ s ∈ guardedSites, (allowedSites.contains s || notCoveredSites.contains s) = false) ∧
    (∀ s ∈ allowedSites, notCoveredSites.contains s = false) ∧
    (guardedSites.length, allowedSites.length, notCoveredSites.length) = (12, 17, 23) := by decide

/-- **the guarded list, site by site** (only for these a theorem relates validation to the site):
Builder.reload ← `validate_no_panic_Builder` (both sides regenerated);
ResponseAdaptor.Init ← `validate_no_panic_ResponseAdaptor` (both sides regenerated);
Signer.Verify ← `validate_no_panic_Validator` (both sides regenerated + wiring fact);
ServerPool.handle ("should not reach here") ← `retry_wrap_only_passes_handler_error` (regenerated fact on the returns of `RetryPolicy.Wrap`);
newBroker ← `validate_no_panic_MQTTProxy` (both sides regenerated);
Header.initHeaderRoute ← `valid_implies_init_ok_HTTPServer`, StringMatcher.init / StringMatch.Init / URLRule.Init
← `smValid_init` / `matcherOK_init` / `poolOK_init` (hand-written model; `MustCompile` of a string the
`format=regexp` tag already compiled: tag regenerated, code side hand-modelled);
GlobalFilter.reload ← `valid_implies_init_ok_GlobalFilter_partial` (hand-written, partial);
ServerPool.InjectResiliencePolicy, RequestAdaptor.Init ← **open findings**: validation does NOT exclude the
panic (`pipeline_inject_violates`, `requestAdaptor_violates`). -/
theorem guarded_sites_listed :
    guardedSites =
      [("pkg/filters/builder/builder.go", "Builder.reload", 1),
       ("pkg/filters/proxy/pool.go", "ServerPool.InjectResiliencePolicy", 4),
       ("pkg/filters/proxy/pool.go", "ServerPool.handle", 1),
       ("pkg/filters/proxy/requestmatch.go", "StringMatcher.init", 1),
       ("pkg/filters/requestadaptor/requestadaptor.go", "RequestAdaptor.Init", 4),
       ("pkg/filters/responseadaptor/responseadaptor.go", "ResponseAdaptor.Init", 4),
       ("pkg/object/globalfilter/globalfilter.go", "GlobalFilter.reload", 2),
       ("pkg/object/httpserver/spec.go", "Header.initHeaderRoute", 1),
       ("pkg/object/mqttproxy/broker.go", "newBroker", 1),
       ("pkg/util/signer/signer.go", "Signer.Verify", 1),
       ("pkg/util/urlrule/urlrule.go", "StringMatch.Init", 1),
       ("pkg/util/urlrule/urlrule.go", "URLRule.Init", 1)] := by decide

/-- every function with a `panic(` / `MustCompile(` / `template.Must(` in the anchored packages is
mapped (with its call count) to a modelled guard, an allow-list entry or an explicit not-covered entry. -/
theorem guard_table_complete :
    Gen.FactsC13.extractionFailed = false ∧
      ∀ s ∈ Gen.FactsC13.panicSites, (guardTable.lookup s).isSome = true := by decide

/-- no stale entries: the table lists only sites that still exist. -/
theorem guard_table_exact : guardTable.map (·.1) = Gen.FactsC13.panicSites := by decide

/-- the `jsonschema` tags of every modelled spec type are the ones the model was written against. -/
theorem spec_tags_as_modelled : Gen.FactsC13.specTags = modelledTags := by rfl

/-- the modelled types have exactly the `Validate()` methods (and receiver forms) the model mirrors. -/
theorem validate_methods_as_modelled : Gen.FactsC13.validateMethods = modelledValidate := by decide

theorem kind_results_as_modelled : Gen.FactsC13.kindResults = kindResults := by decide

/-- the allow-list's "converted to an error by recover" entries: the recover() is still there. -/
theorem recovers_present : Gen.FactsC13.recovers.all (·.2) = true := by decide

/-! ### non-vacuity: concrete accepted, non-trivial specs -/

private def exPipeline : J :=
  .obj [("resilience", .arr [.obj [("name", .str "r"), ("kind", .str "Retry"), ("maxAttempts", .num 2 0)]]),
        ("flow", .arr [.obj [("filter", .str "rl"), ("jumpIf", .obj [("rateLimited", .str "END")])],
                       .obj [("filter", .str "px")]]),
        ("filters", .arr [
          .obj [("name", .str "rl"), ("kind", .str "RateLimiter"), ("defaultPolicyRef", .str "p"),
                ("policies", .arr [.obj [("name", .str "p"), ("limitForPeriod", .num 1 0),
                                         ("limitRefreshPeriod", .str "1s")]]),
                ("urls", .arr [.obj [("url", .obj [("prefix", .str "/")])]])],
          .obj [("name", .str "px"), ("kind", .str "Proxy"),
                ("pools", .arr [.obj [("retryPolicy", .str "r"),
                  ("servers", .arr [.obj [("url", .str "http://127.0.0.1:1")]])]])]])]

example : pipelineValid oTrue exPipeline = true ∧ pipelineInitOK oTrue exPipeline = true ∧
    pipelineHandleOK oTrue exPipeline = true := by decide

example : respAdaptorValid (.obj [("compress", .str "gzip")]) = true := by decide
example : respAdaptorValid (.obj [("compress", .str "zip")]) = false := by decide

end EgVerif.C13
