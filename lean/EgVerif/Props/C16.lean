import EgVerif.Proofs.BrokerSessions
import EgVerif.Proofs.BrokerSessionsFine
import EgVerif.Gen.FactsC16
import EgVerif.Gen.FactsC16Locks
import EgVerif.Proofs.BrokerSessionsIR
import EgVerif.Proofs.SessionQoSIR
import EgVerif.Proofs.BrokerSessionsWatch
/-!
# C16 — MQTT sessions survive reconnect and client-id takeover as cleanSession dictates

Theorems about `Model/BrokerSessions.lean` (atomic-step model of `handleConn`/`setSession`,
`readLoop`'s deferred cleanup, `closeAndDelSession`, `removeClient`, `deleteSession`,
`SessionManager`) **with `fixes/C16-takeover-teardown.patch` applied** (`step true`).
A history is any finite sequence of enabled atomic steps (`Reach`): every interleaving of
the connections' programs, the asynchronous `go oldClient.close()`, admin deletes and watch
events. Nothing is bounded. `unrepaired_violates` is the witness that the code without the
patch (`step false`) breaks the property.

Partial (see notes/C16.md): the atomic-step granularity is trusted; `subscribe`/`unsubscribe`
are enabled only for the registered live connection (a superseded connection is assumed not
to send further packets).
-/
namespace EgVerif.C16
open EgVerif.BrokerSessions

/-- states reachable by the repaired code from the empty broker -/
inductive Reach : St → Prop
  | init : Reach BrokerSessions.init
  | step {s s' : St} (a : Act) : Reach s → step true s a = some s' → Reach s'

theorem reach_inv {s : St} (r : Reach s) : Inv s := by
  induction r with
  | init => exact inv_init
  | step a _ hs ih => exact inv_step ih hs

/-- **Invariant `CurrentConnIntact`**: the connection registered for the id, while it is live
and has finished its re-subscription, has *its* session in the session map, that session is
open, and every topic of it is routed by the TopicManager. -/
def CurrentConnIntact (s : St) : Prop :=
  ∀ k, s.client = some k → (s.conn k).disc = false → (s.conn k).pc = Pc.running →
    s.sessMap = some (s.conn k).sess ∧ (s.sess (s.conn k).sess).closed = false ∧
    ∀ f ∈ (s.sess (s.conn k).sess).topics, f ∈ s.topicMgr

theorem currentConnIntact {s : St} (r : Reach s) : CurrentConnIntact s := by
  intro k hc hd hr
  have h := reach_inv r
  have hsm := h.owns k hc hd (by simp [hr, Pc.active])
  exact ⟨hsm, (h.openS _ hsm).1, h.routed k hc hd hr⟩

/-- No `Session.close()` ever hits a closed session (Go: `close of closed channel` panic). -/
theorem no_double_close {s : St} (r : Reach s) : s.doubleClose = false := (reach_inv r).noDouble

/-- **takeover_teardown_safe.** Let connection `k` be registered for the id and live. No step
of the teardown of *another* connection `j` (its read loop noticing the end, the teardown in
`closeAndDelSession`, `close`, `removeClient`, the write-loop error path, the asynchronous
`go oldClient.close()`), taken at any point, changes the registration, the session map, any
session object, the persisted copy, the pending delete events, the TopicManager entries or
`k`'s own record. -/
theorem takeover_teardown_safe {s s' : St} {k j : Nat} {a : Act}
    (hc : s.client = some k) (hj : j ≠ k) (hlive : (s.conn k).disc = false)
    (ha : IsTeardownOf j a) (hs : step true s a = some s') :
    s'.client = some k ∧ s'.sessMap = s.sessMap ∧ s'.sess = s.sess ∧ s'.db = s.db ∧
    s'.watch = s.watch ∧ s'.topicMgr = s.topicMgr ∧ s'.conn k = s.conn k := by
  have f := superseded_frame hc hj hlive ha hs
  exact ⟨f.client.trans hc, f.sessMap, f.sess, f.db, f.watch, f.topicMgr, f.conn⟩

/-- all-or-nothing execution of a list of steps -/
def runAll : St → List Act → Option St
  | s, [] => some s
  | s, a :: rest => (step true s a).bind (fun s' => runAll s' rest)

theorem runAll_append {s : St} {l₁ l₂ : List Act} :
    runAll s (l₁ ++ l₂) = (runAll s l₁).bind (fun s' => runAll s' l₂) := by
  induction l₁ generalizing s with
  | nil => simp [runAll]
  | cons a r ih =>
    simp only [List.cons_append, runAll]
    cases step true s a with
    | none => simp
    | some s1 => simp [ih]

theorem reach_runAll {s s' : St} {l : List Act} (r : Reach s) (h : runAll s l = some s') : Reach s' := by
  induction l generalizing s with
  | nil => simp [runAll] at h; subst h; exact r
  | cons a rest ih =>
    simp only [runAll] at h
    cases hs : step true s a with
    | none => simp [hs] at h
    | some s1 => simp [hs] at h; exact ih (Reach.step a r hs) h

/-- steps of the teardown of connections other than `k` -/
def OthersTeardown (k : Nat) (l : List Act) : Prop := ∀ a ∈ l, ∃ j, j ≠ k ∧ IsTeardownOf j a

theorem frame_run {k : Nat} {l : List Act} (hl : OthersTeardown k l) {s s' : St}
    (hc : s.client = some k) (hlive : (s.conn k).disc = false) (h : runAll s l = some s') :
    SameForCurrent s s' k := by
  induction l generalizing s with
  | nil =>
    simp [runAll] at h; subst h
    exact ⟨rfl, rfl, rfl, rfl, rfl, rfl, rfl, rfl, rfl⟩
  | cons a rest ih =>
    simp only [runAll] at h
    cases hs : step true s a with
    | none => simp [hs] at h
    | some s1 =>
      simp [hs] at h
      obtain ⟨j, hj, ha⟩ := hl a (List.mem_cons_self ..)
      have f1 := superseded_frame hc hj hlive ha hs
      have f2 := ih (fun b hb => hl b (List.mem_cons_of_mem _ hb)) (f1.client.trans hc)
        (by rw [f1.conn]; exact hlive) h
      exact ⟨f2.client.trans f1.client, f2.sessMap.trans f1.sessMap, f2.sess.trans f1.sess,
        f2.nextSess.trans f1.nextSess, f2.db.trans f1.db, f2.topicMgr.trans f1.topicMgr,
        f2.watch.trans f1.watch, f2.conn.trans f1.conn, f2.doubleClose.trans f1.doubleClose⟩

/-- the session a CONNECT finds: the one in the local map, else the persisted copy -/
def storedSession (s : St) : Option (List Nat × Bool) :=
  match s.sessMap with
  | some r => some ((s.sess r).topics, (s.sess r).clean)
  | none => s.db

theorem connect_reuses {s : St} (h : Inv s) {k : Nat} {F : List Nat}
    (hst : storedSession s = some (F, false)) :
    let s1 := connectLocked true s k false
    (s1.sess (s1.conn k).sess).topics = F ∧ (s1.sess (s1.conn k).sess).clean = false ∧
    (s1.conn k).disc = (s.conn k).disc ∧ s1.topicMgr = s.topicMgr := by
  have hconn : ({ takeoverMark s with client := some k } : St).conn k = (takeoverMark s).conn k := rfl
  have hdisc : ((takeoverMark s).conn k).disc = (s.conn k).disc := by
    cases hcl : s.client with
    | none => simp [takeoverMark, hcl]
    | some o =>
      by_cases e : k = o
      · subst e; simp [takeoverMark, hcl, setConn]
      · simp [takeoverMark, hcl, setConn, e]
  have hsm' : (takeoverMark s).sessMap = s.sessMap := by cases hcl : s.client <;> simp [takeoverMark, hcl, setConn]
  have hse' : (takeoverMark s).sess = s.sess := by cases hcl : s.client <;> simp [takeoverMark, hcl, setConn]
  have hdb' : (takeoverMark s).db = s.db := by cases hcl : s.client <;> simp [takeoverMark, hcl, setConn]
  have htm' : (takeoverMark s).topicMgr = s.topicMgr := by cases hcl : s.client <;> simp [takeoverMark, hcl, setConn]
  unfold storedSession at hst
  simp only [connectLocked, setSession, getSess, hsm', hse', hdb']
  cases hsm : s.sessMap with
  | some r =>
    simp only [hsm, Option.some.injEq, Prod.mk.injEq] at hst
    simp [hst.2, hst.1, setConn, hse', hdisc, htm']
  | none =>
    simp only [hsm] at hst
    simp [hst, setConn, hdisc, htm']

theorem reconnect_restores_steps {s s1 s2 s3 s4 s5 s' : St} (r : Reach s) {k : Nat} {F : List Nat}
    {t₁ t₂ t₃ : List Act}
    (hst : storedSession s = some (F, false)) (hfresh : (s.conn k).disc = false)
    (h₁ : OthersTeardown k t₁) (h₂ : OthersTeardown k t₂) (h₃ : OthersTeardown k t₃)
    (hs1 : step true s (Act.connectLocked k false) = some s1) (hr1 : runAll s1 t₁ = some s2)
    (hs3 : step true s2 (Act.storeSess k) = some s3) (hr4 : runAll s3 t₂ = some s4)
    (hs5 : step true s4 (Act.resubscribe k) = some s5) (hr6 : runAll s5 t₃ = some s') :
    s'.client = some k ∧ s'.sessMap = some (s'.conn k).sess ∧
    (s'.sess (s'.conn k).sess).topics = F ∧ (s'.sess (s'.conn k).sess).closed = false ∧
    ∀ f ∈ F, f ∈ s'.topicMgr := by
  have hinv := reach_inv r
  -- connectLocked
  simp only [step] at hs1
  split at hs1 <;> cases hs1
  obtain ⟨reg, _⟩ := connectLocked_registered hinv k false
  obtain ⟨htop, _, hdisc, _⟩ := connect_reuses (k := k) hinv hst
  generalize connectLocked true s k false = s1 at *
  have hlive1 : (s1.conn k).disc = false := by rw [hdisc]; exact hfresh
  -- t₁
  have f1 := frame_run h₁ reg.client hlive1 hr1
  -- storeSess
  simp only [step] at hs3
  split at hs3 <;> cases hs3
  have c3 : (setPc (persist s2 (s2.conn k).sess) k Pc.stored).client = some k := by
    simp [setPc, setConn, persist, f1.client, reg.client]
  have l3 : ((setPc (persist s2 (s2.conn k).sess) k Pc.stored).conn k).disc = false := by
    simp [setPc, setConn, persist, f1.conn, hlive1]
  have e3 : (setPc (persist s2 (s2.conn k).sess) k Pc.stored).sessMap = s2.sessMap ∧
      (setPc (persist s2 (s2.conn k).sess) k Pc.stored).sess = s2.sess ∧
      (setPc (persist s2 (s2.conn k).sess) k Pc.stored).topicMgr = s2.topicMgr ∧
      ((setPc (persist s2 (s2.conn k).sess) k Pc.stored).conn k).sess = (s2.conn k).sess := by
    simp [setPc, setConn, persist]
  generalize setPc (persist s2 (s2.conn k).sess) k Pc.stored = s3 at *
  -- t₂
  have f4 := frame_run h₂ c3 l3 hr4
  -- resubscribe
  simp only [step] at hs5
  split at hs5 <;> cases hs5
  have e5 : (setPc { s4 with topicMgr := addAll s4.topicMgr (s4.sess (s4.conn k).sess).topics } k Pc.running).client = s4.client ∧
      (setPc { s4 with topicMgr := addAll s4.topicMgr (s4.sess (s4.conn k).sess).topics } k Pc.running).sessMap = s4.sessMap ∧
      (setPc { s4 with topicMgr := addAll s4.topicMgr (s4.sess (s4.conn k).sess).topics } k Pc.running).sess = s4.sess ∧
      ((setPc { s4 with topicMgr := addAll s4.topicMgr (s4.sess (s4.conn k).sess).topics } k Pc.running).conn k).sess = (s4.conn k).sess ∧
      ((setPc { s4 with topicMgr := addAll s4.topicMgr (s4.sess (s4.conn k).sess).topics } k Pc.running).conn k).disc = (s4.conn k).disc ∧
      (setPc { s4 with topicMgr := addAll s4.topicMgr (s4.sess (s4.conn k).sess).topics } k Pc.running).topicMgr =
        addAll s4.topicMgr (s4.sess (s4.conn k).sess).topics := by
    simp [setPc, setConn]
  generalize setPc { s4 with topicMgr := addAll s4.topicMgr (s4.sess (s4.conn k).sess).topics } k Pc.running = s5 at *
  -- t₃
  have f6 := frame_run h₃ (e5.1.trans (f4.client.trans c3)) (by rw [e5.2.2.2.2.1, f4.conn]; exact l3) hr6
  -- collect
  have hsess6 : (s'.conn k).sess = (s1.conn k).sess := by
    rw [f6.conn, e5.2.2.2.1, f4.conn, e3.2.2.2, f1.conn]
  have hS : s'.sess = s1.sess := by rw [f6.sess, e5.2.2.1, f4.sess, e3.2.1, f1.sess]
  refine ⟨f6.client.trans (e5.1.trans (f4.client.trans c3)), ?_, ?_, ?_, ?_⟩
  · rw [f6.sessMap, e5.2.1, f4.sessMap, e3.1, f1.sessMap, hsess6]; exact reg.sessMap
  · rw [hS, hsess6]; exact htop
  · rw [hS, hsess6]; exact reg.opened
  · intro f hf
    rw [f6.topicMgr, e5.2.2.2.2.2]
    refine mem_addAll.mpr (Or.inr ?_)
    rw [f4.conn, f4.sess, e3.2.1, e3.2.2.2, f1.sess, f1.conn, htop]; exact hf

theorem runAll_cons_eq_some {s s' : St} {a : Act} {l : List Act} :
    runAll s (a :: l) = some s' ↔ ∃ s1, step true s a = some s1 ∧ runAll s1 l = some s' := by
  simp only [runAll]
  cases step true s a <;> simp

theorem runAll_append_eq_some {s s' : St} {l₁ l₂ : List Act} :
    runAll s (l₁ ++ l₂) = some s' ↔ ∃ s1, runAll s l₁ = some s1 ∧ runAll s1 l₂ = some s' := by
  rw [runAll_append]
  cases runAll s l₁ <;> simp

/-- **reconnect_restores.** The stored session of the id (local map, else persisted copy) is
a persistent one with topics `F`; a new connection `k` connects with cleanSession=false. For
*every* placement `t₁ t₂ t₃` of teardown steps of other connections (the old connection's read
loop noticing its end before, between or after the new connection's steps): after
`connectLocked; t₁; storeSess; t₂; resubscribe; t₃` connection `k` is registered with a session
holding exactly the topics `F`, that session is the one in the session map and is open, and
every topic of `F` is routed to the id again. -/
theorem reconnect_restores {s s' : St} (r : Reach s) {k : Nat} {F : List Nat} {t₁ t₂ t₃ : List Act}
    (hst : storedSession s = some (F, false)) (hfresh : (s.conn k).disc = false)
    (h₁ : OthersTeardown k t₁) (h₂ : OthersTeardown k t₂) (h₃ : OthersTeardown k t₃)
    (hrun : runAll s (Act.connectLocked k false :: (t₁ ++ Act.storeSess k :: (t₂ ++
      Act.resubscribe k :: t₃))) = some s') :
    s'.client = some k ∧ s'.sessMap = some (s'.conn k).sess ∧
    (s'.sess (s'.conn k).sess).topics = F ∧ (s'.sess (s'.conn k).sess).closed = false ∧
    ∀ f ∈ F, f ∈ s'.topicMgr := by
  obtain ⟨s1, hs1, h⟩ := runAll_cons_eq_some.mp hrun
  obtain ⟨s2, hr1, h⟩ := runAll_append_eq_some.mp h
  obtain ⟨s3, hs3, h⟩ := runAll_cons_eq_some.mp h
  obtain ⟨s4, hr4, h⟩ := runAll_append_eq_some.mp h
  obtain ⟨s5, hs5, hr6⟩ := runAll_cons_eq_some.mp h
  exact reconnect_restores_steps r hst hfresh h₁ h₂ h₃ hs1 hr1 hs3 hr4 hs5 hr6

/-- **clean_discards.** If the CONNECT asks for a clean session, or the stored session is a
clean one, the connection gets a new session without topics; the stored session is closed and
none of its topics is routed to the id any more. -/
theorem clean_discards {s : St} (r : Reach s) {k : Nat} {clean : Bool} {F : List Nat} {c : Bool}
    (hst : storedSession s = some (F, c)) (hcl : clean = true ∨ c = true) :
    let s1 := connectLocked true s k clean
    (s1.sess (s1.conn k).sess).topics = [] ∧ (s1.sess (s1.conn k).sess).clean = clean ∧
    (∀ f ∈ F, f ∉ s1.topicMgr) ∧ (∀ q, s.sessMap = some q → (s1.sess q).closed = true) := by
  have hinv := reach_inv r
  have hsm' : (takeoverMark s).sessMap = s.sessMap := by cases hc : s.client <;> simp [takeoverMark, hc, setConn]
  have hse' : (takeoverMark s).sess = s.sess := by cases hc : s.client <;> simp [takeoverMark, hc, setConn]
  have hdb' : (takeoverMark s).db = s.db := by cases hc : s.client <;> simp [takeoverMark, hc, setConn]
  have htm' : (takeoverMark s).topicMgr = s.topicMgr := by cases hc : s.client <;> simp [takeoverMark, hc, setConn]
  have hn' : (takeoverMark s).nextSess = s.nextSess := by cases hc : s.client <;> simp [takeoverMark, hc, setConn]
  have hnot : (!clean && !c) = false := by rcases hcl with h | h <;> simp [h]
  unfold storedSession at hst
  simp only [connectLocked, setSession, getSess, hsm', hse', hdb', htm', hn']
  cases hsm : s.sessMap with
  | some q =>
    simp only [hsm, Option.some.injEq, Prod.mk.injEq] at hst
    obtain ⟨_, hlt⟩ := hinv.openS q hsm
    have hne : q ≠ s.nextSess := by omega
    simp only [hst.2, hnot, Bool.false_eq_true, if_false, if_true]
    refine ⟨by simp [newSession, closeSess], by simp [newSession, closeSess], ?_, ?_⟩
    · intro f hf; simp [newSession, closeSess, htm', hse', hst.1, mem_delAll, hf]
    · intro q' hq'; cases hq'; simp [newSession, closeSess, upd_other _ _ hne]
  | none =>
    simp only [hsm] at hst
    simp only [hst, hnot, Bool.false_eq_true, if_false, if_true, upd_same]
    refine ⟨by simp [newSession, closeSess], by simp [newSession, closeSess], ?_, by simp⟩
    intro f hf; simp [newSession, closeSess, htm', mem_delAll, hf]

/-- **remove_only_if_disconnected.** `removeClient` unregisters only a connection whose
status flag is Disconnected; more generally the only steps that take the registration away
from a connection are a takeover, a delete event of the session store, or `removeClient`
on a disconnected client. -/
theorem remove_only_if_disconnected {s s' : St} {a : Act} {o : Nat}
    (hs : step true s a = some s') (hc : s.client = some o) (hc' : s'.client ≠ some o) :
    (∃ k cl, a = Act.connectLocked k cl) ∨ a = Act.watchFires ∨
    ((∃ k, a = Act.remove k) ∧ (s.conn o).disc = true) := by
  cases a <;> simp only [step] at hs
  case connectLocked k cl => exact Or.inl ⟨k, cl, rfl⟩
  case watchFires => exact Or.inr (Or.inl rfl)
  case remove k =>
    split at hs <;> cases hs
    simp only [hc] at hc'
    split at hc'
    · rename_i hd; exact Or.inr (Or.inr ⟨⟨k, rfl⟩, hd⟩)
    · exact absurd (by simp [setPc, setConn, hc]) hc'
  all_goals (exfalso; apply hc')
  case refuse k => split at hs <;> cases hs; simp [setPc, setConn, hc]
  case connackFail k => split at hs <;> cases hs; simp [setPc, setConn, hc]
  case storeSess k => split at hs <;> cases hs; simp [setPc, setConn, persist, hc]
  case resubscribe k => split at hs <;> cases hs; simp [setPc, setConn, hc]
  case subscribe k f => split at hs <;> cases hs; simp [persist, hc]
  case unsubscribe k f => split at hs <;> cases hs; simp [persist, hc]
  case noticeEnd k => split at hs <;> cases hs; simp [setPc, setConn, hc]
  case cleanup k =>
    split at hs <;> cases hs
    by_cases hsup : superseded s k = true
    · simp [teardown, hsup, setPc, setConn, hc]
    · simp [teardown, hsup, teardownBody, setPc, setConn, hc]
      cases s.sessMap <;> split <;> simp [closeSess, hc]
  case close k => split at hs <;> cases hs; simp [setPc, setConn, markDisc, hc]
  case writeErr k =>
    split at hs <;> cases hs
    by_cases hsup : superseded s k = true
    · simp [teardown, hsup, markDisc, setConn, hc]
    · simp [teardown, hsup, teardownBody, markDisc, setConn, hc]
      cases s.sessMap <;> split <;> simp [closeSess, hc]
  case asyncClose k => split at hs <;> cases hs; simp [markDisc, setConn, hc]
  case adminDelete => cases hs; simp [hc]

/-- **admin_delete_disconnects.** Deleting the session through the admin endpoint removes the
persisted copy and leaves a delete event pending (so `watchFires` is enabled); when the event
is handled, whichever connection is registered for the id is marked disconnected and is
unregistered. -/
theorem admin_delete_disconnects {s s1 : St} (h : step true s Act.adminDelete = some s1) :
    s1.db = none ∧ 0 < s1.watch ∧
    ∀ {s2 s3 : St} {o : Nat}, s2.client = some o → step true s2 Act.watchFires = some s3 →
      s3.client = none ∧ (s3.conn o).disc = true := by
  simp only [step] at h; cases h
  refine ⟨rfl, Nat.succ_pos _, ?_⟩
  intro s2 s3 o hc hs
  simp only [step] at hs
  split at hs <;> cases hs
  simp [deleteSession, hc, markDisc, setConn]

/-! ### The unrepaired code violates the property (witness) -/

/-- connection 0 connects (persistent session) and subscribes topic 7; connection 1 takes the
id over and finishes its re-subscription; then the read loop of connection 0 notices its end
and runs `closeAndDelSession`. -/
def witness : List Act :=
  [.connectLocked 0 false, .storeSess 0, .resubscribe 0, .subscribe 0 7,
   .connectLocked 1 false, .asyncClose 0, .storeSess 1, .resubscribe 1,
   .noticeEnd 0, .cleanup 0]

/-- Without the patch (`fixed = false`) connection 1 is still registered, live and running,
but its session has left the session map, is closed, and topic 7 is no longer routed. -/
theorem unrepaired_violates :
    let s := runActs false BrokerSessions.init witness
    s.client = some 1 ∧ (s.conn 1).disc = false ∧ (s.conn 1).pc = Pc.running ∧
    s.sessMap = none ∧ (s.sess (s.conn 1).sess).closed = true ∧ s.topicMgr = [] ∧
    (s.sess (s.conn 1).sess).topics = [7] := by decide

/-- The same history on the repaired code keeps everything. -/
theorem repaired_keeps :
    let s := runActs true BrokerSessions.init witness
    s.client = some 1 ∧ s.sessMap = some (s.conn 1).sess ∧
    (s.sess (s.conn 1).sess).closed = false ∧ s.topicMgr = [7] := by decide

/-- With a clean old session the unrepaired teardown also emits a delete event for the id,
whose handling unregisters and disconnects the *new* connection. -/
theorem unrepaired_delete_event :
    let s := runActs false BrokerSessions.init
      [.connectLocked 0 true, .storeSess 0, .resubscribe 0, .connectLocked 1 true, .asyncClose 0,
       .storeSess 1, .resubscribe 1, .noticeEnd 0, .cleanup 0, .watchFires]
    s.client = none ∧ (s.conn 1).disc = true := by decide

/-! ### Non-vacuity -/

/-- `witness` is a history of the repaired code in which every step is enabled, so the state
it reaches is a `Reach` state that meets the hypotheses of `takeover_teardown_safe`
(`k = 1`, `j = 0`) and of `currentConnIntact`. -/
example : (runAll BrokerSessions.init witness).isSome = true := by decide

example : Reach ((runAll BrokerSessions.init witness).getD BrokerSessions.init) := by
  cases h : runAll BrokerSessions.init witness with
  | none => exact Reach.init
  | some s' => exact reach_runAll Reach.init h

/-- hypotheses of `reconnect_restores`: after connection 0 ended normally, its persistent
session with topic 7 is only in the persisted copy. -/
example :
    let s := runActs true BrokerSessions.init [.connectLocked 0 false, .storeSess 0, .resubscribe 0,
      .subscribe 0 7, .noticeEnd 0, .cleanup 0, .close 0, .remove 0]
    storedSession s = some ([7], false) ∧ s.sessMap = none ∧ s.client = none := by decide

/-- Facts regenerated from the source on every run: the repaired `closeAndDelSession` does
its teardown under the broker lock behind the ownership check, `setSession` unsubscribes a
discarded session's topics, registration and `setSession` sit in one locked section of
`handleConn`, `removeClient` deletes only a disconnected client, `deleteSession` holds the
lock. -/
theorem source_facts :
    Gen.FactsC16.extractionFailed = false ∧
    Gen.FactsC16.teardownUnderBrokerLock = true ∧
    Gen.FactsC16.teardownOwnershipCheck = true ∧
    Gen.FactsC16.setSessionUnsubscribesDiscarded = true ∧
    Gen.FactsC16.registrationAndSetSessionInOneLockedSection = true ∧
    Gen.FactsC16.removeClientChecksDisconnected = true ∧
    Gen.FactsC16.deleteSessionLocksFirst = true := by decide

/-! ### Extension mqtt: finer step granularity

`FSt`/`FAct`/`fstep` (Model/BrokerSessions.lean, second half) split every coarse step wherever the
Go code holds no common lock between two effects: the broker lock is an explicit part of the
state (`Lk`), steps that do not take it (`subTM/subSess/unsubTM/unsubSess`, `storeSess`, `doStore`,
`resubSnap/resubIns`, `close/asyncClose/wClose`, `adminDelete`) interleave with the sub-steps of a
broker-locked section (`lockConn; lkGet; lkSnap; lkUnsub` and `tdHead|wErrHead; tdSnap; tdUnsub`),
and the persisted copy is written by a separate, unordered `doStore`. A SUBSCRIBE/UNSUBSCRIBE
packet *starts* only on the registered live connection but *finishes* unconditionally. -/

/-- states reachable by fine steps of the repaired code from the empty broker -/
inductive FReach : FSt → Prop
  | init : FReach finit
  | step {s s' : FSt} (a : FAct) : FReach s → fstep s a = some s' → FReach s'

/-- **reach_inv_fine.** Every state reachable by fine steps — including the states *inside* the
broker-locked sections — satisfies `FInv`: the registered live connection (whose own write loop is
not tearing it down) owns the session-map entry, that entry is open and allocated, no
`Session.close()` hits a closed session, and the holder of the broker lock has established what
its next sub-step relies on. -/
theorem reach_inv_fine {s : FSt} (r : FReach s) : FInv s := by
  induction r with
  | init => exact finv_init
  | step a _ hs ih => exact finv_step ih hs

theorem freach_runAllF {s s' : FSt} {l : List FAct} (r : FReach s) (h : runAllF s l = some s') : FReach s' := by
  induction l generalizing s with
  | nil => simp [runAllF] at h; subst h; exact r
  | cons a rest ih =>
    obtain ⟨s1, h1, h2⟩ := runAllF_cons_eq_some.mp h
    exact ih (FReach.step a r h1) h2

/-- `CurrentConnIntact` without its routing clause, at fine granularity, unconditionally: the
session of the registered, live, running connection is the one in the session map and is open. -/
theorem currentConn_session_fine {s : FSt} (r : FReach s) {k : Nat} (hc : s.base.client = some k)
    (hd : (s.base.conn k).disc = false) (hw : (s.fc k).wl = false) (hr : (s.base.conn k).pc = Pc.running) :
    s.base.sessMap = some (s.base.conn k).sess ∧ (s.base.sess (s.base.conn k).sess).closed = false := by
  have h := reach_inv_fine r
  have hsm := h.owns k hc hd hw (by simp [hr, Pc.active])
  exact ⟨hsm, (h.openS _ hsm).1⟩

theorem no_double_close_fine {s : FSt} (r : FReach s) : s.base.doubleClose = false := (reach_inv_fine r).noDouble

/-- **takeover_teardown_safe_fine.** Connection `k` is registered and live. No *fine* teardown step
of another connection `j` (read loop noticing the end; the three broker-locked sub-steps of
`closeAndDelSession` from the read loop's defer or from the write loop; `c.close()` from either;
`removeClient`; the asynchronous `go oldClient.close()`), taken at any point of any fine history,
changes the registration, the session map, any session object, the persisted copy, the pending
delete events, the TopicManager, the stores in flight, the broker lock or `k`'s own records. -/
theorem takeover_teardown_safe_fine {s s' : FSt} {k j : Nat} {a : FAct} (r : FReach s)
    (hc : s.base.client = some k) (hj : j ≠ k) (hlive : (s.base.conn k).disc = false)
    (ha : IsTeardownOfF j a) (hs : fstep s a = some s') :
    s'.base.client = some k ∧ s'.base.sessMap = s.base.sessMap ∧ s'.base.sess = s.base.sess ∧
    s'.base.db = s.base.db ∧ s'.base.watch = s.base.watch ∧ s'.base.topicMgr = s.base.topicMgr ∧
    s'.base.conn k = s.base.conn k ∧ s'.fc k = s.fc k ∧ s'.storeQ = s.storeQ ∧ s'.lock = s.lock := by
  have f := superseded_frame_fine (reach_inv_fine r) hc hj hlive ha hs
  exact ⟨f.base.client.trans hc, f.base.sessMap, f.base.sess, f.base.db, f.base.watch, f.base.topicMgr,
    f.base.conn, f.fc, f.storeQ, f.lock⟩

/-- **reconnect_restores_fine.** The stored session of the id is persistent with topics `F`; a new
connection `k` connects with cleanSession=false. For *every* placement `t₁ … t₅` of fine teardown
steps of other connections around `k`'s own fine steps — also inside `k`'s broker-locked section
and between its topic snapshot and the insertion into the TopicManager — connection `k` ends
registered and in its read loop, with a session holding exactly `F` that is the open one in the
session map, and every topic of `F` is routed. -/
theorem reconnect_restores_fine {s s' : FSt} (r : FReach s) {k : Nat} {F : List Nat}
    {t₁ t₂ t₃ t₄ t₅ : List FAct}
    (hst : storedSess s.base = some (F, false)) (hfresh : (s.base.conn k).disc = false)
    (h₁ : OthersTeardownF k t₁) (h₂ : OthersTeardownF k t₂) (h₃ : OthersTeardownF k t₃)
    (h₄ : OthersTeardownF k t₄) (h₅ : OthersTeardownF k t₅)
    (hrun : runAllF s (FAct.lockConn k false :: (t₁ ++ FAct.lkGet k :: (t₂ ++ FAct.storeSess k :: (t₃ ++
      FAct.resubSnap k :: (t₄ ++ FAct.resubIns k :: t₅))))) = some s') :
    s'.base.client = some k ∧ s'.base.sessMap = some (s'.base.conn k).sess ∧
    (s'.base.sess (s'.base.conn k).sess).topics = F ∧ (s'.base.sess (s'.base.conn k).sess).closed = false ∧
    (s'.base.conn k).pc = Pc.running ∧ ∀ f ∈ F, f ∈ s'.base.topicMgr := by
  obtain ⟨s1, hs1, h⟩ := runAllF_cons_eq_some.mp hrun
  obtain ⟨s2, hr1, h⟩ := runAllF_append_eq_some.mp h
  obtain ⟨s3, hs2, h⟩ := runAllF_cons_eq_some.mp h
  obtain ⟨s4, hr3, h⟩ := runAllF_append_eq_some.mp h
  obtain ⟨s5, hs4, h⟩ := runAllF_cons_eq_some.mp h
  obtain ⟨s6, hr5, h⟩ := runAllF_append_eq_some.mp h
  obtain ⟨s7, hs6, h⟩ := runAllF_cons_eq_some.mp h
  obtain ⟨s8, hr7, h⟩ := runAllF_append_eq_some.mp h
  obtain ⟨s9, hs8, hr9⟩ := runAllF_cons_eq_some.mp h
  have hi := reach_inv_fine r
  obtain ⟨q, g3, _, _, _⟩ := connect_reuses_fine hi hst hfresh h₁ hs1 hr1 hs2
  have hi3 : FInv s3 := finv_step (finv_runAllF (finv_step hi hs1) hr1) hs2
  obtain ⟨g, htm, hpc⟩ := reconnect_tail_fine hi3 g3 h₂ h₃ h₄ h₅ hr3 hs4 hr5 hs6 hr7 hs8 hr9
  refine ⟨g.client, ?_, ?_, ?_, hpc, htm⟩
  · rw [g.mine]; exact g.inMap
  · rw [g.mine]; exact g.topics
  · rw [g.mine]; exact g.opened

/-- **Finding at fine granularity (`routing clause of CurrentConnIntact is false`).** Connection 0
is in the middle of a SUBSCRIBE for topic 7 (`topicMgr.subscribe` done, `session.subscribe` not
yet: client.go:360/365 share no lock) when connection 1 takes the id over reusing the session,
re-subscribes, and UNSUBSCRIBEs topic 7 completely; then connection 0's `session.subscribe` runs.
Connection 1 is registered, live and in its read loop, its session is the open one in the map —
and holds topic 7, which the TopicManager does not route. -/
def fineWitness : List FAct :=
  [.lockConn 0 false, .lkGet 0, .storeSess 0, .resubSnap 0, .resubIns 0,
   .subTM 0 7,
   .lockConn 1 false, .lkGet 1, .asyncClose 0, .storeSess 1, .resubSnap 1, .resubIns 1,
   .unsubTM 1 7, .unsubSess 1,
   .subSess 0]

theorem routing_fails_fine :
    (runAllF finit fineWitness).isSome = true ∧
    (let s := (runActsF finit fineWitness).base
     s.client = some 1 ∧ (s.conn 1).disc = false ∧ (s.conn 1).pc = Pc.running ∧
     s.sessMap = some (s.conn 1).sess ∧ (s.sess (s.conn 1).sess).closed = false ∧
     (s.sess (s.conn 1).sess).topics = [7] ∧ s.topicMgr = []) := by decide

/-! #### Non-vacuity (fine) -/

/-- a fine history in which every step is enabled: connection 0 connects and subscribes 7;
connection 1 takes over *while connection 0's teardown is interleaved with its sub-steps*. The
state before `tdHead 0` meets the hypotheses of `takeover_teardown_safe_fine` (`k = 1`, `j = 0`). -/
def fineTakeover : List FAct :=
  [.lockConn 0 false, .lkGet 0, .storeSess 0, .doStore 0, .resubSnap 0, .resubIns 0,
   .subTM 0 7, .subSess 0, .doStore 0,
   .lockConn 1 false, .asyncClose 0, .lkGet 1, .noticeEnd 0, .storeSess 1, .tdHead 0, .resubSnap 1,
   .close 0, .resubIns 1, .remove 0]

example : (runAllF finit fineTakeover).isSome = true := by decide

example :
    let s := (runActsF finit fineTakeover).base
    s.client = some 1 ∧ (s.conn 1).pc = Pc.running ∧ s.sessMap = some (s.conn 1).sess ∧
    (s.sess (s.conn 1).sess).topics = [7] ∧ s.topicMgr = [7] ∧ s.db = some ([7], false) := by decide

example : FReach ((runAllF finit fineTakeover).getD finit) := by
  cases h : runAllF finit fineTakeover with
  | none => exact FReach.init
  | some s' => exact freach_runAllF FReach.init h

/-- hypotheses of `reconnect_restores_fine`: after connection 0 ended normally its persistent
session with topic 7 lives only in the persisted copy; the run of the theorem (with empty `tᵢ`) is
enabled. -/
example :
    let s := runActsF finit [.lockConn 0 false, .lkGet 0, .storeSess 0, .doStore 0, .resubSnap 0, .resubIns 0,
      .subTM 0 7, .subSess 0, .doStore 0, .noticeEnd 0, .tdHead 0, .tdSnap 0, .tdUnsub 0, .close 0, .remove 0]
    storedSess s.base = some ([7], false) ∧ s.base.sessMap = none ∧ s.base.client = none ∧ s.lock = Lk.free ∧
    (runAllF s [.lockConn 1 false, .lkGet 1, .storeSess 1, .resubSnap 1, .resubIns 1]).isSome = true := by decide

/-! ### Extension mqtt: regenerated tie by translation (irlib, `harness/factextract/facts_c16_ir.go`)

`Gen/FactsC16IR.lean` is translated from the bodies of the Go functions on every run; the theorems state that
the translation equals the corresponding part of the model for ALL states (proofs: `Proofs/BrokerSessionsIR.lean`). -/

/-- `SessionManager.delLocal` -/
theorem delLocal_regenerated_from_source (s : St) :
    Gen.FactsC16IR.extractionFailed = false ∧ Gen.FactsC16IR.delLocalIR s = Gen.FactsC16IR.delLocalM s :=
  ⟨by decide, BrokerSessions.delLocal_regenerated_from_source s⟩

/-- **`Client.closeAndDelSession`** = the `cleanup` step (ownership guard "is this still the current client",
fix 924acbc) followed by the `close` step: session map, persisted copy and subscriptions are torn down only if
no other connection is registered for the id. -/
theorem closeAndDel_regenerated_from_source (s : St) (k : Nat) :
    Gen.FactsC16IR.extractionFailed = false ∧
    Gen.FactsC16IR.closeAndDelIR s k = markDisc (teardown true s k) k :=
  ⟨by decide, BrokerSessions.closeAndDel_regenerated_from_source s k⟩

/-- `Broker.removeClient` = the state change of the `remove` step -/
theorem removeClient_regenerated_from_source (s : St) (k : Nat) (h : (s.conn k).pc = Pc.closed) :
    Gen.FactsC16IR.extractionFailed = false ∧
    step true s (.remove k) = some (setPc (Gen.FactsC16IR.removeClientIR s) k Pc.done) :=
  ⟨by decide, BrokerSessions.remove_step_regenerated_from_source s k h⟩

/-- `Broker.deleteSession` = the model's `deleteSession` (hypothesis: no `go oldClient.close()` still pending for
an already disconnected registered client — the model would additionally clear that no-op request;
`deleteSession_regenerated_from_source_gen` in Proofs states the general form without hypothesis). -/
theorem deleteSession_regenerated_from_source (s : St)
    (h : ∀ o, s.client = some o → (s.conn o).disc = true → (s.conn o).closeReq = false) :
    Gen.FactsC16IR.extractionFailed = false ∧ Gen.FactsC16IR.deleteSessionIR s = deleteSession s :=
  ⟨by decide, BrokerSessions.deleteSession_regenerated_from_source s h⟩

/-- **`Broker.setSession`**: which session object survives a (re)connect / takeover -/
theorem setSession_regenerated_from_source (s : St) (k : Nat) (clean : Bool) :
    Gen.FactsC16IR.extractionFailed = false ∧ Gen.FactsC16IR.setSessionIR s k clean = setSession true s k clean :=
  ⟨by decide, BrokerSessions.setSession_regenerated_from_source s k clean⟩

/-- non-vacuity: on the takeover state (connection 1 registered, connection 0 superseded) the generated
`closeAndDelSession` of connection 0 leaves session map and TopicManager alone; of connection 1 it clears them -/
example :
    let s := runActs true BrokerSessions.init [.connectLocked 0 false, .storeSess 0, .resubscribe 0, .subscribe 0 7,
      .connectLocked 1 false, .storeSess 1, .resubscribe 1]
    (Gen.FactsC16IR.closeAndDelIR s 0).sessMap = s.sessMap ∧ (Gen.FactsC16IR.closeAndDelIR s 0).topicMgr = [7] ∧
    (Gen.FactsC16IR.closeAndDelIR s 1).sessMap = none ∧ (Gen.FactsC16IR.closeAndDelIR s 1).topicMgr = [] := by decide

/-! #### The routing clause at fine granularity (partial) and refinement -/

/-- fine histories in which no SUBSCRIBE/UNSUBSCRIBE packet in flight is *finished* after its
connection has been superseded (`straddles`): the excluding hypothesis of `routing_fails_fine` -/
inductive FReachNS : FSt → Prop
  | init : FReachNS finit
  | step {s s' : FSt} (a : FAct) : FReachNS s → straddles s a = false → fstep s a = some s' → FReachNS s'

theorem freachNS_toFReach {s : FSt} (r : FReachNS s) : FReach s := by
  induction r with
  | init => exact FReach.init
  | step a _ _ hs ih => exact FReach.step a ih hs

theorem reach_routed_fine {s : FSt} (r : FReachNS s) : FRt s := by
  induction r with
  | init => exact frt_init
  | step a r0 hns hs ih => exact frt_step (reach_inv_fine (freachNS_toFReach r0)) ih hs hns

/-- **currentConnIntact_fine_partial.** (Full statement = the same for every `FReach` state; it is
FALSE, see `routing_fails_fine`.) In every state of a fine history without a straddling packet:
the registered, live connection in its read loop, whose write loop is not tearing it down, has
its session in the session map, open, and every topic of it is routed by the TopicManager or is
the topic of its *own* UNSUBSCRIBE in flight (between client.go:381 and :385). -/
theorem currentConnIntact_fine_partial {s : FSt} (r : FReachNS s) {k : Nat} (hc : s.base.client = some k)
    (hd : (s.base.conn k).disc = false) (hw : (s.fc k).wl = false) (hr : (s.base.conn k).pc = Pc.running) :
    s.base.sessMap = some (s.base.conn k).sess ∧ (s.base.sess (s.base.conn k).sess).closed = false ∧
    ∀ f ∈ (s.base.sess (s.base.conn k).sess).topics, f ∈ s.base.topicMgr ∨ (s.fc k).pend = some (false, f) := by
  obtain ⟨h1, h2⟩ := currentConn_session_fine (freachNS_toFReach r) hc hd hw hr
  exact ⟨h1, h2, (reach_routed_fine r).routed k hc hd hw hr⟩

/-- the witness of `routing_fails_fine` is excluded only by its last step -/
example : straddles (runActsF finit fineWitness.dropLast) (FAct.subSess 0) = true := by decide

/-- `fineTakeover` is a history without straddling packet (every step enabled, none straddles) -/
def nsRun : FSt → List FAct → Bool
  | _, [] => true
  | s, a :: rest => !straddles s a && (match fstep s a with | some s' => nsRun s' rest | none => false)

example : nsRun finit fineTakeover = true := by decide

/-- **coarse_history_is_fine.** Refinement: every state reachable by the coarse steps (`Reach`) is
the `base` of a state reachable by fine steps in which nothing is in flight — each coarse step is
the run `expandF` of its fine steps with nothing scheduled in between. Hence everything proved for
all fine histories holds for all coarse ones, and the coarse model adds no behaviour. -/
theorem coarse_history_is_fine {s : St} (r : Reach s) : ∃ fs, FReach fs ∧ fs.base = s ∧ Quiet fs := by
  induction r with
  | init => exact ⟨finit, FReach.init, rfl, rfl, rfl, fun _ => rfl⟩
  | step a _ hs ih =>
    obtain ⟨fs, fr, hb, q⟩ := ih
    subst hb
    obtain ⟨fs', hrun, hb', q'⟩ := coarse_refines q hs
    exact ⟨fs', freach_runAllF fr hrun, hb', q'⟩

/-- non-vacuity: the coarse `witness` history, expanded -/
example : ∃ fs, FReach fs ∧ fs.base.client = some 1 ∧ Quiet fs := by
  have hcl : (runAll BrokerSessions.init witness).map (·.client) = some (some 1) := by decide
  cases h : runAll BrokerSessions.init witness with
  | none => rw [h] at hcl; cases hcl
  | some s =>
    rw [h] at hcl
    obtain ⟨fs, fr, hb, q⟩ := coarse_history_is_fine (reach_runAll Reach.init h)
    exact ⟨fs, fr, by rw [hb]; exact Option.some.inj hcl, q⟩

/-! #### Lock scopes regenerated from the source (extension mqtt, `harness/factextract/facts_c16_locks.go`) -/

/-- position of the first occurrence -/
def firstIdx (l : List (String × String)) (a : String × String) : Nat :=
  match l with
  | [] => 0
  | x :: r => if x == a then 0 else firstIdx r a + 1

/-- both accesses occur and the first `a` precedes the first `b` in control-flow order -/
def evBefore (l : List (String × String)) (a b : String × String) : Bool :=
  l.contains a && l.contains b && decide (firstIdx l a < firstIdx l b)

/-- **lock_scopes.** The lock-scope list the fine model assumes, regenerated from the working tree
on every run (`(locks held, access)`; a lock is named by the type embedding the mutex):

* `handleConn`: under the broker lock exactly the accesses to `b.clients`, `go oldClient.close()` and
  `setSession` (= `lockConn … lkUnsub`); without any lock, after it, `updateEGName` (`storeSess`), then
  `allSubscribes` (`resubSnap`) before `topicMgr.subscribe` (`resubIns`) before `readLoop`;
  `setSession` takes no lock itself, calls `sessMgr.get` first and `allSubscribes` before
  `topicMgr.unsubscribe`;
* `closeAndDelSession`: ownership check, `delLocal`, `delDB`, `allSubscribes`, `topicMgr.unsubscribe`
  all under the broker lock (`tdHead; tdSnap; tdUnsub`), `c.close()` after it without (`close`/`wClose`);
* `removeClient`, `deleteSession`: every access under the broker lock (one step each);
* `processSubscribe`/`processUnsubscribe`: no lock of their own; the TopicManager call precedes the
  Session call (`subTM; subSess`, `unsubTM; unsubSess`);
* `Session.subscribe/unsubscribe/updateEGName`: topics update and `store()` under the Session lock;
  `store()` hands the encoded value to a goroutine (`doStore` is a separate, later step);
  `allSubscribes` reads the topics under the Session lock; `Client.close` flips the status flag and
  closes `done` under the Client lock; the TopicManager methods work under the TopicManager lock;
  the SessionManager methods take no lock (sync.Map / store operations). -/
theorem lock_scopes :
    Gen.FactsC16Locks.extractionFailed = false ∧
    -- handleConn
    Gen.FactsC16Locks.handleConnRegions =
      [("", ["Broker.connectionValidation", "Client.readLoop", "Session.allSubscribes", "Session.updateEGName",
             "TopicManager.subscribe", "go Client.writeLoop"]),
       ("Broker", ["Broker.clients.len", "Broker.clients.load", "Broker.clients.store", "Broker.setSession",
                   "go Client.close"])] ∧
    evBefore Gen.FactsC16Locks.handleConnEvents ("Broker", "Broker.setSession") ("", "Session.updateEGName") = true ∧
    evBefore Gen.FactsC16Locks.handleConnEvents ("Broker", "Broker.clients.store") ("", "Session.updateEGName") = true ∧
    evBefore Gen.FactsC16Locks.handleConnEvents ("", "Session.allSubscribes") ("", "TopicManager.subscribe") = true ∧
    evBefore Gen.FactsC16Locks.handleConnEvents ("", "Session.updateEGName") ("", "Client.readLoop") = true ∧
    evBefore Gen.FactsC16Locks.handleConnEvents ("", "TopicManager.subscribe") ("", "Client.readLoop") = true ∧
    Gen.FactsC16Locks.setSessionRegions =
      [("", ["Session.allSubscribes", "Session.cleanSession", "Session.close", "SessionManager.get",
             "SessionManager.newSessionFromConn", "TopicManager.unsubscribe"])] ∧
    evBefore Gen.FactsC16Locks.setSessionEvents ("", "SessionManager.get") ("", "Session.allSubscribes") = true ∧
    evBefore Gen.FactsC16Locks.setSessionEvents ("", "Session.allSubscribes") ("", "TopicManager.unsubscribe") = true ∧
    -- closeAndDelSession, removeClient, deleteSession, Client.close
    Gen.FactsC16Locks.closeAndDelSessionRegions =
      [("", ["Client.close"]),
       ("Broker", ["Broker.clients.load", "Session.allSubscribes", "Session.cleanSession", "SessionManager.delDB",
                   "SessionManager.delLocal", "TopicManager.unsubscribe"])] ∧
    evBefore Gen.FactsC16Locks.closeAndDelSessionEvents ("Broker", "Session.allSubscribes")
      ("Broker", "TopicManager.unsubscribe") = true ∧
    evBefore Gen.FactsC16Locks.closeAndDelSessionEvents ("Broker", "TopicManager.unsubscribe") ("", "Client.close") = true ∧
    Gen.FactsC16Locks.removeClientRegions =
      [("Broker", ["Broker.clients.delete", "Broker.clients.load", "Client.disconnected"])] ∧
    Gen.FactsC16Locks.deleteSessionRegions =
      [("Broker", ["Broker.clients.delete", "Broker.clients.load", "Client.close", "Client.disconnected"])] ∧
    Gen.FactsC16Locks.clientCloseRegions.lookup "Client" =
      some ["Client.disconnected", "Client.done.close", "Client.statusFlag.atomicStore"] := by decide

/-- `lock_scopes`, continued: packet processing (no lock of its own, TopicManager before Session) -/
theorem lock_scopes_packets :
    Gen.FactsC16Locks.extractionFailed = false ∧
    Gen.FactsC16Locks.processSubscribeRegions =
      [("", ["Client.writePacket", "Session.subscribe", "TopicManager.subscribe"])] ∧
    evBefore Gen.FactsC16Locks.processSubscribeEvents ("", "TopicManager.subscribe") ("", "Session.subscribe") = true ∧
    Gen.FactsC16Locks.processUnsubscribeRegions =
      [("", ["Client.writePacket", "Session.unsubscribe", "TopicManager.unsubscribe"])] ∧
    evBefore Gen.FactsC16Locks.processUnsubscribeEvents ("", "TopicManager.unsubscribe") ("", "Session.unsubscribe") = true := by
  decide

/-- `lock_scopes`, continued: the own-lock scopes of Session / TopicManager, the lock-free
SessionManager, the asynchronous store -/
theorem lock_scopes_inner :
    Gen.FactsC16Locks.extractionFailed = false ∧
    Gen.FactsC16Locks.sessionSubscribeRegions = [("Session", ["Session.store", "SessionInfo.Topics.store"])] ∧
    Gen.FactsC16Locks.sessionUnsubscribeRegions = [("Session", ["Session.store", "SessionInfo.Topics.delete"])] ∧
    Gen.FactsC16Locks.sessionAllSubscribesRegions = [("Session", ["SessionInfo.Topics.range"])] ∧
    Gen.FactsC16Locks.sessionUpdateEGNameRegions = [("Session", ["Session.store"])] ∧
    Gen.FactsC16Locks.sessionStoreRegions = [("", ["Session.encode", "go Session.storeCh.send"])] ∧
    Gen.FactsC16Locks.sessMgrGetRegions =
      [("", ["SessionManager.newSessionFromYaml", "storage.get", "sync.Map.Load", "sync.Map.Store"])] ∧
    Gen.FactsC16Locks.sessMgrDelLocalRegions = [("", ["Session.close", "sync.Map.LoadAndDelete"])] ∧
    Gen.FactsC16Locks.sessMgrDelDBRegions = [("", ["storage.delete"])] ∧
    Gen.FactsC16Locks.sessMgrNewSessionFromConnRegions = [("", ["sync.Map.Store"])] ∧
    evBefore Gen.FactsC16Locks.sessMgrDoStoreEvents ("", "SessionManager.storeCh.recv") ("", "storage.put") = true ∧
    Gen.FactsC16Locks.topicMgrSubscribeRegions = [("TopicManager", ["TopicManager.getLevels", "TopicManager.insert"])] ∧
    Gen.FactsC16Locks.topicMgrUnsubscribeRegions = [("TopicManager", ["TopicManager.remove"])] := by decide

/-- non-vacuity of `evBefore`: it is false for the reversed pair -/
example : evBefore Gen.FactsC16Locks.processSubscribeEvents ("", "Session.subscribe") ("", "TopicManager.subscribe") = false := by
  decide

/-- **`Broker.handleConn`** — the whole connect program (first packet, validation, the locked section with
the takeover mark / cap check / registration / `setSession`, CONNACK, `updateEGName`, re-subscription from the
session, `readLoop`): refused for any reason ⇒ the broker state is untouched; CONNACK cannot be written ⇒ exactly
`connectLocked`; otherwise `connectLocked`, then the tail `connectTail`. -/
theorem handleConn_regenerated_from_source (s : St) (k : Nat) (clean readOK isConnect valid connackOK : Bool)
    (nclients maxConn : Int) :
    Gen.FactsC16IR.extractionFailed = false ∧
    Gen.FactsC16IR.handleConnIR s k clean readOK isConnect valid connackOK nclients maxConn =
      if accepted s readOK isConnect valid nclients maxConn then
        (if connackOK then connectTail (connectLocked true s k clean) k else connectLocked true s k clean)
      else s :=
  ⟨by decide, BrokerSessions.handleConn_regenerated_from_source s k clean readOK isConnect valid connackOK nclients maxConn⟩

/-- …and the accepted, acknowledged path is the model's atomic steps `connectLocked k; storeSess k; resubscribe k`
executed one after the other (what the interleaving theorems then break up). -/
theorem handleConn_is_three_steps (s : St) (k : Nat) (clean : Bool) (h : (s.conn k).pc = Pc.new) :
    ((step true s (.connectLocked k clean)).bind (fun s1 => step true s1 (.storeSess k))).bind
        (fun s2 => step true s2 (.resubscribe k)) =
      some (Gen.FactsC16IR.handleConnIR s k clean true true true true 0 0) := by
  rw [BrokerSessions.handleConn_steps_regenerated_from_source s k clean h,
    BrokerSessions.handleConn_regenerated_from_source]
  simp [accepted]

/-! ### Extension mqtt: the QoS of restored subscriptions (`Model/SessionQoS.lean`)

The step model above tracks *filters*. "A client that reconnects with cleanSession=false gets its previous
subscriptions back" is about filter AND QoS: re-subscribing a filter at another QoS must survive the reconnect
(seeded change C15-m4: the session was persisted only when the SET of filters changed). -/

open EgVerif.SessionQoS in
/-- **Reconnect restores filter and QoS — every history.** After ANY history of SUBSCRIBE packets (any filters,
any QoS, re-subscriptions at another QoS included), UNSUBSCRIBE packets and persistent reconnects, the persisted
copy equals the live map and the routing table agrees with it; hence one more normal end + CONNECT with
cleanSession=false restores, in the session, in the persisted copy and in the TopicManager, exactly the live
subscriptions at disconnect — filter and QoS. -/
theorem reconnect_restores_qos (evs : List SessionQoS.Ev) :
    let s := evRun Q.init evs
    (step (step s .dropPersistent) .resume).live = s.live ∧
    (step (step s .dropPersistent) .resume).db = s.live ∧
    (∀ f, EgVerif.Topic.alGet f (step (step s .dropPersistent) .resume).tm = EgVerif.Topic.alGet f s.live) ∧
    s.db = s.live ∧ (∀ f, EgVerif.Topic.alGet f s.tm = EgVerif.Topic.alGet f s.live) := by
  intro s
  have inv := inv_evRun evs inv_init
  obtain ⟨h1, h2, h3⟩ := SessionQoS.reconnect_restores inv
  exact ⟨h1, h2, h3, inv.db, inv.tm⟩

open EgVerif.SessionQoS in
/-- **…and that QoS is the one last asked for**: after any such history, the QoS of a filter in the live session
(hence in the persisted copy and the routing table) is that of the latest SUBSCRIBE naming it, unless a later
UNSUBSCRIBE removed it; reconnects do not matter. This is the check the judge applies to every observed snapshot
(`qosCheck` in `Driver/C16.lean`). -/
theorem qos_is_last_subscribed (evs : List SessionQoS.Ev) (f : Nat) :
    EgVerif.Topic.alGet f (evRun Q.init evs).live = wantedAll (fun _ => none) evs f ∧
    EgVerif.Topic.alGet f (evRun Q.init evs).tm = wantedAll (fun _ => none) evs f ∧
    EgVerif.Topic.alGet f (evRun Q.init evs).db = wantedAll (fun _ => none) evs f := by
  have h := live_eq_wanted evs (fun _ => none) inv_init (fun _ => rfl) f
  have inv := inv_evRun evs inv_init
  exact ⟨h, by rw [inv.tm f, h], by rw [inv.db, h]⟩

/-- `Session.subscribe` regenerated from source: all filters written with their QoS, then stored unconditionally -/
theorem sessSubscribe_regenerated_from_source (fs : List (Nat × Nat)) (live db : SessionQoS.TMap) :
    Gen.FactsC16IR.extractionFailed = false ∧
    Gen.FactsC16IR.sessSubscribeIR (fs.map Prod.fst) (fs.map Prod.snd) live db = SessionQoS.sessSubscribe fs live :=
  ⟨by decide, SessionQoS.sessSubscribe_regenerated_from_source fs live db⟩

/-- `Session.unsubscribe` regenerated from source -/
theorem sessUnsubscribe_regenerated_from_source (fs : List Nat) (live db : SessionQoS.TMap) :
    Gen.FactsC16IR.extractionFailed = false ∧
    Gen.FactsC16IR.sessUnsubscribeIR fs live db = SessionQoS.sessUnsubscribe fs live :=
  ⟨by decide, SessionQoS.sessUnsubscribe_regenerated_from_source fs live db⟩

/-- `Session.allSubscribes` regenerated from source -/
theorem allSubscribes_regenerated_from_source (live : SessionQoS.TMap) :
    Gen.FactsC16IR.extractionFailed = false ∧ Gen.FactsC16IR.allSubscribesIR live = SessionQoS.allSubs live :=
  ⟨by decide, SessionQoS.allSubscribes_regenerated_from_source live⟩

/-- non-vacuity: subscribe 7@0, re-subscribe 7@1 (same filter set!), 9@0, unsubscribe 9, reconnect: topic 7 is
restored with QoS 1 everywhere -/
example :
    let s := SessionQoS.evRun SessionQoS.Q.init
      [.subscribe [(7, 0)], .subscribe [(7, 1), (9, 0)], .unsubscribe [9], .reconnect]
    s.live = [(7, 1)] ∧ s.db = [(7, 1)] ∧ s.tm = [(7, 1)] := by decide

/-! ### Extension mqtt round 2: origin of delete events

`OSt` / `ostep` (end of `Model/BrokerSessions.lean`) add to the coarse model the ORIGIN of every queued delete
event of the session store: the teardown of a connection (`delDB` of a clean session) or the admin endpoint.
`ostep false` is the CURRENT code (every delivered event runs `deleteSession`; this is what the judge
replays); `ostep true` is the PROPOSED repair `fixes/C16-own-delete-event.patch`, which is NOT applied to
/repo — the theorems about it are labelled "proposed repair" and say what the patch would and would not
achieve. The clause of C16 "the teardown of the superseded connection, whenever it happens, never removes the
new connection's … registration" FAILS on the current code: `stale_teardown_event_disconnects_new_connection`
(known finding `C16-own-delete-event`). -/

/-- states of the model with origins reachable from the empty broker; `fixed = false`: the current code,
`fixed = true`: with the proposed repair (the takeover-teardown patch is in either way) -/
inductive OReach (fixed : Bool) : OSt → Prop
  | init : OReach fixed oinit
  | step {s s' : OSt} (a : Act) : OReach fixed s → ostep fixed s a = some s' → OReach fixed s'

theorem oreach_inv {fixed : Bool} {s : OSt} (r : OReach fixed s) : OInv fixed s := by
  induction r with
  | init => exact oinv_init fixed
  | step a _ hs ih => exact oinv_step ih hs

/-- **origin_queue_sound.** In every reachable state (current code and proposed repair): the ghost queue
lists exactly the events in flight; the counter of the proposed repair never exceeds the number of queued
teardown-origin events (and is 0 in the current code); the connection whose teardown emitted a queued event
has ended (it is past its read loop or disconnected); and the base state still satisfies the invariant of
the coarse model — the registered, live, re-subscribed connection has its open session in the session map
with all its topics routed, and no `Session.close()` hit a closed session. -/
theorem origin_queue_sound {fixed : Bool} {s : OSt} (r : OReach fixed s) :
    s.origins.length = s.base.watch ∧ s.own ≤ countT s.origins ∧ (fixed = false → s.own = 0) ∧
    (∀ j, Origin.teardownOf j ∈ s.origins → ended s.base j) ∧
    (∀ k, s.base.client = some k → (s.base.conn k).disc = false → (s.base.conn k).pc = Pc.running →
      s.base.sessMap = some (s.base.conn k).sess ∧ (s.base.sess (s.base.conn k).sess).closed = false ∧
      ∀ f ∈ (s.base.sess (s.base.conn k).sess).topics, f ∈ s.base.topicMgr) ∧
    s.base.doubleClose = false := by
  have h := oreach_inv r
  refine ⟨h.len, h.ownLe, h.ownZero, h.tdEnded, ?_, h.inv.noDouble⟩
  intro k hc hd hr
  have hsm := h.inv.owns k hc hd (by simp [hr, Pc.active])
  exact ⟨hsm, (h.inv.openS _ hsm).1, h.inv.routed k hc hd hr⟩

/-- the run of notes/AUDIT.md: connection 0 (clean session) ends, its teardown runs (`delDB` ⇒ a delete
event) but its `c.close()` / `removeClient` are still pending; connection 1 takes the id over and
subscribes; then the event fires. -/
def staleTakeover : List Act :=
  [.connectLocked 0 true, .storeSess 0, .resubscribe 0, .noticeEnd 0, .cleanup 0,
   .connectLocked 1 true, .storeSess 1, .resubscribe 1, .subscribe 1 7, .close 0, .remove 0, .watchFires]

/-- plain reconnect: connection 0 is completely gone before connection 1 connects -/
def staleReconnect : List Act :=
  [.connectLocked 0 true, .storeSess 0, .resubscribe 0, .noticeEnd 0, .cleanup 0, .close 0, .remove 0,
   .connectLocked 1 true, .storeSess 1, .resubscribe 1, .subscribe 1 7, .watchFires]

/-- **The current code violates the property** (witness; every step of both runs is enabled): the event that
fires last was emitted by connection 0's own teardown (`teardownOf 0`), connection 1 is registered, live and
in its read loop — and the event disconnects and unregisters connection 1. Known finding
`C16-own-delete-event`, judge sig `stale-teardown-event:new-connection-disconnected`. This is the negation
witness of the unconditional form of `teardown_event_never_disconnects_partial`. -/
theorem stale_teardown_event_disconnects_new_connection :
    (∀ l ∈ [staleTakeover, staleReconnect],
      ((orunAll false oinit l.dropLast).map (fun s =>
        decide (s.origins = [Origin.teardownOf 0] ∧ s.base.client = some 1 ∧ (s.base.conn 1).disc = false ∧
          (s.base.conn 1).pc = Pc.running))) = some true ∧
      ((orunAll false oinit l).map (fun s =>
        decide (s.base.client = none ∧ (s.base.conn 1).disc = true))) = some true) := by decide

/-- a **stale delivery**: the step delivers a teardown-origin delete event of connection `j` while ANOTHER
connection is registered under the id — one that registered after `j`'s teardown emitted the event -/
def staleDelivery (s : OSt) : Act → Bool
  | .watchFires =>
    match s.origins, s.base.client with
    | Origin.teardownOf j :: _, some k => k != j
    | _, _ => false
  | _ => false

/-- histories of the CURRENT code in which no teardown-origin delete event is delivered after a later
connection registered under the id -/
inductive OReachNoStale : OSt → Prop
  | init : OReachNoStale oinit
  | step {s s' : OSt} (a : Act) : OReachNoStale s → staleDelivery s a = false → ostep false s a = some s' →
      OReachNoStale s'

theorem noStale_reach {s : OSt} (r : OReachNoStale s) : OReach false s := by
  induction r with
  | init => exact OReach.init
  | step a _ _ hs ih => exact OReach.step a ih hs

/-- **teardown_event_never_disconnects_partial** — the CURRENT code, with the excluding hypothesis spelled
out: the history (and the step at hand) delivers no teardown-origin delete event after a later connection
registered under the id (`staleDelivery … = false`). Then the delivery of a teardown-origin event of
connection `j` is harmless: `j` has ended (it is past its read loop, or disconnected); the session map, every
session object, the persisted copy and the TopicManager are untouched; the record of every connection other
than `j` is untouched and none of them is registered; and every connection that is registered, live and
between registration and the end of its read loop (`alive`) before the step still is afterwards.

The unconditional statement is FALSE for the current code: `stale_teardown_event_disconnects_new_connection`
(known finding `C16-own-delete-event`). -/
theorem teardown_event_never_disconnects_partial {s s' : OSt} (r : OReachNoStale s) {j : Nat} {rest : List Origin}
    (ho : s.origins = Origin.teardownOf j :: rest) (hno : staleDelivery s Act.watchFires = false)
    (hs : ostep false s Act.watchFires = some s') :
    ended s.base j ∧ s'.base.sessMap = s.base.sessMap ∧ s'.base.sess = s.base.sess ∧ s'.base.db = s.base.db ∧
    s'.base.topicMgr = s.base.topicMgr ∧
    (∀ k, k ≠ j → s'.base.conn k = s.base.conn k ∧ s.base.client ≠ some k) ∧
    (∀ k, alive s.base k → alive s'.base k) := by
  have hi := oreach_inv (noStale_reach r)
  have hend : ended s.base j := hi.tdEnded j (by rw [ho]; simp)
  have hcl : ∀ k, s.base.client = some k → k = j := by
    intro k hk
    simp only [staleDelivery, ho, hk, bne_eq_false_iff_eq] at hno
    exact hno
  obtain ⟨_, hc⟩ := watchFires_cases hs
  rcases hc with ⟨hf, _, _⟩ | ⟨_, e⟩
  · cases hf
  · subst e
    obtain ⟨h1, h2, h3, h4, _, h6⟩ := deleteSession_frame s.base
    refine ⟨hend, h1, h2, h3, h4, ?_, ?_⟩
    · intro k hk
      have hnk : s.base.client ≠ some k := fun e => hk (hcl k e)
      exact ⟨h6 k hnk, hnk⟩
    · intro k ha
      have : k = j := hcl k ha.1
      subst this
      exact absurd ha (not_alive_of_ended hend)

/-- **teardown_event_hits_alive_only_if_stale** — the current code, every reachable state: if the event at the
head of the queue is a teardown-origin event of `j` and a connection `k` is registered, live and active, then
`k ≠ j` — the delivery IS a stale one. So the stale delivery is the ONLY way the echo of a teardown can
disconnect a live connection. -/
theorem teardown_event_hits_alive_only_if_stale {fixed : Bool} {s : OSt} (r : OReach fixed s) {j k : Nat}
    {rest : List Origin} (ho : s.origins = Origin.teardownOf j :: rest) (ha : alive s.base k) :
    k ≠ j ∧ staleDelivery s Act.watchFires = true := by
  have hend : ended s.base j := (oreach_inv r).tdEnded j (by rw [ho]; simp)
  have hkj : k ≠ j := fun e => not_alive_of_ended hend (e ▸ ha)
  refine ⟨hkj, ?_⟩
  simp [staleDelivery, ho, ha.1, hkj]

/-- **admin_event_disconnects_victim** — "deleting a session through the admin endpoint disconnects that
client", current code AND proposed repair, every reachable state. The delete event at the head of the queue
stems from an admin delete issued while connection `v` was registered. After its handling `v` is not the
registered live connection — in the current code because the event is delivered (`deleteSession`); in the
proposed repair also when it is taken for an expected echo and dropped (which happens only when a
teardown-origin event is queued behind it; then `v` had already gone). -/
theorem admin_event_disconnects_victim {fixed : Bool} {s s' : OSt} (r : OReach fixed s) {v : Nat} {rest : List Origin}
    (ho : s.origins = Origin.admin (some v) :: rest) (hs : ostep fixed s Act.watchFires = some s') :
    ¬ (s'.base.client = some v ∧ (s'.base.conn v).disc = false ∧ (s'.base.conn v).pc.active = true) :=
  admin_event_victim_gone (oreach_inv r) ho hs

/-- **delete_event_delivered** — the current code: EVERY delete event, whatever its origin, runs
`deleteSession`: whoever is registered is marked disconnected and unregistered (for an admin-origin event
this is the clause "deleting a session through the admin endpoint disconnects that client", as
`admin_delete_disconnects`; for a teardown-origin event it is the defect when the delivery is stale). -/
theorem delete_event_delivered {s s' : OSt} (hs : ostep false s Act.watchFires = some s') :
    s'.base.client = none ∧ ∀ o, s.base.client = some o → (s'.base.conn o).disc = true :=
  delivered_event_disconnects (Or.inl rfl) hs

/-- **teardown_event_own_connection_harmless** — any delivered event (current code: every event). The event at
the head of the queue was emitted by connection `j`'s teardown; `j` has ended. `deleteSession` touches nothing
but the registration and the registered connection's flags: session map, session objects, persisted copy,
TopicManager and the record of every connection that is not the registered one stay. So when `j` itself is
still the registered one (or nobody is), the event changes nothing that matters — the defect needs ANOTHER
connection to be registered by then. -/
theorem teardown_event_own_connection_harmless {fixed : Bool} {s s' : OSt} (r : OReach fixed s) {j : Nat}
    {rest : List Origin} (ho : s.origins = Origin.teardownOf j :: rest)
    (hs : ostep fixed s Act.watchFires = some s') :
    ended s.base j ∧ s'.base.sessMap = s.base.sessMap ∧ s'.base.sess = s.base.sess ∧ s'.base.db = s.base.db ∧
    s'.base.topicMgr = s.base.topicMgr ∧ ∀ k, s.base.client ≠ some k → s'.base.conn k = s.base.conn k := by
  have hi := oreach_inv r
  refine ⟨hi.tdEnded j (by rw [ho]; simp), ?_⟩
  obtain ⟨_, hc⟩ := watchFires_cases hs
  rcases hc with ⟨_, _, e⟩ | ⟨_, e⟩
  · subst e; exact ⟨rfl, rfl, rfl, rfl, fun _ _ => rfl⟩
  · subst e
    obtain ⟨h1, h2, h3, h4, _, h6⟩ := deleteSession_frame s.base
    exact ⟨h1, h2, h3, h4, h6⟩

/-! #### non-vacuity (current code) -/

/-- all-or-nothing execution on the current code that also checks that no step is a stale delivery -/
def orunNoStale : OSt → List Act → Option OSt
  | s, [] => some s
  | s, a :: rest => if staleDelivery s a then none else (ostep false s a).bind (fun s' => orunNoStale s' rest)

theorem noStale_orunNoStale {s s' : OSt} {l : List Act} (r : OReachNoStale s) (h : orunNoStale s l = some s') :
    OReachNoStale s' := by
  induction l generalizing s with
  | nil => simp [orunNoStale] at h; subst h; exact r
  | cons a rest ih =>
    simp only [orunNoStale] at h
    cases ho : staleDelivery s a with
    | true => simp [ho] at h
    | false =>
      simp only [ho, Bool.false_eq_true, if_false] at h
      cases hs : ostep false s a with
      | none => simp [hs] at h
      | some s1 => simp [hs] at h; exact ih (OReachNoStale.step a r ho hs) h

/-- `teardown_event_never_disconnects_partial` is not vacuous: a history of the current code without a stale
delivery that ends with connection 0's teardown-origin event at the head of the queue, (a) while connection 0
itself is still registered (`cleanup 0` done, `close 0` pending), (b) after connection 0 is completely gone
and nobody is registered; in both the delivery is not stale and is enabled. And the two stale histories are
rejected by `orunNoStale` exactly at their last step. -/
example :
    (∀ l ∈ [[Act.connectLocked 0 true, .storeSess 0, .resubscribe 0, .noticeEnd 0, .cleanup 0],
            [Act.connectLocked 0 true, .storeSess 0, .resubscribe 0, .noticeEnd 0, .cleanup 0, .close 0, .remove 0]],
      ((orunNoStale oinit l).map (fun s =>
        decide (s.origins = [Origin.teardownOf 0]) && !staleDelivery s Act.watchFires &&
          (ostep false s Act.watchFires).isSome)) = some true) ∧
    (∀ l ∈ [staleTakeover, staleReconnect],
      ((orunNoStale oinit l.dropLast).map (fun s => staleDelivery s Act.watchFires)) = some true ∧
      (orunNoStale oinit l).isNone = true) := by decide

example : OReachNoStale ((orunNoStale oinit staleTakeover.dropLast).getD oinit) := by
  cases h : orunNoStale oinit staleTakeover.dropLast with
  | none => exact OReachNoStale.init
  | some s' => exact noStale_orunNoStale OReachNoStale.init h

/-- `teardown_event_hits_alive_only_if_stale`: before the last step of `staleReconnect` connection 1 is alive
and the head of the queue is `teardownOf 0`. `admin_event_disconnects_victim` / `delete_event_delivered`: an
admin-origin event (victim: connection 0, registered and live) at the head of the queue. -/
example :
    ((orunAll false oinit staleReconnect.dropLast).map (fun s =>
      decide (s.origins = [Origin.teardownOf 0] ∧ s.base.client = some 1 ∧ (s.base.conn 1).disc = false ∧
        (s.base.conn 1).pc.active = true))) = some true ∧
    ((orunAll false oinit [.connectLocked 0 false, .storeSess 0, .resubscribe 0, .adminDelete]).map (fun s =>
      decide (s.origins = [Origin.admin (some 0)] ∧ s.base.client = some 0 ∧ (s.base.conn 0).disc = false))) = some true := by
  decide

/-! #### The PROPOSED repair `fixes/C16-own-delete-event.patch` (`ostep true`) — NOT applied to /repo

The coordinator decided not to commit the patch (bookkeeping per client id, an extra `store.get` per clean
teardown, the residual below, no help across cluster members). The judge and the harness check the CURRENT
code; nothing below is tied to /repo. The theorems record what the counting repair would achieve. -/

/-- *(proposed repair)* the two stale histories with the patch: every step is enabled, the event is dropped,
connection 1 stays registered and live with its session and its subscription -/
theorem repaired_ignores_stale_teardown_event :
    (∀ l ∈ [staleTakeover, staleReconnect],
      ((orunAll true oinit l).map (fun s =>
        decide (s.base.client = some 1 ∧ (s.base.conn 1).disc = false ∧ s.base.sessMap = some (s.base.conn 1).sess ∧
          s.base.topicMgr = [7] ∧ s.base.watch = 0 ∧ s.origins = [] ∧ s.own = 0))) = some true) := by decide

/-- *(proposed repair)* **expected_event_dropped.** While the repaired broker still expects the echo of an own
delete (`own > 0`), the next delete event is dropped: registration, every connection record, session map,
session objects, persisted copy and TopicManager are untouched; only the event is gone. -/
theorem expected_event_dropped {s s' : OSt} (hown : 0 < s.own) (hs : ostep true s Act.watchFires = some s') :
    s'.base.client = s.base.client ∧ s'.base.conn = s.base.conn ∧ s'.base.sessMap = s.base.sessMap ∧
    s'.base.sess = s.base.sess ∧ s'.base.db = s.base.db ∧ s'.base.topicMgr = s.base.topicMgr ∧
    s'.base.watch = s.base.watch - 1 ∧ s'.origins = s.origins.tail ∧ s'.own = s.own - 1 := by
  rw [BrokerSessions.expected_event_dropped hown hs]
  exact ⟨rfl, rfl, rfl, rfl, rfl, rfl, rfl, rfl, rfl⟩

/-- *(proposed repair)* histories in which no admin-origin event is delivered while a teardown-origin event is
queued behind it (`overtakes`) -/
inductive OReachCalm : OSt → Prop
  | init : OReachCalm oinit
  | step {s s' : OSt} (a : Act) : OReachCalm s → overtakes s a = false → ostep true s a = some s' → OReachCalm s'

theorem calm_reach {s : OSt} (r : OReachCalm s) : OReach true s := by
  induction r with
  | init => exact OReach.init
  | step a _ _ hs ih => exact OReach.step a ih hs

/-- *(proposed repair)* in such histories the bookkeeping is exact -/
theorem calm_exact {s : OSt} (r : OReachCalm s) : s.own = countT s.origins := by
  induction r with
  | init => rfl
  | step a r0 hno hs ih => exact exact_step (oreach_inv (calm_reach r0)) ih hs hno

/-- *(proposed repair)* **proposed_repair_ignores_teardown_events** — every history without an overtaken admin
event, every point of it: the handling of a teardown-origin event at the head of the queue is enabled and
changes NOTHING but the queue — whoever is registered by now keeps registration, record, session map entry,
session objects, persisted copy and TopicManager entries. For EVERY reachable state of the repaired code
the statement is false (`repaired_residual_overtaken_admin_event`): one of the coordinator's reasons. -/
theorem proposed_repair_ignores_teardown_events {s : OSt} (r : OReachCalm s) {j : Nat} {rest : List Origin}
    (ho : s.origins = Origin.teardownOf j :: rest) :
    ∃ s', ostep true s Act.watchFires = some s' ∧
      s'.base.client = s.base.client ∧ s'.base.conn = s.base.conn ∧ s'.base.sessMap = s.base.sessMap ∧
      s'.base.sess = s.base.sess ∧ s'.base.db = s.base.db ∧ s'.base.topicMgr = s.base.topicMgr ∧
      s'.base.watch = s.base.watch - 1 ∧ s'.origins = rest := by
  have hi := oreach_inv (calm_reach r)
  have hen := watchFires_enabled hi (by rw [ho]; simp)
  cases hs : ostep true s Act.watchFires with
  | none => simp [hs] at hen
  | some s' =>
    have hown := exact_teardown_head (calm_exact r) ho
    obtain ⟨h1, h2, h3, h4, h5, h6, h7, h8, _⟩ := expected_event_dropped hown hs
    exact ⟨s', rfl, h1, h2, h3, h4, h5, h6, h7, by rw [h8, ho]; rfl⟩

/-- *(proposed repair)* an admin-origin event with no teardown-origin event queued behind it is delivered -/
theorem proposed_repair_admin_event_delivered {s s' : OSt} (r : OReachCalm s) {c : Option Nat} {rest : List Origin}
    (ho : s.origins = Origin.admin c :: rest) (hq : countT rest = 0)
    (hs : ostep true s Act.watchFires = some s') :
    s'.base.client = none ∧ ∀ o, s.base.client = some o → (s'.base.conn o).disc = true := by
  have he := calm_exact r
  rw [ho, countT_cons_admin, hq] at he
  exact delivered_event_disconnects (Or.inr he) hs

/-- the residual of the proposed repair: connection 0 (clean session) is connected; an admin delete of the id is
issued but its event is not yet delivered; connection 0 subscribes (the session is stored again) and ends (own
`delDB`: the broker now expects ONE echo); connection 1 connects; the admin event arrives first and is taken
for the echo; then the echo itself arrives, unexpected. -/
def residualRun : List Act :=
  [.connectLocked 0 true, .storeSess 0, .resubscribe 0, .adminDelete, .subscribe 0 7, .noticeEnd 0, .cleanup 0,
   .close 0, .remove 0, .connectLocked 1 true, .storeSess 1, .resubscribe 1, .watchFires, .watchFires]

/-- *(proposed repair)* **its residual** (witness, every step enabled): before the last step the queue holds only
connection 0's teardown-origin event, the broker expects nothing (`own = 0` — the admin event used the slot
up), connection 1 is registered, live and in its read loop; the event is handled like a foreign delete and
disconnects connection 1. Reproduced on the real broker with the patch applied
(`connect 0 clean; admindel; sub 0 f; drop 0; connect 1 clean; watch; watch`). -/
theorem repaired_residual_overtaken_admin_event :
    ((orunAll true oinit residualRun.dropLast).map (fun s =>
        decide (s.origins = [Origin.teardownOf 0] ∧ s.own = 0 ∧ s.base.client = some 1 ∧
          (s.base.conn 1).disc = false ∧ (s.base.conn 1).pc = Pc.running))) = some true ∧
    ((orunAll true oinit residualRun).map (fun s =>
        decide (s.base.client = none ∧ (s.base.conn 1).disc = true))) = some true ∧
    ((orunAll true oinit (residualRun.take 12)).map (fun s => overtakes s Act.watchFires)) = some true := by
  decide

/-- all-or-nothing execution of the proposed repair that also checks that no step overtakes -/
def orunCalm : OSt → List Act → Option OSt
  | s, [] => some s
  | s, a :: rest => if overtakes s a then none else (ostep true s a).bind (fun s' => orunCalm s' rest)

theorem calm_orunCalm {s s' : OSt} {l : List Act} (r : OReachCalm s) (h : orunCalm s l = some s') : OReachCalm s' := by
  induction l generalizing s with
  | nil => simp [orunCalm] at h; subst h; exact r
  | cons a rest ih =>
    simp only [orunCalm] at h
    cases ho : overtakes s a with
    | true => simp [ho] at h
    | false =>
      simp only [ho, Bool.false_eq_true, if_false] at h
      cases hs : ostep true s a with
      | none => simp [hs] at h
      | some s1 => simp [hs] at h; exact ih (OReachCalm.step a r ho hs) h

/-- non-vacuity *(proposed repair)*: both stale histories, up to the last step, are calm histories that end with
connection 0's teardown-origin event at the head of the queue while connection 1 is registered, live and in
its read loop; the dropped-admin-event case of `admin_event_disconnects_victim` is met by `residualRun.take 12`;
`delDB` with nothing stored emits nothing. -/
example :
    (∀ l ∈ [staleTakeover, staleReconnect],
      ((orunCalm oinit l.dropLast).map (fun s =>
        decide (s.origins = [Origin.teardownOf 0] ∧ s.own = 1 ∧ s.base.client = some 1 ∧
          (s.base.conn 1).disc = false ∧ (s.base.conn 1).pc = Pc.running))) = some true) ∧
    ((orunAll true oinit (residualRun.take 12)).map (fun s =>
      decide (s.origins = [Origin.admin (some 0), Origin.teardownOf 0] ∧ s.own = 1 ∧ s.base.client = some 1))) = some true ∧
    ((orunAll true oinit [.connectLocked 0 true, .storeSess 0, .resubscribe 0, .adminDelete, .watchFires,
        .noticeEnd 0, .cleanup 0]).map (fun s => decide (s.origins = [] ∧ s.own = 0 ∧ s.base.watch = 0))) = some true := by
  decide

example : OReachCalm ((orunCalm oinit staleTakeover.dropLast).getD oinit) := by
  cases h : orunCalm oinit staleTakeover.dropLast with
  | none => exact OReachCalm.init
  | some s' => exact calm_orunCalm OReachCalm.init h

/-! #### AUDIT P2 item 17 (C16): acceptance of the changed spec clause, fine `clean_discards`, the hypothesis of `reconnect_restores` -/

/-- the state between two macro actions: the registered live connection is in its read loop -/
def Quiescent (s : St) : Prop :=
  ∀ k, s.client = some k → (s.conn k).disc = false → (s.conn k).pc = Pc.running

/-- **violation_accepts_model_partial** — the executable spec accepts the model's own behaviour (the model of the
CURRENT code, `ostep false`, which the judge replays), for the clause this round changed: the delivery of a
delete event. (The acceptance of the other macro actions — connect / sub / unsub / drop / par — is NOT
proved: it needs the macro-level invariant and every interleaving of `par`.) `s` is any reachable state; the
oldest queued event is handled (`watch`); `s.origins.head?` is its origin, as the judge tracks it
(`Track.head`). Then `Spec.violation` accepts the step, and the origin clause `watchViolation` accepts it too
— except in exactly one case, which it reports with the sig of the known finding `C16-own-delete-event`: a
STALE delivery (`staleDelivery`: a teardown-origin event of `j` while another connection is registered) that
hits a connection which is not already disconnected. -/
theorem violation_accepts_model_partial {s s' : OSt} (hs : ostep false s Act.watchFires = some s') :
    violation (project s.base) MAct.watch false (project s'.base) = none ∧
    (watchViolation s.origins.head? (project s.base) (project s'.base) = none ∨
      (staleDelivery s Act.watchFires = true ∧
        watchViolation s.origins.head? (project s.base) (project s'.base) =
          some "stale-teardown-event:new-connection-disconnected")) := by
  obtain ⟨_, hc⟩ := watchFires_cases hs
  rcases hc with ⟨hf, _, _⟩ | ⟨_, e⟩
  · cases hf
  · subst e
    have hreg : (project ({ deleteSession s.base with watch := s.base.watch - 1 } : St)).reg = none := by
      show (deleteSession s.base).client = none
      cases hcl : s.base.client <;> simp [deleteSession, hcl]
    constructor
    · simp [violation, intact, hreg]
    · cases ho : s.origins with
      | nil => left; simp [watchViolation]
      | cons o rest =>
        cases o with
        | admin c => left; simp [watchViolation, hreg]
        | teardownOf j =>
          simp only [List.head?_cons, watchViolation, hreg]
          have hpr : (project s.base).reg = s.base.client := rfl
          cases hp : s.base.client with
          | none => left; simp [hpr, hp]
          | some k =>
            simp only [hpr, hp]
            by_cases hk : (k != j && !(project s.base).regDisc) = true
            · right
              simp only [Bool.and_eq_true] at hk
              refine ⟨by simp [staleDelivery, ho, hp, hk.1], ?_⟩
              simp [hk.1, hk.2]
            · left
              have : (k != j && !(project s.base).regDisc && (none != some k || (project ({ deleteSession s.base with watch := s.base.watch - 1 } : St)).regDisc)) = false := by
                simp only [Bool.not_eq_true] at hk; simp [hk]
              simp [this]

/-- non-vacuity of `violation_accepts_model_partial`, both outcomes: before the last step of `staleReconnect` the
head is connection 0's teardown-origin event and connection 1 is registered, live and in its read loop (the
known-finding branch); after `connect 0; admindel` the head is an admin-origin event (accepted). -/
example :
    ((orunAll false oinit staleReconnect.dropLast).map (fun s =>
      decide (s.base.client = some 1 ∧ (s.base.conn 1).disc = false ∧ (s.base.conn 1).pc = Pc.running ∧
        intact (project s.base) = true ∧ s.origins = [Origin.teardownOf 0]) && staleDelivery s Act.watchFires)) = some true ∧
    ((orunAll false oinit [.connectLocked 0 false, .storeSess 0, .resubscribe 0, .adminDelete]).map (fun s =>
      (ostep false s Act.watchFires).isSome && decide (s.origins = [Origin.admin (some 0)]))) = some true := by decide

/-- **clean_discards_fine** — `clean_discards` at the fine granularity. The stored session of the id (local
map, else the persisted copy) has topics `F` and clean flag `c`; connection `k` connects with
`clean = true` or the stored session is a clean one. For EVERY placement `t₁ t₂ t₃` of fine teardown steps of
other connections inside `k`'s broker-locked section (`lockConn k; t₁; lkGet k; t₂; lkSnap k; t₃; lkUnsub k` —
between the registration and `sessMgr.get`, between `get` and `prevSess.allSubscribes()`, between the
snapshot and `topicMgr.unsubscribe`): `k` ends registered with a NEW session without topics and with its own
clean flag, that session is the one in the session map, the broker lock is free again, none of `F` is routed
to the id any more, and the session that was in the session map is closed. -/
theorem clean_discards_fine {s s' : FSt} (r : FReach s) {k : Nat} {clean c : Bool} {F : List Nat}
    {t₁ t₂ t₃ : List FAct}
    (hst : storedSess s.base = some (F, c)) (hcl : clean = true ∨ c = true) (hfresh : (s.base.conn k).disc = false)
    (h₁ : OthersTeardownF k t₁) (h₂ : OthersTeardownF k t₂) (h₃ : OthersTeardownF k t₃)
    (hrun : runAllF s (FAct.lockConn k clean :: (t₁ ++ FAct.lkGet k :: (t₂ ++ FAct.lkSnap k :: (t₃ ++
      [FAct.lkUnsub k])))) = some s') :
    s'.base.client = some k ∧ s'.base.sessMap = some (s'.base.conn k).sess ∧
    (s'.base.sess (s'.base.conn k).sess).topics = [] ∧ (s'.base.sess (s'.base.conn k).sess).clean = clean ∧
    (s'.base.sess (s'.base.conn k).sess).closed = false ∧
    (∀ f ∈ F, f ∉ s'.base.topicMgr) ∧ (∀ q, s.base.sessMap = some q → (s'.base.sess q).closed = true) ∧
    s'.lock = Lk.free := by
  have hi := reach_inv_fine r
  obtain ⟨s1, hs1, h⟩ := runAllF_cons_eq_some.mp hrun
  obtain ⟨s2, hr1, h⟩ := runAllF_append_eq_some.mp h
  obtain ⟨s3, hs2, h⟩ := runAllF_cons_eq_some.mp h
  obtain ⟨s4, hr3, h⟩ := runAllF_append_eq_some.mp h
  obtain ⟨s5, hs4, h⟩ := runAllF_cons_eq_some.mp h
  obtain ⟨s6, hr5, h⟩ := runAllF_append_eq_some.mp h
  obtain ⟨s7, hs6, h⟩ := runAllF_cons_eq_some.mp h
  simp only [runAllF, Option.some.injEq] at h
  have hnot : (!clean && !c) = false := by rcases hcl with h | h <;> simp [h]
  have hnot2 : ¬ (clean = false ∧ c = false) := by rcases hcl with h | h <;> simp [h]
  -- lockConn
  have hi1 := finv_step hi hs1
  simp only [fstep] at hs1
  split at hs1
  case isFalse => cases hs1
  simp only [Option.some.injEq] at hs1; subst hs1
  obtain ⟨tsm, tse, tn, td, tdb, ttm, _⟩ := takeoverMark_rest s.base
  have hd1 : ((takeoverMark s.base).conn k).disc = false := by rw [(takeoverMark_conn s.base k).2.2.1]; exact hfresh
  -- t₁
  have f1 := frame_run_fine h₁ hi1 rfl hd1 hr1
  have hi2 := finv_runAllF hi1 hr1
  have hlock2 : s2.lock = Lk.connGet k clean := f1.lock
  have hsm2 : s2.base.sessMap = s.base.sessMap := f1.base.sessMap.trans tsm
  have hse2 : s2.base.sess = s.base.sess := f1.base.sess.trans tse
  have hdb2 : s2.base.db = s.base.db := f1.base.db.trans tdb
  have htm2 : s2.base.topicMgr = s.base.topicMgr := f1.base.topicMgr.trans ttm
  have hcl2 : s2.base.client = some k := f1.base.client
  have hd2 : (s2.base.conn k).disc = false := by rw [f1.base.conn]; exact hd1
  -- lkGet: the discard branch; `r0` = the session that is discarded
  have hi3 := finv_step hi2 hs2
  have key : ∃ r0, s3.lock = Lk.connSnap k clean r0 ∧ s3.base.client = some k ∧ (s3.base.conn k).disc = false ∧
      s3.base.sessMap = some r0 ∧ (s3.base.sess r0).topics = F ∧ s3.base.topicMgr = s.base.topicMgr ∧
      (∀ q, s.base.sessMap = some q → q = r0) := by
    simp only [fstep, hlock2, if_true] at hs2
    unfold storedSess at hst
    unfold getSess at hs2
    rw [hsm2, hdb2, hse2] at hs2
    cases hsm : s.base.sessMap with
    | some q =>
      simp only [hsm, Option.some.injEq, Prod.mk.injEq] at hst
      simp only [hsm, hse2, hst.2, hnot] at hs2
      simp at hs2; subst hs2
      exact ⟨q, rfl, hcl2, hd2, hsm2.trans hsm, by rw [hse2]; exact hst.1, htm2, fun q' hq' => by cases hq'; rfl⟩
    | none =>
      simp only [hsm] at hst
      simp only [hsm, hst] at hs2
      simp [hnot2] at hs2; subst hs2
      exact ⟨s2.base.nextSess, rfl, hcl2, hd2, rfl, by simp, htm2, fun q' hq' => by cases hq'⟩
  obtain ⟨r0, hlock3, hcl3, hd3, hsm3, htop3, htm3, hq3⟩ := key
  -- t₂
  have f3 := frame_run_fine h₂ hi3 hcl3 hd3 hr3
  have hi4 := finv_runAllF hi3 hr3
  have hlock4 : s4.lock = Lk.connSnap k clean r0 := f3.lock.trans hlock3
  -- lkSnap
  have hi5 := finv_step hi4 hs4
  simp only [fstep, hlock4, if_true, Option.some.injEq] at hs4
  subst hs4
  have htop4 : (s4.base.sess r0).topics = F := by rw [f3.base.sess]; exact htop3
  -- t₃
  have f5 := frame_run_fine h₃ hi5 (f3.base.client.trans hcl3) (by rw [f3.base.conn]; exact hd3) hr5
  have hi6 := finv_runAllF hi5 hr5
  have hlock6 : s6.lock = Lk.connUnsub k clean r0 F := by rw [f5.lock]; simp [htop4]
  have hsm6 : s6.base.sessMap = some r0 := by rw [f5.base.sessMap]; exact f3.base.sessMap.trans hsm3
  have hlt : r0 < s6.base.nextSess := (hi6.openS r0 hsm6).2
  have hne : r0 ≠ s6.base.nextSess := by omega
  have hcl6 : s6.base.client = some k := by rw [f5.base.client]; exact f3.base.client.trans hcl3
  -- lkUnsub
  simp only [fstep, hlock6, if_true, Option.some.injEq] at hs6
  subst hs6; subst h
  refine ⟨by simp [newSession, closeSess, hcl6], by simp [newSession, closeSess], by simp [newSession, closeSess],
    by simp [newSession, closeSess], by simp [newSession, closeSess], ?_, ?_, rfl⟩
  · intro f hf; simp [newSession, closeSess, mem_delAll, hf]
  · intro q hq; rw [hq3 q hq]; simp [newSession, closeSess, upd_other _ _ hne]

/-- non-vacuity of `clean_discards_fine`: connection 0 holds a persistent session with topic 7 (fine steps),
connection 1 connects with cleanSession=true while connection 0's read loop notices its end inside 1's
locked section: every step is enabled; the start state is fine-reachable with the stored session `([7], false)`. -/
example :
    let pre : List FAct := [.lockConn 0 false, .lkGet 0, .storeSess 0, .doStore 0, .resubSnap 0, .resubIns 0,
      .subTM 0 7, .subSess 0, .doStore 0]
    let s := (runAllF finit pre).getD finit
    (runAllF finit pre).isSome = true ∧ storedSess s.base = some ([7], false) ∧ (s.base.conn 1).disc = false ∧
    (runAllF s ([.lockConn 1 true] ++ [.noticeEnd 0] ++ [.lkGet 1] ++ [.lkSnap 1] ++ [.lkUnsub 1])).isSome = true := by
  decide


/-! #### B3: the hypothesis of `reconnect_restores` is met by a theorem -/

/-- the steps connection `k` takes itself between its registration and the end of its read loop -/
def IsOwnStep (k : Nat) : Act → Prop
  | .storeSess j | .resubscribe j | .subscribe j _ | .unsubscribe j _ => j = k
  | _ => False

/-- `k`'s own steps, interleaved with teardown steps of other connections -/
def SessionTime (k : Nat) (l : List Act) : Prop := ∀ a ∈ l, IsOwnStep k a ∨ ∃ j, j ≠ k ∧ IsTeardownOf j a

/-- connection `k` is registered and live, holds the persistent session `r`, and — once it has stored it —
the persisted copy is exactly that session -/
structure Holding (s : St) (k r : Nat) : Prop where
  client : s.client = some k
  live : (s.conn k).disc = false
  sessOf : (s.conn k).sess = r
  sessMap : s.sessMap = some r
  persistent : (s.sess r).clean = false
  act : (s.conn k).pc.active = true
  stored : (s.conn k).pc ≠ Pc.registered → s.db = some ((s.sess r).topics, false)

theorem holding_step {s s' : St} {k r : Nat} {a : Act} (h : Holding s k r) (hs : step true s a = some s')
    (ha : IsOwnStep k a ∨ ∃ j, j ≠ k ∧ IsTeardownOf j a) : Holding s' k r := by
  rcases ha with ha | ⟨j, hj, ha⟩
  · cases a <;> simp only [IsOwnStep] at ha <;> subst ha <;> simp only [step] at hs
    case storeSess =>
      split at hs <;> cases hs
      constructor <;> simp [setPc, setConn, persist, h.client, h.live, h.sessOf, h.sessMap, h.persistent, Pc.active]
    case resubscribe =>
      split at hs <;> cases hs
      rename_i hpc
      have hdb := h.stored (by rw [hpc]; simp)
      constructor <;> simp [setPc, setConn, h.client, h.live, h.sessOf, h.sessMap, h.persistent, Pc.active, hdb]
    case subscribe f =>
      split at hs <;> cases hs
      constructor <;> simp [persist, h.client, h.live, h.sessOf, h.sessMap, h.persistent, h.act]
    case unsubscribe f =>
      split at hs <;> cases hs
      constructor <;> simp [persist, h.client, h.live, h.sessOf, h.sessMap, h.persistent, h.act]
  · have f := superseded_frame h.client hj h.live ha hs
    exact ⟨f.client.trans h.client, by rw [f.conn]; exact h.live, by rw [f.conn]; exact h.sessOf,
      f.sessMap.trans h.sessMap, by rw [f.sess]; exact h.persistent, by rw [f.conn]; exact h.act,
      fun hp => by rw [f.db, f.sess]; exact h.stored (by rw [← f.conn]; exact hp)⟩

theorem holding_run {k r : Nat} {l : List Act} (hl : SessionTime k l) {s s' : St} (h : Holding s k r)
    (hr : runAll s l = some s') : Holding s' k r := by
  induction l generalizing s with
  | nil => simp [runAll] at hr; subst hr; exact h
  | cons a rest ih =>
    obtain ⟨s1, h1, h2⟩ := runAll_cons_eq_some.mp hr
    exact ih (fun b hb => hl b (List.mem_cons_of_mem _ hb)) (holding_step h h1 (hl a (List.mem_cons_self ..))) h2

/-- **normal_end_keeps_session** — gives the hypothesis of `reconnect_restores`. Connection `k` has just
been registered with a persistent session (`connectLocked k false` on a persistent or absent previous
session). It then stores, re-subscribes and processes ANY sequence of its own SUBSCRIBE / UNSUBSCRIBE
packets, while other (superseded) connections are torn down at any point (`l`); it reaches its read loop;
its read loop ends normally (`noticeEnd k`, `cleanup k`, again with other teardowns in between,
`close k`, `removeClient`). Afterwards nobody is registered, the session map is empty, and the stored
session of the id is exactly the topics `k`'s session held at the end, persistent — so that
`reconnect_restores` applies to the next CONNECT with cleanSession=false. -/
theorem normal_end_keeps_session {s s1 s' : St} {k : Nat} {l t₁ t₂ : List Act}
    (hc : s.client = some k) (hlive : (s.conn k).disc = false) (hpc : (s.conn k).pc = Pc.registered)
    (hsm : s.sessMap = some (s.conn k).sess) (hper : (s.sess (s.conn k).sess).clean = false)
    (hl : SessionTime k l) (h₁ : OthersTeardown k t₁) (h₂ : OthersTeardown k t₂)
    (hr1 : runAll s l = some s1) (hrun1 : (s1.conn k).pc = Pc.running)
    (hr2 : runAll s1 (Act.noticeEnd k :: (t₁ ++ Act.cleanup k :: (t₂ ++ [Act.close k, Act.remove k]))) = some s') :
    storedSession s' = some ((s1.sess (s1.conn k).sess).topics, false) ∧ s'.sessMap = none ∧ s'.client = none := by
  have h0 : Holding s k (s.conn k).sess :=
    ⟨hc, hlive, rfl, hsm, hper, by rw [hpc]; rfl, fun hp => absurd hpc hp⟩
  have h1 := holding_run hl h0 hr1
  generalize (s.conn k).sess = r at h1
  have hdb1 := h1.stored (by rw [hrun1]; simp)
  obtain ⟨s2, hs2, h⟩ := runAll_cons_eq_some.mp hr2
  obtain ⟨s3, hr3, h⟩ := runAll_append_eq_some.mp h
  obtain ⟨s4, hs4, h⟩ := runAll_cons_eq_some.mp h
  obtain ⟨s5, hr5, h⟩ := runAll_append_eq_some.mp h
  obtain ⟨s6, hs6, h⟩ := runAll_cons_eq_some.mp h
  obtain ⟨s7, hs7, h⟩ := runAll_cons_eq_some.mp h
  simp only [runAll, Option.some.injEq] at h
  -- noticeEnd k
  simp only [step, hrun1, if_true, Option.some.injEq] at hs2
  subst hs2
  have c2 : (setPc s1 k Pc.ended).client = some k := by simp [setPc, setConn, h1.client]
  have l2 : ((setPc s1 k Pc.ended).conn k).disc = false := by simp [setPc, setConn, h1.live]
  -- t₁
  have f3 := frame_run h₁ c2 l2 hr3
  have c3 : s3.client = some k := f3.client.trans c2
  have e3 : (s3.conn k).sess = r ∧ (s3.conn k).disc = false ∧ (s3.conn k).pc = Pc.ended := by
    rw [f3.conn]; simp [setPc, setConn, h1.sessOf, h1.live]
  have sm3 : s3.sessMap = some r := by rw [f3.sessMap]; simpa [setPc, setConn] using h1.sessMap
  have se3 : s3.sess = s1.sess := by rw [f3.sess]; simp [setPc, setConn]
  have db3 : s3.db = s1.db := by rw [f3.db]; simp [setPc, setConn]
  -- cleanup k
  simp only [step, e3.2.2, if_true, Option.some.injEq] at hs4
  subst hs4
  have hsup : superseded s3 k = false := by simp [superseded, c3]
  have ht : teardown true s3 k = teardownBody s3 k := by simp [teardown, hsup]
  have hclean : (s3.sess (s3.conn k).sess).clean = false := by rw [e3.1, se3]; exact h1.persistent
  have tb : (teardownBody s3 k).client = some k ∧ (teardownBody s3 k).conn = s3.conn ∧
      (teardownBody s3 k).sessMap = none ∧ (teardownBody s3 k).db = s3.db := by
    unfold teardownBody
    simp only [sm3, hclean, Bool.false_eq_true, if_false]
    exact ⟨by simp [closeSess, c3], by simp [closeSess], by simp, rfl⟩
  rw [ht] at hr5
  have c4 : (setPc (teardownBody s3 k) k Pc.cleaned).client = some k := by simp [setPc, setConn, tb.1]
  have l4 : ((setPc (teardownBody s3 k) k Pc.cleaned).conn k).disc = false := by
    simp [setPc, setConn, tb.2.1, e3.2.1]
  -- t₂
  have f5 := frame_run h₂ c4 l4 hr5
  have c5 : s5.client = some k := f5.client.trans c4
  have sm5 : s5.sessMap = none := by rw [f5.sessMap]; simp [setPc, setConn, tb.2.2.1]
  have db5 : s5.db = s1.db := by rw [f5.db]; simp [setPc, setConn, tb.2.2.2, db3]
  have pc5 : (s5.conn k).pc = Pc.cleaned := by rw [f5.conn]; simp [setPc, setConn]
  -- close k
  simp only [step, pc5, if_true, Option.some.injEq] at hs6
  subst hs6
  -- remove k
  have hd6 : ((setPc (markDisc s5 k) k Pc.closed).conn k).disc = true := by simp [setPc, setConn, markDisc]
  have c6 : (setPc (markDisc s5 k) k Pc.closed).client = some k := by simp [setPc, setConn, markDisc, c5]
  have pc6 : ((setPc (markDisc s5 k) k Pc.closed).conn k).pc = Pc.closed := by simp [setPc, setConn]
  simp only [step, pc6, c6, hd6, if_true, Option.some.injEq] at hs7
  subst hs7; subst h
  refine ⟨?_, by simp [setPc, setConn, markDisc, sm5], by simp [setPc, setConn]⟩
  unfold storedSession
  simp only [setPc, setConn, markDisc, sm5, db5, hdb1, h1.sessOf]

/-- non-vacuity: connection 0 connects persistently, subscribes 7 and 9, unsubscribes 9, ends normally while
nothing else happens: every step is enabled and the hypotheses of `normal_end_keeps_session` hold with
`l = [storeSess 0, resubscribe 0, subscribe 0 7, subscribe 0 9, unsubscribe 0 9]`. -/
example :
    let s := (runAll BrokerSessions.init [.connectLocked 0 false]).getD BrokerSessions.init
    s.client = some 0 ∧ (s.conn 0).disc = false ∧ (s.conn 0).pc = Pc.registered ∧
    s.sessMap = some (s.conn 0).sess ∧ (s.sess (s.conn 0).sess).clean = false ∧
    (runAll s ([.storeSess 0, .resubscribe 0, .subscribe 0 7, .subscribe 0 9, .unsubscribe 0 9] ++
      [.noticeEnd 0, .cleanup 0, .close 0, .remove 0])).isSome = true := by decide

/-- …and therefore the next CONNECT with cleanSession=false gets exactly those subscriptions back, for every
placement of other connections' teardown steps: `normal_end_keeps_session` feeds `reconnect_restores`. -/
theorem reconnect_after_normal_end {s s1 s' s'' : St} (r : Reach s) {k k' : Nat} {l t₁ t₂ u₁ u₂ u₃ : List Act}
    (hc : s.client = some k) (hlive : (s.conn k).disc = false) (hpc : (s.conn k).pc = Pc.registered)
    (hsm : s.sessMap = some (s.conn k).sess) (hper : (s.sess (s.conn k).sess).clean = false)
    (hl : SessionTime k l) (h₁ : OthersTeardown k t₁) (h₂ : OthersTeardown k t₂)
    (hr1 : runAll s l = some s1) (hrun1 : (s1.conn k).pc = Pc.running)
    (hr2 : runAll s1 (Act.noticeEnd k :: (t₁ ++ Act.cleanup k :: (t₂ ++ [Act.close k, Act.remove k]))) = some s')
    (hfresh : (s'.conn k').disc = false)
    (g₁ : OthersTeardown k' u₁) (g₂ : OthersTeardown k' u₂) (g₃ : OthersTeardown k' u₃)
    (hrun : runAll s' (Act.connectLocked k' false :: (u₁ ++ Act.storeSess k' :: (u₂ ++
      Act.resubscribe k' :: u₃))) = some s'') :
    s''.client = some k' ∧ s''.sessMap = some (s''.conn k').sess ∧
    (s''.sess (s''.conn k').sess).topics = (s1.sess (s1.conn k).sess).topics ∧
    (s''.sess (s''.conn k').sess).closed = false ∧
    ∀ f ∈ (s1.sess (s1.conn k).sess).topics, f ∈ s''.topicMgr :=
  reconnect_restores (reach_runAll (reach_runAll r hr1) hr2)
    (normal_end_keeps_session hc hlive hpc hsm hper hl h₁ h₂ hr1 hrun1 hr2).1 hfresh g₁ g₂ g₃ hrun

end EgVerif.C16
