import EgVerif.Proofs.BrokerSessions
import EgVerif.Gen.FactsC16
/-!
# C16 — MQTT sessions survive reconnect and client-id takeover as cleanSession dictates

Theorems about `Model/BrokerSessions.lean` (atomic-step model of `handleConn`/`setSession`,
`readLoop`'s deferred cleanup, `closeAndDelSession`, `removeClient`, `deleteSession`,
`SessionManager`) **with `fixes/C16-takeover-teardown.patch` applied** (`step true`).
A history is any finite sequence of enabled atomic steps (`Reach`): every interleaving of
the connections' programs, the asynchronous `go oldClient.close()`, admin deletes and watch
events. Nothing is bounded. `unrepaired_violates` is the witness that the code without the
patch (`step false`) breaks the property.

Partial (see notes/C16.md): the atomic-step granularity is trusted; `subscribe`/`unsubscribe`
are enabled only for the registered live connection (a superseded connection is assumed not
to send further packets).
-/
namespace EgVerif.C16
open EgVerif.BrokerSessions

/-- states reachable by the repaired code from the empty broker -/
inductive Reach : St → Prop
  | init : Reach BrokerSessions.init
  | step {s s' : St} (a : Act) : Reach s → step true s a = some s' → Reach s'

theorem reach_inv {s : St} (r : Reach s) : Inv s := by
  induction r with
  | init => exact inv_init
  | step a _ hs ih => exact inv_step ih hs

/-- **Invariant `CurrentConnIntact`**: the connection registered for the id, while it is live
and has finished its re-subscription, has *its* session in the session map, that session is
open, and every topic of it is routed by the TopicManager. -/
def CurrentConnIntact (s : St) : Prop :=
  ∀ k, s.client = some k → (s.conn k).disc = false → (s.conn k).pc = Pc.running →
    s.sessMap = some (s.conn k).sess ∧ (s.sess (s.conn k).sess).closed = false ∧
    ∀ f ∈ (s.sess (s.conn k).sess).topics, f ∈ s.topicMgr

theorem currentConnIntact {s : St} (r : Reach s) : CurrentConnIntact s := by
  intro k hc hd hr
  have h := reach_inv r
  have hsm := h.owns k hc hd (by simp [hr, Pc.active])
  exact ⟨hsm, (h.openS _ hsm).1, h.routed k hc hd hr⟩

/-- No `Session.close()` ever hits a closed session (Go: `close of closed channel` panic). -/
theorem no_double_close {s : St} (r : Reach s) : s.doubleClose = false := (reach_inv r).noDouble

/-- **takeover_teardown_safe.** Let connection `k` be registered for the id and live. No step
of the teardown of *another* connection `j` (its read loop noticing the end, the teardown in
`closeAndDelSession`, `close`, `removeClient`, the write-loop error path, the asynchronous
`go oldClient.close()`), taken at any point, changes the registration, the session map, any
session object, the persisted copy, the pending delete events, the TopicManager entries or
`k`'s own record. -/
theorem takeover_teardown_safe {s s' : St} {k j : Nat} {a : Act}
    (hc : s.client = some k) (hj : j ≠ k) (hlive : (s.conn k).disc = false)
    (ha : IsTeardownOf j a) (hs : step true s a = some s') :
    s'.client = some k ∧ s'.sessMap = s.sessMap ∧ s'.sess = s.sess ∧ s'.db = s.db ∧
    s'.watch = s.watch ∧ s'.topicMgr = s.topicMgr ∧ s'.conn k = s.conn k := by
  have f := superseded_frame hc hj hlive ha hs
  exact ⟨f.client.trans hc, f.sessMap, f.sess, f.db, f.watch, f.topicMgr, f.conn⟩

/-- all-or-nothing execution of a list of steps -/
def runAll : St → List Act → Option St
  | s, [] => some s
  | s, a :: rest => (step true s a).bind (fun s' => runAll s' rest)

theorem runAll_append {s : St} {l₁ l₂ : List Act} :
    runAll s (l₁ ++ l₂) = (runAll s l₁).bind (fun s' => runAll s' l₂) := by
  induction l₁ generalizing s with
  | nil => simp [runAll]
  | cons a r ih =>
    simp only [List.cons_append, runAll]
    cases step true s a with
    | none => simp
    | some s1 => simp [ih]

theorem reach_runAll {s s' : St} {l : List Act} (r : Reach s) (h : runAll s l = some s') : Reach s' := by
  induction l generalizing s with
  | nil => simp [runAll] at h; subst h; exact r
  | cons a rest ih =>
    simp only [runAll] at h
    cases hs : step true s a with
    | none => simp [hs] at h
    | some s1 => simp [hs] at h; exact ih (Reach.step a r hs) h

/-- steps of the teardown of connections other than `k` -/
def OthersTeardown (k : Nat) (l : List Act) : Prop := ∀ a ∈ l, ∃ j, j ≠ k ∧ IsTeardownOf j a

theorem frame_run {k : Nat} {l : List Act} (hl : OthersTeardown k l) {s s' : St}
    (hc : s.client = some k) (hlive : (s.conn k).disc = false) (h : runAll s l = some s') :
    SameForCurrent s s' k := by
  induction l generalizing s with
  | nil =>
    simp [runAll] at h; subst h
    exact ⟨rfl, rfl, rfl, rfl, rfl, rfl, rfl, rfl, rfl⟩
  | cons a rest ih =>
    simp only [runAll] at h
    cases hs : step true s a with
    | none => simp [hs] at h
    | some s1 =>
      simp [hs] at h
      obtain ⟨j, hj, ha⟩ := hl a (List.mem_cons_self ..)
      have f1 := superseded_frame hc hj hlive ha hs
      have f2 := ih (fun b hb => hl b (List.mem_cons_of_mem _ hb)) (f1.client.trans hc)
        (by rw [f1.conn]; exact hlive) h
      exact ⟨f2.client.trans f1.client, f2.sessMap.trans f1.sessMap, f2.sess.trans f1.sess,
        f2.nextSess.trans f1.nextSess, f2.db.trans f1.db, f2.topicMgr.trans f1.topicMgr,
        f2.watch.trans f1.watch, f2.conn.trans f1.conn, f2.doubleClose.trans f1.doubleClose⟩

/-- the session a CONNECT finds: the one in the local map, else the persisted copy -/
def storedSession (s : St) : Option (List Nat × Bool) :=
  match s.sessMap with
  | some r => some ((s.sess r).topics, (s.sess r).clean)
  | none => s.db

theorem connect_reuses {s : St} (h : Inv s) {k : Nat} {F : List Nat}
    (hst : storedSession s = some (F, false)) :
    let s1 := connectLocked true s k false
    (s1.sess (s1.conn k).sess).topics = F ∧ (s1.sess (s1.conn k).sess).clean = false ∧
    (s1.conn k).disc = (s.conn k).disc ∧ s1.topicMgr = s.topicMgr := by
  have hconn : ({ takeoverMark s with client := some k } : St).conn k = (takeoverMark s).conn k := rfl
  have hdisc : ((takeoverMark s).conn k).disc = (s.conn k).disc := by
    cases hcl : s.client with
    | none => simp [takeoverMark, hcl]
    | some o =>
      by_cases e : k = o
      · subst e; simp [takeoverMark, hcl, setConn]
      · simp [takeoverMark, hcl, setConn, e]
  have hsm' : (takeoverMark s).sessMap = s.sessMap := by cases hcl : s.client <;> simp [takeoverMark, hcl, setConn]
  have hse' : (takeoverMark s).sess = s.sess := by cases hcl : s.client <;> simp [takeoverMark, hcl, setConn]
  have hdb' : (takeoverMark s).db = s.db := by cases hcl : s.client <;> simp [takeoverMark, hcl, setConn]
  have htm' : (takeoverMark s).topicMgr = s.topicMgr := by cases hcl : s.client <;> simp [takeoverMark, hcl, setConn]
  unfold storedSession at hst
  simp only [connectLocked, setSession, getSess, hsm', hse', hdb']
  cases hsm : s.sessMap with
  | some r =>
    simp only [hsm, Option.some.injEq, Prod.mk.injEq] at hst
    simp [hst.2, hst.1, setConn, hse', hdisc, htm']
  | none =>
    simp only [hsm] at hst
    simp [hst, setConn, hdisc, htm']

theorem reconnect_restores_steps {s s1 s2 s3 s4 s5 s' : St} (r : Reach s) {k : Nat} {F : List Nat}
    {t₁ t₂ t₃ : List Act}
    (hst : storedSession s = some (F, false)) (hfresh : (s.conn k).disc = false)
    (h₁ : OthersTeardown k t₁) (h₂ : OthersTeardown k t₂) (h₃ : OthersTeardown k t₃)
    (hs1 : step true s (Act.connectLocked k false) = some s1) (hr1 : runAll s1 t₁ = some s2)
    (hs3 : step true s2 (Act.storeSess k) = some s3) (hr4 : runAll s3 t₂ = some s4)
    (hs5 : step true s4 (Act.resubscribe k) = some s5) (hr6 : runAll s5 t₃ = some s') :
    s'.client = some k ∧ s'.sessMap = some (s'.conn k).sess ∧
    (s'.sess (s'.conn k).sess).topics = F ∧ (s'.sess (s'.conn k).sess).closed = false ∧
    ∀ f ∈ F, f ∈ s'.topicMgr := by
  have hinv := reach_inv r
  -- connectLocked
  simp only [step] at hs1
  split at hs1 <;> cases hs1
  obtain ⟨reg, _⟩ := connectLocked_registered hinv k false
  obtain ⟨htop, _, hdisc, _⟩ := connect_reuses (k := k) hinv hst
  generalize connectLocked true s k false = s1 at *
  have hlive1 : (s1.conn k).disc = false := by rw [hdisc]; exact hfresh
  -- t₁
  have f1 := frame_run h₁ reg.client hlive1 hr1
  -- storeSess
  simp only [step] at hs3
  split at hs3 <;> cases hs3
  have c3 : (setPc (persist s2 (s2.conn k).sess) k Pc.stored).client = some k := by
    simp [setPc, setConn, persist, f1.client, reg.client]
  have l3 : ((setPc (persist s2 (s2.conn k).sess) k Pc.stored).conn k).disc = false := by
    simp [setPc, setConn, persist, f1.conn, hlive1]
  have e3 : (setPc (persist s2 (s2.conn k).sess) k Pc.stored).sessMap = s2.sessMap ∧
      (setPc (persist s2 (s2.conn k).sess) k Pc.stored).sess = s2.sess ∧
      (setPc (persist s2 (s2.conn k).sess) k Pc.stored).topicMgr = s2.topicMgr ∧
      ((setPc (persist s2 (s2.conn k).sess) k Pc.stored).conn k).sess = (s2.conn k).sess := by
    simp [setPc, setConn, persist]
  generalize setPc (persist s2 (s2.conn k).sess) k Pc.stored = s3 at *
  -- t₂
  have f4 := frame_run h₂ c3 l3 hr4
  -- resubscribe
  simp only [step] at hs5
  split at hs5 <;> cases hs5
  have e5 : (setPc { s4 with topicMgr := addAll s4.topicMgr (s4.sess (s4.conn k).sess).topics } k Pc.running).client = s4.client ∧
      (setPc { s4 with topicMgr := addAll s4.topicMgr (s4.sess (s4.conn k).sess).topics } k Pc.running).sessMap = s4.sessMap ∧
      (setPc { s4 with topicMgr := addAll s4.topicMgr (s4.sess (s4.conn k).sess).topics } k Pc.running).sess = s4.sess ∧
      ((setPc { s4 with topicMgr := addAll s4.topicMgr (s4.sess (s4.conn k).sess).topics } k Pc.running).conn k).sess = (s4.conn k).sess ∧
      ((setPc { s4 with topicMgr := addAll s4.topicMgr (s4.sess (s4.conn k).sess).topics } k Pc.running).conn k).disc = (s4.conn k).disc ∧
      (setPc { s4 with topicMgr := addAll s4.topicMgr (s4.sess (s4.conn k).sess).topics } k Pc.running).topicMgr =
        addAll s4.topicMgr (s4.sess (s4.conn k).sess).topics := by
    simp [setPc, setConn]
  generalize setPc { s4 with topicMgr := addAll s4.topicMgr (s4.sess (s4.conn k).sess).topics } k Pc.running = s5 at *
  -- t₃
  have f6 := frame_run h₃ (e5.1.trans (f4.client.trans c3)) (by rw [e5.2.2.2.2.1, f4.conn]; exact l3) hr6
  -- collect
  have hsess6 : (s'.conn k).sess = (s1.conn k).sess := by
    rw [f6.conn, e5.2.2.2.1, f4.conn, e3.2.2.2, f1.conn]
  have hS : s'.sess = s1.sess := by rw [f6.sess, e5.2.2.1, f4.sess, e3.2.1, f1.sess]
  refine ⟨f6.client.trans (e5.1.trans (f4.client.trans c3)), ?_, ?_, ?_, ?_⟩
  · rw [f6.sessMap, e5.2.1, f4.sessMap, e3.1, f1.sessMap, hsess6]; exact reg.sessMap
  · rw [hS, hsess6]; exact htop
  · rw [hS, hsess6]; exact reg.opened
  · intro f hf
    rw [f6.topicMgr, e5.2.2.2.2.2]
    refine mem_addAll.mpr (Or.inr ?_)
    rw [f4.conn, f4.sess, e3.2.1, e3.2.2.2, f1.sess, f1.conn, htop]; exact hf

theorem runAll_cons_eq_some {s s' : St} {a : Act} {l : List Act} :
    runAll s (a :: l) = some s' ↔ ∃ s1, step true s a = some s1 ∧ runAll s1 l = some s' := by
  simp only [runAll]
  cases step true s a <;> simp

theorem runAll_append_eq_some {s s' : St} {l₁ l₂ : List Act} :
    runAll s (l₁ ++ l₂) = some s' ↔ ∃ s1, runAll s l₁ = some s1 ∧ runAll s1 l₂ = some s' := by
  rw [runAll_append]
  cases runAll s l₁ <;> simp

/-- **reconnect_restores.** The stored session of the id (local map, else persisted copy) is
a persistent one with topics `F`; a new connection `k` connects with cleanSession=false. For
*every* placement `t₁ t₂ t₃` of teardown steps of other connections (the old connection's read
loop noticing its end before, between or after the new connection's steps): after
`connectLocked; t₁; storeSess; t₂; resubscribe; t₃` connection `k` is registered with a session
holding exactly the topics `F`, that session is the one in the session map and is open, and
every topic of `F` is routed to the id again. -/
theorem reconnect_restores {s s' : St} (r : Reach s) {k : Nat} {F : List Nat} {t₁ t₂ t₃ : List Act}
    (hst : storedSession s = some (F, false)) (hfresh : (s.conn k).disc = false)
    (h₁ : OthersTeardown k t₁) (h₂ : OthersTeardown k t₂) (h₃ : OthersTeardown k t₃)
    (hrun : runAll s (Act.connectLocked k false :: (t₁ ++ Act.storeSess k :: (t₂ ++
      Act.resubscribe k :: t₃))) = some s') :
    s'.client = some k ∧ s'.sessMap = some (s'.conn k).sess ∧
    (s'.sess (s'.conn k).sess).topics = F ∧ (s'.sess (s'.conn k).sess).closed = false ∧
    ∀ f ∈ F, f ∈ s'.topicMgr := by
  obtain ⟨s1, hs1, h⟩ := runAll_cons_eq_some.mp hrun
  obtain ⟨s2, hr1, h⟩ := runAll_append_eq_some.mp h
  obtain ⟨s3, hs3, h⟩ := runAll_cons_eq_some.mp h
  obtain ⟨s4, hr4, h⟩ := runAll_append_eq_some.mp h
  obtain ⟨s5, hs5, hr6⟩ := runAll_cons_eq_some.mp h
  exact reconnect_restores_steps r hst hfresh h₁ h₂ h₃ hs1 hr1 hs3 hr4 hs5 hr6

/-- **clean_discards.** If the CONNECT asks for a clean session, or the stored session is a
clean one, the connection gets a new session without topics; the stored session is closed and
none of its topics is routed to the id any more. -/
theorem clean_discards {s : St} (r : Reach s) {k : Nat} {clean : Bool} {F : List Nat} {c : Bool}
    (hst : storedSession s = some (F, c)) (hcl : clean = true ∨ c = true) :
    let s1 := connectLocked true s k clean
    (s1.sess (s1.conn k).sess).topics = [] ∧ (s1.sess (s1.conn k).sess).clean = clean ∧
    (∀ f ∈ F, f ∉ s1.topicMgr) ∧ (∀ q, s.sessMap = some q → (s1.sess q).closed = true) := by
  have hinv := reach_inv r
  have hsm' : (takeoverMark s).sessMap = s.sessMap := by cases hc : s.client <;> simp [takeoverMark, hc, setConn]
  have hse' : (takeoverMark s).sess = s.sess := by cases hc : s.client <;> simp [takeoverMark, hc, setConn]
  have hdb' : (takeoverMark s).db = s.db := by cases hc : s.client <;> simp [takeoverMark, hc, setConn]
  have htm' : (takeoverMark s).topicMgr = s.topicMgr := by cases hc : s.client <;> simp [takeoverMark, hc, setConn]
  have hn' : (takeoverMark s).nextSess = s.nextSess := by cases hc : s.client <;> simp [takeoverMark, hc, setConn]
  have hnot : (!clean && !c) = false := by rcases hcl with h | h <;> simp [h]
  unfold storedSession at hst
  simp only [connectLocked, setSession, getSess, hsm', hse', hdb', htm', hn']
  cases hsm : s.sessMap with
  | some q =>
    simp only [hsm, Option.some.injEq, Prod.mk.injEq] at hst
    obtain ⟨_, hlt⟩ := hinv.openS q hsm
    have hne : q ≠ s.nextSess := by omega
    simp only [hst.2, hnot, Bool.false_eq_true, if_false, if_true]
    refine ⟨by simp [newSession, closeSess], by simp [newSession, closeSess], ?_, ?_⟩
    · intro f hf; simp [newSession, closeSess, htm', hse', hst.1, mem_delAll, hf]
    · intro q' hq'; cases hq'; simp [newSession, closeSess, upd_other _ _ hne]
  | none =>
    simp only [hsm] at hst
    simp only [hst, hnot, Bool.false_eq_true, if_false, if_true, upd_same]
    refine ⟨by simp [newSession, closeSess], by simp [newSession, closeSess], ?_, by simp⟩
    intro f hf; simp [newSession, closeSess, htm', mem_delAll, hf]

/-- **remove_only_if_disconnected.** `removeClient` unregisters only a connection whose
status flag is Disconnected; more generally the only steps that take the registration away
from a connection are a takeover, a delete event of the session store, or `removeClient`
on a disconnected client. -/
theorem remove_only_if_disconnected {s s' : St} {a : Act} {o : Nat}
    (hs : step true s a = some s') (hc : s.client = some o) (hc' : s'.client ≠ some o) :
    (∃ k cl, a = Act.connectLocked k cl) ∨ a = Act.watchFires ∨
    ((∃ k, a = Act.remove k) ∧ (s.conn o).disc = true) := by
  cases a <;> simp only [step] at hs
  case connectLocked k cl => exact Or.inl ⟨k, cl, rfl⟩
  case watchFires => exact Or.inr (Or.inl rfl)
  case remove k =>
    split at hs <;> cases hs
    simp only [hc] at hc'
    split at hc'
    · rename_i hd; exact Or.inr (Or.inr ⟨⟨k, rfl⟩, hd⟩)
    · exact absurd (by simp [setPc, setConn, hc]) hc'
  all_goals (exfalso; apply hc')
  case refuse k => split at hs <;> cases hs; simp [setPc, setConn, hc]
  case connackFail k => split at hs <;> cases hs; simp [setPc, setConn, hc]
  case storeSess k => split at hs <;> cases hs; simp [setPc, setConn, persist, hc]
  case resubscribe k => split at hs <;> cases hs; simp [setPc, setConn, hc]
  case subscribe k f => split at hs <;> cases hs; simp [persist, hc]
  case unsubscribe k f => split at hs <;> cases hs; simp [persist, hc]
  case noticeEnd k => split at hs <;> cases hs; simp [setPc, setConn, hc]
  case cleanup k =>
    split at hs <;> cases hs
    by_cases hsup : superseded s k = true
    · simp [teardown, hsup, setPc, setConn, hc]
    · simp [teardown, hsup, teardownBody, setPc, setConn, hc]
      cases s.sessMap <;> split <;> simp [closeSess, hc]
  case close k => split at hs <;> cases hs; simp [setPc, setConn, markDisc, hc]
  case writeErr k =>
    split at hs <;> cases hs
    by_cases hsup : superseded s k = true
    · simp [teardown, hsup, markDisc, setConn, hc]
    · simp [teardown, hsup, teardownBody, markDisc, setConn, hc]
      cases s.sessMap <;> split <;> simp [closeSess, hc]
  case asyncClose k => split at hs <;> cases hs; simp [markDisc, setConn, hc]
  case adminDelete => cases hs; simp [hc]

/-- **admin_delete_disconnects.** Deleting the session through the admin endpoint removes the
persisted copy and leaves a delete event pending (so `watchFires` is enabled); when the event
is handled, whichever connection is registered for the id is marked disconnected and is
unregistered. -/
theorem admin_delete_disconnects {s s1 : St} (h : step true s Act.adminDelete = some s1) :
    s1.db = none ∧ 0 < s1.watch ∧
    ∀ {s2 s3 : St} {o : Nat}, s2.client = some o → step true s2 Act.watchFires = some s3 →
      s3.client = none ∧ (s3.conn o).disc = true := by
  simp only [step] at h; cases h
  refine ⟨rfl, Nat.succ_pos _, ?_⟩
  intro s2 s3 o hc hs
  simp only [step] at hs
  split at hs <;> cases hs
  simp [deleteSession, hc, markDisc, setConn]

/-! ### The unrepaired code violates the property (witness) -/

/-- connection 0 connects (persistent session) and subscribes topic 7; connection 1 takes the
id over and finishes its re-subscription; then the read loop of connection 0 notices its end
and runs `closeAndDelSession`. -/
def witness : List Act :=
  [.connectLocked 0 false, .storeSess 0, .resubscribe 0, .subscribe 0 7,
   .connectLocked 1 false, .asyncClose 0, .storeSess 1, .resubscribe 1,
   .noticeEnd 0, .cleanup 0]

/-- Without the patch (`fixed = false`) connection 1 is still registered, live and running,
but its session has left the session map, is closed, and topic 7 is no longer routed. -/
theorem unrepaired_violates :
    let s := runActs false BrokerSessions.init witness
    s.client = some 1 ∧ (s.conn 1).disc = false ∧ (s.conn 1).pc = Pc.running ∧
    s.sessMap = none ∧ (s.sess (s.conn 1).sess).closed = true ∧ s.topicMgr = [] ∧
    (s.sess (s.conn 1).sess).topics = [7] := by decide

/-- The same history on the repaired code keeps everything. -/
theorem repaired_keeps :
    let s := runActs true BrokerSessions.init witness
    s.client = some 1 ∧ s.sessMap = some (s.conn 1).sess ∧
    (s.sess (s.conn 1).sess).closed = false ∧ s.topicMgr = [7] := by decide

/-- With a clean old session the unrepaired teardown also emits a delete event for the id,
whose handling unregisters and disconnects the *new* connection. -/
theorem unrepaired_delete_event :
    let s := runActs false BrokerSessions.init
      [.connectLocked 0 true, .storeSess 0, .resubscribe 0, .connectLocked 1 true, .asyncClose 0,
       .storeSess 1, .resubscribe 1, .noticeEnd 0, .cleanup 0, .watchFires]
    s.client = none ∧ (s.conn 1).disc = true := by decide

/-! ### Non-vacuity -/

/-- `witness` is a history of the repaired code in which every step is enabled, so the state
it reaches is a `Reach` state that meets the hypotheses of `takeover_teardown_safe`
(`k = 1`, `j = 0`) and of `currentConnIntact`. -/
example : (runAll BrokerSessions.init witness).isSome = true := by decide

example : Reach ((runAll BrokerSessions.init witness).getD BrokerSessions.init) := by
  cases h : runAll BrokerSessions.init witness with
  | none => exact Reach.init
  | some s' => exact reach_runAll Reach.init h

/-- hypotheses of `reconnect_restores`: after connection 0 ended normally, its persistent
session with topic 7 is only in the persisted copy. -/
example :
    let s := runActs true BrokerSessions.init [.connectLocked 0 false, .storeSess 0, .resubscribe 0,
      .subscribe 0 7, .noticeEnd 0, .cleanup 0, .close 0, .remove 0]
    storedSession s = some ([7], false) ∧ s.sessMap = none ∧ s.client = none := by decide

/-- Facts regenerated from the source on every run: the repaired `closeAndDelSession` does
its teardown under the broker lock behind the ownership check, `setSession` unsubscribes a
discarded session's topics, registration and `setSession` sit in one locked section of
`handleConn`, `removeClient` deletes only a disconnected client, `deleteSession` holds the
lock. -/
theorem source_facts :
    Gen.FactsC16.extractionFailed = false ∧
    Gen.FactsC16.teardownUnderBrokerLock = true ∧
    Gen.FactsC16.teardownOwnershipCheck = true ∧
    Gen.FactsC16.setSessionUnsubscribesDiscarded = true ∧
    Gen.FactsC16.registrationAndSetSessionInOneLockedSection = true ∧
    Gen.FactsC16.removeClientChecksDisconnected = true ∧
    Gen.FactsC16.deleteSessionLocksFirst = true := by decide

end EgVerif.C16
