import EgVerif.Proofs.Pipeline
import EgVerif.Gen.FactsC02
import EgVerif.Proofs.PipelineIR
import EgVerif.Proofs.PipelineLands
/-!
# C02 — the pipeline executes filters in flow order with forward-only jumpIf and END

Property theorems about `Model.Pipeline` (a line-by-line model of `pipeline.go`'s `Spec.Validate`,
`ValidateJumpIf`, `doHandle`, `Handle`, `HandleWithBeforeAfter`, flow synthesis, `filterAlias` and of
`globalfilter.go`'s `Handle` / `reload` / `Validate`), for **every** spec, **every** flow and **every**
assignment `res` of results to filter invocations. Helper lemmas live in `Proofs/Pipeline.lean`.

The model mirrors `filterAlias` as repaired by `fixes/C02-end-alias.patch` (the alias of an `END`
node is ignored). `end_alias_defect` below is the witness against the unrepaired function.
-/
namespace EgVerif.C02
open EgVerif.Pipeline EgVerif.Pipeline.Spec

/-! ## Validation is sound and complete -/

/-- **Soundness + completeness of validation.** `Spec.Validate` accepts a spec exactly when: every
filter spec is acceptable (urlname, registered kind), no filter is called `END`, filter names are
unique, and for every real flow node (whatever precedes it) the filter is declared, every mapped
result is declared by the filter's kind and every jump has exactly one admissible continuation
(`targets … = 1`, spelled out in `targets_eq_one_iff`). -/
theorem validate_iff (kinds : List (String × List String)) (p : PSpec) :
    validate kinds p = true ↔ ValidSpec kinds p := by
  unfold validate
  rw [Bool.and_eq_true, validate_eq_valid_flow, flowOk_iff, flowOK_iff_split, validateFilters_iff]
  constructor
  · rintro ⟨⟨h1, h2⟩, h3⟩
    exact ⟨fun f hf => ⟨(h1 f hf).1, (h1 f hf).2.1⟩, fun f hf => (h1 f hf).2.2.1, h2, h3⟩
  · rintro ⟨h1, h2, h3, h4⟩
    exact ⟨⟨fun f hf => ⟨(h1 f hf).1, (h1 f hf).2, h2 f hf, by simp⟩, h3⟩, h4⟩

/-- "exactly one admissible continuation": the target is the built-in `END` and no later real node is
called `END`, or it is not `END` and exactly one later real (non-`END`) node has that name. -/
theorem targets_eq_one_iff (t : String) (later : List Node) :
    targets t later = 1 ↔
      (t = END ∧ later.filter (isTarget t) = []) ∨ (t ≠ END ∧ ∃ m, later.filter (isTarget t) = [m]) := by
  unfold targets
  by_cases h : t = END
  · simp [h, List.filter_eq_nil_iff]
  · simp [h, List.length_eq_one_iff]

/-- The executable specification the judge evaluates on the implementation's accept / reject
decisions is the same predicate. -/
theorem valid_iff (kinds : List (String × List String)) (p : PSpec) :
    Spec.valid kinds p = true ↔ ValidSpec kinds p := by
  unfold Spec.valid
  rw [Bool.and_eq_true, Bool.and_eq_true, flowOk_iff, flowOK_iff_split, nodupB_iff, List.all_eq_true]
  constructor
  · rintro ⟨⟨h1, h2⟩, h3⟩
    refine ⟨fun f hf => ?_, fun f hf => ?_, h2, h3⟩
    · have := h1 f hf; simp only [Bool.and_eq_true, decide_eq_true_eq] at this; exact ⟨this.1.1, this.1.2⟩
    · have := h1 f hf; simp only [Bool.and_eq_true, decide_eq_true_eq] at this; exact this.2
  · rintro ⟨h1, h2, h3, h4⟩
    refine ⟨⟨fun f hf => ?_, h3⟩, h4⟩
    simp only [Bool.and_eq_true, decide_eq_true_eq]
    exact ⟨⟨(h1 f hf).1, (h1 f hf).2⟩, h2 f hf⟩

/-- The model's validation and the executable specification agree on every spec. -/
theorem validate_eq_valid (kinds : List (String × List String)) (p : PSpec) :
    validate kinds p = Spec.valid kinds p := by
  rw [Bool.eq_iff_iff, validate_iff, valid_iff]

/-- A validated spec's *effective* flow (the given one, or the one synthesised from the filters)
has a unique continuation for every jump. -/
theorem jumpsOK_of_validate {kinds : List (String × List String)} {p : PSpec}
    (h : validate kinds p = true) : JumpsOK (effFlow p) := by
  have hv := (validate_iff kinds p).mp h
  unfold effFlow
  by_cases he : p.flow = []
  · rw [if_pos he]
    intro pre n suf hsplit _ r t hmem
    have hn : n ∈ p.filters.map (fun f => (⟨f.1, "", "", []⟩ : Node)) := by
      rw [hsplit]; simp
    obtain ⟨f, _, rfl⟩ := List.mem_map.mp hn
    cases hmem
  · rw [if_neg he]
    intro pre n suf hsplit hend r t hmem
    obtain ⟨k, _, hk⟩ := hv.flow_ok pre n suf hsplit hend
    exact (hk r t hmem).2

/-! ## The runtime loop refines the reference machine -/

/-- **Refinement (central theorem).** For every validated spec, every assignment of results to
filter invocations and every stats prefix, the Go loop (`doHandle` over the bound flow) computes
exactly the run of the reference small-step machine: same invocations (node, alias, bound filter,
kind, namespace, result) in the same order, same returned result, same `sawEnd`. In particular the
machine is never stuck on a validated flow. -/
theorem run_refines_ref (kinds : List (String × List String)) (p : PSpec)
    (h : validate kinds p = true) (res : Nat → String) (tr : List Stat) :
    Spec.runFlow (kindOf p.filters) res (effFlow p) tr =
      some (doHandle (kindOf p.filters) res (effFlow p) tr) :=
  runFlow_eq _ res _ (jumpsOK_of_validate h) tr

/-- `Pipeline.Handle` on a validated spec returns what the reference machine returns. -/
theorem handle_refines_ref (kinds : List (String × List String)) (p : PSpec)
    (h : validate kinds p = true) (res : Nat → String) :
    (Spec.runFlow (mkPipe p).kind res (mkPipe p).flow []).map (fun o => (o.1, o.2.1)) =
      some (handle res (mkPipe p)) := by
  simp only [mkPipe, run_refines_ref kinds p h res [], handle, Option.map_some]

/-- The same at the level of flows: unique continuations are all the refinement needs. -/
theorem run_refines_ref_flow (kind : String → String) (res : Nat → String) (flow : List Node)
    (h : JumpsOK flow) (tr : List Stat) :
    Spec.runFlow kind res flow tr = some (doHandle kind res flow tr) :=
  runFlow_eq kind res flow h tr

/-! ## Properties of every run (valid flow or not) -/

/-- Stats only grow: a flow appends its invocations to the stats it was given. -/
theorem stats_extend (kind : String → String) (res : Nat → String) (flow : List Node) (stats : List Stat) :
    ∃ new, (doHandle kind res flow stats).2.1 = stats ++ new := by
  obtain ⟨new, h⟩ := doHandle_trace kind res flow stats
  exact ⟨new, h.eq⟩

/-- **Forward only**: the node indices of the invocations of one flow strictly increase — filters run
in flow order, no node runs twice, no jump goes backward. -/
theorem forward_only (kind : String → String) (res : Nat → String) (flow : List Node) (stats : List Stat) :
    ∃ new, (doHandle kind res flow stats).2.1 = stats ++ new ∧
      new.Pairwise (fun a b => a.idx < b.idx) := by
  obtain ⟨new, h⟩ := doHandle_trace kind res flow stats
  exact ⟨new, h.eq, h.mono⟩

/-- **Each in its configured namespace**: every invocation is an execution of the real node at its
index: it is recorded under that node's alias, runs the filter instance bound to the node's filter
name (and records its kind) and runs with the node's namespace active (`""` ⇒ `DEFAULT`); its result
is the one the filter returned for that invocation. -/
theorem namespace_per_node (kind : String → String) (res : Nat → String) (flow : List Node)
    (stats : List Stat) :
    ∃ new, (doHandle kind res flow stats).2.1 = stats ++ new ∧
      (∀ s ∈ new, ∃ n, flow[s.idx]? = some n ∧ n.filter ≠ END ∧ s.name = n.name ∧
        s.filter = n.filter ∧ s.kind = kind n.filter ∧ s.ns = useNs n.ns) ∧
      (∀ k (hk : k < new.length), new[k].result = res (stats.length + k)) := by
  obtain ⟨new, h⟩ := doHandle_trace kind res flow stats
  refine ⟨new, h.eq, fun s hs => ?_, h.results⟩
  obtain ⟨_, n, hn, rest⟩ := h.statOf s hs
  exact ⟨n, by simpa using hn, rest⟩

/-- **The pipeline result is the result of the last filter run** (`""` if the flow ran none). -/
theorem result_is_last_run (kind : String → String) (res : Nat → String) (flow : List Node)
    (stats : List Stat) :
    ∃ new, (doHandle kind res flow stats).2.1 = stats ++ new ∧
      (doHandle kind res flow stats).1 = lastResult new := by
  obtain ⟨new, h⟩ := doHandle_trace kind res flow stats
  exact ⟨new, h.eq, h.last⟩

/-- **Nothing runs after END**: a filter whose result is unmapped (absent / mapped to `""`) or
mapped to `END` is the last one of the flow to run — every invocation that is followed by another
one returned `""` or a result mapped to a real target name. -/
theorem nothing_after_end (kind : String → String) (res : Nat → String) (flow : List Node)
    (stats : List Stat) :
    ∃ new, (doHandle kind res flow stats).2.1 = stats ++ new ∧
      ∀ k (hk : k + 1 < new.length), ∃ n, flow[new[k].idx]? = some n ∧
        (new[k].result = "" ∨ ∃ t, n.jumpIf.lookup new[k].result = some t ∧ t ≠ "" ∧ t ≠ END) := by
  obtain ⟨new, h⟩ := doHandle_trace kind res flow stats
  refine ⟨new, h.eq, fun k hk => ?_⟩
  obtain ⟨n, hn, hc⟩ := h.cont k hk
  exact ⟨n, by simpa using hn, hc⟩

/-- An `END` node that is reached ends the pipeline: on a validated flow the run is the reference
run, which stops at `END` nodes; and a flow that reports `sawEnd = false` ran to the end of the flow
with a last result `""`. -/
theorem open_flow_result_empty (kinds : List (String × List String)) (p : PSpec)
    (h : validate kinds p = true) (res : Nat → String) (stats : List Stat)
    (he : (doHandle (kindOf p.filters) res (effFlow p) stats).2.2 = false) :
    (doHandle (kindOf p.filters) res (effFlow p) stats).1 = "" :=
  doHandle_open_result _ res _ (jumpsOK_of_validate h) stats he

/-! ## before / main / after -/

/-- `HandleWithBeforeAfter` on three flows with unique continuations is the reference composition:
before, then main unless before ended, then after unless one of them ended; all invocations go to
one stats list; the result is the result of the last filter that ran in any of the three. -/
theorem beforeAfter_spec_flows (res : Nat → String) (p : Pipe) (before after : Option Pipe)
    (hp : JumpsOK p.flow) (hb : ∀ b, before = some b → JumpsOK b.flow)
    (ha : ∀ a, after = some a → JumpsOK a.flow) :
    Spec.runBA res p before after = some (handleBA res p before after) := by
  unfold Spec.runBA handleBA
  obtain ⟨e1, g1⟩ := thenFlow_good res ("", [], false) before ⟨rfl, fun _ => rfl⟩ hb
  obtain ⟨e2, g2⟩ := thenFlow_good res _ (some p) g1 (fun q hq => by cases hq; exact hp)
  obtain ⟨e3, g3⟩ := thenFlow_good res _ after g2 ha
  rw [e1, e2, e3]
  simp only [Option.map_some, g3.1]

/-- **before / after around the main flow**, for validated specs. -/
theorem beforeAfter_spec (kinds : List (String × List String)) (main : PSpec) (before after : Option PSpec)
    (hm : validate kinds main = true) (hb : ∀ b, before = some b → validate kinds b = true)
    (ha : ∀ a, after = some a → validate kinds a = true) (res : Nat → String) :
    Spec.runBA res (mkPipe main) (before.map mkPipe) (after.map mkPipe) =
      some (handleBA res (mkPipe main) (before.map mkPipe) (after.map mkPipe)) := by
  apply beforeAfter_spec_flows
  · exact jumpsOK_of_validate hm
  · intro b hb'
    cases before with
    | none => cases hb'
    | some b0 => simp only [Option.map_some, Option.some.injEq] at hb'; subst hb'; exact jumpsOK_of_validate (hb b0 rfl)
  · intro a ha'
    cases after with
    | none => cases ha'
    | some a0 => simp only [Option.map_some, Option.some.injEq] at ha'; subst ha'; exact jumpsOK_of_validate (ha a0 rfl)

/-- **GlobalFilter**: a validated GlobalFilter spec around a validated pipeline behaves as the
reference composition, where a before / after pipeline exists only if its flow is non-empty. -/
theorem globalFilter_spec (kinds : List (String × List String)) (main before after : PSpec)
    (hm : validate kinds main = true) (hg : gfValidate kinds before after = true) (res : Nat → String) :
    Spec.runBA res (mkPipe main) (gfPipe before) (gfPipe after) =
      some (gfHandle res (mkPipe main) before after) := by
  unfold gfHandle
  unfold gfValidate at hg
  rw [Bool.and_eq_true] at hg
  apply beforeAfter_spec_flows
  · exact jumpsOK_of_validate hm
  · intro b hb
    unfold gfPipe at hb
    split at hb
    · cases hb
    · simp only [Option.some.injEq] at hb; subst hb; exact jumpsOK_of_validate hg.1
  · intro a ha
    unfold gfPipe at ha
    split at ha
    · cases ha
    · simp only [Option.some.injEq] at ha; subst ha; exact jumpsOK_of_validate hg.2

/-- **The `globalfilter` judge's executable spec accepts the model** (`Driver/C02.lean`, mode `gf`: accept /
reject is judged with `Spec.valid` on both parts, the runs with `Spec.runBA … (gfPipe before) (gfPipe after)`):
the model's validation decision is the spec's on every pair of parts, and for validated specs the spec's run
is defined and equals the model's `gfHandle`, for every result assignment. -/
theorem globalFilter_judge_accepts_model (kinds : List (String × List String)) (main before after : PSpec)
    (res : Nat → String) :
    gfValidate kinds before after = (Spec.valid kinds before && Spec.valid kinds after) ∧
    (validate kinds main = true → gfValidate kinds before after = true →
      Spec.runBA res (mkPipe main) (gfPipe before) (gfPipe after) = some (gfHandle res (mkPipe main) before after)) := by
  refine ⟨by unfold gfValidate; rw [validate_eq_valid, validate_eq_valid], fun hm hg => ?_⟩
  exact globalFilter_spec kinds main before after hm hg res

/-- **An END anywhere stops all three**: once a flow ended the pipeline, the later flows do not run. -/
theorem end_stops_all (res : Nat → String) (p : Pipe) (b : Pipe) (after : Option Pipe)
    (he : (doHandle b.kind res b.flow []).2.2 = true) :
    handleBA res p (some b) after = doHandle b.kind res b.flow [] := by
  unfold handleBA
  cases after <;> simp [thenFlow, he]

theorem end_in_main_stops_after (res : Nat → String) (p : Pipe) (a : Pipe)
    (he : (doHandle p.kind res p.flow []).2.2 = true) :
    handleBA res p none (some a) = doHandle p.kind res p.flow [] := by
  unfold handleBA
  simp [thenFlow, he]

/-! ## Stats order = execution order; reused filter instances; END inside before / after -/

/-- **Stats order = execution order, across all three flows.** In the one stats list that
`HandleWithBeforeAfter` (hence `GlobalFilter.Handle`) serializes into the tag, the k-th entry is the
k-th filter invocation of the request (`res k`), whatever the flows are: before, main and after append in
this order and each flow appends in execution order (`forward_only`). For every flow, valid or not. -/
theorem stats_order_is_execution_order (res : Nat → String) (p : Pipe) (before after : Option Pipe) :
    ∀ k (hk : k < (handleBA res p before after).2.1.length),
      ((handleBA res p before after).2.1)[k].result = res k := by
  unfold handleBA
  exact thenFlow_statsInOrder res _ after (thenFlow_statsInOrder res _ (some p)
    (thenFlow_statsInOrder res _ before (fun k hk => absurd hk (by simp))))

/-- **A filter referenced by several flow nodes is one instance.** Two invocations whose flow nodes name
the same filter ran the same bound instance of the same kind — whatever their aliases and namespaces are. -/
theorem reused_filter_same_instance (kind : String → String) (res : Nat → String) (flow : List Node)
    (stats : List Stat) :
    ∃ new, (doHandle kind res flow stats).2.1 = stats ++ new ∧
      ∀ s1 ∈ new, ∀ s2 ∈ new, ∀ n1 n2, flow[s1.idx]? = some n1 → flow[s2.idx]? = some n2 →
        n1.filter = n2.filter → s1.filter = s2.filter ∧ s1.kind = s2.kind := by
  obtain ⟨new, h⟩ := doHandle_trace kind res flow stats
  refine ⟨new, h.eq, fun s1 h1 s2 h2 n1 n2 e1 e2 hf => ?_⟩
  obtain ⟨_, m1, hm1, _, _, hf1, hk1, _⟩ := h.statOf s1 h1
  obtain ⟨_, m2, hm2, _, _, hf2, hk2, _⟩ := h.statOf s2 h2
  simp only [Nat.sub_zero] at hm1 hm2
  rw [e1] at hm1; rw [e2] at hm2
  cases hm1; cases hm2
  exact ⟨by rw [hf1, hf2, hf], by rw [hk1, hk2, hf]⟩

/-- **`END` as the first node of a GlobalFilter's before flow stops everything**: no filter of the before
flow, the main pipeline or the after flow runs; the result is empty. -/
theorem gf_end_first_in_before_stops_all (res : Nat → String) (main : Pipe) (before after : PSpec)
    (n : Node) (rest : List Node) (hf : before.flow = n :: rest) (hn : n.filter = END) :
    gfHandle res main before after = ("", [], true) := by
  have hne : ¬ before.flow = [] := by rw [hf]; exact List.cons_ne_nil _ _
  have hd : doHandle (mkPipe before).kind res (mkPipe before).flow [] = ("", [], true) := by
    simp only [mkPipe, effFlow, hf, doHandle, List.cons_ne_nil, if_false]
    unfold loop
    simp [hn]
  unfold gfHandle handleBA
  simp only [gfPipe, hne, if_false, thenFlow, hd, Bool.true_eq_false]
  by_cases ha : after.flow = [] <;> simp [ha]

/-- **`END` as the first node of the after flow** ends the request without running anything more: the
stats stay those of the main pipeline. The returned result is the after flow's own (empty) result —
every `doHandle` starts from `result = ""` — which for a validated main flow that did not end is what the
main flow carried anyway (`open_flow_result_empty`). -/
theorem gf_end_first_in_after_keeps_main (res : Nat → String) (main : Pipe) (after : PSpec)
    (n : Node) (rest : List Node) (hf : after.flow = n :: rest) (hn : n.filter = END)
    (hopen : (doHandle main.kind res main.flow []).2.2 = false) :
    gfHandle res main ⟨[], []⟩ after =
      ("", (doHandle main.kind res main.flow []).2.1, true) := by
  have hne : ¬ after.flow = [] := by rw [hf]; exact List.cons_ne_nil _ _
  unfold gfHandle handleBA
  have hd : ∀ st, doHandle (kindOf after.filters) res (n :: rest) st = ("", st, true) := by
    intro st
    simp only [doHandle]
    unfold loop
    simp [hn]
  simp only [gfPipe, hne, if_false, if_true, thenFlow, hopen, mkPipe, effFlow, hf, List.cons_ne_nil]
  generalize doHandle main.kind res main.flow [] = o at hopen ⊢
  obtain ⟨r, st, e⟩ := o
  simp only at hopen
  subst hopen
  simp [hd]

/-! ## Flow synthesis (`flow` empty ⇒ the filters in declaration order) -/

private def kindsEx' : List (String × List String) := [("K", ["r1", "r2"])]

/-- Regenerated skeleton of `Pipeline.reload` / `GlobalFilter.reload` (by role: FLOW = the local stored into
`p.flow`, RAW = range variable over `p.spec.Filters`, SPEC = `filters.NewSpec(…, RAW)`): FLOW starts as the
spec's flow, is replaced by an empty slice when that is empty, and gets exactly one node
`FlowNode{FilterName: SPEC.Name()}` per filter spec, in the loop over the filter specs, exactly when the spec's
flow is empty — there is no other write; `p.flow = FLOW` follows the loop; the binding loop binds each non-END
node to the instance registered under its `FilterName` (instances are registered under their own name);
a GlobalFilter creates its before / after pipeline exactly when that part's flow is non-empty. This is what
`effFlow` / `kindOf` / `gfPipe` mirror. -/
theorem reload_skeleton_facts :
    Gen.FactsC02.extractionFailed = false ∧
    Gen.FactsC02.reloadFlowWrites =
      ["FLOW := P.spec.Flow",
       "if len(FLOW) == 0 { FLOW = make([]FlowNode, 0, len(P.spec.Filters))",
       "range P.spec.Filters { if len(P.spec.Flow) == 0 { FLOW = append(FLOW, FlowNode{FilterName: SPEC.Name()})"] ∧
    Gen.FactsC02.reloadStoreAfterLoop = true ∧
    Gen.FactsC02.reloadBinding = ["if NODE.FilterName != BuiltInFilterEnd { NODE.filter = P.filters[NODE.FilterName] }"] ∧
    Gen.FactsC02.reloadRegistersByName = 1 ∧
    Gen.FactsC02.gfReloadCreates =
      ["len(GF.spec.BeforePipeline.Flow) != 0 => CreateAndUpdateBeforePipelineForSpec",
       "len(GF.spec.AfterPipeline.Flow) != 0 => CreateAndUpdateAfterPipelineForSpec"] := by
  decide

/-- the synthesised flow is one plain node per filter, in declaration order -/
theorem effFlow_synth (fs : List (String × String)) : effFlow ⟨fs, []⟩ = fs.map synthNode := by
  simp [effFlow, synthNode]

/-- **The synthesised flow validates**: a spec without a flow is accepted as soon as its filter specs are
(`validateFilters`), and so is the same spec with the synthesised flow written out explicitly. -/
theorem synth_flow_validates (kinds : List (String × List String)) (fs : List (String × String))
    (h : validateFilters kinds fs [] = true) :
    validate kinds ⟨fs, []⟩ = true ∧ validate kinds ⟨fs, fs.map synthNode⟩ = true := by
  have hf := (validateFilters_iff kinds fs []).mp h
  have hE : ∀ f ∈ fs, f.1 ≠ END := fun f hm => (hf.1 f hm).2.2.1
  obtain ⟨vt, hvt⟩ := scan_synth fs kinds fs hE (fun f hm => lookup_self_of_mem fs f hm)
  exact ⟨by simp [validate, h, scan], by simp [validate, h, hvt]⟩

/-- **The synthesised flow executes every filter exactly once, in declaration order**: with a validated
filter list and no flow, a request whose filters all return `""` runs node k = filter k for k = 0 … n-1 (each
index once, increasing), each under its own name, bound to its own instance, in the default namespace; the
result is `""`. (A non-empty result ends the pipeline there: the synthesised nodes have no `jumpIf` —
`nothing_after_end`.) -/
theorem synth_flow_runs_every_filter_once_in_order (kinds : List (String × List String))
    (fs : List (String × String)) (h : validateFilters kinds fs [] = true)
    (res : Nat → String) (hres : ∀ k, res k = "") :
    handle res (mkPipe ⟨fs, []⟩) = ("", synthStats (kindOf fs) fs 0) ∧
    (handle res (mkPipe ⟨fs, []⟩)).2.map (·.filter) = fs.map (·.1) ∧
    (handle res (mkPipe ⟨fs, []⟩)).2.map (·.idx) = List.range fs.length := by
  have hf := (validateFilters_iff kinds fs []).mp h
  have hE : ∀ f ∈ fs, f.1 ≠ END := fun f hm => (hf.1 f hm).2.2.1
  have hl := loop_synth (kindOf fs) res hres fs 0 "" [] hE
  have hh : handle res (mkPipe ⟨fs, []⟩) = ("", synthStats (kindOf fs) fs 0) := by
    simp only [handle, mkPipe, effFlow_synth, doHandle, hl, List.nil_append]
    by_cases e : fs = [] <;> simp [e]
  refine ⟨hh, ?_, ?_⟩
  · rw [hh]; exact synthStats_filters _ fs 0
  · rw [hh]; simp only [synthStats_idx _ fs 0]; exact (List.range_eq_range' (n := fs.length)).symm

/-- non-vacuity: three validated filters, no flow -/
example : validateFilters kindsEx' [("v", "K"), ("a", "K"), ("p", "K")] [] = true ∧
    (handle (fun _ => "") (mkPipe ⟨[("v", "K"), ("a", "K"), ("p", "K")], []⟩)).2.map (fun s => (s.idx, s.filter)) =
      [(0, "v"), (1, "a"), (2, "p")] := by decide

/-! ## Validation is needed; the repaired `filterAlias` is needed -/

private def kindsEx : List (String × List String) := [("K", ["r1", "r2"])]

/-- a later alias that occurs twice: `a --r1--> x`, and both `b` and `c` are called `x` -/
private def dupSpec : PSpec :=
  ⟨[("a", "K"), ("b", "K"), ("c", "K")],
   [⟨"a", "", "", [("r1", "x")]⟩, ⟨"b", "x", "", []⟩, ⟨"c", "x", "n1", []⟩]⟩

/-- **Negative**: without validation the runtime can mis-execute. The flow `dupSpec` is rejected by
validation; the reference machine has no run for it (the target is not unique), yet the runtime loop
silently jumps to the first of the two nodes. -/
theorem unvalidated_can_misexecute :
    validate kindsEx dupSpec = false ∧
    Spec.runFlow (kindOf dupSpec.filters) (fun k => if k = 0 then "r1" else "") dupSpec.flow [] = none ∧
    ((doHandle (kindOf dupSpec.filters) (fun k => if k = 0 then "r1" else "") dupSpec.flow []).2.1.map
      (fun s => (s.idx, s.name, s.filter))) = [(0, "a", "a"), (1, "x", "b"), (2, "x", "c")] := by
  decide

/-- `filterAlias` as it is in the unrepaired tree: the alias wins also on `END` nodes. -/
private def oldName (n : Node) : String := if n.alias ≠ "" then n.alias else n.filter

/-- the loop with the unrepaired `filterAlias` (only `Node.name` replaced) -/
private def oldLoop (kind : String → String) (res : Nat → String) :
    List Node → Nat → String → String → List Stat → String × List Stat × Bool
  | [], _, result, _, stats => (result, stats, false)
  | n :: rest, i, result, next, stats =>
    if next ≠ "" ∧ next ≠ oldName n then oldLoop kind res rest (i + 1) result next stats
    else if n.filter = END then (result, stats, true)
    else
      let r := res stats.length
      let stats' := stats ++ [⟨i, oldName n, n.filter, kind n.filter, useNs n.ns, r⟩]
      if r = "" then oldLoop kind res rest (i + 1) r "" stats'
      else
        let nx := (n.jumpIf.lookup r).getD ""
        if nx = "" ∨ nx = END then (r, stats', true)
        else oldLoop kind res rest (i + 1) r nx stats'

/-- `a --r1--> x`; an `END` node carrying the alias `x` stands before the real node `x` -/
private def endAliasSpec : PSpec :=
  ⟨[("a", "K"), ("b", "K")],
   [⟨"a", "", "", [("r1", "x")]⟩, ⟨"END", "x", "", []⟩, ⟨"b", "x", "", []⟩]⟩

/-- **Genuine defect (repaired by `fixes/C02-end-alias.patch`).** The spec `endAliasSpec` is accepted by
validation (the only later real node called `x` is `b`, the `END` node is not counted), the reference
machine and the repaired loop jump to `b`; the unrepaired loop stops at the aliased `END` node and `b`
never runs. The harness replays this input on the real code (`corpus/C02/pipeline.jsonl`). -/
theorem end_alias_defect :
    validate kindsEx endAliasSpec = true ∧
    ((doHandle (kindOf endAliasSpec.filters) (fun k => if k = 0 then "r1" else "") endAliasSpec.flow []).2.1.map
      (fun s => (s.idx, s.filter))) = [(0, "a"), (2, "b")] ∧
    ((oldLoop (kindOf endAliasSpec.filters) (fun k => if k = 0 then "r1" else "") endAliasSpec.flow 0 "" "" []).2.1.map
      (fun s => (s.idx, s.filter))) = [(0, "a")] := by
  decide

/-! ## Facts regenerated from the source on every run -/

/-- The constants the model hard-codes are the ones in the source, and the modelled functions have
the shape the model assumes: one filter invocation, one namespace switch and one `filterAlias()` per
loop iteration; `HandleWithBeforeAfter` runs three flows, `Handle` one; `Validate` goes through
`ValidateJumpIf` (which names nodes with `filterAlias()`) and the reserved-name check;
`GlobalFilter.Handle` delegates to `HandleWithBeforeAfter` and its `Validate` validates both specs. -/
theorem source_facts :
    Gen.FactsC02.extractionFailed = false ∧
    Gen.FactsC02.endName = END ∧ Gen.FactsC02.defaultNamespace = DEFAULT ∧
    Gen.FactsC02.urlNamePattern = "^[A-Za-z0-9\\-_\\.~]{1,253}$" ∧
    Gen.FactsC02.doHandleFilterCalls = 1 ∧ Gen.FactsC02.doHandleUseNamespaceCalls = 1 ∧
    Gen.FactsC02.doHandleAliasCalls = 1 ∧
    Gen.FactsC02.hwbaDoHandleCalls = 3 ∧ Gen.FactsC02.handleDoHandleCalls = 1 ∧
    Gen.FactsC02.validateCallsValidateJumpIf = 1 ∧ Gen.FactsC02.validateCallsIsBuiltIn = 1 ∧
    Gen.FactsC02.validateJumpIfAliasCalls = 1 ∧
    Gen.FactsC02.gfHandleCallsHWBA = 1 ∧ Gen.FactsC02.gfValidateCalls = 2 := by
  decide

/-! ## Regenerated tie by translation (notes/IR.md, `harness/factextract/facts_c02_ir.go`)

`Gen.FactsC02IR.*IR` are translated on every run from the current bodies of the Go functions by the
go/ast micro-translator; each is the model function on every input. Proofs (same names, namespace
`EgVerif.Pipeline`): `Proofs/PipelineIR.lean`. A changed comparison, branch, constant, loop exit or
counter update in the source changes the generated definition and breaks the theorem of that function. -/

/-- `FlowNode.filterAlias` (as repaired: the alias of an `END` node is ignored). -/
theorem filterAlias_regenerated_from_source (n : Node) :
    Gen.FactsC02IR.extractionFailed = false ∧ Gen.FactsC02IR.filterAliasIR n = n.name :=
  ⟨by decide, Pipeline.filterAlias_regenerated_from_source n⟩

/-- `isBuiltInFilter` (the reserved-name test of `Spec.Validate`). -/
theorem isBuiltInFilter_regenerated_from_source (name : String) :
    Gen.FactsC02IR.extractionFailed = false ∧ Gen.FactsC02IR.isBuiltInFilterIR name = decide (name = END) :=
  ⟨by decide, Pipeline.isBuiltInFilter_regenerated_from_source name⟩

/-- `Context.UseNamespace` (`""` ⇒ `DEFAULT`), whatever namespace was active before. -/
theorem useNamespace_regenerated_from_source (ns0 ns : String) :
    Gen.FactsC02IR.extractionFailed = false ∧ Gen.FactsC02IR.useNamespaceIR ns0 ns = useNs ns :=
  ⟨by decide, Pipeline.useNamespace_regenerated_from_source ns0 ns⟩

/-- `Pipeline.doHandle`: the translated loop (`result, next, sawEnd`, the stats slice, `continue` / `break`,
the `JumpIf` lookup, one `UseNamespace` + one filter invocation + one stat per executed node) is the
model's `doHandle`, for every kind table, every result assignment, every flow, every stats prefix and
every namespace active on entry. -/
theorem doHandle_regenerated_from_source (kind : String → String) (res : Nat → String) (ns0 : String)
    (flow : List Node) (stats : List Stat) :
    Gen.FactsC02IR.extractionFailed = false ∧
      Gen.FactsC02IR.doHandleIR kind res ns0 flow stats = doHandle kind res flow stats :=
  ⟨by decide, Pipeline.doHandle_regenerated_from_source kind res ns0 flow stats⟩

/-- `Pipeline.Handle`: returned result and the stats behind the tag. -/
theorem handle_regenerated_from_source (res : Nat → String) (p : Pipe) :
    Gen.FactsC02IR.extractionFailed = false ∧ Gen.FactsC02IR.handleIR res p = handle res p :=
  ⟨by decide, Pipeline.handle_regenerated_from_source res p⟩

/-- `Pipeline.HandleWithBeforeAfter`: returned result and the stats behind the tag are those of the
model's `handleBA` (before unless nil; main unless ended; after unless ended or nil). -/
theorem handleWithBeforeAfter_regenerated_from_source (res : Nat → String) (p : Pipe)
    (before after : Option Pipe) :
    Gen.FactsC02IR.extractionFailed = false ∧
      Gen.FactsC02IR.handleBAIR res p before after =
        ((handleBA res p before after).1, (handleBA res p before after).2.1) :=
  ⟨by decide, Pipeline.handleWithBeforeAfter_regenerated_from_source res p before after⟩

/-- `Spec.ValidateJumpIf(specs)`: the translated backward loop (index `len-1 … 0`, the `validTargets`
map as an association list, the inner `range node.JumpIf`, the three `panic`s, `validTargets[alias]++`)
returns normally exactly when the model's `scan` succeeds — for every `specs` table. -/
theorem validateJumpIf_regenerated_from_source (kinds : List (String × List String)) (s : PSpec)
    (specs : List (String × String)) :
    Gen.FactsC02IR.extractionFailed = false ∧
      Gen.FactsC02IR.validateJumpIfIR kinds s specs = (scan specs kinds s.flow).isSome :=
  ⟨by decide, Pipeline.validateJumpIf_regenerated_from_source kinds s specs⟩

/-- Go iterates `node.JumpIf` (a map) in an unspecified order; the translated inner loop gives the same
answer for every order of the entries, whenever the counter represents a multiset of names (which the
outer loop maintains). -/
theorem validateJumpIf_order_independent (kinds : List (String × List String)) (s : PSpec)
    (specs : List (String × String)) (m : List (String × Int)) (vt : List String) (hm : CtrRel m vt)
    (node : Node) (spec : Option String) (results : List String) (l1 l2 : List (String × String))
    (hp : l1.Perm l2) :
    Gen.FactsC02IR.validateJumpIfIR_loop2 kinds s specs m node spec results l1 =
      Gen.FactsC02IR.validateJumpIfIR_loop2 kinds s specs m node spec results l2 :=
  Pipeline.validateJumpIf_regenerated_from_source_loop_perm kinds s specs m vt hm node spec results l1 l2 hp

/-- `Spec.Validate`: the translated function (filter loop with `filters.NewSpec`, reserved and duplicate
name checks building the `specs` map, `ValidateJumpIf`, resilience loop; `panic` = rejected through the
deferred `recover`) accepts exactly when the model's `validate` accepts and every resilience entry is
accepted by `resilience.NewPolicy`. -/
theorem validate_regenerated_from_source (kinds : List (String × List String)) (s : PSpec) (resil : List Bool) :
    Gen.FactsC02IR.extractionFailed = false ∧
      Gen.FactsC02IR.validateIR kinds s resil = (validate kinds s && resil.all id) :=
  ⟨by decide, Pipeline.validate_regenerated_from_source kinds s resil⟩

/-- `GlobalFilter.Handle`: panics (`none`) iff the handler is not a pipeline; otherwise it is
`HandleWithBeforeAfter` with the loaded before / after pipelines — with the pipelines `reload` stores
(`gfPipe`), the model's `gfHandle`. -/
theorem gfHandle_regenerated_from_source (res : Nat → String) (handler bp ap : Option Pipe)
    (main : Pipe) (before after : PSpec) :
    Gen.FactsC02IR.extractionFailed = false ∧
      Gen.FactsC02IR.gfHandleIR res handler bp ap = handler.map (fun p => handleBA res p bp ap) ∧
      Gen.FactsC02IR.gfHandleIR res (some main) (gfPipe before) (gfPipe after) =
        some (gfHandle res main before after) :=
  ⟨by decide, Pipeline.gfHandle_regenerated_from_source res handler bp ap,
    Pipeline.gfHandle_regenerated_from_source_model res main before after⟩

/-- `globalfilter.Spec.Validate`. -/
theorem gfValidate_regenerated_from_source (kinds : List (String × List String)) (before after : PSpec) :
    Gen.FactsC02IR.extractionFailed = false ∧
      Gen.FactsC02IR.gfValidateIR kinds before after = gfValidate kinds before after :=
  ⟨by decide, Pipeline.gfValidate_regenerated_from_source kinds before after⟩

/-! ## Non-vacuity: concrete validated specs meeting the hypotheses -/

/-- validator → adaptor → proxy with a jump over the adaptor *and over an END node*, an `END` mapping,
a reused filter under an alias and two namespaces. -/
private def okSpec : PSpec :=
  ⟨[("v", "K"), ("a", "K"), ("p", "K")],
   [⟨"v", "", "", [("r1", "END"), ("r2", "px")]⟩, ⟨"a", "", "n1", []⟩, ⟨"END", "", "", []⟩,
    ⟨"p", "px", "n2", [("r1", "END")]⟩, ⟨"a", "again", "", []⟩]⟩

example : validate kindsEx okSpec = true := by decide
example : ValidSpec kindsEx okSpec := (validate_iff _ _).mp (by decide)

/-- `v` returns `r2`: jump to `px` (node 3) skipping node 1 and the END node 2; then node 4. -/
example : (handle (fun k => if k = 0 then "r2" else "") (mkPipe okSpec)).2.map
    (fun s => (s.idx, s.name, s.filter, s.ns, s.result)) =
    [(0, "v", "v", "DEFAULT", "r2"), (3, "px", "p", "n2", ""), (4, "again", "a", "DEFAULT", "")] := by decide

/-- all results `""`: nodes 0, 1 run, then the END node stops the pipeline. -/
example : (handle (fun _ => "") (mkPipe okSpec)).2.map (fun s => s.idx) = [0, 1] := by decide

/-- before ends (unmapped result `zz`) ⇒ main and after do not run, result `zz`. -/
example : (handleBA (fun _ => "zz") (mkPipe okSpec) (some (mkPipe okSpec)) (some (mkPipe okSpec))).1 = "zz" ∧
    (handleBA (fun _ => "zz") (mkPipe okSpec) (some (mkPipe okSpec)) (some (mkPipe okSpec))).2.1.length = 1 := by
  decide

/-- the regenerated definitions compute on the same concrete spec: `Validate` accepts it (and rejects it
when a resilience entry is bad, or when the flow has a duplicated target); the translated loop visits
nodes 0, 3, 4 on `r2`. -/
example : Gen.FactsC02IR.validateIR kindsEx okSpec [true] = true ∧
    Gen.FactsC02IR.validateIR kindsEx okSpec [true, false] = false ∧
    Gen.FactsC02IR.validateIR kindsEx dupSpec [] = false ∧
    Gen.FactsC02IR.validateJumpIfIR kindsEx okSpec okSpec.filters = true := by decide

example : (Gen.FactsC02IR.doHandleIR (kindOf okSpec.filters) (fun k => if k = 0 then "r2" else "") "zz"
    okSpec.flow []).2.1.map (fun s => (s.idx, s.name, s.ns)) =
    [(0, "v", "DEFAULT"), (3, "px", "n2"), (4, "again", "DEFAULT")] := by decide

example : Gen.FactsC02IR.gfHandleIR (fun _ => "") none none none = none := by decide

/-- reuse + stats order on the concrete spec: filter `a` runs at node 1 and (alias `again`) at node 4 —
same instance `a`, different stat names; the tag order is the execution order. -/
example : (handle (fun k => if k = 2 then "zz" else "") (mkPipe okSpec)).2.map (fun s => (s.idx, s.name, s.filter)) =
    [(0, "v", "v"), (1, "a", "a")] ∧
    (handle (fun k => if k = 0 then "r2" else "") (mkPipe okSpec)).2.map (fun s => (s.name, s.filter, s.kind)) =
    [("v", "v", "K"), ("px", "p", "K"), ("again", "a", "K")] := by decide

/-- END first in a GlobalFilter's before flow: nothing runs -/
example : gfHandle (fun _ => "r1") (mkPipe okSpec) ⟨[("v", "K")], [⟨"END", "", "", []⟩, ⟨"v", "", "", []⟩]⟩ ⟨[], []⟩ =
    ("", [], true) := by decide

/-- a spec without a flow: one node per filter in spec order -/
example : (handle (fun _ => "") (mkPipe ⟨[("v", "K"), ("a", "K")], []⟩)).2.map (fun s => s.filter) = ["v", "a"] := by
  decide

/-! ### Audit repair (notes/AUDIT.md, C02 item 12): where a jump lands, declaratively

Until now "a non-empty result jumps to exactly the node named by `jumpIf`, skipping every node in
between; `""` runs the very next node" was only true *inside* the definition of the reference machine
`Spec.run` (through `run_refines_ref`). The two theorems below state it about `doHandle` itself, for
**every** flow — validated or not — and every assignment of results. Proof by recursion on the loop:
`Proofs/PipelineLands.lean`. -/

/-- **Where control goes after each filter.** For consecutive invocations `new[k]`, `new[k+1]` of one flow:
* the first invocation of the flow is node 0;
* if `new[k]` returned `""`, the next invocation is the **next flow node** (`idx + 1`);
* if it returned `r ≠ ""`, then `jumpIf` of its node maps `r` to a real target `t` (not `""`, not `END`),
  the next invocation is recorded under the name `t`, lies strictly later, and **no node in between is
  named `t`** — it is the first later node named `t`; with `forward_only` (indices strictly increase
  along `new`) none of the nodes in between runs. -/
theorem jump_lands_on_target (kind : String → String) (res : Nat → String) (flow : List Node)
    (stats : List Stat) :
    ∃ new, (doHandle kind res flow stats).2.1 = stats ++ new ∧
      (∀ h : 0 < new.length, new[0].idx = 0) ∧
      ∀ k (hk : k + 1 < new.length), ∃ n, flow[new[k].idx]? = some n ∧
        (new[k].result = "" → new[k + 1].idx = new[k].idx + 1) ∧
        (new[k].result ≠ "" → ∃ t, n.jumpIf.lookup new[k].result = some t ∧ t ≠ "" ∧ t ≠ END ∧
          new[k + 1].name = t ∧ new[k].idx < new[k + 1].idx ∧
          ∀ j, new[k].idx < j → j < new[k + 1].idx → ∀ m, flow[j]? = some m → m.name ≠ t) := by
  obtain ⟨new, heq, hfirst, hl⟩ := doHandle_lands kind res flow stats
  refine ⟨new, heq, ?_, ?_⟩
  · intro h
    cases new with
    | nil => simp at h
    | cons s tl => exact hfirst.2.1 rfl
  · intro k hk
    obtain ⟨n, hn, h1, h2, h3⟩ := lands_get hl k (by omega)
    have hdrop : new.drop (k + 1) = new[k + 1] :: new.drop (k + 2) := List.drop_eq_getElem_cons hk
    refine ⟨n, hn, ?_, ?_⟩
    · intro hr
      have := h1 hr
      rw [hdrop] at this
      exact this.2.1 rfl
    · intro hr
      have hne : new.drop (k + 1) ≠ [] := by rw [hdrop]; exact List.cons_ne_nil _ _
      have hnot : ¬((n.jumpIf.lookup new[k].result).getD "" = "" ∨
          (n.jumpIf.lookup new[k].result).getD "" = END) := fun h => hne (h3 hr h)
      cases hlk : n.jumpIf.lookup new[k].result with
      | none => simp [hlk] at hnot
      | some t =>
        simp only [hlk, Option.getD_some, not_or] at hnot
        have hf := h2 t hr hlk hnot.1 hnot.2
        rw [hdrop] at hf
        obtain ⟨hle, _, hnm⟩ := hf
        obtain ⟨hname, hbetween⟩ := hnm hnot.1
        exact ⟨t, rfl, hnot.1, hnot.2, hname, by omega, fun j hj hlt m hm => hbetween j (by omega) hlt m hm⟩

/-- **Why a flow stops where it stops.** The last invocation of a flow is followed by nothing only because
the flow is over or an `END` node comes next (result `""`), because its result is unmapped or mapped to
`END` (`nothing_after_end`), or — impossible on a validated flow, where every target occurs later — because
no later node carries the target's name. In particular a taken jump whose target exists later *does* run it. -/
theorem last_invocation_explained (kind : String → String) (res : Nat → String) (flow : List Node)
    (stats : List Stat) :
    ∃ new, (doHandle kind res flow stats).2.1 = stats ++ new ∧
      (new = [] → ∀ n, flow[0]? = some n → n.filter = END) ∧
      ∀ k (hk : k + 1 = new.length), ∃ n, flow[new[k].idx]? = some n ∧
        (new[k].result = "" → ∀ m, flow[new[k].idx + 1]? = some m → m.filter = END) ∧
        (∀ t, new[k].result ≠ "" → n.jumpIf.lookup new[k].result = some t → t ≠ "" → t ≠ END →
          ∀ j, new[k].idx < j → ∀ m, flow[j]? = some m → m.name ≠ t) := by
  obtain ⟨new, heq, hfirst, hl⟩ := doHandle_lands kind res flow stats
  refine ⟨new, heq, ?_, ?_⟩
  · intro h; subst h; exact hfirst.1 rfl
  · intro k hk
    obtain ⟨n, hn, h1, h2, _⟩ := lands_get hl k (by omega)
    have hdrop : new.drop (k + 1) = [] := List.drop_eq_nil_of_le (by omega)
    rw [hdrop] at h1 h2
    refine ⟨n, hn, fun hr => (h1 hr).1 rfl, fun t hr hlk ht hE j hj m hm => ?_⟩
    exact (h2 t hr hlk ht hE).2 ht j (by omega) m hm

/-- Non-vacuity (`okSpec`): `v` returns `r2` ↦ `px`: the next invocation is node 3, named `px`; nodes 1
(`a`) and 2 (`END`) in between are not named `px` and do not run; `px` returns `""` ↦ node 4 runs next. -/
example : (doHandle (kindOf okSpec.filters) (fun k => if k = 0 then "r2" else "") (effFlow okSpec) []).2.1.map
    (fun s => (s.idx, s.name, s.result)) = [(0, "v", "r2"), (3, "px", ""), (4, "again", "")] ∧
    ((effFlow okSpec)[0]?.map (fun n => n.jumpIf.lookup "r2")) = some (some "px") ∧
    ((effFlow okSpec).map (·.name)) = ["v", "a", "END", "px", "again"] := by decide

/-- Non-vacuity of the `sawEnd = false` hypotheses (`open_flow_result_empty`,
`gf_end_first_in_after_keeps_main`): a validated flow that runs to its end without meeting `END` — here
through the jump over the `END` node — reports `sawEnd = false` and result `""`; and the same flow does
report `sawEnd = true` when the `END` node is reached. -/
example : validate kindsEx okSpec = true ∧
    (doHandle (kindOf okSpec.filters) (fun k => if k = 0 then "r2" else "") (effFlow okSpec) []).2.2 = false ∧
    (doHandle (kindOf okSpec.filters) (fun k => if k = 0 then "r2" else "") (effFlow okSpec) []).1 = "" ∧
    (doHandle (kindOf okSpec.filters) (fun _ => "") (effFlow okSpec) []).2.2 = true := by decide
example : (doHandle (mkPipe okSpec).kind (fun k => if k = 0 then "r2" else "") (mkPipe okSpec).flow []).2.2 = false ∧
    gfHandle (fun k => if k = 0 then "r2" else "") (mkPipe okSpec) ⟨[], []⟩ ⟨[("v", "K")], [⟨"END", "", "", []⟩, ⟨"v", "", "", []⟩]⟩ =
      ("", (doHandle (mkPipe okSpec).kind (fun k => if k = 0 then "r2" else "") (mkPipe okSpec).flow []).2.1, true) := by
  decide

end EgVerif.C02
