import EgVerif.Proofs.LoadBalance
import EgVerif.Gen.FactsC04
import EgVerif.Proofs.LoadBalanceIR
import EgVerif.Proofs.LoadBalanceSwap
/-!
# C04 — load balancers pick only live pool members, fairly / stickily, never failing

Property theorems about `Model.LoadBalance` (mirror of `loadbalance.go` and of the balancer part of
`pool.go`, with the weighted-random repair of `fixes/C04-weighted-zero.patch`). They hold for **every**
server list (any length, any integer weights), every request key, every counter / random value the
environment can hand to a selection, every schedule of atomic steps. Helper lemmas:
`Proofs/LoadBalance.lean`.

Environment contract used as hypotheses (trusted, exercised by the harness):
* `x.counter < 2^63` — the round-robin counter is a `uint64` converted with `int(counter)`;
  fairness is claimed for fewer than 2^63 selections per balancer;
* `x.rnd < randBound lb` — `rand.Intn(n)` returns a value in `[0, n)`.
-/
namespace EgVerif.C04
open EgVerif.LoadBalance

/-- the `math/rand` and `uint64` contract for one selection -/
def Contract (lb : LB) (x : Sel) : Prop :=
  x.counter < 9223372036854775808 ∧
    ((lb.policy = .random ∨ lb.policy = .weightedRandom) → (x.rnd : Int) < randBound lb)

/-! ### membership, nil ⇔ empty -/

/-- Every policy: the server returned is a member of the balancer's (current, immutable) list. -/
theorem choose_mem (lb : LB) (x : Sel) {s : Server} (h : choose lb x = .srv s) : s ∈ lb.servers := by
  unfold choose at h
  split_ifs at h with h0
  cases hp : lb.policy <;> simp only [hp] at h
  · exact index_mem h
  · exact index_mem h
  · exact weightedChoose_mem h
  · exact index_mem h
  · exact index_mem h

/-- A selection yields "no server" exactly when the list is empty. -/
theorem nil_iff_empty (lb : LB) (x : Sel) : choose lb x = .nil ↔ lb.servers = [] := by
  unfold choose
  constructor
  · intro h
    split_ifs at h with h0
    · exact List.eq_nil_of_length_eq_zero h0
    · exfalso
      cases hp : lb.policy <;> simp only [hp] at h
      · exact index_ne_nil _ _ h
      · exact index_ne_nil _ _ h
      · exact weightedChoose_ne_nil _ _ h
      · exact index_ne_nil _ _ h
      · exact index_ne_nil _ _ h
  · intro h; simp [h]

example : choose (newLB "ipHash" [⟨"a", 0, []⟩, ⟨"b", 0, []⟩]) { ip := [49] } = .srv ⟨"a", 0, []⟩ := by decide
example : choose (newLB "random" []) {} = .nil := by decide

/-! ### no panic -/

/-- **No policy panics**, for any server list whatsoever (hence for every pool `Validate` accepts and
for every list service discovery can publish), given the environment contract. -/
theorem no_panic (lb : LB) (x : Sel) (hc : Contract lb x) : choose lb x ≠ .panic := by
  obtain ⟨hcnt, hrnd⟩ := hc
  unfold choose
  split_ifs with h0
  · simp
  · have hpos : 0 < lb.servers.length := Nat.pos_of_ne_zero h0
    cases hp : lb.policy <;> simp only
    · rw [rr_index hcnt, index_natCast _ _ (Nat.mod_lt _ hpos)]; simp
    · have := hrnd (Or.inl hp)
      simp only [randBound, hp] at this
      rw [index_natCast _ _ (by omega)]; simp
    · have := hrnd (Or.inr hp)
      simp only [randBound, hp] at this
      exact weightedChoose_no_panic _ _ hpos this
    · unfold hashIndex; rw [index_natCast _ _ (Nat.mod_lt _ hpos)]; simp
    · unfold hashIndex; rw [index_natCast _ _ (Nat.mod_lt _ hpos)]; simp

/-- The statement's form: a pool accepted by `ServerPoolSpec.Validate` never panics, whatever
policy name it carries, on its static list … -/
theorem no_panic_of_valid (sps : PoolSpec) (_hv : validate sps = true) (x : Sel)
    (hc : Contract (newLB sps.policy sps.servers) x) :
    choose (newLB sps.policy sps.servers) x ≠ .panic := no_panic _ x hc

/-- … and on every list published by `useService` (weights set by discovery are not validated). -/
theorem no_panic_discovery (sps : PoolSpec) (insts : List Instance) (x : Sel)
    (hc : Contract (newLB sps.policy (useService sps insts)) x) :
    choose (newLB sps.policy (useService sps insts)) x ≠ .panic := no_panic _ x hc

/-- The code as found does **not** satisfy this: a pool with all weights zero passes `Validate`
and the first weighted-random selection panics (`rand.Intn(0)`). Replayed on the real code by the
harness (corpus/C04/lb.jsonl). -/
theorem unfixed_panics :
    let sps : PoolSpec := { servers := [⟨"http://10.0.0.1:8000", 0, []⟩], policy := "weightedRandom" }
    validate sps = true ∧ chooseUnfixed (newLB sps.policy sps.servers) {} = .panic := by decide

example : Contract (newLB "weightedRandom" [⟨"a", 0, []⟩, ⟨"b", 0, []⟩]) { rnd := 1 } := by
  refine ⟨by decide, fun _ => by decide⟩

/-! ### weighted random -/

/-- weightedRandom never picks a zero-weight (or negative-weight) server when some weight is
positive — for arbitrary integer weights (static or set by discovery). -/
theorem weighted_never_zero (ss : List Server) (x : Sel) (hex : ∃ s ∈ ss, 0 < s.weight) {s : Server}
    (h : choose ⟨.weightedRandom, ss⟩ x = .srv s) : 0 < s.weight := by
  have ht := totalWeight_pos_of hex
  unfold choose at h
  split_ifs at h with h0
  exact weightedChoose_pos ht h

/-- When no weight is positive the (repaired) policy degrades to a uniform choice over the list. -/
theorem weighted_no_positive_uniform (ss : List Server) (x : Sel) (h : ∀ s ∈ ss, s.weight ≤ 0) :
    choose ⟨.weightedRandom, ss⟩ x = choose ⟨.random, ss⟩ x := by
  have ht : totalWeight ss ≤ 0 := by
    induction ss with
    | nil => simp [totalWeight]
    | cons a r ih =>
      simp only [totalWeight]
      have ha := h a List.mem_cons_self
      have := ih (fun s hs => h s (List.mem_cons_of_mem _ hs))
      split_ifs <;> omega
  unfold choose weightedChoose
  simp [ht]

example : choose ⟨.weightedRandom, [⟨"a", 0, []⟩, ⟨"b", 3, []⟩, ⟨"c", 0, []⟩]⟩ { rnd := 0 } =
    .srv ⟨"b", 3, []⟩ := by decide

/-! ### round robin -/

/-- `#{ i < k | i % n = j } = k / n + (if j < k % n then 1 else 0)` -/
theorem rr_count (k n j : Nat) (hn : 0 < n) (hj : j < n) :
    ((List.range k).filter (fun i => i % n == j)).length = k / n + (if j < k % n then 1 else 0) :=
  range_filter_mod_length n j hn hj k

/-- the closed form is ⌊k/n⌋ or ⌈k/n⌉ -/
theorem rrCount_floor_or_ceil (k n j : Nat) :
    rrCount k n j = k / n ∨ (k % n ≠ 0 ∧ rrCount k n j = k / n + 1) := by
  unfold rrCount
  split_ifs with h
  · right; exact ⟨by omega, rfl⟩
  · left; rfl

/-- One round-robin selection that obtained counter value `c` returns position `c % n`. -/
theorem rr_choose (ss : List Server) (x : Sel) (hc : x.counter < 9223372036854775808)
    (hpos : 0 < ss.length) :
    choose ⟨.roundRobin, ss⟩ x = .srv (ss[x.counter % ss.length]'(Nat.mod_lt _ hpos)) := by
  unfold choose
  have h0 : ¬ ss.length = 0 := by omega
  simp only [h0, if_false]
  rw [rr_index hc, index_natCast _ _ (Nat.mod_lt _ hpos)]

/-- **Fairness under any interleaving.** `sched` is the order in which any number of threads perform
their `atomic.AddUint64` on one balancer (`k = sched.length` selections, sequential or concurrent);
`done` is the list of (thread, value) pairs in *any* order of completion. Each position `j` of the
list is returned `k / n + [j < k % n]` times, i.e. ⌊k/n⌋ or ⌈k/n⌉ times, and every selection returns
the server at position `value % n`. -/
theorem rr_fair_any_interleaving (ss : List Server) (hpos : 0 < ss.length) (sched : List Nat)
    (hk : sched.length < 9223372036854775808) (done : List (Nat × Nat))
    (hperm : done.Perm (handOut sched 0)) (j : Nat) (hj : j < ss.length) :
    (done.filter (fun o => o.2 % ss.length == j)).length = rrCount sched.length ss.length j ∧
    (∀ o ∈ done, ∃ h : o.2 % ss.length < ss.length,
        choose ⟨.roundRobin, ss⟩ { counter := o.2 } = .srv ss[o.2 % ss.length]) := by
  constructor
  · rw [(hperm.filter _).length_eq]
    have hv := handOut_values sched 0
    have : (handOut sched 0).filter (fun o => o.2 % ss.length == j) =
        (handOut sched 0).filter ((fun i => i % ss.length == j) ∘ (·.2)) := rfl
    rw [this, ← List.length_map (f := (·.2)), ← List.filter_map, hv, List.range'_eq_map_range]
    simp only [Nat.zero_add, List.map_id']
    exact range_filter_mod_length _ j hpos hj _
  · intro o ho
    have hm : o ∈ handOut sched 0 := hperm.subset ho
    have hv : o.2 ∈ (handOut sched 0).map (·.2) := List.mem_map_of_mem hm
    rw [handOut_values] at hv
    have hlt : o.2 < sched.length := by
      have := List.mem_range'_1.mp hv
      omega
    exact ⟨Nat.mod_lt _ hpos, rr_choose ss { counter := o.2 } (by simp only; omega) hpos⟩

/-- three threads, seven selections over three servers, completions reordered: 3 / 2 / 2 -/
example :
    let done := [(2, 6), (0, 0), (1, 1), (0, 3), (2, 2), (1, 5), (1, 4)]
    done.Perm (handOut [0, 1, 2, 0, 1, 1, 2] 0) ∧
      (done.filter (fun o => o.2 % 3 == 0)).length = 3 ∧ rrCount 7 3 0 = 3 ∧ rrCount 7 3 2 = 2 := by
  refine ⟨by decide, by decide, by decide, by decide⟩

/-- Beyond the hypothesis the claim is false in the model too: `int(counter)` goes negative. -/
example : choose ⟨.roundRobin, [⟨"a", 0, []⟩, ⟨"b", 0, []⟩, ⟨"c", 0, []⟩]⟩
    { counter := 9223372036854775808 } = .panic := by decide

/-! ### hash policies -/

/-- ipHash: the choice is a function of the client IP and the list only. -/
theorem ip_hash_sticky (ss : List Server) (x y : Sel) (h : x.ip = y.ip) :
    choose ⟨.ipHash, ss⟩ x = choose ⟨.ipHash, ss⟩ y := by
  unfold choose; simp only [h]

/-- headerHash: the choice is a function of the header value and the list only. -/
theorem header_hash_sticky (ss : List Server) (x y : Sel) (h : x.hdr = y.hdr) :
    choose ⟨.headerHash, ss⟩ x = choose ⟨.headerHash, ss⟩ y := by
  unfold choose; simp only [h]

/-- the executable `sticky` check used by the judge accepts every run of the model -/
theorem hash_sticky (ss : List Server) (keys : List (List Nat)) (f : Res → Int) :
    sticky (keys.map (fun k => (k, f (choose ⟨.ipHash, ss⟩ { ip := k })))) = true := by
  unfold sticky
  simp only [List.all_eq_true, List.mem_map]
  rintro _ ⟨k1, _, rfl⟩ _ ⟨k2, _, rfl⟩
  by_cases h : k1 = k2
  · subst h; simp
  · simp [h]

/-- FNV-1 32-bit test vectors (the values Go's `fnv.New32` gives for `""`, `"a"`, `"foobar"`,
`"1.2.3.4"`). -/
theorem fnv1_vectors :
    fnv1 [] = 2166136261 ∧ fnv1 [97] = 84696446 ∧ fnv1 [102, 111, 111, 98, 97, 114] = 837857890 ∧
      fnv1 [49, 46, 50, 46, 51, 46, 52] = 1184937821 := by decide

/-! ### the pool: validation, discovery, replacement, 503 -/

/-- `Validate` accepts exactly: some source of servers, and weights all positive or none positive. -/
theorem validate_spec (sps : PoolSpec) :
    validate sps = true ↔
      (sps.serviceName ≠ "" ∨ sps.servers ≠ []) ∧
      ((∀ s ∈ sps.servers, ¬ 0 < s.weight) ∨ (∀ s ∈ sps.servers, 0 < s.weight)) := by
  unfold validate
  have hlen := List.length_filter_le (fun s : Server => decide (s.weight > 0)) sps.servers
  have hz : (sps.servers.filter (fun s => decide (s.weight > 0))).length = 0 ↔
      ∀ s ∈ sps.servers, ¬ 0 < s.weight := by
    rw [List.length_eq_zero_iff, List.filter_eq_nil_iff]; simp
  have hf : (sps.servers.filter (fun s => decide (s.weight > 0))).length = sps.servers.length ↔
      ∀ s ∈ sps.servers, 0 < s.weight := by
    rw [List.length_filter_eq_length_iff]; simp
  generalize (sps.servers.filter (fun s => decide (s.weight > 0))).length = g at *
  have hnil : sps.servers.length = 0 ↔ sps.servers = [] := List.length_eq_zero_iff
  by_cases h1 : sps.serviceName = "" ∧ sps.servers.length = 0
  · simp only [h1, and_self, if_true, Bool.false_eq_true, false_iff]
    rintro ⟨h | h, _⟩
    · exact h (by simp)
    · exact h (hnil.mp h1.2)
  · simp only [h1, if_false]
    have hsrc : sps.serviceName ≠ "" ∨ sps.servers ≠ [] := by
      by_cases hs : sps.serviceName = ""
      · right; intro hn; exact h1 ⟨hs, hnil.mpr hn⟩
      · left; exact hs
    by_cases h2 : g > 0 ∧ g < sps.servers.length
    · simp only [h2, and_self, if_true, Bool.false_eq_true, false_iff]
      rintro ⟨_, h | h⟩
      · have := hz.mpr h; omega
      · have := hf.mpr h; omega
    · simp only [h2, if_false, true_iff]
      refine ⟨hsrc, ?_⟩
      by_cases hg : g = 0
      · left; exact hz.mp hg
      · right; exact hf.mp (by omega)

/-- `useService` publishes exactly the tagged instances (in map order), or the static list when no
instance carries one of the pool's tags. -/
theorem use_service_spec (sps : PoolSpec) (insts : List Instance) :
    useService sps insts = currentList sps insts := by
  unfold useService currentList qualifies
  have := filterMap_ite (fun i : Instance => sps.serverTags.any (fun t => i.tags.contains t))
    (fun i => (⟨i.url, i.weight, i.tags⟩ : Server)) insts
  simp only [this]
  cases hf : insts.filter (fun i => sps.serverTags.any (fun t => i.tags.contains t)) <;> simp

/-- The iteration order of Go's instance map only permutes the published list. -/
theorem use_service_perm (sps : PoolSpec) {a b : List Instance} (h : a.Perm b) :
    (useService sps a).Perm (useService sps b) := by
  rw [use_service_spec, use_service_spec]
  unfold currentList
  have hp := h.filter (fun i => sps.serverTags.any (fun t => i.tags.contains t))
  dsimp only
  by_cases he : (a.filter (fun i => sps.serverTags.any (fun t => i.tags.contains t))).isEmpty = true
  · have he' : (b.filter (fun i => sps.serverTags.any (fun t => i.tags.contains t))).isEmpty = true := by
      rw [List.isEmpty_iff] at he ⊢
      rw [he] at hp
      exact hp.symm.eq_nil
    rw [if_pos he, if_pos he']
  · have he' : ¬ (b.filter (fun i => sps.serverTags.any (fun t => i.tags.contains t))).isEmpty = true := by
      intro hb
      rw [List.isEmpty_iff] at hb
      rw [hb] at hp
      exact he (by rw [List.isEmpty_iff]; exact hp.eq_nil)
    rw [if_neg he, if_neg he']
    exact hp.map _

example : useService ⟨"svc", ["v2"], [⟨"static", 0, []⟩], ""⟩
    [⟨"i1", ["v1"], 0⟩, ⟨"i2", ["v1", "v2"], 5⟩] = [⟨"i2", 5, ["v1", "v2"]⟩] := by decide
example : useService ⟨"svc", ["v3"], [⟨"static", 0, []⟩], ""⟩
    [⟨"i1", ["v1"], 0⟩, ⟨"i2", ["v1", "v2"], 5⟩] = [⟨"static", 0, []⟩] := by decide

/-- **Replacement is linearizable.** For every interleaving `evs` of atomic loads, picks (fetch-add +
choice on the loaded balancer) and publications of new lists, every selection result was computed by
`choose` on **one** published generation — the initial list or one of the stored ones, never a
mixture — and a returned server is a member of that generation's list. -/
theorem swap_linearizable (evs : List Ev) : ∀ (p : Pool), ∀ o ∈ run p evs,
    ∃ lb ∈ p.gens.map (·.1) ++ (stores evs).map (newLB p.policy),
      (∃ x, o.res = choose lb x) ∧ ∀ s, o.res = .srv s → s ∈ lb.servers := by
  induction evs with
  | nil => intro p o ho; simp [run] at ho
  | cons e es ih =>
    intro p o ho
    simp only [run, List.mem_append, Option.mem_toList] at ho
    rcases ho with ho | ho
    · obtain ⟨lb, hlb, x, hx⟩ := step_out p e ho
      exact ⟨lb, List.mem_append_left _ hlb, ⟨x, hx⟩, fun s hs => choose_mem lb x (hx ▸ hs)⟩
    · obtain ⟨lb, hlb, hres⟩ := ih _ o ho
      refine ⟨lb, ?_, hres⟩
      rw [step_gens, step_policy, List.append_assoc, ← List.map_append, ← stores_cons] at hlb
      exact hlb

/-- two threads, a publication between thread 0's load and its pick: thread 0 still gets a member of
the old list, thread 1 (loaded afterwards) a member of the new one. -/
example : (run (Pool.init "roundRobin" [⟨"old", 0, []⟩])
    [.load 0, .store [⟨"new", 0, []⟩], .load 1, .pick 0 {}, .pick 1 {}]).map (·.res) =
    [.srv ⟨"old", 0, []⟩, .srv ⟨"new", 0, []⟩] := by decide

/-- `doHandle` fails a request for lack of a server (503 `internalError`) only when the current list
is empty, and otherwise sends it to `url ++ path` of a member of the list. -/
theorem doHandle_spec (lb : LB) (x : Sel) (path : String) (hc : Contract lb x) :
    (doHandleTarget lb x path = .unavailable ↔ lb.servers = []) ∧
    (∀ u, doHandleTarget lb x path = .send u → ∃ s ∈ lb.servers, u = s.url ++ path) ∧
    doHandleTarget lb x path ≠ .panic := by
  have hnp := no_panic lb x hc
  have hnil := nil_iff_empty lb x
  unfold doHandleTarget
  cases hch : choose lb x with
  | nil => exact ⟨by simp [← hnil, hch], by simp, by simp⟩
  | srv s =>
    refine ⟨?_, ?_, by simp⟩
    · constructor
      · intro h; cases h
      · intro he; rw [← hnil, hch] at he; cases he
    · intro u hu; cases hu; exact ⟨s, choose_mem lb x hch, rfl⟩
  | panic => exact absurd hch hnp

/-! ### facts re-derived from the source on every run -/

/-- The modelling assumptions, as syntactic facts of the current working tree. -/
theorem source_facts :
    Gen.FactsC04.extractionFailed = false ∧
    -- NewLoadBalancer switches on exactly the names `Policy.ofString` knows, default = round robin
    Gen.FactsC04.policyConsts = ["roundRobin", "random", "weightedRandom", "ipHash", "headerHash"] ∧
    Gen.FactsC04.newLBCases = ["LoadBalancePolicyRoundRobin|\"\" => newRoundRobinLoadBalancer",
      "LoadBalancePolicyRandom => newRandomLoadBalancer",
      "LoadBalancePolicyWeightedRandom => newWeightedRandomLoadBalancer",
      "LoadBalancePolicyIPHash => newIPHashLoadBalancer",
      "LoadBalancePolicyHeaderHash => newHeaderHashLoadBalancer",
      "default => newRoundRobinLoadBalancer"] ∧
    Gen.FactsC04.policyEnum = ["", "roundRobin", "random", "weightedRandom", "ipHash", "headerHash"] ∧
    -- every ChooseServer starts with the empty-list guard
    Gen.FactsC04.nilGuarded.length = 5 ∧
    -- the only explicit panic is the end of the weighted loop (modelled: `weightedLoop [] _`)
    Gen.FactsC04.panicSites = ["WeightedRandomLoadBalancer.ChooseServer:1"] ∧
    Gen.FactsC04.panicCallsInFile = 1 ∧
    -- round robin: one atomic fetch-add, index `int(counter) % len`
    Gen.FactsC04.rrFetchAdds = 1 ∧ Gen.FactsC04.rrIndexExpr = true ∧
    -- the repair is present: `rand.Intn(lb.totalWeight)` is guarded by `lb.totalWeight <= 0`, non-positive
    -- weights are skipped by the loop and by the constructor's sum
    Gen.FactsC04.weightedZeroGuarded = true ∧ Gen.FactsC04.weightedLoopSkipsNonPositive = true ∧
    Gen.FactsC04.weightedSumLoop = ["if server.Weight > 0 { lb.totalWeight += server.Weight }"] ∧
    -- FNV-1, not FNV-1a
    Gen.FactsC04.fnvNew32Calls = 2 ∧ Gen.FactsC04.fnvNew32aCalls = 0 ∧
    -- balancers are immutable after construction (except the counter)
    Gen.FactsC04.postConstructionWrites = 0 ∧
    -- one atomic Load per LoadBalancer(), one Store site, one choice per doHandle, nil ⇒ 503 internalError
    Gen.FactsC04.poolLoadsInLoadBalancer = 1 ∧ Gen.FactsC04.poolStoresInFile = 1 ∧
    Gen.FactsC04.poolStoresInCreate = 1 ∧ Gen.FactsC04.doHandleChoices = 1 ∧
    Gen.FactsC04.doHandleNilReturn = "serverPoolError{http.StatusServiceUnavailable, resultInternalError}" := by
  decide

/-! ### Regenerated tie by translation (`notes/IR.md`)

`Gen.FactsC04IR.*IR` are re-translated on every run from the current bodies of the five `ChooseServer`
methods and `ServerPoolSpec.Validate` (go/ast → Lean, `harness/factextract/irlib.go`; `rand.Intn(n)`
guarded by `n > 0`, the weighted loop / the counting loop as generated structural recursion); each is
the model function on every input. Proofs: `Proofs/LoadBalanceIR.lean`. -/

theorem chooseRandom_regenerated_from_source (ss : List Server) (x : Sel) :
    Gen.FactsC04IR.extractionFailed = false ∧ Gen.FactsC04IR.chooseRandomIR ss x = choose ⟨.random, ss⟩ x :=
  ⟨by decide, LoadBalance.chooseRandom_regenerated_from_source ss x⟩

theorem chooseRoundRobin_regenerated_from_source (ss : List Server) (x : Sel) :
    Gen.FactsC04IR.extractionFailed = false ∧
      Gen.FactsC04IR.chooseRoundRobinIR ss x = choose ⟨.roundRobin, ss⟩ x :=
  ⟨by decide, LoadBalance.chooseRoundRobin_regenerated_from_source ss x⟩

theorem chooseWeighted_regenerated_from_source (ss : List Server) (x : Sel) :
    Gen.FactsC04IR.extractionFailed = false ∧
      Gen.FactsC04IR.chooseWeightedIR ss x = choose ⟨.weightedRandom, ss⟩ x :=
  ⟨by decide, LoadBalance.chooseWeighted_regenerated_from_source ss x⟩

theorem chooseIPHash_regenerated_from_source (ss : List Server) (x : Sel) :
    Gen.FactsC04IR.extractionFailed = false ∧ Gen.FactsC04IR.chooseIPHashIR ss x = choose ⟨.ipHash, ss⟩ x :=
  ⟨by decide, LoadBalance.chooseIPHash_regenerated_from_source ss x⟩

theorem chooseHeaderHash_regenerated_from_source (ss : List Server) (x : Sel) :
    Gen.FactsC04IR.extractionFailed = false ∧
      Gen.FactsC04IR.chooseHeaderHashIR ss x = choose ⟨.headerHash, ss⟩ x :=
  ⟨by decide, LoadBalance.chooseHeaderHash_regenerated_from_source ss x⟩

theorem validate_regenerated_from_source (sps : PoolSpec) :
    Gen.FactsC04IR.extractionFailed = false ∧ Gen.FactsC04IR.validateIR sps = validate sps :=
  ⟨by decide, LoadBalance.validate_regenerated_from_source sps⟩

/-! ### second part of the tie (Extension resil): `Gen.FactsC04IRb`

`NewLoadBalancer`, the five constructors, `createLoadBalancer`, `LoadBalancer()` and `useService`,
re-translated from their bodies on every run. -/

theorem newLoadBalancer_regenerated_from_source (policy : String) (ss : List Server) :
    Gen.FactsC04IRb.extractionFailed = false ∧ Gen.FactsC04IRb.newLoadBalancerIR policy ss = newLB policy ss :=
  ⟨by decide, LoadBalance.newLoadBalancer_regenerated_from_source policy ss⟩

/-- every constructor stores the very list it is handed (so `lb.Servers` *is* the published list), and
the weighted one sums the positive weights only -/
theorem constructors_regenerated_from_source (ss : List Server) :
    Gen.FactsC04IRb.extractionFailed = false ∧
    Gen.FactsC04IRb.newRandomIR ss = (ss, 0) ∧ Gen.FactsC04IRb.newRoundRobinIR ss = (ss, 0) ∧
    Gen.FactsC04IRb.newIPHashIR ss = (ss, 0) ∧ Gen.FactsC04IRb.newHeaderHashIR ss = (ss, 0) ∧
    Gen.FactsC04IRb.newWeightedIR ss = (ss, totalWeight ss) :=
  ⟨by decide, (LoadBalance.newPlain_regenerated_from_source ss).1, (LoadBalance.newPlain_regenerated_from_source ss).2.1,
    (LoadBalance.newPlain_regenerated_from_source ss).2.2.1, (LoadBalance.newPlain_regenerated_from_source ss).2.2.2,
    LoadBalance.newWeighted_regenerated_from_source ss⟩

/-- `createLoadBalancer` publishes exactly one fresh balancer = `NewLoadBalancer(spec or {}, servers)`
(the model's `step (.store ss)`); `LoadBalancer()` returns the value of its one atomic load. -/
theorem createLoadBalancer_regenerated_from_source (lbspec : Option String) (ss : List Server) (cur : LB) :
    Gen.FactsC04IRp.extractionFailed = false ∧
    Gen.FactsC04IRp.createLoadBalancerIR lbspec ss = some (newLB (lbspec.getD "") ss) ∧
    Gen.FactsC04IRp.loadBalancerIR cur = cur :=
  ⟨by decide, LoadBalance.createLoadBalancer_regenerated_from_source lbspec ss, rfl⟩

/-- up to the order of the published list (which no clause of the property constrains): `srt` is an
arbitrary re-ordering, e.g. a `sort.Slice`, should the code contain one -/
theorem useService_regenerated_from_source (srt : List Server → List Server) (hsrt : ∀ l, (srt l).Perm l)
    (sps : PoolSpec) (insts : List Instance) :
    Gen.FactsC04IRp.extractionFailed = false ∧
      (Gen.FactsC04IRp.useServiceIR srt sps insts).Perm (useService sps insts) :=
  ⟨by decide, LoadBalance.useService_regenerated_from_source srt hsrt sps insts⟩

example : Gen.FactsC04IRp.useServiceIR id ⟨"svc", ["v2"], [⟨"static", 0, []⟩], ""⟩
    [⟨"i1", ["v1"], 0⟩, ⟨"i2", ["v1", "v2"], 5⟩] = [⟨"i2", 5, ["v1", "v2"]⟩] ∧
  Gen.FactsC04IRb.newLoadBalancerIR "bogus" [] = ⟨.roundRobin, []⟩ ∧
  Gen.FactsC04IRb.newWeightedIR [⟨"a", 2, []⟩, ⟨"b", -1, []⟩, ⟨"c", 3, []⟩] = ([⟨"a", 2, []⟩, ⟨"b", -1, []⟩, ⟨"c", 3, []⟩], 5) := by
  decide

/-! ### round robin across list replacement (Extension resil)

The statement's fairness clause is about "the n servers"; when discovery replaces the list while
selectors run there are several lists. The exact claim that holds: **fairness per generation** — the
selections made on one published balancer (however they interleave with loads, selections on other
generations and further publications) obtained that balancer's counter values `0, 1, …, k−1`, so position
`j` of *its* list was chosen `⌊k/n⌋` or `⌈k/n⌉` times. Across generations nothing is promised (every new
balancer restarts at position 0). -/
theorem rr_fair_per_generation (policy : String) (ss0 : List Server) (evs : List Ev) (g : Nat) :
    let outs := onGen g (run (Pool.init policy ss0) evs)
    outs.map (·.counter) = List.range' 0 outs.length ∧
    ∀ (n j : Nat), 0 < n → j < n →
      (outs.filter (fun o => o.counter % n == j)).length = rrCount outs.length n j := by
  simp only
  have hc := gen_counters g evs (Pool.init policy ss0)
  have h0 : ctr (Pool.init policy ss0) g = 0 := by
    unfold ctr Pool.init
    cases g <;> simp
  rw [h0] at hc
  refine ⟨hc, fun n j hn hj => ?_⟩
  have : (onGen g (run (Pool.init policy ss0) evs)).filter (fun o => o.counter % n == j) =
      (onGen g (run (Pool.init policy ss0) evs)).filter ((fun i => i % n == j) ∘ (·.counter)) := rfl
  rw [this, ← List.length_map (f := (·.counter)), ← List.filter_map, hc, List.range'_eq_map_range]
  simp only [Nat.zero_add, List.map_id']
  exact range_filter_mod_length n j hn hj _

/-- two generations interleaved: thread 0 stays on the old list (3 picks: counters 0,1,2), thread 1 on
the new one (2 picks: counters 0,1) -/
example :
    let evs : List Ev := [.load 0, .pick 0 {}, .store [⟨"x", 0, []⟩, ⟨"y", 0, []⟩], .load 1, .pick 1 {}, .pick 0 {},
      .pick 1 {}, .pick 0 {}]
    (onGen 0 (run (Pool.init "" [⟨"a", 0, []⟩, ⟨"b", 0, []⟩]) evs)).map (·.counter) = [0, 1, 2] ∧
    (onGen 1 (run (Pool.init "" [⟨"a", 0, []⟩, ⟨"b", 0, []⟩]) evs)).map (·.counter) = [0, 1] := by
  decide

/-! ### discovery report histories (Extension resil, second round) -/

/-- **Selection uses the LAST reported tagged instances with their LAST weights.** After any history of
discovery reports the balancer's list is `currentList` of the *last* report alone — nothing of an earlier
report survives (no remembered weights, no remembered membership); so every selection returns a member
of it, and weightedRandom never returns an instance whose last reported weight is not positive when some
last reported weight is. (The *order* of the list is that of the map iteration: round-robin fairness is
per generation and the hash policies are functions of (key, list) — a re-sorted list is a different but
equally admissible generation; the judge compares lists as multisets.) -/
theorem use_service_history_last_report (sps : PoolSpec) (rs : List (List Instance)) (r : List Instance)
    (policy : String) (x : Sel) :
    afterReports sps (rs ++ [r]) = currentList sps r ∧
    (∀ s, choose (newLB policy (afterReports sps (rs ++ [r]))) x = .srv s → s ∈ currentList sps r) ∧
    (∀ s, (∃ t ∈ currentList sps r, 0 < t.weight) →
      choose ⟨.weightedRandom, afterReports sps (rs ++ [r])⟩ x = .srv s → 0 < s.weight) := by
  have h : afterReports sps (rs ++ [r]) = currentList sps r := by
    unfold afterReports
    rw [List.foldl_append]
    simp [use_service_spec]
  refine ⟨h, ?_, ?_⟩
  · intro s hs
    have := choose_mem _ x hs
    simpa [newLB, h] using this
  · intro s hex hs
    rw [h] at hs
    exact weighted_never_zero _ x hex hs

/-- an instance drained to weight 0 by the second report is not selected any more, whatever the first
report said -/
example :
    let sps : PoolSpec := ⟨"svc", ["v1"], [], "weightedRandom"⟩
    afterReports sps [[⟨"a", ["v1"], 5⟩, ⟨"b", ["v1"], 5⟩], [⟨"a", ["v1"], 0⟩, ⟨"b", ["v1"], 5⟩]] =
      [⟨"a", 0, ["v1"]⟩, ⟨"b", 5, ["v1"]⟩] ∧
    choose ⟨.weightedRandom, [⟨"a", 0, ["v1"]⟩, ⟨"b", 5, ["v1"]⟩]⟩ { rnd := 0 } = .srv ⟨"b", 5, ["v1"]⟩ := by
  decide

/-! ### Audit repair (notes/AUDIT.md, C04 item 5): *which* generation a selection uses

`swap_linearizable` above only places the balancer among all generations published at any time of the
run, and `rr_fair_per_generation` speaks about counters only. The theorems below pin the generation
and the server. Helper lemmas: `Proofs/LoadBalanceSwap.lean`. -/

/-- **A selection uses the list that was current at its thread's latest load.** Split the run at any
pick of thread `t` (`evs = pre ++ pick t x :: post`). If that pick yields an output `o` (it is then the
element of `run … evs` right after the outputs of `pre`), thread `t` loaded in `pre`; with `pre1` the
events before its **latest** load, `o.gen` is the number of lists published in `pre1` and `o.res` is
`ChooseServer` of the balancer built from the last list published in `pre1` (the initial list if none),
evaluated with the counter fetched from that balancer. A list published after the load — in `pre2` or
`post` — cannot be the one used. -/
theorem selection_uses_generation_at_last_load (policy : String) (ss0 : List Server) (pre post : List Ev)
    (t : Nat) (x : Sel) (o : Out)
    (h : (step (after (Pool.init policy ss0) pre) (.pick t x)).2 = some o) :
    run (Pool.init policy ss0) (pre ++ .pick t x :: post) =
      run (Pool.init policy ss0) pre ++ o :: run (after (Pool.init policy ss0) (pre ++ [.pick t x])) post ∧
    ∃ pre1 pre2 ss, pre = pre1 ++ .load t :: pre2 ∧ NoLoad t pre2 ∧
      o.thread = t ∧ o.gen = (stores pre1).length ∧
      (ss0 :: stores pre1).getLast? = some ss ∧
      o.res = choose (newLB policy ss) { x with counter := o.counter } := by
  refine ⟨?_, pick_uses_generation_of_last_load policy ss0 pre t x o h⟩
  have h1 : pre ++ Ev.pick t x :: post = (pre ++ [Ev.pick t x]) ++ post := by simp
  rw [h1, run_append, run_append]
  simp [run, h]

/-- The generation's list as the judge indexes it: `(ss0 :: every list published in the run)[o.gen]`. -/
theorem selection_list_index (policy : String) (ss0 : List Server) (pre post : List Ev)
    (t : Nat) (x : Sel) (o : Out)
    (h : (step (after (Pool.init policy ss0) pre) (.pick t x)).2 = some o) :
    ∃ ss, (ss0 :: stores (pre ++ .pick t x :: post))[o.gen]? = some ss ∧
      o.res = choose (newLB policy ss) { x with counter := o.counter } := by
  obtain ⟨pre1, pre2, ss, hpre, _, _, hg, hlast, hres⟩ :=
    pick_uses_generation_of_last_load policy ss0 pre t x o h
  refine ⟨ss, ?_, hres⟩
  have hst : stores (pre ++ Ev.pick t x :: post) = stores pre1 ++ (stores pre2 ++ stores post) := by
    rw [hpre, stores_append, stores_append, stores_cons (Ev.load t) pre2, stores_cons (Ev.pick t x) post]
    simp [stores]
  rw [hst, hg, ← List.cons_append, List.getElem?_append_left (by simp)]
  rw [List.getLast?_eq_getElem?] at hlast
  simpa using hlast

/-- **Acceptance lemma for the judge's `windowOK`** (`Driver/C04.lean`, mode `swap`): the harness reports
for each selection the window `a … b` of generations that were current while it ran; the generation the
model's selection uses (`o.gen`, fixed at the thread's load) lies in every window that contains it, and
the url it returns (`none` for a nil server) comes from that generation's list — so `windowOK` accepts
the model's own behaviour, for every policy, schedule and window around `o.gen`. -/
theorem windowOK_of_run (policy : String) (ss0 : List Server) (pre post : List Ev)
    (t : Nat) (x : Sel) (o : Out)
    (h : (step (after (Pool.init policy ss0) pre) (.pick t x)).2 = some o)
    (hnp : o.res ≠ .panic) (a b : Nat) (ha : a ≤ o.gen) (hb : o.gen ≤ b) :
    windowOK ((ss0 :: stores (pre ++ .pick t x :: post)).map (fun l => l.map (·.url))) a b (resUrl o.res)
      = true := by
  obtain ⟨ss, hss, hres⟩ := selection_list_index policy ss0 pre post t x o h
  refine windowOK_of_gen _ a b o.gen (ss.map (·.url)) _ ha hb (by rw [List.getElem?_map, hss]; rfl) ?_
  cases hr : o.res with
  | panic => exact absurd hr hnp
  | nil =>
    have : (newLB policy ss).servers = [] := (nil_iff_empty _ _).mp (hres ▸ hr)
    simp only [resUrl]
    simpa [newLB] using this
  | srv s =>
    have hm : s ∈ (newLB policy ss).servers := choose_mem _ _ (hres ▸ hr)
    simp only [resUrl, List.contains_iff_mem, List.mem_map]
    exact ⟨s, by simpa [newLB] using hm, rfl⟩

/-- **Round robin per generation, on servers** (strengthens `rr_fair_per_generation`, which is about
counters only and holds for every policy): under the round-robin policy every selection made on
generation `g` returns the server at position `counter % n` of **that generation's list** — so, with
`rr_fair_per_generation`, position `j` of generation `g`'s list is returned ⌊k/n⌋ or ⌈k/n⌉ times among the
`k` selections made on `g`, whatever loads, picks on other generations and publications are interleaved. -/
theorem rr_fair_per_generation_servers (policy : String) (hp : Policy.ofString policy = .roundRobin)
    (ss0 : List Server) (evs : List Ev) (g : Nat)
    (hk : (onGen g (run (Pool.init policy ss0) evs)).length < 9223372036854775808) :
    ∀ o ∈ onGen g (run (Pool.init policy ss0) evs),
      ∃ ss, (ss0 :: stores evs)[g]? = some ss ∧
        (ss = [] → o.res = .nil) ∧
        (∀ hn : 0 < ss.length, o.res = .srv (ss[o.counter % ss.length]'(Nat.mod_lt _ hn))) ∧
        ∀ j, j < ss.length →
          ((onGen g (run (Pool.init policy ss0) evs)).filter (fun o' => o'.counter % ss.length == j)).length
            = rrCount (onGen g (run (Pool.init policy ss0) evs)).length ss.length j := by
  intro o ho
  have hmem : o ∈ run (Pool.init policy ss0) evs := (List.mem_filter.mp ho).1
  have hgen : o.gen = g := by simpa using (List.mem_filter.mp ho).2
  obtain ⟨lb, x, hlb, hres⟩ := run_out_gen evs (Pool.init policy ss0) o hmem
  -- the balancer of generation g
  have hl : (Pool.init policy ss0).gens.map Prod.fst ++ (stores evs).map (newLB policy)
      = (ss0 :: stores evs).map (newLB policy) := by simp [Pool.init]
  have hpol : (Pool.init policy ss0).policy = policy := rfl
  rw [hpol, hl, List.getElem?_map, hgen] at hlb
  cases hss : (ss0 :: stores evs)[g]? with
  | none => rw [hss] at hlb; cases hlb
  | some ss =>
    rw [hss] at hlb
    simp only [Option.map_some, Option.some.injEq] at hlb
    have hlb' : lb = ⟨.roundRobin, ss⟩ := by rw [← hlb, newLB, hp]
    -- the counter is below the number of selections on g
    have hcnt : o.counter < (onGen g (run (Pool.init policy ss0) evs)).length := by
      have hc := (rr_fair_per_generation policy ss0 evs g).1
      have : o.counter ∈ (onGen g (run (Pool.init policy ss0) evs)).map (·.counter) :=
        List.mem_map_of_mem ho
      rw [hc] at this
      have := List.mem_range'_1.mp this
      omega
    refine ⟨ss, rfl, ?_, ?_, ?_⟩
    · intro he
      rw [hres, hlb', he]; rfl
    · intro hn
      rw [hres, hlb']
      exact rr_choose ss _ (by simpa using Nat.lt_trans hcnt hk) hn
    · intro j hj
      exact (rr_fair_per_generation policy ss0 evs g).2 ss.length j (by omega) hj

/-- Non-vacuity and sharpness. Two generations, a selection that spans the swap (thread 0 loads before the
publication and picks after it): it still returns a server of the **old** list; thread 1, which loads
after the publication, gets the new list. -/
private def sA : Server := ⟨"a", 1, []⟩
private def sB : Server := ⟨"b", 1, []⟩
private def sC : Server := ⟨"c", 1, []⟩
private def evSwap : List Ev := [.load 0, .store [sC], .load 1, .pick 0 {}, .pick 1 {}, .pick 0 {}]

example : (run (Pool.init "roundRobin" [sA, sB]) evSwap).map (fun o => (o.thread, o.gen, o.counter, o.res)) =
    [(0, 0, 0, .srv sA), (1, 1, 0, .srv sC), (0, 0, 1, .srv sB)] := by decide
example : (step (after (Pool.init "roundRobin" [sA, sB]) [.load 0, .store [sC], .load 1]) (.pick 0 {})).2
    = some ⟨0, 0, 0, .srv sA⟩ := by decide
/-- the window check is sharp: the spanning selection's server is *not* in generation 1 alone -/
example : windowOK [["a", "b"], ["c"]] 0 1 (some "a") = true ∧ windowOK [["a", "b"], ["c"]] 1 1 (some "a") = false := by
  decide
/-- `rr_fair_per_generation_servers` is false without the policy hypothesis: under "random" (with the
environment's `rnd = 0`) three selections on one generation all return position 0, while the counter-only
statement `rr_fair_per_generation` still holds for that run. -/
example : (run (Pool.init "random" [sA, sB]) [.load 0, .pick 0 {}, .pick 0 {}, .pick 0 {}]).map (·.res) =
    [.srv sA, .srv sA, .srv sA] ∧
    (run (Pool.init "random" [sA, sB]) [.load 0, .pick 0 {}, .pick 0 {}, .pick 0 {}]).map (·.counter) = [0, 1, 2] := by
  decide

/-! ### round 7 (resil): the `lb` judge's `useService:*` predicates accept the model -/

/-- **the spec's lists are the model's lists**, for every pool spec and every history of discovery reports: the
declarative `currentList` per report (what `specListsOK`, `selOK specLists`, `winSpec` are evaluated against)
is what the model's `useService` publishes (`agreeLists`, `winModel`) and what the history semantics
`afterReports` leaves after each prefix (`selModel`). Hence a run that agrees with the model satisfies the three
`useService:*` / `swap:*` list clauses, and vice versa. -/
theorem swap_spec_lists_are_model_lists (sps : PoolSpec) (gens : List (List Instance)) :
    sps.servers :: gens.map (useService sps) = sps.servers :: gens.map (currentList sps) ∧
    histLists sps gens = sps.servers :: gens.map (currentList sps) := by
  have h1 : gens.map (useService sps) = gens.map (currentList sps) :=
    List.map_congr_left (fun g _ => use_service_spec sps g)
  refine ⟨by rw [h1], ?_⟩
  unfold histLists
  rw [List.range_succ_eq_map, List.map_cons, List.map_map]
  congr 1
  apply List.ext_getElem
  · simp
  · intro i h1 h2
    simp only [List.length_map, List.length_range] at h1 h2
    simp only [List.getElem_map, List.getElem_range, Function.comp, Nat.succ_eq_add_one]
    have ht : gens.take (i + 1) = gens.take i ++ [gens[i]] := by
      rw [List.take_succ]; simp [List.getElem?_eq_getElem h2]
    rw [ht]
    exact (use_service_history_last_report sps _ _ "" {}).1

/-- **`selOK` and `wSelOK` accept the model**: whatever list every report left (`ls`), whatever the policy, and
whatever selection inputs (`xs[i]` = the selections made after report `i`), the strings the model's `choose`
produces on those lists satisfy the judge's two selection predicates — provided no selection panicked
(`no_panic` under `Contract`) and, for `wSelOK`, `shown` tells servers of one list apart only up to weight
positivity (true for the harness' `url|weight`). -/
theorem selOK_accepts_model (shown : Server → String) (policy : String) (ls : List (List Server))
    (xs : List (List Sel))
    (hnp : ∀ i x, x ∈ xs.getD i [] → choose (newLB policy (ls.getD i [])) x ≠ .panic) :
    selOK shown ls (xs.mapIdx (fun i l => l.map (fun x => showRes shown (choose (newLB policy (ls.getD i [])) x))))
      = true := by
  unfold selOK
  simp only [List.all_eq_true, List.mem_range, List.length_mapIdx]
  intro i hi e he
  have hget : (xs.mapIdx (fun i l => l.map (fun x => showRes shown (choose (newLB policy (ls.getD i [])) x)))).getD i [] =
      (xs.getD i []).map (fun x => showRes shown (choose (newLB policy (ls.getD i [])) x)) := by
    simp [List.getD_eq_getElem?_getD, List.getElem?_mapIdx, List.getElem?_eq_getElem hi]
  rw [hget, List.mem_map] at he
  obtain ⟨x, hx, rfl⟩ := he
  cases hc : choose (newLB policy (ls.getD i [])) x with
  | panic => exact absurd hc (hnp i x hx)
  | nil =>
    have := (nil_iff_empty _ x).mp hc
    simp only [newLB] at this
    rw [this]
    simp [showRes]
  | srv s =>
    have hm := choose_mem _ x hc
    simp only [newLB] at hm
    have hne : (ls.getD i []).isEmpty = false := by
      cases hl : ls.getD i [] with
      | nil => rw [hl] at hm; simp at hm
      | cons a t => rfl
    simp only [hne, Bool.false_eq_true, if_false, showRes, List.contains_eq_mem, List.mem_map, decide_eq_true_eq]
    exact ⟨s, hm, rfl⟩

theorem wSelOK_accepts_model (shown : Server → String) (ls : List (List Server)) (xs : List (List Sel))
    (hnp : ∀ i x, x ∈ xs.getD i [] → choose ⟨.weightedRandom, ls.getD i []⟩ x ≠ .panic) :
    wSelOK shown true ls
      (xs.mapIdx (fun i l => l.map (fun x => showRes shown (choose ⟨.weightedRandom, ls.getD i []⟩ x)))) = true := by
  unfold wSelOK
  simp only [Bool.not_true, Bool.false_or, List.all_eq_true, List.mem_range, List.length_mapIdx]
  intro i hi
  by_cases hany : (ls.getD i []).any (fun s => decide (s.weight > 0)) = true
  · simp only [hany, Bool.not_true, Bool.false_or, List.all_eq_true]
    intro e he
    have hget : (xs.mapIdx (fun i l => l.map (fun x => showRes shown (choose ⟨.weightedRandom, ls.getD i []⟩ x)))).getD i [] =
        (xs.getD i []).map (fun x => showRes shown (choose ⟨.weightedRandom, ls.getD i []⟩ x)) := by
      simp [List.getD_eq_getElem?_getD, List.getElem?_mapIdx, List.getElem?_eq_getElem hi]
    rw [hget, List.mem_map] at he
    obtain ⟨x, hx, rfl⟩ := he
    have hex : ∃ s ∈ ls.getD i [], 0 < s.weight := by
      simpa [List.any_eq_true] using hany
    cases hc : choose ⟨.weightedRandom, ls.getD i []⟩ x with
    | panic => exact absurd hc (hnp i x hx)
    | nil =>
      have := (nil_iff_empty _ x).mp hc
      simp only at this
      obtain ⟨s, hs, _⟩ := hex
      rw [this] at hs; simp at hs
    | srv s =>
      have hm := choose_mem _ x hc
      have hw := weighted_never_zero _ x hex hc
      simp only [List.any_eq_true, List.mem_filter, decide_eq_true_eq, showRes, beq_iff_eq]
      exact ⟨s, ⟨hm, hw⟩, rfl⟩
  · rw [Bool.not_eq_true] at hany
    simp only [hany, Bool.not_false, Bool.true_or]

/-- the selection predicates are not vacuous: after a report that drained `a` to weight 0, a selection of `a`
(known only from the earlier report) is refused by both -/
example :
    let ls : List (List Server) := [[⟨"a", 5, []⟩], [⟨"a", 0, []⟩, ⟨"b", 5, []⟩]]
    let shown : Server → String := fun s => s.url ++ "|" ++ toString s.weight
    selOK shown ls [["a|5"], ["a|5"]] = false ∧ wSelOK shown true ls [["a|5"], ["a|0"]] = false ∧
    selOK shown ls [["a|5"], ["b|5", "a|0"]] = true ∧ wSelOK shown true ls [["a|5"], ["b|5"]] = true := by
  refine ⟨by decide, by decide, by decide, by decide⟩

end EgVerif.C04
