import EgVerif.Proofs.ConnCap
import EgVerif.Proofs.ConnCapIR
import EgVerif.Proofs.ConnCapLive
import EgVerif.Gen.FactsC17
/-!
# C17 — connection caps hold at every instant (HTTP servers and the MQTT proxy)

HTTP: theorems about `Model/ConnCap.lean` (`sem.Semaphore` + `LimitListener` over the
contract of x/sync's weighted semaphore) for **every** interleaving of `Accept` calls
acquiring, inner accepts returning, connections closing (any number of times),
`SetMaxConnection` calls and their asynchronous adjustments (`Reach`). MQTT: theorems about
`Mq` for every interleaving of early checks, locked sections and removals (`MReach`).

Partial (see notes/C17.md): the x/sync FIFO contract, the kernel accept queue and goroutine
scheduling are trusted/sampled; a `Release` that would drive the weighted semaphore negative
(only possible with capacities near 20 000 000) is excluded by the model's guards.
-/
namespace EgVerif.C17
open EgVerif.ConnCap

/-- states of a LimitListener created with capacity `n₀ ≥ 0`, after any history -/
inductive Reach (n₀ : Int) : Cap → Prop
  | init : Reach n₀ (newCap n₀)
  | step {c c' : Cap} (a : Act) : Reach n₀ c → step c a = some c' → Reach n₀ c'

theorem reach_inv {n₀ : Int} (h0 : 0 ≤ n₀) {c : Cap} (r : Reach n₀ c) : CapInv c := by
  induction r with
  | init => exact capInv_new n₀ h0
  | step a _ hs ih => exact capInv_step ih hs

/-- **http_inv.** In every reachable state the weighted semaphore holds exactly the
pre-acquired part `M - effCap` plus one unit per connection that is open or acquired-and-not-
yet-accepted, and never more than its size; hence these connections never outnumber the
capacity carved out of the semaphore. -/
theorem http_inv {n₀ : Int} (h0 : 0 ≤ n₀) {c : Cap} (r : Reach n₀ c) :
    c.cur = M - c.effCap + (c.inAccept.length + c.opened.length : Nat) ∧ c.cur ≤ M ∧
    ((c.inAccept.length + c.opened.length : Nat) : Int) ≤ c.effCap := by
  have h := reach_inv h0 r
  refine ⟨h.count, h.le, ?_⟩
  have := h.count; have := h.le; omega

/-- **setmax_commutes.** Whatever the order in which the adjustment goroutines of any number
of `SetMaxCount` calls ran (every order is a `Reach` history): once none is pending or parked,
the capacity carved out of the semaphore is the value of the *last* call. -/
theorem setmax_commutes {n₀ : Int} (h0 : 0 ≤ n₀) {c : Cap} (r : Reach n₀ c) (hq : quiet c = true) :
    c.effCap = c.realCap := by
  have h := reach_inv h0 r
  obtain ⟨hp, ha⟩ := quiet_sums hq
  have := h.book; omega

/-- **Main statement (HTTP).** While no capacity change is pending or parked, at no instant are
there more accepted open connections (even counting the one `Accept` that already holds a unit)
than `maxConnections`. -/
theorem cap_holds {n₀ : Int} (h0 : 0 ≤ n₀) {c : Cap} (r : Reach n₀ c) (hq : quiet c = true) :
    ((c.inAccept.length + c.opened.length : Nat) : Int) ≤ c.realCap := by
  rw [← setmax_commutes h0 r hq]; exact (http_inv h0 r).2.2

/-- **setmax_applied.** Once every run-time change has been applied (`quiet`), an inner accept
can only return a connection (`acceptDone`) while the number of open connections is strictly
below the current cap … -/
theorem setmax_applied {n₀ : Int} (h0 : 0 ≤ n₀) {c c' : Cap} {id : Nat} (r : Reach n₀ c)
    (hq : quiet c = true) (hs : step c (Act.acceptDone id) = some c') :
    (c.opened.length : Int) < c.realCap := by
  have hc := cap_holds h0 r hq
  simp only [step] at hs
  split at hs <;> cases hs
  rename_i hg
  have : 0 < c.inAccept.length := List.length_pos_of_mem hg.1
  omega

/-- … and no step other than its own `Close` ever removes an established connection. -/
theorem established_kept {c c' : Cap} {a : Act} {id : Nat} (hs : step c a = some c')
    (ho : id ∈ c.opened) (hn : id ∉ c'.opened) : a = Act.connClose id := by
  have notify_opened : ∀ (ws : List Waiter) (x : Cap), (notify x ws).opened = x.opened := by
    intro ws
    induction ws with
    | nil => intro x; rfl
    | cons w r ih =>
      intro x; unfold notify; split
      · rfl
      · rw [ih]; unfold grant; split <;> rfl
  have acq_opened : ∀ (x : Cap) (w : Waiter), (semAcquire x w).opened = x.opened := by
    intro x w; unfold semAcquire; split
    · unfold grant; split <;> rfl
    · rfl
  cases a <;> simp only [step] at hs
  case acquire k => split at hs <;> cases hs; rw [acq_opened] at hn; exact absurd ho hn
  case acceptDone k =>
    split at hs <;> cases hs
    exact absurd (List.mem_cons_of_mem _ ho) hn
  case acceptFail k =>
    split at hs
    · split at hs <;> cases hs
      simp only [semRelease, notify_opened] at hn; exact absurd ho hn
    · cases hs
  case connClose k =>
    split at hs
    · split at hs <;> cases hs
      simp only [semRelease, notify_opened] at hn
      by_cases e : id = k
      · rw [e]
      · exact absurd ((List.mem_erase_of_ne e).mpr ho) hn
    · split at hs <;> cases hs; exact absurd ho hn
  case peerHalfClose k => split at hs <;> cases hs; exact absurd ho hn
  case setMax n => split at hs <;> cases hs; exact absurd ho hn
  case adjust k =>
    cases ht : takeAdj k c.pending with
    | none => simp [ht] at hs
    | some q =>
      obtain ⟨d, rest⟩ := q
      simp only [ht] at hs
      split at hs
      · split at hs <;> cases hs
        simp only [semRelease, notify_opened] at hn; exact absurd ho hn
      · split at hs <;> cases hs
        · rw [acq_opened] at hn; exact absurd ho hn
        · exact absurd ho hn

/-- **release_once.** Closing an accepted connection a second time releases nothing and changes
nothing. -/
theorem release_once {n₀ : Int} (h0 : 0 ≤ n₀) {c c1 : Cap} {id : Nat} (r : Reach n₀ c)
    (hs : step c (Act.connClose id) = some c1) : step c1 (Act.connClose id) = some c1 := by
  have h := reach_inv h0 r
  have notify_lists : ∀ (ws : List Waiter) (x : Cap), (notify x ws).opened = x.opened ∧ (notify x ws).closed = x.closed := by
    intro ws
    induction ws with
    | nil => intro x; exact ⟨rfl, rfl⟩
    | cons w rr ih =>
      intro x; unfold notify; split
      · exact ⟨rfl, rfl⟩
      · rw [(ih _).1, (ih _).2]; unfold grant; split <;> exact ⟨rfl, rfl⟩
  simp only [step] at hs
  split at hs
  · rename_i hmem
    split at hs <;> cases hs
    have ho : id ∉ (semRelease { c with opened := c.opened.erase id, closed := id :: c.closed } 1).opened := by
      simp only [semRelease, (notify_lists _ _).1]
      exact fun hh => (List.Nodup.mem_erase_iff h.nodup).mp hh |>.1 rfl
    have hc : id ∈ (semRelease { c with opened := c.opened.erase id, closed := id :: c.closed } 1).closed := by
      simp only [semRelease, (notify_lists _ _).2]; exact List.mem_cons_self ..
    simp only [step, if_neg ho, if_pos hc]
  · rename_i hno
    split at hs <;> cases hs
    rename_i hcl
    simp only [step, if_neg hno, if_pos hcl]

/-- **release_reusable.** Capacity released by a closing connection is usable again: an `Accept`
waiting at the head of the queue is granted its unit by that very `Close` … -/
theorem release_reusable {n₀ : Int} (h0 : 0 ≤ n₀) {c c' : Cap} {id w : Nat} {rest : List Waiter}
    (r : Reach n₀ c) (hw : c.waiters = ⟨w, 1, WKind.unit⟩ :: rest)
    (hs : step c (Act.connClose id) = some c') (ho : id ∈ c.opened) : w ∈ c'.inAccept := by
  have h := reach_inv h0 r
  have notify_inAccept : ∀ (ws : List Waiter) (x : Cap), w ∈ x.inAccept → w ∈ (notify x ws).inAccept := by
    intro ws
    induction ws with
    | nil => intro x hx; exact hx
    | cons v rr ih =>
      intro x hx; unfold notify; split
      · exact hx
      · apply ih; unfold grant; split
        · exact List.mem_cons_of_mem _ hx
        · exact hx
  simp only [step, if_pos ho] at hs
  split at hs <;> cases hs
  simp only [semRelease, hw]
  unfold notify
  have hle := h.le; have hsz := h.size
  rw [if_neg (by simp only; omega)]
  apply notify_inAccept
  simp [grant]

/-- … and with an empty queue and spare capacity an `Accept` gets its unit at once. -/
theorem acquire_immediate {n₀ : Int} (h0 : 0 ≤ n₀) {c c' : Cap} {id : Nat} (r : Reach n₀ c)
    (hw : c.waiters = []) (hspare : ((c.inAccept.length + c.opened.length : Nat) : Int) < c.effCap)
    (hs : step c (Act.acquire id) = some c') : id ∈ c'.inAccept := by
  have h := reach_inv h0 r
  simp only [step] at hs
  split at hs <;> cases hs
  have hc := h.count; have hsz := h.size
  unfold semAcquire
  rw [if_pos ⟨by simp only; omega, hw⟩]
  simp [grant]

/-- Conversely an `Accept` is held back while the cap is reached: with no spare capacity it
does not get a unit (it queues), so no connection beyond the cap is accepted. -/
theorem acquire_held_back {n₀ : Int} (h0 : 0 ≤ n₀) {c c' : Cap} {id : Nat} (r : Reach n₀ c)
    (hfull : c.effCap ≤ ((c.inAccept.length + c.opened.length : Nat) : Int))
    (hs : step c (Act.acquire id) = some c') : c'.inAccept = c.inAccept ∧ c'.opened = c.opened := by
  have h := reach_inv h0 r
  simp only [step] at hs
  split at hs <;> cases hs
  have hc := h.count; have hsz := h.size
  unfold semAcquire
  rw [if_neg (by simp only; omega)]
  exact ⟨rfl, rfl⟩

/-! ## MQTT -/

inductive MReach (cap : Nat) : Mq → Prop
  | init : MReach cap ⟨cap, [], []⟩
  | step {m m' : Mq} {o : MOut} (a : MAct) : MReach cap m → mstep m a = some (m', o) → MReach cap m'

theorem mq_cap_const {cap : Nat} {m : Mq} (r : MReach cap m) : m.cap = cap := by
  induction r with
  | init => rfl
  | step a _ hs ih =>
    cases a <;> simp only [mstep] at hs
    case early conn cid =>
      split at hs; · cases hs
      split at hs <;> cases hs <;> exact ih
    case locked conn =>
      split at hs; · cases hs
      split at hs; · cases hs; exact ih
      split at hs <;> cases hs <;> exact ih
    case remove cid => split at hs <;> cases hs; exact ih

/-- **mqtt_inv.** With `maxAllowedConnection = cap > 0` the broker never has more than `cap`
registered clients, for any interleaving of early checks, locked sections (incl. takeovers) and
removals. -/
theorem mqtt_inv {cap : Nat} (hcap : 0 < cap) {m : Mq} (r : MReach cap m) : m.clients.length ≤ cap := by
  induction r with
  | init => simp
  | step a r' hs ih =>
    have hc := mq_cap_const r'
    cases a <;> simp only [mstep] at hs
    case early conn cid =>
      split at hs; · cases hs
      split at hs <;> cases hs <;> exact ih
    case locked conn =>
      split at hs; · cases hs
      split at hs; · cases hs; exact ih
      split at hs
      · cases hs; exact ih
      · cases hs
        rename_i hnot
        simp only [atCap, hc, Bool.and_eq_true, decide_eq_true_eq, not_and, Nat.not_le] at hnot
        simp only [List.length_cons]
        have := hnot hcap; omega
    case remove cid =>
      split at hs <;> cases hs
      simp only
      exact Nat.le_trans (List.length_erase_le ..) ih

/-- **mqtt_takeover_at_cap.** The locked section of a connection whose client id is already
registered is accepted and replaces the entry: the set of registered ids does not change, even
at the cap. -/
theorem mqtt_takeover_at_cap {m m' : Mq} {o : MOut} {conn cid : Nat}
    (hp : m.passed.find? (·.1 == conn) = some (conn, cid)) (hreg : m.clients.contains cid = true)
    (hs : mstep m (MAct.locked conn) = some (m', o)) : o = MOut.accepted ∧ m'.clients = m.clients := by
  simp only [mstep, hp, hreg, if_true] at hs
  cases hs; exact ⟨rfl, rfl⟩

/-- **mqtt_refuse_at_cap.** At the cap a connection with a new client id is refused
(server-unavailable) by the locked section, and every CONNECT is refused by the early check;
neither changes the registered clients. -/
theorem mqtt_refuse_at_cap {m m' : Mq} {o : MOut} {conn cid : Nat} (hat : atCap m = true) :
    (m.passed.find? (·.1 == conn) = some (conn, cid) → m.clients.contains cid = false →
      mstep m (MAct.locked conn) = some (m', o) → o = MOut.refused ∧ m'.clients = m.clients) ∧
    (mstep m (MAct.early conn cid) = some (m', o) → o = MOut.refused ∧ m' = m) := by
  constructor
  · intro hp hnew hs
    simp only [mstep, hp, hnew, hat, if_true, Bool.false_eq_true, if_false] at hs
    cases hs; exact ⟨rfl, rfl⟩
  · intro hs
    simp only [mstep, hat, if_true] at hs
    split at hs <;> cases hs
    exact ⟨rfl, rfl⟩

/-- Below the cap (or with no cap) a new client id is let in by both checks. -/
theorem mqtt_accept_below_cap {m m' : Mq} {o : MOut} {conn cid : Nat} (hbelow : atCap m = false)
    (hp : m.passed.find? (·.1 == conn) = some (conn, cid)) (hnew : m.clients.contains cid = false)
    (hs : mstep m (MAct.locked conn) = some (m', o)) : o = MOut.accepted ∧ m'.clients = cid :: m.clients := by
  simp only [mstep, hp, hnew, hbelow, Bool.false_eq_true, if_false] at hs
  cases hs; exact ⟨rfl, rfl⟩

/-! ### Several `SetMaxCount` calls in flight (Extension cluster)

`cap_holds` / `setmax_applied` speak about quiet states. The theorems below hold in **every**
reachable state, i.e. for any sequence of `SetMaxCount` calls, accepts and closes with any number of
adjustment goroutines not yet run (`pending`) or parked in the weighted semaphore's queue. -/

theorem pendSum_ge_neg_shrink (l : List (Nat × Int)) : -pendingShrink l ≤ pendSum l := by
  induction l with
  | nil => simp [pendingShrink, pendSum]
  | cons p r ih => simp only [pendingShrink, pendSum]; split <;> omega

theorem pendSum_nonneg_of_all_grow (l : List (Nat × Int)) (h : ∀ p ∈ l, 0 ≤ p.2) : 0 ≤ pendSum l := by
  induction l with
  | nil => simp [pendSum]
  | cons p r ih =>
    have := h p (List.mem_cons_self ..)
    have := ih (fun q hq => h q (List.mem_cons_of_mem _ hq))
    simp only [pendSum]; omega

/-- **inflight_bookkeeping.** In every reachable state — whatever `SetMaxCount` calls are in flight —
the capacity carved out of the semaphore differs from the configured one by exactly the adjustments
not yet executed minus the shrinks parked in the queue: no adjustment is ever lost, duplicated or
cancelled. (seeded/C17-m3 breaks exactly this: a later call cancels a parked shrink.) -/
theorem inflight_bookkeeping {n₀ : Int} (h0 : 0 ≤ n₀) {c : Cap} (r : Reach n₀ c) :
    c.effCap = c.realCap - pendSum c.pending + adjSum c.waiters := by
  have := (reach_inv h0 r).book; omega

/-- **inflight_overshoot_bounded.** At every instant the connections holding a unit exceed the
configured `maxConnections` by at most the total of the shrinks that are still outstanding (spawned
and not yet run, or parked behind open connections). -/
theorem inflight_overshoot_bounded {n₀ : Int} (h0 : 0 ≤ n₀) {c : Cap} (r : Reach n₀ c) :
    ((c.inAccept.length + c.opened.length : Nat) : Int) ≤ c.realCap + pendingShrink c.pending + adjSum c.waiters := by
  have h1 := (http_inv h0 r).2.2
  have h2 := inflight_bookkeeping h0 r
  have h3 := pendSum_ge_neg_shrink c.pending
  omega

/-- **cap_holds_while_growing.** While only *grow* adjustments are in flight (any number, in any
order) and no shrink is parked, the cap holds at every instant — `cap_holds` without waiting for
the goroutines. -/
theorem cap_holds_while_growing {n₀ : Int} (h0 : 0 ≤ n₀) {c : Cap} (r : Reach n₀ c)
    (hgrow : ∀ p ∈ c.pending, 0 ≤ p.2) (hpark : c.waiters.all (·.kind != WKind.adj) = true) :
    ((c.inAccept.length + c.opened.length : Nat) : Int) ≤ c.realCap := by
  have h1 := (http_inv h0 r).2.2
  have h2 := inflight_bookkeeping h0 r
  have h3 := pendSum_nonneg_of_all_grow _ hgrow
  have h4 : adjSum c.waiters = 0 := by
    have : ∀ ws : List Waiter, ws.all (·.kind != WKind.adj) = true → adjSum ws = 0 := by
      intro ws
      induction ws with
      | nil => intro _; rfl
      | cons w rr ih =>
        intro hall
        simp only [List.all_cons, Bool.and_eq_true, bne_iff_ne, ne_eq] at hall
        simp only [adjSum, if_neg hall.1, ih hall.2]; rfl
    exact this _ hpark
  omega

theorem reach_adjPos {n₀ : Int} {c : Cap} (r : Reach n₀ c) : AdjPos c := by
  induction r with
  | init => exact adjPos_new n₀
  | step a _ hs ih => exact adjPos_step ih hs

/-- **parked_shrink_applied_by_close.** A shrink parked at the head of the weighted semaphore's queue
(more connections open than the new cap) is applied by the `Close` that frees enough room for it: the
capacity carved out of the semaphore drops by at least its weight — no further `SetMaxCount`, accept
or write is needed, only connections closing. -/
theorem parked_shrink_applied_by_close {n₀ : Int} (h0 : 0 ≤ n₀) {c c' : Cap} {id i : Nat} {k : Int}
    {rest : List Waiter} (r : Reach n₀ c) (hw : c.waiters = ⟨i, k, WKind.adj⟩ :: rest)
    (ho : id ∈ c.opened) (hfit : k ≤ M - c.cur + 1) (hs : step c (Act.connClose id) = some c') :
    c'.effCap ≤ c.effCap - k :=
  close_applies_parked_shrink (reach_inv h0 r) (reach_adjPos r) hw ho hfit hs

/-- Non-vacuity: cap 2, two connections open, shrink to 1 parks at the head; one `Close` applies it. -/
example :
    let c := run (newCap 2) [.acquire 0, .acceptDone 0, .acquire 1, .acceptDone 1, .setMax 1, .adjust 0]
    c.waiters = [⟨0, 1, WKind.adj⟩] ∧ 0 ∈ c.opened ∧ (1 : Int) ≤ M - c.cur + 1 ∧ c.effCap = 2 ∧
    (step c (.connClose 0)).map (·.effCap) = some 1 := by decide

theorem reach_headBlocked {n₀ : Int} {c : Cap} (r : Reach n₀ c) : HeadBlocked c := by
  induction r with
  | init => exact headBlocked_new n₀
  | step a _ hs ih => exact headBlocked_step ih hs

/-- **parked_shrink_means_over_cap.** Once every spawned adjustment goroutine has run, a shrink can be
parked only while more units are in use than the configured cap. Contrapositive (what the judges check
on every settled snapshot, sig `setmax:parked-shrink-not-applied`): as soon as the connections fit
into the new cap, the change **has been applied** — an adjustment that can never be applied (e.g. an
`Acquire` of more than the semaphore's size, seeded/C17-m4) contradicts it. -/
theorem parked_shrink_means_over_cap {n₀ : Int} (h0 : 0 ≤ n₀) {c : Cap} (r : Reach n₀ c)
    (hp : c.pending = []) (hex : ∃ w ∈ c.waiters, w.kind = WKind.adj) :
    c.realCap < ((c.inAccept.length + c.opened.length : Nat) : Int) :=
  parked_means_over_cap (reach_inv h0 r) (reach_adjPos r) (reach_headBlocked r) hp hex

theorem setMaxCount_le_max (realCap n : Int) : (setMaxCount realCap n).1 ≤ M := by
  simp only [setMaxCount]; split <;> omega

/-- **realCap_le_max.** `realCapacity ≤ maxCapacity` in every reachable state, and whatever is asked for,
`SetMaxCount` stores at most `maxCapacity` (translated clamp), so the weight of a later shrink never
exceeds the size of the weighted semaphore. -/
theorem realCap_le_max {n₀ : Int} (hM : n₀ ≤ M) {c : Cap} (r : Reach n₀ c) : c.realCap ≤ M := by
  induction r with
  | init => exact hM
  | @step c1 c2 a _ hs ih =>
    have notify_rc : ∀ (ws : List Waiter) (x : Cap), (notify x ws).realCap = x.realCap := by
      intro ws
      induction ws with
      | nil => intro x; rfl
      | cons w rr ihh => intro x; unfold notify; split; · rfl
                         · rw [ihh]; unfold grant; split <;> rfl
    have acq_rc : ∀ (x : Cap) (w : Waiter), (semAcquire x w).realCap = x.realCap := by
      intro x w; unfold semAcquire; split
      · unfold grant; split <;> rfl
      · rfl
    cases a <;> simp only [step] at hs
    case acquire k => split at hs <;> cases hs; rw [acq_rc]; exact ih
    case acceptDone k => split at hs <;> cases hs; exact ih
    case acceptFail k =>
      split at hs
      · split at hs <;> cases hs; simp only [semRelease, notify_rc]; exact ih
      · cases hs
    case connClose k =>
      split at hs
      · split at hs <;> cases hs; simp only [semRelease, notify_rc]; exact ih
      · split at hs <;> cases hs; exact ih
    case peerHalfClose k => split at hs <;> cases hs; exact ih
    case setMax n => split at hs <;> cases hs; exact setMaxCount_le_max c1.realCap n
    case adjust k =>
      cases ht : takeAdj k c1.pending with
      | none => simp [ht] at hs
      | some q =>
        obtain ⟨d, rest⟩ := q
        simp only [ht] at hs
        split at hs
        · split at hs <;> cases hs; simp only [semRelease, notify_rc]; exact ih
        · split at hs <;> cases hs
          · rw [acq_rc]; exact ih
          · exact ih

/-- Non-vacuity / the scenario of seeded/C17-m4: cap 2 with three connections… `SetMaxCount(25000000)` is
`SetMaxCount(M)`; the later shrink to 2 acquires `M − 2 ≤ size`, parks while 3 connections are open
(over the cap, as the theorem says) and is applied by the next `Close`. -/
example :
    setMaxCount 2 25000000 = (M, [AdjOp.release (M - 2), AdjOp.done]) ∧
    setMaxCount M 2 = (2, [AdjOp.acquire (M - 2), AdjOp.done]) ∧
    (let c := run (newCap 2) [.setMax M, .adjust 0, .acquire 0, .acceptDone 0, .acquire 1, .acceptDone 1,
                              .acquire 2, .acceptDone 2, .acquire 3, .setMax 2, .adjust 1]
     c.pending = [] ∧ c.waiters.map (·.n) = [M - 2] ∧ c.realCap = 2 ∧ c.effCap = M ∧
     c.inAccept.length + c.opened.length = 4 ∧
     (run c [.connClose 0, .connClose 1]).effCap = 2 ∧ quiet (run c [.connClose 0, .connClose 1]) = true) := by
  decide

/-- the slip of seeded/C17-m3 in the model: a new `SetMaxCount` drops the shrinks parked in the queue -/
private def supersede (c : Cap) : Cap := { c with waiters := c.waiters.filter (·.kind != WKind.adj) }

/-- Non-vacuity / sharpness: cap 3 with 3 connections open, `SetMaxCount(1)` parks a shrink of 2,
`SetMaxCount(2)` grows by 1. Unchanged code: in-flight identity holds (effCap 4 = 2 − 0 + 2), the
overshoot bound is 2 + 0 + 2, and after two closes the cap is 2. With the parked shrink dropped the
state is quiet with effCap = 4 ≠ realCap = 2 — `setmax_commutes` and the identity fail. -/
example :
    let pre := run (newCap 3) [.acquire 0, .acceptDone 0, .acquire 1, .acceptDone 1, .acquire 2, .acceptDone 2,
                               .acquire 3, .setMax 1, .adjust 0]
    let ok := run pre [.setMax 2, .adjust 1]
    let bad := run (supersede pre) [.setMax 2, .adjust 1]
    (ok.effCap = 4 ∧ ok.realCap = 2 ∧ pendSum ok.pending = 0 ∧ adjSum ok.waiters = 2 ∧ quiet ok = false) ∧
    (run ok [.connClose 0, .connClose 1]).effCap = 2 ∧
    (bad.effCap = 4 ∧ bad.realCap = 2 ∧ quiet bad = true) := by decide

/-! ### Round 2 (AUDIT item 15): `quiet` persists, guards enabled, failing inner accept, spec ↔ theorems -/

/-- **quiet_stable.** A step that is not a `SetMaxCount` keeps "every change applied" true and the cap
unchanged. -/
theorem quiet_stable {c c' : Cap} {a : Act} (hq : quiet c = true) (hs : step c a = some c')
    (hn : ∀ n, a ≠ Act.setMax n) : quiet c' = true ∧ c'.realCap = c.realCap :=
  ConnCap.quiet_stable hq hs hn

theorem reach_run {n₀ : Int} {c : Cap} (r : Reach n₀ c) (acts : List Act) : Reach n₀ (run c acts) := by
  induction acts generalizing c with
  | nil => exact r
  | cons a rest ih =>
    simp only [run]
    cases hs : step c a with
    | none => exact ih r
    | some c' => exact ih (Reach.step a r hs)

/-- **cap_holds_until_next_setmax** (the statement's "while its cap is unchanged, at no instant …"): from a
state in which every change has been applied, after ANY further sequence of accepts, failed accepts, closes
(no `SetMaxCount`) the state is still quiet, the cap is the same and the open connections (even counting the
acceptor's unit) do not exceed it. Every intermediate state is such a `run c acts` (of a prefix). -/
theorem cap_holds_until_next_setmax {n₀ : Int} (h0 : 0 ≤ n₀) {c : Cap} (r : Reach n₀ c) (hq : quiet c = true)
    (acts : List Act) (hno : ∀ a ∈ acts, ∀ n, a ≠ Act.setMax n) :
    quiet (run c acts) = true ∧ (run c acts).realCap = c.realCap ∧
    (((run c acts).inAccept.length + (run c acts).opened.length : Nat) : Int) ≤ c.realCap := by
  have key : quiet (run c acts) = true ∧ (run c acts).realCap = c.realCap := by
    induction acts generalizing c with
    | nil => exact ⟨hq, rfl⟩
    | cons a rest ih =>
      simp only [run]
      cases hs : step c a with
      | none => exact ih r hq (fun b hb => hno b (List.mem_cons_of_mem _ hb))
      | some c' =>
        obtain ⟨hq', hr'⟩ := ConnCap.quiet_stable hq hs (hno a (List.mem_cons_self ..))
        have := ih (Reach.step a r hs) hq' (fun b hb => hno b (List.mem_cons_of_mem _ hb))
        exact ⟨this.1, this.2.trans hr'⟩
  refine ⟨key.1, key.2, ?_⟩
  have := cap_holds h0 (reach_run r acts) key.1
  rw [key.2] at this; exact this

/-- **spec_accepts_model.** The executable snapshot specification the judges evaluate on the implementation's
observations (`Spec.obsViolation`: cur ≤ size; nothing parked ⇒ units in use ≤ cap ∧ cur = M − cap + units; a
parked shrink ⇒ over the cap; nothing parked ∧ somebody waits ⇒ cap fully used) accepts the observation of
every reachable model state in which all spawned adjustment goroutines have run — so a spec violation
reported by a judge is a behaviour outside the model the theorems are about. -/
theorem spec_accepts_model {n₀ : Int} (h0 : 0 ≤ n₀) {c : Cap} (r : Reach n₀ c) (hp : c.pending = []) :
    obsViolation (obsOf c) = none ∧ obsOK (obsOf c) = true := by
  have h := obsViolation_none_of_inv (reach_inv h0 r) (reach_adjPos r) (reach_headBlocked r) hp
  exact ⟨h, by simp [obsOK, h]⟩

/-- … and the listener judges' interval check (`Spec.intervalOK`: the largest open count seen at an accept
while the cap was unchanged and applied) accepts every model run. -/
theorem interval_spec_accepts_model {n₀ : Int} (h0 : 0 ≤ n₀) {c : Cap} (r : Reach n₀ c) (hq : quiet c = true)
    (acts : List Act) (hno : ∀ a ∈ acts, ∀ n, a ≠ Act.setMax n) :
    intervalOK (run c acts).opened.length c.realCap = true := by
  have := (cap_holds_until_next_setmax h0 r hq acts hno).2.2
  simp only [intervalOK, decide_eq_true_eq]
  omega

/-- **guards_enabled.** The model's `step` is partial where Go's `Weighted.Release` would panic ("released
more than held"): a grow with `d > cur`, a `Close` / failed accept with `cur = 0`. While the *budget* — the
configured capacity plus all outstanding shrinks — fits into the semaphore (`≤ maxCapacity`), these guards
hold: every spawned adjustment, every `Close` of an open connection, every failed accept and every
`SetMaxCount(n ≥ 0)` is enabled, i.e. `Reach` then contains every history the Go code can produce. -/
theorem guards_enabled {n₀ : Int} (h0 : 0 ≤ n₀) {c : Cap} (r : Reach n₀ c) (hb : budget c ≤ M) :
    (∀ id, (takeAdj id c.pending).isSome → (step c (.adjust id)).isSome) ∧
    (∀ id, id ∈ c.opened → (step c (.connClose id)).isSome) ∧
    (∀ id, id ∈ c.inAccept → (step c (.acceptFail id)).isSome) ∧
    (∀ n, 0 ≤ n → (step c (.setMax n)).isSome) := by
  obtain ⟨g1, g2, g3⟩ := guards_enabled_of_budget (reach_inv h0 r) hb
  refine ⟨?_, ?_, ?_, ?_⟩
  · intro id hsome
    cases ht : takeAdj id c.pending with
    | none => rw [ht] at hsome; cases hsome
    | some q =>
      obtain ⟨d, rest⟩ := q
      simp only [step, ht]
      by_cases hd : 0 < d
      · have := g1 id d rest ht hd
        simp [hd, this]
      · by_cases hd2 : d < 0 <;> simp [hd, hd2]
  · intro id hm; have := g2 id hm; simp [step, hm, this]
  · intro id hm; have := g3 id hm; simp [step, hm, this]
  · intro n hn; simp [step, hn]

/-- "below M/2": with the cap and the outstanding shrinks each at most `M / 2` (e.g. all configured caps
≤ 10 000 000 and at most one shrink not yet applied) the budget fits. -/
theorem budget_below_half {c : Cap} (hcap : c.realCap ≤ M / 2)
    (hout : pendingShrink c.pending + adjSum c.waiters ≤ M / 2) : budget c ≤ M := by
  have : M / 2 = 10000000 := by decide
  have hm : M = 20000000 := rfl
  unfold budget; omega

/-- Non-vacuity, and the witness for the open finding `panic:semaphore-released-more-than-held`: capacity
25 000 000 (clamped to `M`), three connections, `SetMaxCount(2)` parks, `SetMaxCount(10)`: the budget is
`10 + (M − 2) > M`, the grow `Release(8)` is **not enabled** (`cur = 3`) — this is where the Go code panics.
With capacity 100 instead of 25 000 000 the same history is fine. -/
example :
    let h (big : Int) := run (newCap 2) [.setMax big, .adjust 0, .acquire 0, .acceptDone 0, .acquire 1, .acceptDone 1,
                                      .acquire 2, .acceptDone 2, .setMax 2, .adjust 1, .setMax 10]
    (budget (h 25000000) > M ∧ (h 25000000).cur = 3 ∧ step (h 25000000) (.adjust 2) = none) ∧
    (budget (h 100) ≤ M ∧ (step (h 100) (.adjust 2)).isSome = true) := by decide

/-- `Accept` with a failing inner accept (`Act.acceptFail`, `acceptBody true false true = (false, 0)`): the unit
goes back and a waiting `Accept` is served. -/
example :
    let c := run (newCap 1) [.acquire 0, .acquire 1]
    c.inAccept = [0] ∧ c.waiters.map (·.id) = [1] ∧
    (step c (.acceptFail 0)).map (fun x => (x.inAccept, x.waiters.length, x.cur)) = some ([1], 0, M) := by decide

example : obsViolation (obsOf (run (newCap 2) [.acquire 0, .acceptDone 0, .acquire 1, .acceptDone 1, .acquire 2,
    .setMax 1, .adjust 0, .connClose 0])) = none ∧
    obsViolation { cur := M - 1, unitsHeld := 1, parked := 1, capNow := 2, unitWaiting := false, settled := true }
      = some "setmax:parked-shrink-not-applied" := by decide

/-! ### Round 3 (seeded/C17-m5): a peer's half-close does not give the slot back -/

/-- **slot_released_only_in_close** (regenerated on every run). The wrapper type `limitListenerConn`
declares exactly one method, `Close` (every other `net.Conn` method is the embedded connection's and cannot
touch the semaphore); the only functions of limitlistener.go that mention a connection's `release` /
`releaseOnce` are `LimitListener.Accept` (which builds the connection and gives its own unit back on its error
paths, translated: `accept_regenerated_from_source`) and `limitListenerConn.Close` (translated:
`connClose_regenerated_from_source`). A new method on the wrapper (a `Read` that releases on EOF …) or a
new user of these fields breaks this obligation until it is classified in the model. -/
theorem slot_released_only_in_close :
    Gen.FactsC17.extractionFailed = false ∧ Gen.FactsC17.connMethods = ["Close"] ∧
    Gen.FactsC17.listenerMethods = ["Accept", "Close", "SetMaxConnection", "acquire", "release"] ∧
    Gen.FactsC17.listenerOtherFuncs = ["NewLimitListener"] ∧
    Gen.FactsC17.releaseUsers = ["LimitListener.Accept", "limitListenerConn.Close"] := by decide

/-- **half_close_keeps_slot.** Whatever the peer does to an established connection — here: shutting down
its sending side, so that the server's reads return EOF — is a no-op for the semaphore and the bookkeeping:
the connection counts from `Accept` until its own `Close`. -/
theorem half_close_keeps_slot {c c' : Cap} {id : Nat} (hs : step c (Act.peerHalfClose id) = some c') :
    c' = c ∧ id ∈ c'.opened := by
  simp only [step] at hs
  split at hs <;> cases hs
  rename_i h; exact ⟨rfl, h⟩

/-- `Reach` histories include peer half-closes, so `http_inv`, `cap_holds`, `cap_holds_until_next_setmax`,
`release_once`, `setmax_applied` … hold over them; in particular at the cap, with the first client
half-closed and its handler still busy, a second `Accept` is held back (the scenario of seeded/C17-m5). -/
example :
    let c := run (newCap 1) [.acquire 0, .acceptDone 0, .acquire 1, .peerHalfClose 0]
    c.opened = [0] ∧ c.inAccept = [] ∧ c.waiters.map (·.id) = [1] ∧ c.cur = M ∧
    (run c [.connClose 0]).inAccept = [1] := by decide

/-! ### Final round (seeded/C17-m6): FIFO is what makes the single weighted `Acquire(old − n)` correct -/

/-- **new_accept_queues_behind_parked_shrink.** x/sync's weighted semaphore is FIFO: while anybody waits —
in particular a shrink `Acquire(old − n)` parked as ONE waiter of weight `old − n` — a new `Accept` does not
get a unit, it queues behind; and `Release` wakes strictly from the front (`notify`), so the parked shrink is
served before every `Accept` that arrived after it. That is why `SetMaxCount` may shrink with a single
weighted acquire: after the at most one `Accept` that was ahead of it, nothing is accepted until the whole
shrink has been applied (`Spec.acceptsWhileParkedOK`, judged on every listener history). A shrinker that
re-queues after every single unit (seeded/C17-m6) lets every second `Close` admit a new client. -/
theorem new_accept_queues_behind_parked_shrink {c c' : Cap} {id : Nat} (hne : c.waiters ≠ [])
    (hs : step c (Act.acquire id) = some c') :
    c'.waiters = c.waiters ++ [⟨id, 1, WKind.unit⟩] ∧ c'.inAccept = c.inAccept ∧ c'.cur = c.cur := by
  simp only [step] at hs
  split at hs <;> cases hs
  unfold semAcquire
  rw [if_neg (fun h => hne h.2)]
  exact ⟨rfl, rfl, rfl⟩

/-- … and a `Close` serves the queue strictly from the front: with a shrink of weight `k > 1` at the head
and only one unit free, nobody behind it is served. -/
theorem close_does_not_overtake_parked_shrink {c c' : Cap} {id i : Nat} {k : Int} {rest : List Waiter}
    (hw : c.waiters = ⟨i, k, WKind.adj⟩ :: rest) (ho : id ∈ c.opened) (hno : c.size - (c.cur - 1) < k)
    (hs : step c (Act.connClose id) = some c') : c'.waiters = c.waiters ∧ c'.inAccept = c.inAccept := by
  simp only [step, if_pos ho] at hs
  split at hs <;> cases hs
  simp only [semRelease, hw]
  unfold notify
  rw [if_pos (by simpa using hno)]
  exact ⟨rfl, rfl⟩

/-- the seeded scenario in the model: cap 3, three open, an `Accept` waiting, shrink to 1 (weight 2, parked
behind the Accept). Close 1 serves the waiting Accept (the one allowed), whose next `Accept` queues behind the
shrink; closes 2 and 3 apply the shrink; nothing else is accepted: 4 accepted in total, 1 open at the end … -/
example :
    let c := run (newCap 3) [.acquire 0, .acceptDone 0, .acquire 1, .acceptDone 1, .acquire 2, .acceptDone 2,
                              .acquire 3, .setMax 1, .adjust 0,
                              .connClose 0, .acceptDone 3, .acquire 4, .connClose 1, .connClose 2]
    c.opened = [3] ∧ c.closed = [2, 1, 0] ∧ c.effCap = 1 ∧ c.waiters.map (·.id) = [4] ∧ quiet c = true ∧
    acceptsWhileParkedOK 3 4 = true ∧ acceptsWhileParkedOK 3 5 = false := by decide

/-! ### Tie by translation (regenerated on every run, `notes/IR.md`) -/

/-- `Gen.FactsC17IR.setMaxCountIR` is re-translated on every run from the current body of
`Semaphore.SetMaxCount` *including the body of the goroutine it spawns* (recorded `Release` /
`Acquire` / `close(done)`); it is the hand-written `setMaxCount` on every input. -/
theorem setMaxCount_regenerated_from_source (realCap n : Int) :
    Gen.FactsC17IR.extractionFailed = false ∧ Gen.FactsC17IR.setMaxCountIR realCap n = setMaxCount realCap n :=
  ⟨by decide, ConnCap.setMaxCount_regenerated_from_source realCap n⟩

/-- `LimitListener.Accept`: (returns a connection, units of the semaphore it still holds). -/
theorem accept_regenerated_from_source (acquired ctxErr innerErr : Bool) :
    Gen.FactsC17IR.extractionFailed = false ∧
    Gen.FactsC17IR.acceptIR acquired ctxErr innerErr = acceptBody acquired ctxErr innerErr :=
  ⟨by decide, ConnCap.accept_regenerated_from_source acquired ctxErr innerErr⟩

/-- `limitListenerConn.Close`: `release` is called through the `sync.Once` exactly when it has not fired. -/
theorem connClose_regenerated_from_source (once : Bool) :
    Gen.FactsC17IR.extractionFailed = false ∧
    Gen.FactsC17IR.connCloseIR once =
      ((connCloseBody once).1, List.replicate (connCloseBody once).2 Gen.FactsC17IR.OnceFn.release) :=
  ⟨by decide, ConnCap.connClose_regenerated_from_source once⟩

/-- `LimitListener.Close`: the context is cancelled through `closeOnce` at most once. -/
theorem listenerClose_regenerated_from_source (once : Bool) :
    Gen.FactsC17IR.extractionFailed = false ∧
    Gen.FactsC17IR.listenerCloseIR once =
      ((connCloseBody once).1, List.replicate (connCloseBody once).2 Gen.FactsC17IR.OnceFn.cancel) :=
  ⟨by decide, ConnCap.listenerClose_regenerated_from_source once⟩

/-- **step_built_from_translated_code.** The transition function all theorems above speak about is
built from the translated functions: `setMax` = `setMaxCount`'s synchronous part with the stored
difference `n - old`, `adjust` = the recorded goroutine actions `adjBody d 0` applied to the weighted
semaphore, `connClose` releases `(connCloseBody once).2` units, and an `Accept` call keeps one unit
iff it returns a connection (the `inAccept` unit becomes the `opened` unit). -/
theorem step_built_from_translated_code :
    (∀ (c : Cap) (n : Int), 0 ≤ n →
      step c (.setMax n) = some { c with realCap := (setMaxCount c.realCap n).1,
                                         pending := c.pending ++ [(c.nextAdj, (setMaxCount c.realCap n).1 - c.realCap)],
                                         nextAdj := c.nextAdj + 1 } ∧
      (setMaxCount c.realCap n).2 = adjBody ((setMaxCount c.realCap n).1 - c.realCap) 0) ∧
    (∀ (c : Cap) (id : Nat), step c (.adjust id) =
      match takeAdj id c.pending with
      | none => none
      | some (d, rest) => applyAdjOps { c with pending := rest } id (adjBody d 0)) ∧
    (∀ (c c' : Cap) (id : Nat), step c (.connClose id) = some c' → (id ∈ c.opened → id ∉ c.closed) →
      (decide (id ∈ c.closed) = false →
        c' = semRelease { c with opened := c.opened.erase id, closed := id :: c.closed }
               ((connCloseBody (decide (id ∈ c.closed))).2 : Int)) ∧
      (decide (id ∈ c.closed) = true → c' = c ∧ (connCloseBody (decide (id ∈ c.closed))).2 = 0)) ∧
    (∀ acquired ctxErr innerErr : Bool, (acquired = false → ctxErr = true) →
      (acceptBody acquired ctxErr innerErr).2 = (if (acceptBody acquired ctxErr innerErr).1 then 1 else 0) ∧
      (acceptBody acquired ctxErr innerErr).1 = (!ctxErr && !innerErr)) :=
  ⟨setMax_step_is_setMaxCount, adjust_step_is_adjBody, connClose_is_connCloseBody,
   fun a c i h => ⟨accept_units a c i h, accept_returns_iff a c i⟩⟩

/-- a request above `maxCapacity` is clamped -/
theorem setMaxCount_clamped (realCap n : Int) (h : n > M) : setMaxCount realCap n = setMaxCount realCap M :=
  ConnCap.setMaxCount_clamped realCap n h

/-- Non-vacuity: shrink 5 → 2 records `Acquire(3)` then `close(done)`; grow 2 → 5 records `Release(3)`;
an `Accept` whose inner accept fails gives its unit back. -/
example : setMaxCount 5 2 = (2, [AdjOp.acquire 3, AdjOp.done]) ∧ setMaxCount 2 5 = (5, [AdjOp.release 3, AdjOp.done]) ∧
    setMaxCount 2 2 = (2, [AdjOp.done]) ∧ acceptBody true false true = (false, 0) ∧
    acceptBody true false false = (true, 1) ∧ connCloseBody false = (true, 1) ∧ connCloseBody true = (true, 0) := by decide

/-! ### Facts regenerated from the source on every run -/

theorem source_facts :
    Gen.FactsC17.extractionFailed = false ∧ Gen.FactsC17.maxCapacity = M ∧
    Gen.FactsC17.newSemShape = true ∧ Gen.FactsC17.setMaxShape = true ∧ Gen.FactsC17.unitOps = true ∧
    Gen.FactsC17.acceptAcquiresFirst = true ∧ Gen.FactsC17.closeReleasesOnce = true ∧
    Gen.FactsC17.setMaxConnectionDelegates = true ∧ Gen.FactsC17.reloadSetsMaxConnection = true ∧
    Gen.FactsC17.earlyCheckShape = true ∧ Gen.FactsC17.lockedCheckShape = true := by decide

/-! ### Non-vacuity -/

/-- capacity 2: two connections open, a third `Accept` queued; shrink to 1 parks behind it;
closing one connection lets the queued `Accept` in (FIFO), closing another applies the shrink. -/
private def ex : List Act :=
  [.acquire 0, .acceptDone 0, .acquire 1, .acceptDone 1, .acquire 2, .setMax 1, .adjust 0,
   .connClose 0, .connClose 0, .acceptDone 2, .connClose 1]

example :
    let c := run (newCap 2) ex
    c.opened = [2] ∧ c.closed = [1, 0] ∧ c.waiters = [] ∧ c.realCap = 1 ∧ c.effCap = 1 ∧
    c.cur = M - 1 + 1 ∧ quiet c = true := by decide

example : quiet (run (newCap 2) (ex.take 7)) = false ∧
    (run (newCap 2) (ex.take 7)).waiters.map (·.n) = [1, 1] := by decide

/-- MQTT, cap 1: id 7 connects; id 8 is refused by the early check; a takeover of id 7 that
passed the early check before the cap was reached is accepted at the cap. -/
example :
    (mstep ⟨1, [7], [(5, 7)]⟩ (.locked 5)).map (·.2) = some MOut.accepted ∧
    (mstep ⟨1, [7], []⟩ (.early 6 8)).map (·.2) = some MOut.refused ∧
    atCap ⟨1, [7], []⟩ = true := by decide

end EgVerif.C17
