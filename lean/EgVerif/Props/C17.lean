import EgVerif.Proofs.ConnCap
import EgVerif.Gen.FactsC17
/-!
# C17 — connection caps hold at every instant (HTTP servers and the MQTT proxy)

HTTP: theorems about `Model/ConnCap.lean` (`sem.Semaphore` + `LimitListener` over the
contract of x/sync's weighted semaphore) for **every** interleaving of `Accept` calls
acquiring, inner accepts returning, connections closing (any number of times),
`SetMaxConnection` calls and their asynchronous adjustments (`Reach`). MQTT: theorems about
`Mq` for every interleaving of early checks, locked sections and removals (`MReach`).

Partial (see notes/C17.md): the x/sync FIFO contract, the kernel accept queue and goroutine
scheduling are trusted/sampled; a `Release` that would drive the weighted semaphore negative
(only possible with capacities near 20 000 000) is excluded by the model's guards.
-/
namespace EgVerif.C17
open EgVerif.ConnCap

/-- states of a LimitListener created with capacity `n₀ ≥ 0`, after any history -/
inductive Reach (n₀ : Int) : Cap → Prop
  | init : Reach n₀ (newCap n₀)
  | step {c c' : Cap} (a : Act) : Reach n₀ c → step c a = some c' → Reach n₀ c'

theorem reach_inv {n₀ : Int} (h0 : 0 ≤ n₀) {c : Cap} (r : Reach n₀ c) : CapInv c := by
  induction r with
  | init => exact capInv_new n₀ h0
  | step a _ hs ih => exact capInv_step ih hs

/-- **http_inv.** In every reachable state the weighted semaphore holds exactly the
pre-acquired part `M - effCap` plus one unit per connection that is open or acquired-and-not-
yet-accepted, and never more than its size; hence these connections never outnumber the
capacity carved out of the semaphore. -/
theorem http_inv {n₀ : Int} (h0 : 0 ≤ n₀) {c : Cap} (r : Reach n₀ c) :
    c.cur = M - c.effCap + (c.inAccept.length + c.opened.length : Nat) ∧ c.cur ≤ M ∧
    ((c.inAccept.length + c.opened.length : Nat) : Int) ≤ c.effCap := by
  have h := reach_inv h0 r
  refine ⟨h.count, h.le, ?_⟩
  have := h.count; have := h.le; omega

/-- **setmax_commutes.** Whatever the order in which the adjustment goroutines of any number
of `SetMaxCount` calls ran (every order is a `Reach` history): once none is pending or parked,
the capacity carved out of the semaphore is the value of the *last* call. -/
theorem setmax_commutes {n₀ : Int} (h0 : 0 ≤ n₀) {c : Cap} (r : Reach n₀ c) (hq : quiet c = true) :
    c.effCap = c.realCap := by
  have h := reach_inv h0 r
  obtain ⟨hp, ha⟩ := quiet_sums hq
  have := h.book; omega

/-- **Main statement (HTTP).** While no capacity change is pending or parked, at no instant are
there more accepted open connections (even counting the one `Accept` that already holds a unit)
than `maxConnections`. -/
theorem cap_holds {n₀ : Int} (h0 : 0 ≤ n₀) {c : Cap} (r : Reach n₀ c) (hq : quiet c = true) :
    ((c.inAccept.length + c.opened.length : Nat) : Int) ≤ c.realCap := by
  rw [← setmax_commutes h0 r hq]; exact (http_inv h0 r).2.2

/-- **setmax_applied.** Once every run-time change has been applied (`quiet`), an inner accept
can only return a connection (`acceptDone`) while the number of open connections is strictly
below the current cap … -/
theorem setmax_applied {n₀ : Int} (h0 : 0 ≤ n₀) {c c' : Cap} {id : Nat} (r : Reach n₀ c)
    (hq : quiet c = true) (hs : step c (Act.acceptDone id) = some c') :
    (c.opened.length : Int) < c.realCap := by
  have hc := cap_holds h0 r hq
  simp only [step] at hs
  split at hs <;> cases hs
  rename_i hg
  have : 0 < c.inAccept.length := List.length_pos_of_mem hg.1
  omega

/-- … and no step other than its own `Close` ever removes an established connection. -/
theorem established_kept {c c' : Cap} {a : Act} {id : Nat} (hs : step c a = some c')
    (ho : id ∈ c.opened) (hn : id ∉ c'.opened) : a = Act.connClose id := by
  have notify_opened : ∀ (ws : List Waiter) (x : Cap), (notify x ws).opened = x.opened := by
    intro ws
    induction ws with
    | nil => intro x; rfl
    | cons w r ih =>
      intro x; unfold notify; split
      · rfl
      · rw [ih]; unfold grant; split <;> rfl
  have acq_opened : ∀ (x : Cap) (w : Waiter), (semAcquire x w).opened = x.opened := by
    intro x w; unfold semAcquire; split
    · unfold grant; split <;> rfl
    · rfl
  cases a <;> simp only [step] at hs
  case acquire k => split at hs <;> cases hs; rw [acq_opened] at hn; exact absurd ho hn
  case acceptDone k =>
    split at hs <;> cases hs
    exact absurd (List.mem_cons_of_mem _ ho) hn
  case connClose k =>
    split at hs
    · split at hs <;> cases hs
      simp only [semRelease, notify_opened] at hn
      by_cases e : id = k
      · rw [e]
      · exact absurd ((List.mem_erase_of_ne e).mpr ho) hn
    · split at hs <;> cases hs; exact absurd ho hn
  case setMax n => split at hs <;> cases hs; exact absurd ho hn
  case adjust k =>
    cases ht : takeAdj k c.pending with
    | none => simp [ht] at hs
    | some q =>
      obtain ⟨d, rest⟩ := q
      simp only [ht] at hs
      split at hs
      · split at hs <;> cases hs
        simp only [semRelease, notify_opened] at hn; exact absurd ho hn
      · split at hs <;> cases hs
        · rw [acq_opened] at hn; exact absurd ho hn
        · exact absurd ho hn

/-- **release_once.** Closing an accepted connection a second time releases nothing and changes
nothing. -/
theorem release_once {n₀ : Int} (h0 : 0 ≤ n₀) {c c1 : Cap} {id : Nat} (r : Reach n₀ c)
    (hs : step c (Act.connClose id) = some c1) : step c1 (Act.connClose id) = some c1 := by
  have h := reach_inv h0 r
  have notify_lists : ∀ (ws : List Waiter) (x : Cap), (notify x ws).opened = x.opened ∧ (notify x ws).closed = x.closed := by
    intro ws
    induction ws with
    | nil => intro x; exact ⟨rfl, rfl⟩
    | cons w rr ih =>
      intro x; unfold notify; split
      · exact ⟨rfl, rfl⟩
      · rw [(ih _).1, (ih _).2]; unfold grant; split <;> exact ⟨rfl, rfl⟩
  simp only [step] at hs
  split at hs
  · rename_i hmem
    split at hs <;> cases hs
    have ho : id ∉ (semRelease { c with opened := c.opened.erase id, closed := id :: c.closed } 1).opened := by
      simp only [semRelease, (notify_lists _ _).1]
      exact fun hh => (List.Nodup.mem_erase_iff h.nodup).mp hh |>.1 rfl
    have hc : id ∈ (semRelease { c with opened := c.opened.erase id, closed := id :: c.closed } 1).closed := by
      simp only [semRelease, (notify_lists _ _).2]; exact List.mem_cons_self ..
    simp only [step, if_neg ho, if_pos hc]
  · rename_i hno
    split at hs <;> cases hs
    rename_i hcl
    simp only [step, if_neg hno, if_pos hcl]

/-- **release_reusable.** Capacity released by a closing connection is usable again: an `Accept`
waiting at the head of the queue is granted its unit by that very `Close` … -/
theorem release_reusable {n₀ : Int} (h0 : 0 ≤ n₀) {c c' : Cap} {id w : Nat} {rest : List Waiter}
    (r : Reach n₀ c) (hw : c.waiters = ⟨w, 1, WKind.unit⟩ :: rest)
    (hs : step c (Act.connClose id) = some c') (ho : id ∈ c.opened) : w ∈ c'.inAccept := by
  have h := reach_inv h0 r
  have notify_inAccept : ∀ (ws : List Waiter) (x : Cap), w ∈ x.inAccept → w ∈ (notify x ws).inAccept := by
    intro ws
    induction ws with
    | nil => intro x hx; exact hx
    | cons v rr ih =>
      intro x hx; unfold notify; split
      · exact hx
      · apply ih; unfold grant; split
        · exact List.mem_cons_of_mem _ hx
        · exact hx
  simp only [step, if_pos ho] at hs
  split at hs <;> cases hs
  simp only [semRelease, hw]
  unfold notify
  have hle := h.le; have hsz := h.size
  rw [if_neg (by simp only; omega)]
  apply notify_inAccept
  simp [grant]

/-- … and with an empty queue and spare capacity an `Accept` gets its unit at once. -/
theorem acquire_immediate {n₀ : Int} (h0 : 0 ≤ n₀) {c c' : Cap} {id : Nat} (r : Reach n₀ c)
    (hw : c.waiters = []) (hspare : ((c.inAccept.length + c.opened.length : Nat) : Int) < c.effCap)
    (hs : step c (Act.acquire id) = some c') : id ∈ c'.inAccept := by
  have h := reach_inv h0 r
  simp only [step] at hs
  split at hs <;> cases hs
  have hc := h.count; have hsz := h.size
  unfold semAcquire
  rw [if_pos ⟨by simp only; omega, hw⟩]
  simp [grant]

/-- Conversely an `Accept` is held back while the cap is reached: with no spare capacity it
does not get a unit (it queues), so no connection beyond the cap is accepted. -/
theorem acquire_held_back {n₀ : Int} (h0 : 0 ≤ n₀) {c c' : Cap} {id : Nat} (r : Reach n₀ c)
    (hfull : c.effCap ≤ ((c.inAccept.length + c.opened.length : Nat) : Int))
    (hs : step c (Act.acquire id) = some c') : c'.inAccept = c.inAccept ∧ c'.opened = c.opened := by
  have h := reach_inv h0 r
  simp only [step] at hs
  split at hs <;> cases hs
  have hc := h.count; have hsz := h.size
  unfold semAcquire
  rw [if_neg (by simp only; omega)]
  exact ⟨rfl, rfl⟩

/-! ## MQTT -/

inductive MReach (cap : Nat) : Mq → Prop
  | init : MReach cap ⟨cap, [], []⟩
  | step {m m' : Mq} {o : MOut} (a : MAct) : MReach cap m → mstep m a = some (m', o) → MReach cap m'

theorem mq_cap_const {cap : Nat} {m : Mq} (r : MReach cap m) : m.cap = cap := by
  induction r with
  | init => rfl
  | step a _ hs ih =>
    cases a <;> simp only [mstep] at hs
    case early conn cid =>
      split at hs; · cases hs
      split at hs <;> cases hs <;> exact ih
    case locked conn =>
      split at hs; · cases hs
      split at hs; · cases hs; exact ih
      split at hs <;> cases hs <;> exact ih
    case remove cid => split at hs <;> cases hs; exact ih

/-- **mqtt_inv.** With `maxAllowedConnection = cap > 0` the broker never has more than `cap`
registered clients, for any interleaving of early checks, locked sections (incl. takeovers) and
removals. -/
theorem mqtt_inv {cap : Nat} (hcap : 0 < cap) {m : Mq} (r : MReach cap m) : m.clients.length ≤ cap := by
  induction r with
  | init => simp
  | step a r' hs ih =>
    have hc := mq_cap_const r'
    cases a <;> simp only [mstep] at hs
    case early conn cid =>
      split at hs; · cases hs
      split at hs <;> cases hs <;> exact ih
    case locked conn =>
      split at hs; · cases hs
      split at hs; · cases hs; exact ih
      split at hs
      · cases hs; exact ih
      · cases hs
        rename_i hnot
        simp only [atCap, hc, Bool.and_eq_true, decide_eq_true_eq, not_and, Nat.not_le] at hnot
        simp only [List.length_cons]
        have := hnot hcap; omega
    case remove cid =>
      split at hs <;> cases hs
      simp only
      exact Nat.le_trans (List.length_erase_le ..) ih

/-- **mqtt_takeover_at_cap.** The locked section of a connection whose client id is already
registered is accepted and replaces the entry: the set of registered ids does not change, even
at the cap. -/
theorem mqtt_takeover_at_cap {m m' : Mq} {o : MOut} {conn cid : Nat}
    (hp : m.passed.find? (·.1 == conn) = some (conn, cid)) (hreg : m.clients.contains cid = true)
    (hs : mstep m (MAct.locked conn) = some (m', o)) : o = MOut.accepted ∧ m'.clients = m.clients := by
  simp only [mstep, hp, hreg, if_true] at hs
  cases hs; exact ⟨rfl, rfl⟩

/-- **mqtt_refuse_at_cap.** At the cap a connection with a new client id is refused
(server-unavailable) by the locked section, and every CONNECT is refused by the early check;
neither changes the registered clients. -/
theorem mqtt_refuse_at_cap {m m' : Mq} {o : MOut} {conn cid : Nat} (hat : atCap m = true) :
    (m.passed.find? (·.1 == conn) = some (conn, cid) → m.clients.contains cid = false →
      mstep m (MAct.locked conn) = some (m', o) → o = MOut.refused ∧ m'.clients = m.clients) ∧
    (mstep m (MAct.early conn cid) = some (m', o) → o = MOut.refused ∧ m' = m) := by
  constructor
  · intro hp hnew hs
    simp only [mstep, hp, hnew, hat, if_true, Bool.false_eq_true, if_false] at hs
    cases hs; exact ⟨rfl, rfl⟩
  · intro hs
    simp only [mstep, hat, if_true] at hs
    split at hs <;> cases hs
    exact ⟨rfl, rfl⟩

/-- Below the cap (or with no cap) a new client id is let in by both checks. -/
theorem mqtt_accept_below_cap {m m' : Mq} {o : MOut} {conn cid : Nat} (hbelow : atCap m = false)
    (hp : m.passed.find? (·.1 == conn) = some (conn, cid)) (hnew : m.clients.contains cid = false)
    (hs : mstep m (MAct.locked conn) = some (m', o)) : o = MOut.accepted ∧ m'.clients = cid :: m.clients := by
  simp only [mstep, hp, hnew, hbelow, Bool.false_eq_true, if_false] at hs
  cases hs; exact ⟨rfl, rfl⟩

/-! ### Facts regenerated from the source on every run -/

theorem source_facts :
    Gen.FactsC17.extractionFailed = false ∧ Gen.FactsC17.maxCapacity = M ∧
    Gen.FactsC17.newSemShape = true ∧ Gen.FactsC17.setMaxShape = true ∧ Gen.FactsC17.unitOps = true ∧
    Gen.FactsC17.acceptAcquiresFirst = true ∧ Gen.FactsC17.closeReleasesOnce = true ∧
    Gen.FactsC17.setMaxConnectionDelegates = true ∧ Gen.FactsC17.reloadSetsMaxConnection = true ∧
    Gen.FactsC17.earlyCheckShape = true ∧ Gen.FactsC17.lockedCheckShape = true := by decide

/-! ### Non-vacuity -/

/-- capacity 2: two connections open, a third `Accept` queued; shrink to 1 parks behind it;
closing one connection lets the queued `Accept` in (FIFO), closing another applies the shrink. -/
private def ex : List Act :=
  [.acquire 0, .acceptDone 0, .acquire 1, .acceptDone 1, .acquire 2, .setMax 1, .adjust 0,
   .connClose 0, .connClose 0, .acceptDone 2, .connClose 1]

example :
    let c := run (newCap 2) ex
    c.opened = [2] ∧ c.closed = [1, 0] ∧ c.waiters = [] ∧ c.realCap = 1 ∧ c.effCap = 1 ∧
    c.cur = M - 1 + 1 ∧ quiet c = true := by decide

example : quiet (run (newCap 2) (ex.take 7)) = false ∧
    (run (newCap 2) (ex.take 7)).waiters.map (·.n) = [1, 1] := by decide

/-- MQTT, cap 1: id 7 connects; id 8 is refused by the early check; a takeover of id 7 that
passed the early check before the cap was reached is accepted at the cap. -/
example :
    (mstep ⟨1, [7], [(5, 7)]⟩ (.locked 5)).map (·.2) = some MOut.accepted ∧
    (mstep ⟨1, [7], []⟩ (.early 6 8)).map (·.2) = some MOut.refused ∧
    atCap ⟨1, [7], []⟩ = true := by decide

end EgVerif.C17
