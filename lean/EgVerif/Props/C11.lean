import EgVerif.Proofs.HotUpdate
import EgVerif.Proofs.HotUpdateIR
import EgVerif.Gen.FactsC11
import EgVerif.Gen.FactsC11IR
/-!
# C11 — hot update: one consistent generation per request; none fails on update

Property theorems about `Model/HotUpdate.lean`. Helper lemmas live in `Proofs/HotUpdate.lean`.

* Part 1 (`mux.inst` Load/Store): for **every** schedule of any number of requests and updaters.
* Part 2 (traffic controller registry): for **every** history of create/update/apply/delete.
* Part 3 (filter kinds): for **every** pair of specs / limiter heap.

What is *not* shown here (trusted, see `props/C11.json`): that Go's `atomic.Value`, `sync.Map`
and `sync.Mutex` give the sequentially consistent micro-steps the model uses, and — for the kinds
other than RateLimiter — that `Close()` leaves `Handle` working (sampled by the harness only).
-/
namespace EgVerif.C11
open EgVerif.HotUpdate

variable {R O M : Type}

/-! ## Part 1 — each request sees exactly one generation -/

/-- **Main statement.** Take any schedule `s1`, then the `Load` of a request `r` that has not
loaded yet, then any schedule `s2` (any number of builds, stores, other requests' steps and
`r`'s own reads). Whatever `r` has read at the end was read from **the generation that was
current at the instant of its load** — which was published no later than that instant
(`∈ hist`) — no matter how many newer generations have been stored meanwhile. -/
theorem request_sees_one_generation (g0 : Gen R O M) (s1 s2 : List (Step R O M)) (r : Nat)
    (hfresh : ((run (init g0) s1).reqs r).loaded = none) :
    let sA := run (init g0) s1
    let sB := run (init g0) (s1 ++ Step.load r :: s2)
    (sB.reqs r).loaded = some sA.cur ∧ sA.cur ∈ sA.hist ∧
      ∀ p ∈ (sB.reqs r).obs, p.2 = sA.cur.read p.1 := by
  intro sA sB
  have hinvA : Inv sA := inv_run (inv_init g0) s1
  have hB : sB = run (step sA (.load r)) s2 := by
    show run (init g0) (s1 ++ Step.load r :: s2) = _
    rw [run_append]; rfl
  have hl : ((step sA (.load r)).reqs r).loaded = some sA.cur := by
    rw [step_load_none sA r hfresh, setReq_reqs]; simp
  have hst : (sB.reqs r).loaded = some sA.cur := by
    rw [hB]; exact loaded_stable_run _ s2 r _ hl
  have hinvB : Inv sB := inv_run (inv_init g0) _
  refine ⟨hst, ?_, fun p hp => hinvB.obs_ok r _ hst p hp⟩
  have := hinvA.head
  cases hh : sA.hist with
  | nil => simp [hh] at this
  | cons x xs => simp [hh] at this; simp [this]

/-- The same fact without naming the load step: at the end of **every** schedule, every request
either has read nothing, or there is one published generation that explains all its reads. -/
theorem request_obs_consistent (g0 : Gen R O M) (sched : List (Step R O M)) (r : Nat) :
    let s := run (init g0) sched
    ((s.reqs r).loaded = none ∧ (s.reqs r).obs = []) ∨
      ∃ g ∈ s.hist, (s.reqs r).loaded = some g ∧ ∀ p ∈ (s.reqs r).obs, p.2 = g.read p.1 := by
  intro s
  have hinv : Inv s := inv_run (inv_init g0) sched
  cases hl : (s.reqs r).loaded with
  | none => exact Or.inl ⟨rfl, hinv.obs_nil r hl⟩
  | some g => exact Or.inr ⟨g, hinv.loaded_mem r g hl, rfl, hinv.obs_ok r g hl⟩

/-- Corollary for the HTTP server: the response a request produces from its three reads
(rules → route, mapper → handler, options → X-Forwarded-For) is `serve g` for **one** generation
`g`, the one current at its load — never a mixture of two specs. -/
theorem response_is_serve_of_one_generation (g0 : HGen) (s1 s2 : List (Step Rules Options Mapper))
    (r : Nat) (hfresh : ((run (init g0) s1).reqs r).loaded = none)
    (vr : Rules) (vm : Mapper) (vo : Options)
    (hr : (Field.rules, Val.rules vr) ∈ ((run (init g0) (s1 ++ Step.load r :: s2)).reqs r).obs)
    (hm : (Field.mapper, Val.mapper vm) ∈ ((run (init g0) (s1 ++ Step.load r :: s2)).reqs r).obs)
    (ho : (Field.options, Val.options vo) ∈ ((run (init g0) (s1 ++ Step.load r :: s2)).reqs r).obs)
    (q : HReq) :
    serveFrom vr vm vo q = serve (run (init g0) s1).cur q := by
  obtain ⟨_, _, hobs⟩ := request_sees_one_generation g0 s1 s2 r hfresh
  have h1 := hobs _ hr
  have h2 := hobs _ hm
  have h3 := hobs _ ho
  simp only [Gen.read] at h1 h2 h3
  cases h1; cases h2; cases h3
  rfl

/-- The reload storm of the harness, as a theorem: if the server starts with generation `a` and
every reload in the schedule builds `a` or `b`, then the response of **every** request that has
performed its three reads is `serve a` or `serve b` — the executable specification the judge
evaluates on the real responses. -/
theorem storm_response_in_two (a b : HGen) (sched : List (Step Rules Options Mapper))
    (hb : BuildsIn (fun g => g = a ∨ g = b) sched) (r : Nat)
    (vr : Rules) (vm : Mapper) (vo : Options)
    (hr : (Field.rules, Val.rules vr) ∈ ((run (init a) sched).reqs r).obs)
    (hm : (Field.mapper, Val.mapper vm) ∈ ((run (init a) sched).reqs r).obs)
    (ho : (Field.options, Val.options vo) ∈ ((run (init a) sched).reqs r).obs)
    (q : HReq) :
    serveFrom vr vm vo q = serve a q ∨ serveFrom vr vm vo q = serve b q := by
  rcases request_obs_consistent a sched r with ⟨_, hnil⟩ | ⟨g, hg, _, hobs⟩
  · rw [hnil] at hr; cases hr
  · have hS := published_in (fun g => g = a ∨ g = b) (init a) sched
      (by intro g hg; simp [init] at hg; exact Or.inl hg) (by intro u g h; simp [init] at h) hb g hg
    have h1 := hobs _ hr
    have h2 := hobs _ hm
    have h3 := hobs _ ho
    simp only [Gen.read] at h1 h2 h3
    cases h1; cases h2; cases h3
    rcases hS with h | h
    · exact Or.inl (by rw [← h]; rfl)
    · exact Or.inr (by rw [← h]; rfl)

/-- **Once the update has been applied every new request sees the new generation**: if updater
`u` has built `g` and stores it, a request that has not loaded before the store completes and
loads at any later time gets `g` or a generation published after `g` — never an older one. -/
theorem after_store_new (g0 : Gen R O M) (s1 s2 : List (Step R O M)) (u r : Nat) (g g' : Gen R O M)
    (hb : (run (init g0) s1).built u = some g)
    (hfresh : ((run (init g0) (s1 ++ [Step.store u])).reqs r).loaded = none)
    (hl : ((run (init g0) (s1 ++ Step.store u :: s2)).reqs r).loaded = some g') :
    ∃ pre, (run (init g0) (s1 ++ Step.store u :: s2)).hist = pre ++ g :: (run (init g0) s1).hist ∧
      g' ∈ pre ++ [g] := by
  have e1 : run (init g0) (s1 ++ [Step.store u]) = step (run (init g0) s1) (.store u) := by
    rw [run_append]; rfl
  have e2 : run (init g0) (s1 ++ Step.store u :: s2) = run (step (run (init g0) s1) (.store u)) s2 := by
    rw [run_append]; rfl
  rw [e1] at hfresh
  rw [e2] at hl ⊢
  obtain ⟨pre, hp, hm⟩ := fresh_load_run _ s2 r g' hfresh hl
  rw [step_store_some _ u g hb] at hp hm ⊢
  exact ⟨pre, hp, hm⟩

/-- **Sequential histories** (the `muxhist` harness): reloads and requests that each run to
completion, in any order and number. The `j`-th request reads exactly the three fields of the
generation installed by the last reload completed before it (the initial one if there was
none) — in particular a cache, a filter chain or any other state of an earlier generation can
play no role. Its response therefore is `serve` of that generation (`histServe`). -/
theorem sequential_history_sees_latest (g0 : Gen R O M) (ops : List (HOp R O M)) (j : Nat) (g : Gen R O M)
    (h : (expectedGens g0 ops)[j]? = some g) :
    ((seqRun (init g0) 0 ops).reqs j).obs = triple g := by
  have := (seqRun_spec ops (init g0) 0 (by intro r _; exact ⟨rfl, rfl⟩)).2 j g h
  simpa using this

/-- The outcome a request assembles from what it has read (`none` until it has performed its three reads). -/
def respOfObs (obs : List (Field × Val Rules Options Mapper)) (q : HReq) : Option Outcome :=
  match obs with
  | [(_, Val.rules vr), (_, Val.mapper vm), (_, Val.options vo)] => some (serveFrom vr vm vo q)
  | _ => none

/-- … and the response the `j`-th request of any sequential history produces is `serve g` of the
generation installed by the last reload completed before it. -/
theorem sequential_history_response (g0 : HGen) (ops : List (HOp Rules Options Mapper)) (j : Nat) (g : HGen)
    (h : (expectedGens g0 ops)[j]? = some g) (q : HReq) :
    respOfObs ((seqRun (init g0) 0 ops).reqs j).obs q = some (serve g q) := by
  rw [sequential_history_sees_latest g0 ops j g h]
  rfl

/-- The `muxhist` judge's expectation (`histServe`, run on the parsed history) is exactly that: the
list of `serve g q` with `g` ranging over `expectedGens` — so a response the judge accepts is the
response `sequential_history_response` proves (`spec_accepts_model` for the sequential histories). -/
theorem histServe_eq_expected (cur : HGen) (ops : List (Sum HGen HReq)) :
    histServe cur ops =
      List.zipWith serve
        (expectedGens cur (ops.map fun o => match o with | .inl g => HOp.reload g | .inr _ => HOp.req))
        (ops.filterMap fun o => match o with | .inl _ => none | .inr q => some q) := by
  induction ops generalizing cur with
  | nil => rfl
  | cons o rest ih =>
    cases o with
    | inl g => simp [histServe, expectedGens, ih]
    | inr q => simp [histServe, expectedGens, ih]

/-! ### Non-vacuity and contrast -/

private abbrev G3 := Gen Nat Nat Nat
private def gA : G3 := ⟨1, 1, 1⟩
private def gB : G3 := ⟨2, 2, 2⟩
/-- request 0 loads, an updater publishes `gB` between its reads, request 1 loads afterwards. -/
private def sched : List (Step Nat Nat Nat) :=
  [.load 0, .use 0 .rules, .build 7 gB, .store 7, .use 0 .mapper, .use 0 .options, .load 1, .use 1 .rules]

example : ((run (init gA) sched).reqs 0).obs = [(.rules, .rules 1), (.mapper, .mapper 1), (.options, .options 1)] := by
  decide
example : ((run (init gA) sched).reqs 1).obs = [(.rules, .rules 2)] := by decide
example : (run (init gA) sched).hist = [gB, gA] := by decide

/-- Contrast: if every read went back to `m.inst` (a second `Load` per request), the same
schedule yields a response mixed from two generations — the theorem above is not a tautology, it
rests on the single load (regenerated fact `muxLoadsPerRequest = 1`). -/
theorem reload_per_use_mixes :
    ¬ ∃ g ∈ (runReload (init gA) sched).hist,
        ∀ p ∈ ((runReload (init gA) sched).reqs 0).obs, p.2 = g.read p.1 := by decide

/-! ### Non-vacuity at the HTTP instantiation (`HGen` = rules × options × mapper of an HTTPServer) -/

private def hA : HGen :=
  { rules := { cfg := { rules := [{ host := "a.com", paths := [{ path := "/x", backend := "p1" }] }] }, filters := [] },
    options := { xForwardedFor := false }, mapper := { tag := "A", backends := ["p1"] } }
/-- B differs from A *jointly* in rules (blocked client), options (X-Forwarded-For) and mapper (backend names). -/
private def hB : HGen :=
  { rules := { cfg := { ipFilter := some 0,
                        rules := [{ host := "a.com", paths := [{ path := "/x", backend := "q1", rewriteTarget := "/y" }] }] },
               filters := [{ blockByDefault := false, allowIPs := [], blockIPs := ["10.0.0.2"] }] },
    options := { xForwardedFor := true }, mapper := { tag := "B", backends := ["q1"] } }
private def hq (ip : String) : HReq :=
  { q := { host := "a.com", hostNoPort := "a.com", method := "GET", path := "/x", hdr := [], ip := ip }, xffIn := "", xffContains := false }

/-- request 0 loads under A, a reload to B is published between its reads, request 1 loads afterwards:
request 0's response is entirely A's, request 1's entirely B's (other backend, rewritten path, XFF,
and the blocked client is refused) — and a mixture (A's route with B's mapper) would have been a 503. -/
example :
    let s := run (init hA) [.load 0, .use 0 .rules, .build 7 hB, .store 7, .use 0 .mapper, .use 0 .options,
                            .load 1, .use 1 .rules, .use 1 .mapper, .use 1 .options]
    respOfObs (s.reqs 0).obs (hq "10.0.0.1") = some (serve hA (hq "10.0.0.1")) ∧
      respOfObs (s.reqs 1).obs (hq "10.0.0.1") = some (serve hB (hq "10.0.0.1")) ∧
      serve hA (hq "10.0.0.1") = ⟨200, "A:p1", "/x", ""⟩ ∧
      serve hB (hq "10.0.0.1") = ⟨200, "B:q1", "/y", "10.0.0.1"⟩ ∧
      (serve hB (hq "10.0.0.2")).status = 403 ∧
      (serveFrom hA.rules hB.mapper hA.options (hq "10.0.0.1")).status = 503 := by
  decide

/-! ## Part 2 — registry: unchanged spec is a no-op; operating on one object never disturbs another -/

/-- **Applying an unchanged spec is a no-op**: same entity, same instance, nothing closed, no new
instance created. -/
theorem noop_on_equal (r : Reg) (n : String) (e : Entity) (h : r.ents n = some e) :
    r.step (.apply n e.spec) = (r, Res.unchanged) := by
  simp [Reg.step, h]

/-- **Frame**: an operation on name `op.name` leaves every other name's entity in place, and does
not close its instance. -/
theorem frame_other_objects (r : Reg) (wf : r.WF) (op : Op) (m : String) (hm : m ≠ op.name) :
    (r.step op).1.ents m = r.ents m ∧
      ∀ e, r.ents m = some e → e.inst ∉ (r.step op).1.closed := by
  refine ⟨Reg.step_ents_other r op m hm, fun e he => ?_⟩
  have wf' := Reg.wf_step wf op
  exact wf'.live m e (by rw [Reg.step_ents_other r op m hm]; exact he)

/-- Frame for whole histories: any number of creates, updates, applies and deletes of *other*
objects never makes object `m` unavailable nor replaces or closes its instance. -/
theorem frame_history (r : Reg) (wf : r.WF) (ops : List Op) (m : String)
    (hm : ∀ o ∈ ops, m ≠ o.name) :
    (r.run ops).ents m = r.ents m ∧ ∀ e, r.ents m = some e → e.inst ∉ (r.run ops).closed := by
  induction ops generalizing r with
  | nil => exact ⟨rfl, fun e he => wf.live m e he⟩
  | cons o rest ih =>
    have h1 := Reg.step_ents_other r o m (hm o (by simp))
    obtain ⟨h2, h3⟩ := ih (r.step o).1 (Reg.wf_step wf o) (fun o' ho' => hm o' (by simp [ho']))
    refine ⟨by simp only [Reg.run]; rw [h2, h1], fun e he => ?_⟩
    simp only [Reg.run]
    exact h3 e (by rw [h1]; exact he)

/-- Every registry reachable from the empty one is well formed (so the frame theorems apply to
every history). -/
theorem reachable_wf (ops : List Op) : (Reg.empty.run ops).WF := Reg.wf_run Reg.wf_empty ops

/-- **None fails on update**: after an update (or a changing apply) of an existing object the
name is still available, with the new spec and an instance that is not closed. -/
theorem available_after_update (r : Reg) (wf : r.WF) (n : String) (s : Nat) (prev : Entity)
    (h : r.ents n = some prev) :
    ∃ e, (r.step (.update n s)).1.ents n = some e ∧ e.spec = s ∧
      e.inst ∉ (r.step (.update n s)).1.closed ∧ (r.step (.update n s)).1.getHandler n = some e.inst := by
  have wf' := Reg.wf_step wf (.update n s)
  simp only [Reg.step, h] at wf' ⊢
  refine ⟨⟨s, 1, r.next⟩, by simp [Reg.doInherit, Reg.set_eq], rfl, ?_, by simp [Reg.getHandler, Reg.doInherit, Reg.set_eq]⟩
  exact wf'.live n _ (by simp [Reg.doInherit, Reg.set_eq])

/-- Only `delete` makes a name unavailable. -/
theorem stays_available (r : Reg) (op : Op) (m : String) (hd : op ≠ .delete m)
    (h : (r.ents m).isSome) : ((r.step op).1.ents m).isSome := by
  by_cases hm : m = op.name
  · cases op with
    | create n s => simp [Reg.step, Reg.doCreate, Reg.set_eq, Op.name] at hm ⊢; simp [hm]
    | update n s =>
      simp only [Op.name] at hm; subst hm
      simp only [Reg.step]
      cases he : r.ents m with
      | none => simp [he] at h
      | some e => simp [Reg.doInherit, Reg.set_eq]
    | apply n s =>
      simp only [Op.name] at hm; subst hm
      simp only [Reg.step]
      cases he : r.ents m with
      | none => simp [he] at h
      | some e =>
        simp only
        split
        · simp [he]
        · simp [Reg.doInherit, Reg.set_eq]
    | delete n => simp only [Op.name] at hm; subst hm; exact absurd rfl hd
  · rw [Reg.step_ents_other r op m hm]; exact h

/-- Non-vacuity: three objects, updates and deletes of two of them, the third is untouched. -/
example :
    let r := Reg.empty.run [.create "a" 1, .create "b" 2, .create "c" 3, .update "a" 4, .delete "b",
      .apply "a" 4, .apply "a" 5]
    r.getHandler "c" = some 2 ∧ r.getHandler "b" = none ∧ r.getHandler "a" = some 4 ∧
      r.closed = [3, 1, 0] := by decide

/-! ## Part 3 — the old generation stays usable -/

/-- Kinds whose `Inherit` never touches the previous generation (regenerated list, see
`inherit_touching_kinds_are_modelled`) and whose `Close` keeps `Handle` working. -/
theorem old_generation_usable_of_independent {S : Type} (K : KindModel S) (hK : K.Independent)
    (new old : S) (h : K.usable old) : K.usable (K.close (K.inherit new old).2) := by
  rw [hK.inherit_snd]; exact hK.close_usable old h

/-- **RateLimiter (repaired `reload`)**: after `new.Inherit(old)` and `old.Close()`, for every
pair of specs and every heap, the old generation still holds a live limiter for every URL … -/
theorem old_generation_usable_ratelimiter (heap : Heap) (new old : RLSpec)
    (h : rlUsable heap old = true) :
    rlUsable (rlInherit false heap new old).1 (rlClose (rlInherit false heap new old).2.2) = true := by
  rw [rlUsable_iff] at h ⊢
  simp only [rlInherit, rlClose]
  rw [reloadUrls_false_prev]
  exact h.mono (reloadUrls_heap_le false new old heap old.urls new.urls)

/-- … it is literally unchanged … -/
theorem ratelimiter_inherit_leaves_old (heap : Heap) (new old : RLSpec) :
    (rlInherit false heap new old).2.2 = old := by
  simp only [rlInherit]
  rw [reloadUrls_false_prev]

/-- … and the new generation is usable as well. -/
theorem new_generation_usable_ratelimiter (heap : Heap) (new old : RLSpec)
    (h : rlUsable heap old = true) :
    rlUsable (rlInherit false heap new old).1 (rlInherit false heap new old).2.1 = true := by
  rw [rlUsable_iff] at h ⊢
  exact reloadUrls_false_new_ok new old heap old.urls new.urls h

/-- A freshly initialised RateLimiter is usable. -/
theorem init_usable_ratelimiter (heap : Heap) (spec : RLSpec) :
    rlUsable (rlInit heap spec).1 (rlInit heap spec).2 = true := by
  rw [rlUsable_iff]
  exact reloadUrls_false_new_ok spec _ heap [] spec.urls (by intro u hu; simp at hu)

/-- `Handle` on a usable generation never panics and keeps every generation usable: a request
that holds the old generation completes, whatever it asks for. -/
theorem usable_handle_no_panic (heap : Heap) (f : RLSpec) (q : FReq) (h : rlUsable heap f = true) :
    (rlHandle heap q f.urls).2 ≠ HOut.panic ∧
      ∀ f', rlUsable heap f' = true → rlUsable (rlHandle heap q f.urls).1 f' = true := by
  rw [rlUsable_iff] at h
  obtain ⟨h1, h2⟩ := rlHandle_ok heap q f.urls h
  refine ⟨h1, fun f' hf' => ?_⟩
  rw [rlUsable_iff] at hf' ⊢
  exact hf'.mono (by rw [h2]; exact Nat.le_refl _)

/-! ### The code as found (`prev.rl = nil`) violates the property -/

private def specX : RLSpec :=
  { defaultRef := "p", policies := [⟨"p", 1⟩],
    urls := [{ methods := [], exact := "/a", pfx := "", policyRef := "" }] }

/-- Witness (replayed on the real code by the harness, `corpus/C11/filters.jsonl`): inheriting
the unchanged spec with the original `reload` leaves the old generation with a nil limiter;
the old generation's next `Handle` of `/a` panics. -/
theorem original_reload_breaks_old_generation :
    rlUsable (rlInit [] specX).1 (rlInit [] specX).2 = true ∧
      rlUsable (rlInherit true (rlInit [] specX).1 specX (rlInit [] specX).2).1
        (rlInherit true (rlInit [] specX).1 specX (rlInit [] specX).2).2.2 = false ∧
      (rlScenario true specX specX [] [(false, ⟨"GET", "/a"⟩)]).2 = [HOut.panic] ∧
      (rlScenario false specX specX [] [(false, ⟨"GET", "/a"⟩)]).2 = [HOut.pass] := by
  decide

/-- The limiter is *shared*, not duplicated: old and new generation together still admit only
`limit` requests (here 1). -/
example : (rlScenario false specX specX [] [(false, ⟨"GET", "/a"⟩), (true, ⟨"GET", "/a"⟩)]).2 =
    [HOut.pass, HOut.limited] := by decide

/-! ### Kafka / KafkaMQTT (repaired `Close` / `Handle`, `fixes/C11-kafka-handle-after-close.patch`) -/

/-- The Kafka kinds are a `KindModel` whose `Inherit` leaves the previous generation alone and whose
(repaired) `Close` keeps `Handle` panic-free — for every timing of the asynchronous producer shutdown. -/
theorem kafkaKind_independent (shutdownDone : Bool) : (kafkaKind shutdownDone).Independent :=
  ⟨fun _ _ => rfl, fun s _ => by
    cases s with | mk c o => cases c <;> cases o <;> cases shutdownDone <;> simp [kafkaKind, kafkaClose, kafkaHandle]⟩

/-- **Kafka / KafkaMQTT**: after `new.Inherit(old)` and `old.Close()` a request that still holds the old
generation completes without panic — whether or not the producer's shutdown has already finished,
and whatever state the old generation was in. It gets the kind's failure result, never a send on
the closed input channel. -/
theorem old_generation_usable_kafka (shutdownDone : Bool) (new old : KafkaSt) :
    kafkaHandle ((kafkaKind shutdownDone).close ((kafkaKind shutdownDone).inherit new old).2) = KOut.failed ∧
      (kafkaKind shutdownDone).usable ((kafkaKind shutdownDone).close ((kafkaKind shutdownDone).inherit new old).2) ∧
      kafkaHandle ((kafkaKind shutdownDone).inherit new old).1 = KOut.sent := by
  cases old with | mk c o => cases c <;> cases o <;> cases shutdownDone <;>
    simp [kafkaKind, kafkaClose, kafkaHandle, kafkaInherit, kafkaInit]

/-- … which is an instance of the generic statement. -/
theorem old_generation_usable_kafka_generic (shutdownDone : Bool) (new old : KafkaSt)
    (h : (kafkaKind shutdownDone).usable old) :
    (kafkaKind shutdownDone).usable ((kafkaKind shutdownDone).close ((kafkaKind shutdownDone).inherit new old).2) :=
  old_generation_usable_of_independent _ (kafkaKind_independent shutdownDone) new old h

/-- The harness scenario under the repaired code, for every list of operations and both timings:
no outcome is a panic; old-generation operations fail cleanly, new-generation ones send. -/
theorem kafka_scenario_never_panics (shutdownDone : Bool) (ops : List Bool) :
    ∀ o ∈ (kafkaScenario true shutdownDone ops).zip ops,
      o.1 = (if o.2 then KOut.sent else KOut.failed) := by
  induction ops with
  | nil => simp [kafkaScenario]
  | cons b rest ih =>
    intro o ho
    simp only [kafkaScenario, List.map_cons, List.zip_cons_cons, List.mem_cons] at ho ih
    rcases ho with rfl | ho
    · cases b <;> cases shutdownDone <;> simp [kafkaClose, kafkaHandle, kafkaInherit, kafkaInit]
    · exact ih o ho

/-- Witness against the code as found (replayed on the real code by the `kafka` / `kafkamqtt`
harnesses, `corpus/C11/kafka.jsonl`): without the `closed` flag, once the producer's shutdown has
finished the old generation's `Handle` is a send on a closed channel; before that it still sends
(which is why a fixed short sleep does not show the defect); the repaired code fails cleanly in both cases. -/
theorem original_kafka_close_breaks_old_generation :
    kafkaScenario false true [false, true] = [KOut.panic, KOut.sent] ∧
      kafkaScenario false false [false] = [KOut.sent] ∧
      kafkaScenario true true [false, true] = [KOut.failed, KOut.sent] ∧
      kafkaScenario true false [false] = [KOut.failed] := by decide

/-! ## Extension `auth11`, round 2 — instances for `old_generation_usable_of_independent`, the
RateLimiter scenario for all inputs -/

/-- A `FieldKind` whose `Handle` reads no field its `Close` touches is `Independent`: `Inherit`
leaves the previous generation alone and `Close` cannot change what `Handle` does. -/
theorem fieldKind_independent (K : FieldKind) (wf : K.WellFormed)
    (hd : ∀ x ∈ K.reads, x ∉ K.closeTouches) : K.toKindModel.Independent :=
  ⟨fun _ _ => rfl, fun s hs => by
    show K.handlePanics (K.closeFn s) = false
    rw [wf.handle_dep (K.closeFn s) s (fun x hx => wf.close_frame s x (hd x hx))]
    exact hs⟩

open EgVerif.Gen in
/-- **Regenerated obligation**: for every kind in `independentKinds` the source says (go/ast, per
run) that `Inherit` does not mention the previous generation and that no receiver field `Close`
(or a goroutine it wakes) assigns / closes / calls is mentioned by `Handle` or its callees. -/
theorem close_disjoint_from_handle :
    ∀ k ∈ independentKinds,
      FactsC11.closeWritesHandleReads.lookup k = some [] ∧ FactsC11.filterKindTouchesPrev.lookup k = some false ∧
        ∀ x ∈ (FactsC11.handleReads.lookup k).getD [], x ∉ (FactsC11.closeTouches.lookup k).getD [] := by decide

open EgVerif.Gen in
/-- Every exercised kind is in exactly one class: independent (above), explicitly modelled
(RateLimiter, Kafka, KafkaMQTT) or `closeInterferingKinds` (Proxy, Validator: sampled only); and a
kind with a non-empty intersection is never claimed independent. -/
theorem close_interference_classified :
    (∀ k ∈ exercisedFilterKinds,
        k ∈ independentKinds ∨ k ∈ explicitlyModelledKinds ∨ k ∈ closeInterferingKinds.map (·.1)) ∧
      (∀ k ∈ independentKinds ++ explicitlyModelledKinds ++ closeInterferingKinds.map (·.1), k ∈ exercisedFilterKinds) ∧
      (∀ p ∈ FactsC11.closeWritesHandleReads, p.2 ≠ [] → p.1 ∉ independentKinds) ∧
      (∀ k ∈ closeInterferingKinds.map (·.1), FactsC11.closeWritesHandleReads.lookup k ≠ some []) := by decide

open EgVerif.Gen in
/-- **Old generation usable, for the 15 independent kinds**: take any of them and *any* filter
behaviour whose `Handle` depends on the receiver only through the regenerated `handleReads` and
whose `Close` changes it only inside the regenerated `closeTouches`; then after `new.Inherit(old)`
and `old.Close()` the old generation's `Handle` panics exactly if it did before — a usable old
generation stays usable. (Instance of `old_generation_usable_of_independent`.) -/
theorem old_generation_usable_independent_kinds (k : String) (hk : k ∈ independentKinds) (K : FieldKind)
    (hr : K.reads = (FactsC11.handleReads.lookup k).getD [])
    (hc : K.closeTouches = (FactsC11.closeTouches.lookup k).getD []) (wf : K.WellFormed)
    (new old : Fields) (h : K.toKindModel.usable old) :
    K.toKindModel.usable (K.toKindModel.close (K.toKindModel.inherit new old).2) := by
  refine old_generation_usable_of_independent _ (fieldKind_independent K wf ?_) new old h
  rw [hr, hc]
  exact (close_disjoint_from_handle k hk).2.2

/-- Non-vacuity: HeaderLookup with its regenerated field sets — `Handle` dereferences `cache`
(nil ⇒ panic), `Close` calls `cancel` (modelled: clears `cancel` and `stopCtx`); the instance is
well formed, an initialised old generation is usable, and stays so. -/
private def hlKind : FieldKind :=
  { reads := ["cache", "cluster", "etcdPrefix", "headerKey", "pathRegExp", "spec"],
    closeTouches := ["cancel", "stopCtx"],
    handlePanics := fun f => f "cache" == 0,
    closeFn := fun f x => if x = "cancel" ∨ x = "stopCtx" then 0 else f x,
    initFn := fun f => f }

/-- The HeaderLookup instance satisfies the two modelling assumptions. -/
theorem headerLookup_instance_wellFormed : hlKind.WellFormed :=
  ⟨fun f g h => by simp [hlKind, h "cache" (by simp [hlKind])],
   fun f x hx => by simp [hlKind] at hx ⊢; intro h; rcases h with h | h <;> simp [h] at hx⟩

/-- The instance, through the generic theorem (literal field sets as read off the source when this was
written; the regenerated ones enter through `old_generation_usable_independent_kinds`). -/
example : hlKind.toKindModel.usable (hlKind.toKindModel.close (hlKind.toKindModel.inherit (fun _ => 1) (fun _ => 7)).2) :=
  old_generation_usable_of_independent _
    (fieldKind_independent hlKind headerLookup_instance_wellFormed (by decide)) _ _
    (by simp [FieldKind.toKindModel, hlKind])

/-- Non-vacuity of `old_generation_usable_independent_kinds`: for *every* independent kind the
hypotheses are satisfiable with the regenerated field sets (whatever they currently are). -/
example (k : String) (hk : k ∈ independentKinds) :
    ∃ K : FieldKind, K.reads = (EgVerif.Gen.FactsC11.handleReads.lookup k).getD [] ∧
      K.closeTouches = (EgVerif.Gen.FactsC11.closeTouches.lookup k).getD [] ∧ K.WellFormed ∧
      K.toKindModel.usable (K.toKindModel.close (K.toKindModel.inherit (fun _ => 0) (fun _ => 1)).2) := by
  let K : FieldKind := ⟨(EgVerif.Gen.FactsC11.handleReads.lookup k).getD [], (EgVerif.Gen.FactsC11.closeTouches.lookup k).getD [],
    fun f => !((((EgVerif.Gen.FactsC11.handleReads.lookup k).getD []).map f).all (· == 1)), fun f x =>
      if x ∈ (EgVerif.Gen.FactsC11.closeTouches.lookup k).getD [] then 5 else f x, id⟩
  have wf : K.WellFormed := ⟨fun f g h => by
      have : ((EgVerif.Gen.FactsC11.handleReads.lookup k).getD []).map f = ((EgVerif.Gen.FactsC11.handleReads.lookup k).getD []).map g :=
        List.map_congr_left h
      simp [K, this], fun f x hx => by simp [K] at hx ⊢; intro h; exact absurd h hx⟩
  exact ⟨K, rfl, rfl, wf, old_generation_usable_independent_kinds k hk K rfl rfl wf _ _ (by simp [FieldKind.toKindModel, K])⟩

/-- Contrast: a `Close` that clears a field `Handle` reads (mutant M12: `hl.cache = nil`) is not
covered — the disjointness hypothesis fails, and indeed the old generation becomes unusable. -/
example :
    let K : FieldKind := { hlKind with closeTouches := ["cache", "cancel", "stopCtx"],
                                       closeFn := fun f x => if x = "cache" ∨ x = "cancel" ∨ x = "stopCtx" then 0 else f x }
    ¬ (∀ x ∈ K.reads, x ∉ K.closeTouches) ∧
      K.toKindModel.usable (fun _ => 7) ∧ ¬ K.toKindModel.usable (K.toKindModel.close (fun _ => 7)) := by
  simp [FieldKind.toKindModel, hlKind]

open EgVerif.Gen in
/-- The Kafka kinds' repaired shape, regenerated: every send on the producer's input in `Handle` is
preceded by the read lock and the `closed` test; `Close` sets the flag under the write lock before
`close(done)`. (Fails on the unrepaired tree.) -/
theorem kafka_send_guarded :
    FactsC11.kafkaSendGuarded.map (·.1) = kafkaHarnessKinds ∧ ∀ p ∈ FactsC11.kafkaSendGuarded, p.2 = true := by decide

/-! ### The RateLimiter harness scenario, for all inputs -/

/-- Traffic before the update on a usable generation: no panic, everything stays usable. -/
theorem rlScenario_pre_never_panics (i : Heap × RLSpec) :
    ∀ (qs : List FReq) (heap : Heap), rlUsable heap i.2 = true →
      HOut.panic ∉ (rlScenario.goPre i heap qs).2 ∧
        ∀ f', rlUsable heap f' = true → rlUsable (rlScenario.goPre i heap qs).1 f' = true := by
  intro qs
  induction qs with
  | nil => intro heap _; exact ⟨by simp [rlScenario.goPre], fun f' h => by simpa [rlScenario.goPre] using h⟩
  | cons q qs ih =>
    intro heap hU
    obtain ⟨hnp, hkeep⟩ := usable_handle_no_panic heap i.2 q hU
    obtain ⟨h1, h2⟩ := ih (rlHandle heap q i.2.urls).1 (hkeep i.2 hU)
    refine ⟨?_, fun f' hf' => ?_⟩
    · simp only [rlScenario.goPre, List.mem_cons, not_or]
      exact ⟨fun h => hnp h.symm, h1⟩
    · simp only [rlScenario.goPre]
      exact h2 f' (hkeep f' hf')

/-- Interleaved traffic on two usable generations sharing the heap: no panic. -/
theorem rlScenario_ops_never_panic (inh : Heap × RLSpec × RLSpec) :
    ∀ (ops : List (Bool × FReq)) (heap : Heap), rlUsable heap inh.2.1 = true → rlUsable heap (rlClose inh.2.2) = true →
      HOut.panic ∉ rlScenario.goOps inh heap ops := by
  intro ops
  induction ops with
  | nil => intro heap _ _; simp [rlScenario.goOps]
  | cons o ops ih =>
    intro heap hN hO
    obtain ⟨isNew, q⟩ := o
    simp only [rlScenario.goOps, List.mem_cons, not_or]
    cases isNew with
    | true =>
      obtain ⟨hnp, hkeep⟩ := usable_handle_no_panic heap inh.2.1 q hN
      exact ⟨fun h => hnp (by simpa using h.symm), ih _ (hkeep _ hN) (hkeep _ hO)⟩
    | false =>
      obtain ⟨hnp, hkeep⟩ := usable_handle_no_panic heap (rlClose inh.2.2) q hO
      exact ⟨fun h => hnp (by simpa using h.symm), ih _ (hkeep _ hN) (hkeep _ hO)⟩

/-- **The whole RateLimiter scenario never panics (repaired `reload`)** — for every old spec, new
spec, traffic before the update and interleaved traffic on the old and the new generation after
`new.Inherit(old); old.Close()`: no `Handle` outcome is `panic`. (Induction over the request lists;
this is the executable expectation the `filters` judge compares the real RateLimiter with.) -/
theorem rlScenario_never_panics (old new : RLSpec) (pre : List FReq) (ops : List (Bool × FReq)) :
    HOut.panic ∉ (rlScenario false old new pre ops).1 ∧ HOut.panic ∉ (rlScenario false old new pre ops).2 := by
  simp only [rlScenario]
  have hi := init_usable_ratelimiter [] old
  obtain ⟨hp1, hp2⟩ := rlScenario_pre_never_panics (rlInit [] old) pre (rlInit [] old).1 hi
  have hU := hp2 _ hi
  refine ⟨hp1, rlScenario_ops_never_panic _ ops _ ?_ ?_⟩
  · exact new_generation_usable_ratelimiter _ new _ hU
  · exact old_generation_usable_ratelimiter _ new _ hU

/-- Non-vacuity (kept from the first version, by evaluation): limiter shared, second request limited. -/
example : (rlScenario false specX specX [⟨"GET", "/a"⟩] [(false, ⟨"GET", "/a"⟩), (true, ⟨"GET", "/b"⟩)]) =
    ([HOut.pass], [HOut.limited, HOut.pass]) := by decide

/-! ### Validator: closing generation g-1 cannot reach generation g's user cache -/

/-- Invariant of `vRun false`: the current cache is the newest object, every closed one is older. -/
private def VInv (s : VSt) : Prop := s.cur < s.next ∧ ∀ c ∈ s.closed, c < s.cur

/-- **Every history of pipeline updates** (any number of `new.Inherit(old); old.Close()` steps, with
or without a change of the basicAuth section): the current generation's user cache has never been
closed — its file watcher / etcd syncer is alive — and every observation the `validatorgen`
harness makes along the way is `alive` (the judge's expectation `vTrace false`). -/
theorem validator_current_cache_alive (steps : List Bool) :
    vAlive (vRun false vInit steps) = true ∧ ∀ b ∈ vTrace false vInit steps, b = true := by
  have key : ∀ (steps : List Bool) (s : VSt), VInv s →
      vAlive (vRun false s steps) = true ∧ ∀ b ∈ vTrace false s steps, b = true := by
    intro steps
    induction steps with
    | nil =>
      intro s ⟨_, h2⟩
      have : vAlive s = true := by
        simp only [vAlive, Bool.not_eq_true', List.contains_eq_mem, decide_eq_false_iff_not]
        intro hm; exact Nat.lt_irrefl _ (h2 _ hm)
      exact ⟨this, by simp [vTrace, this]⟩
    | cons a rest ih =>
      intro s ⟨h1, h2⟩
      have hal : vAlive s = true := by
        simp only [vAlive, Bool.not_eq_true', List.contains_eq_mem, decide_eq_false_iff_not]
        intro hm; exact Nat.lt_irrefl _ (h2 _ hm)
      have hinv : VInv (vStep false s a) := by
        refine ⟨by simp [vStep], fun c hc => ?_⟩
        simp only [vStep, Bool.false_and, Bool.false_eq_true, if_false, List.mem_cons] at hc ⊢
        rcases hc with rfl | hc
        · exact h1
        · exact Nat.lt_trans (h2 c hc) h1
      obtain ⟨i1, i2⟩ := ih (vStep false s a) hinv
      refine ⟨i1, fun b hb => ?_⟩
      simp only [vTrace, List.mem_cons] at hb
      rcases hb with rfl | hb
      · exact hal
      · exact i2 b hb
  exact key steps vInit ⟨by decide, by simp [vInit]⟩

/-- Contrast (seeded change C06-m5, replayed on the real code by the `validatorgen` harness): if the
new generation takes over the previous generation's cache when the basicAuth section is unchanged,
the very first such update leaves the current generation with a closed cache; an update that
changes the section is still fine. -/
theorem shared_cache_closed_by_previous_generation :
    vAlive (vRun true vInit [true]) = false ∧ vTrace true vInit [true, false, true] = [true, false, true, false] ∧
      vAlive (vRun true vInit [false]) = true ∧ vTrace false vInit [true, false, true] = [true, true, true, true] := by
  decide

open EgVerif.Gen in
/-- Regenerated: every assignment to the Validator's `basicAuth` is a fresh `NewBasicAuthValidator(…)`
built without any parameter of the enclosing method (and, by `filterKindTouchesPrev`, `Inherit` does
not mention the previous generation) — the `share = false` of the model. -/
theorem validator_inherit_fresh_cache :
    FactsC11.validatorInheritFreshCache = true ∧ FactsC11.validatorBasicAuthNotFresh = [] ∧
      FactsC11.filterKindTouchesPrev.lookup "Validator" = some false := by decide

/-! ### Pipeline-level resilience policies: requests after an update run under the NEW policy -/

/-- **For every history of pipeline updates** the policy injected into the running filter instance is
the policy of the last applied spec (the initial one if there was no update) — whether or not the
filter's own spec changed. -/
theorem policy_is_last_applied (g0 : PGen) (gs : List PGen) :
    (pRun false (pInit g0) gs).injected = ((g0 :: gs).getLast (by simp)).policy ∧
      (pRun false (pInit g0) gs).filterSpec = ((g0 :: gs).getLast (by simp)).filterSpec := by
  induction gs generalizing g0 with
  | nil => simp [pRun, pInit]
  | cons g rest ih =>
    have : pStep false (pInit g0) g = pInit g := by simp [pStep, pInit]
    simp only [pRun, this]
    have h := ih g
    simpa [List.getLast_cons] using h

/-- … and so is every entry of the trace the `resilience` judge compares the observed call counts with:
after step `i` the policy in force is the `i`-th spec's. -/
theorem policy_trace_is_spec_trace (g0 : PGen) (gs : List PGen) :
    pTrace false (pInit g0) gs = (g0 :: gs).map (·.policy) := by
  induction gs generalizing g0 with
  | nil => simp [pTrace, pInit]
  | cons g rest ih =>
    have : pStep false (pInit g0) g = pInit g := by simp [pStep, pInit]
    show (pInit g0).injected :: pTrace false (pStep false (pInit g0) g) rest = _
    rw [this, ih g]
    simp [pInit]

/-- Contrast (seeded change C11-m5, replayed on the real code by the `resilience` harness): if a filter
whose own spec is unchanged keeps its running instance, an update that changes only the policy's
parameter (Retry maxAttempts 1 → 3) is stored but never takes effect; an update that also touches the
filter spec does. -/
theorem reused_instance_keeps_old_policy :
    (pRun true (pInit ⟨0, 1⟩) [⟨0, 3⟩]).injected = 1 ∧ (pRun false (pInit ⟨0, 1⟩) [⟨0, 3⟩]).injected = 3 ∧
      (pRun true (pInit ⟨0, 1⟩) [⟨1, 3⟩]).injected = 3 ∧
      pTrace true (pInit ⟨0, 1⟩) [⟨0, 3⟩, ⟨0, 2⟩] = [1, 1, 1] ∧ pTrace false (pInit ⟨0, 1⟩) [⟨0, 3⟩, ⟨0, 2⟩] = [1, 3, 2] ∧
      policyCalls false 3 0 = 3 ∧ (List.range 4).map (policyCalls true 2) = [1, 1, 0, 0] := by decide

open EgVerif.Gen in
/-- Regenerated shape of `Pipeline.reload`: every filter stored into the new generation is a fresh
`filters.Create(spec)` instance, `InjectResiliencePolicy(p.resilience)` is called on it in the same
loop, and nothing of the previous generation is used except through nil tests, `getFilter` and the
argument of the new filter's `Inherit` (the `reuse = false` of the model). -/
theorem pipeline_reload_injects_every_filter :
    FactsC11.pipelineReloadInjectsEveryFilter = true ∧ FactsC11.pipelineReloadPrevLeaks = [] := by decide

/-! ### The handler behind a (possibly cached) route is resolved per request -/

/-- **For every history** of reloads, requests and changes of what the mux mapper answers (pipeline
created / updated / deleted *without* a reload of the HTTPServer), whatever was requested before: the
implementation-shaped semantics (`pin = false`: nothing about the handler is remembered with a
route) serves every request exactly as the specification `mapServe` says — by the handler mapped
at that time, 503 if there is none. -/
theorem handler_resolved_per_request (ops : List MOp) :
    ∀ (cur : HGen) (h : HMap) (pins : List (Mux.Req × String)),
      mapServeImpl false cur h pins ops = mapServe cur h ops := by
  induction ops with
  | nil => intro _ _ _; rfl
  | cons o rest ih =>
    intro cur h pins
    cases o with
    | reload g => simp [mapServeImpl, mapServe, ih]
    | set n t => simp [mapServeImpl, mapServe, ih]
    | del n => simp [mapServeImpl, mapServe, ih]
    | req q => simp [mapServeImpl, mapServe, ih]

theorem lookup_hmapOf (tag : String) (bs : List String) (x : String) :
    (bs.map fun b => (b, tag ++ ":" ++ b)).lookup x = if bs.contains x then some (tag ++ ":" ++ x) else none := by
  induction bs with
  | nil => simp
  | cons b rest ih =>
    by_cases hx : x = b
    · subst hx; simp
    · have : (x == b) = false := by simpa using hx
      simp [List.lookup, this, ih, hx]

/-- With the mapper of the generation itself, `serveMap` is `serve`. -/
theorem serveMap_hmapOf (g : HGen) (q : HReq) : serveMap g.rules (hmapOf g.mapper) g.options q = serve g q := by
  unfold serveMap serve serveFrom hmapOf
  cases Mux.search g.rules.oracle g.rules.cfg q.q with
  | code c => rfl
  | path ri pi e =>
    simp only [lookup_hmapOf]
    by_cases hc : e.backend ∈ g.mapper.backends <;> simp [hc]

/-- On histories without `set` / `del` the specification is the `histServe` of the reload histories. -/
theorem mapServe_without_changes (cur : HGen) (ops : List (Sum HGen HReq)) :
    mapServe cur (hmapOf cur.mapper) (ops.map fun o => match o with | .inl g => MOp.reload g | .inr q => MOp.req q) =
      histServe cur ops := by
  induction ops generalizing cur with
  | nil => rfl
  | cons o rest ih =>
    cases o with
    | inl g => simp only [List.map_cons, mapServe, histServe]; exact ih g
    | inr q => simp only [List.map_cons, mapServe, histServe, serveMap_hmapOf]; rw [ih cur]

private def mA : HGen :=
  { rules := { cfg := { rules := [{ host := "a.com", paths := [{ path := "/x", backend := "p1" }] }] }, filters := [] },
    options := { xForwardedFor := false }, mapper := { tag := "S0", backends := ["p1"] } }
private def mq : HReq :=
  { q := { host := "a.com", hostNoPort := "a.com", method := "GET", path := "/x", hdr := [], ip := "10.0.0.1" }, xffIn := "", xffContains := false }

/-- Contrast (seeded change C11-m6, replayed on the real code by the `muxhist` harness): with the
handler pinned next to the route, a request repeated after the pipeline was updated still runs the
old generation, after a delete it is still answered instead of 503, after re-creation it still uses
the first generation; the per-request lookup gives the new handler / 503 / the re-created one. -/
theorem pinned_handler_goes_stale :
    (mapServeImpl true (emptyGen "") [] [] [.reload mA, .req mq, .set "p1" "G1:p1", .req mq, .del "p1", .req mq,
        .set "p1" "G2:p1", .req mq]).map (fun o => (o.status, o.handler)) =
      [(200, "S0:p1"), (200, "S0:p1"), (200, "S0:p1"), (200, "S0:p1")] ∧
    (mapServe (emptyGen "") [] [.reload mA, .req mq, .set "p1" "G1:p1", .req mq, .del "p1", .req mq,
        .set "p1" "G2:p1", .req mq]).map (fun o => (o.status, o.handler)) =
      [(200, "S0:p1"), (200, "G1:p1"), (503, ""), (200, "G2:p1")] := by decide

open EgVerif.Gen in
/-- Regenerated: `serveHTTP` asks the mux mapper directly, in a top-level statement (on every request
that has a route, cache hit or miss), and the cached `route` struct has no field that could hold a
handler. -/
theorem serveHTTP_resolves_handler_per_request :
    FactsC11.serveHTTPGetHandlerTopLevel = 1 ∧ FactsC11.serveHTTPGetHandlerCalls = 1 ∧
      FactsC11.routeHandlerHolderFields = [] ∧ FactsC11.routeFields ≠ [] := by decide

/-! ## Regenerated facts (the tie for the atomicity assumptions of Part 1 and the kind list of Part 3) -/

open EgVerif.Gen in
/-- One `m.inst.Load()` per request, no write to a published instance, one `GetHandler` per
request and none inside a loop. -/
theorem mux_atomicity_facts :
    FactsC11.extractionFailed = false ∧ FactsC11.muxLoadsPerRequest = 1 ∧
      FactsC11.muxPostPublishWrites = [] ∧ FactsC11.getHandlerCallsPerRequest = 1 ∧
      FactsC11.reloadStoresLast = true := by decide

open EgVerif.Gen in
/-- `mux.reload` builds the new instance from the new spec only: it loads the old instance once,
uses nothing of it except the tracer (`oldInst.tracer`, `oldInst.spec.Tracing`), and the route
cache of the new instance is always a fresh `lru.NewARC` — no cached route of an earlier
generation can survive an update (the modelling assumption behind `build` taking only `g`). -/
theorem reload_builds_fresh_instance :
    FactsC11.reloadOldInstUses = [] ∧ FactsC11.reloadCacheFresh = true ∧
      FactsC11.reloadInstLoads = 1 := by decide

open EgVerif.Gen in
/-- Every filter kind whose `Inherit` mentions the previous generation is modelled explicitly
(the only one is RateLimiter); all others are `Independent` on the inherit side by construction. -/
theorem inherit_touching_kinds_are_modelled :
    ∀ k ∈ FactsC11.inheritTouchesPrev, k.2 = true → k.1 ∈ ["ratelimiter"] := by decide

open EgVerif.Gen in
/-- The repaired `RateLimiter.reload` does not write to the previous generation; `Pipeline.Inherit`
closes the previous generation only after the new one is completely built; the registry
operations lock first and `GetHandler` performs a single map load. -/
theorem update_structure_facts :
    FactsC11.rateLimiterWritesPrev = [] ∧ FactsC11.pipelineClosesPrevAfterReload = true ∧
      (∀ k ∈ FactsC11.tcOpsLockFirst, k.2 = true) ∧ FactsC11.tcOpsLockFirst.length = 4 ∧
      FactsC11.tcGetHandlerLoads = 1 := by decide

/-! ## Extension `auth11` — every registered kind is classified; `mux.reload` / `runtime.reload`
tied by translation -/

open EgVerif.Gen in
/-- **Coverage obligation.** Every filter kind registered with `filters.Register` anywhere under
`pkg/filters` (list regenerated from the source on every run) is either driven by the `filters`
harness or listed, with the reason, as not instantiable in-process offline. A kind added to the
source breaks this obligation until it is classified. -/
theorem filter_kinds_classified :
    FactsC11.extractionFailed = false ∧
      ∀ k ∈ FactsC11.filterKinds,
        k ∈ exercisedFilterKinds ∨ k ∈ notInstantiableFilterKinds.map (·.1) := by decide

open EgVerif.Gen in
/-- The classification is not stale: every classified kind is a registered kind, no kind is in both
lists, and a kind excluded from the default build by a `//go:build` constraint is not claimed as
exercised. -/
theorem filter_kind_classification_exact :
    (∀ k ∈ exercisedFilterKinds ++ notInstantiableFilterKinds.map (·.1), k ∈ FactsC11.filterKinds) ∧
      (∀ k ∈ exercisedFilterKinds, k ∉ notInstantiableFilterKinds.map (·.1)) ∧
      (∀ k ∈ FactsC11.filterKindBuildTag, k.1 ∉ exercisedFilterKinds) := by decide

open EgVerif.Gen in
/-- Per *kind* (not per package): every kind whose `Inherit` mentions the previous generation has an
explicit model (`rlInherit`), and every explicitly modelled kind is exercised by the harness. All
other kinds are `Independent` on the inherit side (`old_generation_usable_of_independent`). -/
theorem inherit_touching_kinds_are_modelled_per_kind :
    (∀ k ∈ FactsC11.filterKindTouchesPrev, k.2 = true → k.1 ∈ explicitlyModelledKinds) ∧
      FactsC11.filterKindTouchesPrev.map (·.1) = FactsC11.filterKinds ∧
      (∀ k ∈ explicitlyModelledKinds, k ∈ exercisedFilterKinds) := by decide

open EgVerif.Gen in
/-- Every type registered with `supervisor.Register` under `pkg/object` is classified: driven by a
C11 harness, or listed with the reason why not. -/
theorem object_kinds_classified :
    (∀ k ∈ FactsC11.objectKinds,
        k ∈ exercisedObjectKinds.map (·.1) ∨ k ∈ notExercisedObjectKinds.map (·.1)) ∧
      (∀ k ∈ exercisedObjectKinds.map (·.1) ++ notExercisedObjectKinds.map (·.1), k ∈ FactsC11.objectKinds) := by
  decide

/-- Non-vacuity: the regenerated lists are not empty and contain the kinds the property names. -/
example : "RateLimiter" ∈ EgVerif.Gen.FactsC11.filterKinds ∧ "KafkaMQTT" ∈ EgVerif.Gen.FactsC11.filterKinds ∧
    EgVerif.Gen.FactsC11.filterKinds.length ≥ 21 ∧ "HTTPServer" ∈ EgVerif.Gen.FactsC11.objectKinds := by decide

open EgVerif.Gen in
/-- **`mux.reload` regenerated from the source** (`pkg/object/httpserver/mux.go`): the definition
translated from the current body equals the model `muxReload` for every old instance, spec, mapper
and every behaviour of `tracing.New` / `lru.NewARC`. -/
theorem muxReload_regenerated_from_source :
    FactsC11IR.extractionFailed = false ∧
      ∀ (newTracer : Option Nat → Option Nat × Bool) (newARC : Nat → Option Nat × Bool) (m : MuxShared)
        (old : MuxInst) (superSpec : Nat) (spec : SrvSpec) (muxMapper : Nat),
        FactsC11IR.muxReloadIR newTracer newARC m old superSpec spec muxMapper =
          muxReload newTracer newARC m old superSpec spec muxMapper :=
  ⟨by decide, HotUpdate.muxReload_regenerated_from_source⟩

open EgVerif.Gen in
/-- **`runtime.reload` regenerated from the source** (`pkg/object/httpserver/runtime.go`). -/
theorem runtimeReload_regenerated_from_source :
    FactsC11IR.extractionFailed = false ∧
      ∀ (r : Runtime) (nextSuperSpec : Nat) (nextSpec : Option SrvSpec) (muxMapper : Nat),
        FactsC11IR.runtimeReloadIR r nextSuperSpec nextSpec muxMapper =
          runtimeReload r nextSuperSpec nextSpec muxMapper :=
  ⟨by decide, HotUpdate.runtimeReload_regenerated_from_source⟩

/-- `mux.reload` is *build, then one Store*: its only effect on shared state is a single
`m.inst.Store` of an instance that carries the new spec, the new mapper, one rule object per spec
rule, and a cache that is either absent or fresh from `lru.NewARC` — never the old instance's. -/
theorem reload_is_build_then_single_store (newTracer : Option Nat → Option Nat × Bool)
    (newARC : Nat → Option Nat × Bool) (m : MuxShared) (old : MuxInst) (superSpec : Nat) (spec : SrvSpec)
    (muxMapper : Nat) :
    ∃ inst, muxReload newTracer newARC m old superSpec spec muxMapper = [MuxEffect.store inst] ∧
      inst.spec = spec ∧ inst.muxMapper = muxMapper ∧ inst.superSpec = superSpec ∧
      inst.rules.length = spec.rules.length ∧
      (inst.cache = none ∨ inst.cache = (newARC spec.cacheSize).1) := by
  refine ⟨buildInstance newTracer newARC m old superSpec spec muxMapper, rfl, rfl, rfl, rfl, ?_, ?_⟩
  · simp [buildInstance]
  · by_cases h : spec.cacheSize > 0 <;> simp [buildInstance, h]

/-- **Nothing of the old instance is reused except the tracer**: two old instances with the same
tracer and tracing spec — whatever their rules, caches, filters, mappers — lead to the same new
instance. (The modelling assumption behind Part 1's `build u g`, where `g` does not depend on the
state, now derived from the translated body.) -/
theorem reload_uses_old_only_for_tracer (newTracer : Option Nat → Option Nat × Bool)
    (newARC : Nat → Option Nat × Bool) (m : MuxShared) (old old' : MuxInst) (superSpec : Nat) (spec : SrvSpec)
    (muxMapper : Nat) (ht : old.tracer = old'.tracer) (hs : old.spec.tracing = old'.spec.tracing) :
    muxReload newTracer newARC m old superSpec spec muxMapper =
      muxReload newTracer newARC m old' superSpec spec muxMapper := by
  simp [muxReload, buildInstance, reloadTracer, ht, hs]

/-- The generation a request may read out of an instance. -/
def instGen (i : MuxInst) : Gen (List (Option BuiltRule) × Option Nat × List Nat × Option Nat) SrvSpec Nat :=
  ⟨(i.rules, i.ipFilter, i.ipFilterChan, i.cache), i.spec, i.muxMapper⟩

/-- `mux.reload`'s effect list, read as micro-steps of Part 1: each `Store inst` is `build u g; store u`. -/
def effectSteps (u : Nat) : List MuxEffect →
    List (Step (List (Option BuiltRule) × Option Nat × List Nat × Option Nat) SrvSpec Nat)
  | [] => []
  | .store i :: rest => .build u (instGen i) :: .store u :: effectSteps u rest

/-- **Refinement to Part 1**: executing the (translated) `mux.reload` in any state publishes exactly
one new generation — the one built from the new spec and mapper — on top of the history, and
touches no request's state; so the schedule theorems (`request_sees_one_generation`,
`after_store_new` …) apply to the real `reload`. -/
theorem reload_refines_build_store (newTracer : Option Nat → Option Nat × Bool)
    (newARC : Nat → Option Nat × Bool) (m : MuxShared) (old : MuxInst) (superSpec : Nat) (spec : SrvSpec)
    (muxMapper : Nat) (u : Nat)
    (s : St (List (Option BuiltRule) × Option Nat × List Nat × Option Nat) SrvSpec Nat) :
    let g := instGen (buildInstance newTracer newARC m old superSpec spec muxMapper)
    let s' := run s (effectSteps u (muxReload newTracer newARC m old superSpec spec muxMapper))
    s'.cur = g ∧ s'.hist = g :: s.hist ∧ s'.reqs = s.reqs ∧ g.options = spec ∧ g.mapper = muxMapper := by
  simp [muxReload, effectSteps, run, step, instGen, buildInstance]

open EgVerif.Gen in
/-- The `Spec` fields `needRestartServer` blanks before comparing are exactly the model's
`hotFields` (so `needRestart` = "differs outside the hot fields"). -/
theorem needRestart_ignores_hot_fields : FactsC11IR.needRestartIgnoredFields = hotFields := by decide

/-- **An update confined to rules / IP filters / cache size / X-Forwarded-For / tracing /
maxConnections never closes the listener**: `runtime.reload` then performs the mux reload (one
atomic Store, see above), at most a `SetMaxConnection`, and nothing else — no request fails because
of a listener restart. -/
theorem hot_update_never_restarts (r : Runtime) (cur next : SrvSpec) (ss mm : Nat)
    (hr : r.spec = some cur) (hk : cur.restartKey = next.restartKey) :
    runtimeReloadDecision r.spec (some next) = ServerAction.nothing ∧
      RtEffect.closeServer ∉ (runtimeReload r ss (some next) mm).2 ∧
      RtEffect.startServer ∉ (runtimeReload r ss (some next) mm).2 ∧
      (runtimeReload r ss (some next) mm).1.spec = some next := by
  cases r.hasLimitListener <;>
    simp [runtimeReload, runtimeReloadDecision, needRestart, hr, hk, ServerAction.effects]

/-- Every `runtime.reload` reloads the mux first and exactly once, whatever it then decides about the
listener; the listener is restarted (close before start) only if the specs differ outside the hot
fields, started only if there was no spec before. -/
theorem runtime_reload_shape (r : Runtime) (ss mm : Nat) (next : Option SrvSpec) :
    (runtimeReload r ss next mm).2.head? = some (RtEffect.muxReload ss mm) ∧
      ((runtimeReload r ss next mm).2.filter (fun e => e == RtEffect.muxReload ss mm)).length = 1 ∧
      (runtimeReloadDecision r.spec next = ServerAction.restart ↔
        ∃ c n, r.spec = some c ∧ next = some n ∧ c.restartKey ≠ n.restartKey) := by
  obtain ⟨s0, cur, hl⟩ := r
  refine ⟨rfl, ?_, ?_⟩
  · cases cur <;> cases next <;> cases hl <;>
      simp [runtimeReload, runtimeReloadDecision, ServerAction.effects] <;> split <;> simp
  · cases cur <;> cases next <;> simp [runtimeReloadDecision, needRestart]

/-- Non-vacuity: a rules-only update (same `restartKey`) and a port change (different one). -/
example :
    let cur : SrvSpec := ⟨none, none, 0, false, 10, [⟨none, [1], 7⟩], 80⟩
    let nxt : SrvSpec := ⟨none, some 3, 16, true, 20, [⟨some 4, [1, 2], 7⟩, ⟨none, [], 8⟩], 80⟩
    let r : Runtime := ⟨1, some cur, true⟩
    (runtimeReload r 2 (some nxt) 5).2 = [.muxReload 2 5, .setMaxConnection 20] ∧
      (runtimeReload r 2 (some { nxt with restartKey := 81 }) 5).2 =
        [.muxReload 2 5, .setMaxConnection 20, .closeServer, .startServer] ∧
      (runtimeReload ⟨0, none, false⟩ 2 (some nxt) 5).2 = [.muxReload 2 5, .startServer] := by decide

/-- Non-vacuity for `mux.reload`: two rules with paths and IP filters, cache on, tracing unchanged;
the old instance's cache and rules do not show up in the new one. -/
example :
    let spec : SrvSpec := ⟨none, some 3, 16, true, 20, [⟨some 4, [1, 2], 7⟩, ⟨none, [], 8⟩], 80⟩
    let old : MuxInst := ⟨0, { spec with cacheSize := 4, rules := [] }, 9, 1, 2, none, [], [], some 5, some 4⟩
    muxReload (fun _ => (some 6, false)) (fun n => (some n, false)) ⟨1, 2⟩ old 11 spec 12 =
      [.store ⟨11, spec, 12, 1, 2, some 3, [3],
        [some ⟨[3], ⟨some 4, [1, 2], 7⟩, [some ⟨[3, 4], 1⟩, some ⟨[3, 4], 2⟩]⟩, some ⟨[3], ⟨none, [], 8⟩, []⟩],
        some 5, some 16⟩] := by decide

end EgVerif.C11
