import EgVerif.Proofs.Signer
import EgVerif.Gen.FactsC06
/-!
# C06 — the Validator admits exactly the requests with valid JWT, signature or Basic credentials

Property theorems about `Model/Validator.lean` (mirror of `Validator.Handle`, the header rules, the JWT token
source / key function, Basic credential parsing — **with the two repairs `fixes/C06-signature-body.patch` and
`fixes/C06-basic-colon.patch` applied**) and `Model/Signer.lean` (mirror of `signer.go`), for **all**
configurations, requests, keys, clocks and oracle answers. SHA-256 / HMAC are an opaque parameter
(`Signer.Crypto`); wherever collision-freeness is needed it is an explicit hypothesis of the theorem.
Helper lemmas: `Proofs/Bytes.lean`, `Proofs/Validator.lean`, `Proofs/Signer.lean`.
-/
namespace EgVerif.C06
open EgVerif.Sha256 (Bytes)
open EgVerif.Signer EgVerif.Validator


/-! ## 0. Facts regenerated from the source on every run (`harness/factextract/facts_c06.go`) -/
section Facts
open EgVerif.Gen

/-- `Validator.Handle` checks headers, JWT, signature, (OAuth2,) Basic in this order, answers 400 for the first
and 401 for the others, and only ever returns `resultInvalid = "invalid"` or `""` — the shape `handleWith` mirrors. -/
theorem facts_handle_shape :
    FactsC06.extractionFailed = false ∧
    FactsC06.handleOrder = ["headers", "jwt", "signer", "oauth2", "basicAuth"] ∧
    FactsC06.handleStatuses = ["http.StatusBadRequest", "http.StatusUnauthorized", "http.StatusUnauthorized",
      "http.StatusUnauthorized", "http.StatusUnauthorized"] ∧
    FactsC06.handleReturns = ["resultInvalid", "resultInvalid", "resultInvalid", "resultInvalid", "resultInvalid", "\"\""] ∧
    FactsC06.resultInvalid = "invalid" := by decide

/-- the two defect patterns are absent from the tree being checked: `Verify` is not handed the drained `req.Std()`
(so `handle`, not `handleDrained`, is the model), and `parseCredentials` does not split at every colon
(`parseCreds`, not `parseCredsSplitAll`). Behaviour itself is checked by the correspondence run. -/
theorem facts_repairs_present :
    FactsC06.verifyGetsDrainedStd = false ∧ FactsC06.parseCredentialsSplitsAll = false := by decide

/-- constants and default literals of `signer.go` are the ones the model uses -/
theorem facts_signer_constants :
    b FactsC06.authHeader = authHeader ∧ b FactsC06.hostHeader = hostHeader ∧
    b FactsC06.unsignedPayload = unsignedPayload ∧ b FactsC06.sha256Empty = sha256Empty ∧
    FactsC06.dateFormat = "20060102" ∧ FactsC06.timeFormat = "20060102T150405Z" ∧
    FactsC06.alwaysIgnored = ["Authorization", "User-Agent"] ∧
    b FactsC06.jwtPrefix = b "Bearer " ∧ b FactsC06.basicPrefix = b "Basic " ∧
    FactsC06.defaultLiteral.map b =
      [b "ScopeSuffix=" ++ defaultLiteral.scopeSuffix, b "AlgorithmName=" ++ defaultLiteral.algorithmName,
       b "AlgorithmValue=" ++ defaultLiteral.algorithmValue, b "SignedHeaders=" ++ defaultLiteral.signedHeaders,
       b "Signature=" ++ defaultLiteral.signature, b "Date=" ++ defaultLiteral.date, b "Expires=" ++ defaultLiteral.expires,
       b "Credential=" ++ defaultLiteral.credential, b "ContentSHA256=" ++ defaultLiteral.contentSha256,
       b "SigningKeyPrefix=" ++ defaultLiteral.signingKeyPrefix] := by decide

/-- the canonical request and the string to sign are assembled in the order `canonicalRequest` / `stringToSign`
use; `Verify` recomputes the body hash itself (`hashBody(req, true)`), reads the clock once, and fails in the
order expired → unknown key → mismatch. -/
theorem facts_signer_shape :
    FactsC06.canonicalRequestWrites = ["req.Method", "'\\n'", "buildCanonicalURI(req.URL)", "'\\n'",
      "ctx.getCanonicalQuery(req.URL)", "'\\n'", "ctx.CanonicalHeaders", "'\\n'", "ctx.SignedHeaders", "'\\n'", "ctx.BodyHash"] ∧
    FactsC06.stringToSignWrites = ["ctx.literal.AlgorithmValue", "'\\n'", "formatTime(ctx.Time)", "'\\n'",
      "ctx.scopeString", "'\\n'", "hcr"] ∧
    FactsC06.verifyErrors = ["signature expired", "signature expired", "access-key-id not found",
      "signature verification failed"] ∧
    FactsC06.verifyIgnoresBodyHashHeader = true ∧ FactsC06.verifyClockReads = 1 := by decide

end Facts

/-! ## 1. `Handle`: conjunction of the configured methods, 400 / 401 -/

/-- What "every configured method accepts the request" means. -/
structure Accepts (cfg : Validator.Cfg) (env : Env) (r : Request) : Prop where
  /-- header rules: (the first value of) every configured header is listed or matches the regexp -/
  rules : ∀ rules, cfg.headers = some rules → ∀ rule ∈ rules, ruleOK env.re r.std.headers rule = true
  /-- JWT: the presented token names the configured algorithm, verifies under the configured secret
  with that algorithm, and its claims are currently valid -/
  jwt : ∀ j, cfg.jwt = some j → ∃ t, jwtToken j env.cookie r.std.headers = some t ∧
    env.jwtLib.headerAlg t = some j.alg ∧ env.jwtLib.claimsOK t = true ∧ env.jwtLib.sigOK t j.alg j.secret = true
  /-- signature: `Verify` succeeds for the payload that will be forwarded -/
  sig : ∀ s, cfg.sig = some s → verify s env.crypto env.clock env.now r.std (some r.payload) = .ok ()
  /-- Basic: `Authorization: Basic base64(user ":" password)`, user id up to the first colon, pair configured -/
  basic : cfg.basic = true → ∃ tok u p, hget r.std.headers authHeader = b "Basic " ++ tok ∧
    Sha256.b64Decode tok = some (u ++ 58 :: p) ∧ 58 ∉ u ∧ env.users u p = true

theorem jwtOK_iff (j : JwtCfg) (env : Env) (h : Header) :
    Spec.jwtOK j env h = true ↔ ∃ t, jwtToken j env.cookie h = some t ∧
      env.jwtLib.headerAlg t = some j.alg ∧ env.jwtLib.claimsOK t = true ∧ env.jwtLib.sigOK t j.alg j.secret = true := by
  unfold Spec.jwtOK
  cases jwtToken j env.cookie h with
  | none => simp
  | some t => simp [and_assoc]

theorem sigValidate_iff (s : Signer.Cfg) (env : Env) (r : Request) (body : Option Bytes) :
    sigValidate s env r body = true ↔ verify s env.crypto env.clock env.now r.std body = .ok () := by
  unfold sigValidate
  cases verify s env.crypto env.clock env.now r.std body with
  | ok u => simp
  | error e => simp

/-- **`basic_accept_iff`**: Basic authentication writes user `u` to `X-AUTH-USER` (accepts) iff the header is
`Basic ` followed by the base64 of `u:p` where `u` contains no colon and `(u, p)` is a configured pair —
for every `p`, colons included. -/
theorem basic_accept_iff (users : Bytes → Bytes → Bool) (h : Header) (u : Bytes) :
    basicValidate users h = some u ↔ ∃ tok p, hget h authHeader = b "Basic " ++ tok ∧
      Sha256.b64Decode tok = some (u ++ 58 :: p) ∧ 58 ∉ u ∧ users u p = true := by
  unfold basicValidate basicValidateWith parseBasicAuthorizationHeader
  constructor
  · intro hv
    cases hs : stripPrefix (b "Basic ") (hget h authHeader) with
    | none => simp [hs] at hv
    | some tok =>
      simp only [hs] at hv
      cases hd : Sha256.b64Decode tok with
      | none => simp [hd] at hv
      | some creds =>
        simp only [hd] at hv
        cases hp : parseCreds creds with
        | none => simp [hp] at hv
        | some up =>
          obtain ⟨u', p⟩ := up
          simp only [hp] at hv
          by_cases hm : users u' p = true
          · simp [hm] at hv
            subst hv
            have := splitFirst_eq_some.mp hp
            exact ⟨tok, p, stripPrefix_eq_some.mp hs, by rw [hd, this.1], this.2, hm⟩
          · simp [hm] at hv
  · rintro ⟨tok, p, h1, h2, h3, h4⟩
    have hp : parseCreds (u ++ 58 :: p) = some (u, p) := splitFirst_append p h3
    simp [stripPrefix_eq_some.mpr h1, h2, hp, h4]

theorem accepts_iff (cfg : Validator.Cfg) (env : Env) (r : Request) : Spec.accepts cfg env r = true ↔ Accepts cfg env r := by
  unfold Spec.accepts Spec.rulesOK
  simp only [Bool.and_eq_true]
  constructor
  · rintro ⟨⟨⟨h1, h2⟩, h3⟩, h4⟩
    refine ⟨?_, ?_, ?_, ?_⟩
    · intro rules e rule hr
      rw [e] at h1
      exact (List.all_eq_true.mp h1) rule hr
    · intro j e
      rw [e] at h2
      exact (jwtOK_iff j env _).mp h2
    · intro s e
      rw [e] at h3
      exact (sigValidate_iff s env r _).mp h3
    · intro hb
      simp only [hb, Bool.not_true, Bool.false_or] at h4
      rw [← basicValidate_eq_spec] at h4
      obtain ⟨u, hu⟩ := Option.isSome_iff_exists.mp h4
      obtain ⟨tok, p, hh⟩ := (basic_accept_iff env.users _ u).mp hu
      exact ⟨tok, u, p, hh⟩
  · intro a
    refine ⟨⟨⟨?_, ?_⟩, ?_⟩, ?_⟩
    · cases e : cfg.headers with
      | none => rfl
      | some rules => exact List.all_eq_true.mpr (a.rules rules e)
    · cases e : cfg.jwt with
      | none => rfl
      | some j => exact (jwtOK_iff j env _).mpr (a.jwt j e)
    · cases e : cfg.sig with
      | none => rfl
      | some s => exact (sigValidate_iff s env r _).mpr (a.sig s e)
    · cases e : cfg.basic with
      | false => rfl
      | true =>
        obtain ⟨tok, u, p, hh⟩ := a.basic e
        have := (basic_accept_iff env.users _ u).mpr ⟨tok, p, hh⟩
        rw [basicValidate_eq_spec] at this
        simp [this]

/-- **`handle_iff_all`**: `Validator.Handle` returns `""` (the request goes on) iff every configured method
accepts the request — soundness and completeness of the filter in one statement. -/
theorem handle_iff_all (cfg : Validator.Cfg) (env : Env) (r : Request) : handle cfg env r = .pass ↔ Accepts cfg env r := by
  rw [handle_eq_expected, ← accepts_iff]
  unfold Spec.expected
  by_cases h : Spec.accepts cfg env r = true
  · simp [h]
  · rw [if_neg h]
    constructor
    · intro e; split at e <;> simp at e
    · intro a; exact absurd a h

/-- **`handle_status`**: a rejected request gets result `invalid` with status 400 exactly when a header rule
fails, 401 otherwise; nothing else is ever produced. -/
theorem handle_status (cfg : Validator.Cfg) (env : Env) (r : Request) :
    handle cfg env r = .pass ∨
    (handle cfg env r = .invalid 400 ∧ Spec.rulesOK cfg env r = false) ∨
    (handle cfg env r = .invalid 401 ∧ Spec.rulesOK cfg env r = true ∧ ¬ Accepts cfg env r) := by
  rw [handle_eq_expected, ← accepts_iff]
  unfold Spec.expected
  by_cases h : Spec.accepts cfg env r = true
  · simp [h]
  · by_cases h2 : Spec.rulesOK cfg env r = true
    · simp [h, h2]
    · simp [h, h2]

/-- the header rules are checked first: a request violating one is answered 400 whatever else it carries -/
theorem headers_first (cfg : Validator.Cfg) (env : Env) (r : Request) (h : Spec.rulesOK cfg env r = false) :
    handle cfg env r = .invalid 400 := by
  rw [handle_eq_expected]
  unfold Spec.expected Spec.accepts
  simp [h]

-- non-vacuity: a configuration with all four methods, a request that is accepted / rejected
section Example
def exEnv (sigOK basicOK : Bool) : Env :=
  { re := fun _ _ => false, jwtLib := ⟨fun _ => some (b "HS256"), fun _ => true, fun _ _ _ => true⟩,
    cookie := fun _ => none, crypto := ⟨fun x => x, fun _ x => x⟩,
    clock := ⟨fun _ => [], fun _ => [], fun _ => if sigOK then some 0 else none, fun _ => some 0⟩, now := 0,
    users := fun _ _ => basicOK }
def exReq : Request :=
  { std := ⟨b "GET", b "/", [], [(b "X-Env", [b "prod"]), (b "Authorization", [b "Bearer x"])], b "a", [], []⟩, payload := [] }
def exCfg : Validator.Cfg := { headers := some [⟨b "x-env", [b "prod"], none⟩], jwt := some ⟨b "HS256", [], []⟩, sig := none, basic := false }
example : handle exCfg (exEnv true true) exReq = .pass := by decide
example : handle { exCfg with basic := true } (exEnv true true) exReq = .invalid 401 := by decide
example : handle { exCfg with headers := some [⟨b "x-env", [b "stage"], none⟩] } (exEnv true true) exReq = .invalid 400 := by decide
end Example

/-! ## 2. Basic credentials -/

/-- **`basic_parse_roundtrip`**: for a user id without colon, `parseCredentials(u ++ ":" ++ p)` returns exactly
`(u, p)` for **every** password `p` — colons and non-ASCII bytes included. -/
theorem basic_parse_roundtrip (u p : Bytes) (hu : 58 ∉ u) : parseCreds (u ++ 58 :: p) = some (u, p) :=
  splitFirst_append p hu

/-- completeness of Basic authentication: the standard encoding of a configured pair is accepted -/
theorem basic_complete (users : Bytes → Bytes → Bool) (h : Header) (u p : Bytes) (hu : 58 ∉ u)
    (hup : users u p = true) (hh : hget h authHeader = b "Basic " ++ Sha256.b64Encode (u ++ 58 :: p)) :
    basicValidate users h = some u :=
  (basic_accept_iff users h u).mpr ⟨_, p, hh, Sha256.b64_roundtrip _, hu, hup⟩

/-- soundness towards the password: if a request is accepted as user `u`, the bytes after the first colon
of the decoded credentials are a password configured for `u` — so changing any byte of the password of an
accepted request to a non-configured one is rejected. -/
theorem basic_password_covered (users : Bytes → Bytes → Bool) (h : Header) (u tok creds : Bytes)
    (hv : basicValidate users h = some u) (hh : hget h authHeader = b "Basic " ++ tok)
    (hd : Sha256.b64Decode tok = some creds) : ∃ p, creds = u ++ 58 :: p ∧ users u p = true := by
  obtain ⟨tok', p, h1, h2, _, h4⟩ := (basic_accept_iff users h u).mp hv
  have : tok' = tok := by
    have := h1.symm.trans hh
    exact List.append_cancel_left this
  subst this
  rw [hd] at h2
  exact ⟨p, Option.some.inj h2, h4⟩

-- the unrepaired `parseCredentials` (`strings.Split`, `parts[1]`) truncates the password at its first colon:
example : parseCredsSplitAll (b "user:pa:ss") = some (b "user", b "pa") := by decide
example : parseCreds (b "user:pa:ss") = some (b "user", b "pa:ss") := by decide
-- … so with it a valid user is rejected and `user:pa:junk` is accepted for password `pa`
example : basicValidateWith parseCredsSplitAll (fun u p => u = b "user" && p = b "pa:ss")
    [(b "Authorization", [b "Basic dXNlcjpwYTpzcw=="])] = none := by decide
example : basicValidateWith parseCredsSplitAll (fun u p => u = b "user" && p = b "pa")
    [(b "Authorization", [b "Basic dXNlcjpwYTpqdW5r"])] = some (b "user") := by decide
example : basicValidate (fun u p => u = b "user" && p = b "pa:ss")
    [(b "Authorization", [b "Basic dXNlcjpwYTpzcw=="])] = some (b "user") := by decide

/-! ## 3. JWT: token source and algorithm pinning -/

/-- **`jwt_source`**: the token is the named cookie's value when a cookie name is configured and that cookie
exists with a non-empty value; in every other case it is what follows `Bearer ` in the Authorization header
(and there is no token at all if the header does not start with `Bearer `). -/
theorem jwt_source (c : JwtCfg) (cookie : Bytes → Option Bytes) (h : Header) :
    (∀ v, c.cookieName ≠ [] → cookie c.cookieName = some v → v ≠ [] → jwtToken c cookie h = some v) ∧
    ((c.cookieName = [] ∨ cookie c.cookieName = none ∨ cookie c.cookieName = some []) →
      ∀ t, jwtToken c cookie h = some t ↔ hget h authHeader = b "Bearer " ++ t) := by
  constructor
  · intro v h1 h2 h3
    simp [jwtToken, h1, h2, h3]
  · intro hc t
    have : (if c.cookieName ≠ [] then (cookie c.cookieName).getD [] else []) = [] := by
      rcases hc with h | h | h <;> simp [h]
    simp only [jwtToken, this, ne_eq, not_true_eq_false, if_false]
    exact stripPrefix_eq_some

/-- **`jwt_alg_pinned`**: a token is accepted only if its header names exactly the configured algorithm and
its signature verifies with *that* algorithm under the configured secret (no `none`, no downgrade to another
HS variant), and its claims are valid; conversely every such token is accepted. -/
theorem jwt_alg_pinned (c : JwtCfg) (lib : JwtLib) (cookie : Bytes → Option Bytes) (h : Header) :
    jwtValidate c lib cookie h = true ↔ ∃ t, jwtToken c cookie h = some t ∧ lib.headerAlg t = some c.alg ∧
      lib.claimsOK t = true ∧ lib.sigOK t c.alg c.secret = true := by
  unfold jwtValidate
  cases jwtToken c cookie h with
  | none => simp
  | some t => simp [jwtParse_keyFunc, and_assoc]

example : jwtValidate ⟨b "HS256", [1], []⟩ ⟨fun _ => some (b "none"), fun _ => true, fun _ _ _ => true⟩ (fun _ => none)
    [(b "Authorization", [b "Bearer x.y."])] = false := by decide


/-! ## 4. API signature: `Sign` → `Verify` completeness

`Crypto` (SHA-256 hex digest, HMAC-SHA256) is an opaque parameter in all theorems of this and the next
section; the judge instantiates it with the executable `Model/Sha256.lean`, which is checked against the FIPS /
RFC 4231 vectors and, by every correspondence run, against `crypto/sha256` + `crypto/hmac`. -/

theorem defaultLiteral_ok : LitOK defaultLiteral :=
  ⟨by decide, by unfold Clean; decide, by unfold KeyOK Clean; decide, by unfold KeyOK Clean; decide, by decide⟩

/-- **`verify_sign_complete`**: for every configuration, method, path, multi-valued query, header set, host and
body, a request signed by `Sign` with an access key of the store at time `t` verifies at any `now` within the TTL
window — *against the body the backend will receive* (`body.getD []`: what reading the payload yields, also when
the signer saw `Body == nil`).

Hypotheses (all explicit): the key is in the store; the standard-library clock contract `ClockOK`; the literals
are sane (`LitOK`, true for the defaults); key id and scopes contain no white space / `,` / `/` / `;` (they are
written unescaped into the Authorization header); the header map is what net/http produces (`HeaderOK`: distinct
canonical token keys, no `Host` key); the caller did not pre-set the content-hash header; and the hash of the empty
string is the constant the Go code hard-wires (`sha256Empty`, checked for the executable SHA-256 by `#guard`). -/
theorem verify_sign_complete (cfg : Signer.Cfg) (cr : Crypto) (clock : Clock) (now t t' : Int) (keyId secret : Bytes)
    (scopes : List Bytes) (req : Req) (body : Option Bytes)
    (hstore : storeGet keyId cfg.store = some secret)
    (hclock : ClockOK clock t t') (hlit : LitOK cfg.lit)
    (httl : cfg.ttl > 0 → -cfg.ttl ≤ now - t' ∧ now - t' ≤ cfg.ttl)
    (hid : Clean keyId) (hsc : ∀ s ∈ scopes, Clean s)
    (hok : HeaderOK req.headers) (hnone : hget req.headers cfg.lit.contentSha256 = [])
    (hempty : cr.sha256hex [] = sha256Empty) :
    verify cfg cr clock now (sign cfg cr clock keyId secret t scopes req body) (some (body.getD [])) = .ok () :=
  verify_sign cfg cr clock now t t' keyId secret scopes req body hstore hclock hlit httl hid hsc hok hnone hempty

/-- … and therefore the (repaired) Validator lets the correctly signed request through with exactly the payload
that was signed. -/
theorem handle_accepts_signed (s : Signer.Cfg) (env : Env) (t t' : Int) (keyId secret : Bytes)
    (scopes : List Bytes) (req : Req) (body : Option Bytes)
    (hstore : storeGet keyId s.store = some secret)
    (hclock : ClockOK env.clock t t') (hlit : LitOK s.lit)
    (httl : s.ttl > 0 → -s.ttl ≤ env.now - t' ∧ env.now - t' ≤ s.ttl)
    (hid : Clean keyId) (hsc : ∀ x ∈ scopes, Clean x)
    (hok : HeaderOK req.headers) (hnone : hget req.headers s.lit.contentSha256 = [])
    (hempty : env.crypto.sha256hex [] = sha256Empty) :
    handle { headers := none, jwt := none, sig := some s, basic := false } env
      ⟨sign s env.crypto env.clock keyId secret t scopes req body, body.getD []⟩ = .pass := by
  rw [handle_iff_all]
  refine ⟨by simp, by simp, ?_, by simp⟩
  intro s' hs'
  simp only [Option.some.injEq] at hs'
  subst hs'
  exact verify_sign_complete s env.crypto env.clock env.now t t' keyId secret scopes req body hstore hclock hlit httl hid hsc
    hok hnone hempty

/-! ## 5. API signature: what an accepted signature covers -/

/-- **`ttl_window`**, **`unknown_key_rejected`**, **`date_scope_prefix_checked`** in one statement: an accepted
request parses into a signing context whose time lies in `[now − ttl, now + ttl]` (when a TTL is configured) and,
for presigned URLs, is not older than its `Expires`; its access key id is in the store; and its signature is the
one recomputed with that key's secret. -/
theorem verify_ok_facts (cfg : Signer.Cfg) (cr : Crypto) (clock : Clock) (now : Int) (req : Req) (body : Option Bytes)
    (h : verify cfg cr clock now req body = .ok ()) :
    ∃ ctx secret, initFromSignedRequest cfg.lit clock req = .ok ctx ∧
      (cfg.ttl > 0 → -cfg.ttl ≤ now - ctx.time ∧ now - ctx.time ≤ cfg.ttl) ∧
      (ctx.presign = true → now - ctx.time ≤ ctx.expire) ∧
      storeGet ctx.keyId cfg.store = some secret ∧
      ctx.signature = expectedSignature cfg cr clock ctx secret req body :=
  (verify_ok_iff cfg cr clock now req body).mp h

/-- **`ttl_window`** -/
theorem ttl_window (cfg : Signer.Cfg) (cr : Crypto) (clock : Clock) (now : Int) (req : Req) (body : Option Bytes) (ctx : Ctx)
    (hi : initFromSignedRequest cfg.lit clock req = .ok ctx) (httl : cfg.ttl > 0)
    (hout : now - ctx.time < -cfg.ttl ∨ now - ctx.time > cfg.ttl) :
    verify cfg cr clock now req body = .error .expired := by
  unfold verify
  simp only [hi]
  rw [if_pos ⟨httl, hout⟩]

/-- **`unknown_key_rejected`** -/
theorem unknown_key_rejected (cfg : Signer.Cfg) (cr : Crypto) (clock : Clock) (now : Int) (req : Req) (body : Option Bytes)
    (ctx : Ctx) (hi : initFromSignedRequest cfg.lit clock req = .ok ctx) (hk : storeGet ctx.keyId cfg.store = none) :
    verify cfg cr clock now req body ≠ .ok () := by
  intro h
  obtain ⟨ctx', secret, h1, _, _, h4, _⟩ := verify_ok_facts cfg cr clock now req body h
  rw [hi] at h1
  cases h1
  rw [hk] at h4
  cases h4

/-- **`date_scope_prefix_checked`** (header mode): the date in the credential scope must be a prefix of the
`X-Me-Date` header, which must parse. -/
theorem date_scope_prefix_checked (lit : Literal) (clock : Clock) (req : Req) (ctx : Ctx)
    (h : initFromHeader lit clock req = .ok ctx) :
    ∃ alg rest cred, splitFirst 32 (hget req.headers authHeader) = some (alg, rest) ∧ alg = lit.algorithmValue ∧
      hasPrefix (hget req.headers lit.date) ((splitOn 47 cred).getD 1 []) = true ∧
      clock.parseTime (hget req.headers lit.date) = some ctx.time ∧ ctx.keyId = (splitOn 47 cred).headD [] := by
  unfold initFromHeader at h
  simp only at h
  split at h
  · cases h
  · rename_i alg rest hsf
    split at h
    · cases h
    · rename_i halg
      split at h
      · rename_i p0 p1 p2 _
        split at h
        · cases h
        · rename_i cred _
          split at h
          · cases h
          · split at h
            · cases h
            · split at h
              · cases h
              · split at h
                · cases h
                · rename_i hpre
                  split at h
                  · cases h
                  · rename_i t ht
                    cases h
                    exact ⟨alg, rest, cred, hsf, by simpa using halg, by simpa using hpre, ht, rfl⟩
      · cases h

/-- **`tamper_rejected`**. Hypotheses `hH`, `hM` idealise SHA-256 / HMAC-SHA256 as injective (collision-free);
they are hypotheses of this theorem, not axioms, and visible here. If two requests are both accepted under the
*same* signing context (same credential, signed-header list, signature and timestamp — e.g. the second is the first
with anything but the Authorization / date header changed), then they agree on everything the signature covers:
method, canonical URI, canonical query (without the signature parameters), the canonical line of every signed header
including `host`, and the body hash. Contrapositive: changing any of these in an accepted request, while keeping its
signature, makes `Verify` fail. `NoLF` is what net/http guarantees for parsed requests. -/
theorem tamper_rejected (cfg : Signer.Cfg) (cr : Crypto) (clock : Clock) (now : Int) (r1 r2 : Req) (b1 b2 : Option Bytes)
    (ctx : Ctx)
    (hH : Function.Injective cr.sha256hex) (hM : ∀ k, Function.Injective (cr.hmac k))
    (i1 : initFromSignedRequest cfg.lit clock r1 = .ok ctx) (i2 : initFromSignedRequest cfg.lit clock r2 = .ok ctx)
    (v1 : verify cfg cr clock now r1 b1 = .ok ()) (v2 : verify cfg cr clock now r2 b2 = .ok ())
    (n1 : NoLF r1) (n2 : NoLF r2) (hsh : (10 : UInt8) ∉ ctx.signedHeaders) :
    covered cfg clock ctx r1 = covered cfg clock ctx r2 ∧ hashBodyVerify cfg cr b1 = hashBodyVerify cfg cr b2 := by
  obtain ⟨c1, s1, h1, _, _, k1, e1⟩ := verify_ok_facts cfg cr clock now r1 b1 v1
  obtain ⟨c2, s2, h2, _, _, k2, e2⟩ := verify_ok_facts cfg cr clock now r2 b2 v2
  rw [i1] at h1; cases h1
  rw [i2] at h2; cases h2
  rw [k1] at k2; cases k2
  have := expectedSignature_inj cfg cr clock ctx s1 r1 r2 b1 b2 hH hM (e1.symm.trans e2)
  exact canonical_injective cfg clock ctx r1 r2 _ _ n1 n2 hsh this

/-- … in particular the body: unless `excludeBody` is configured, the two accepted requests carry the same body
bytes — the body *as `Verify` read it*, which in the repaired `Handle` is the payload that is forwarded. -/
theorem tamper_rejected_body (cfg : Signer.Cfg) (cr : Crypto) (clock : Clock) (now : Int) (r1 r2 : Req) (b1 b2 : Bytes)
    (ctx : Ctx)
    (hH : Function.Injective cr.sha256hex) (hM : ∀ k, Function.Injective (cr.hmac k))
    (i1 : initFromSignedRequest cfg.lit clock r1 = .ok ctx) (i2 : initFromSignedRequest cfg.lit clock r2 = .ok ctx)
    (v1 : verify cfg cr clock now r1 (some b1) = .ok ()) (v2 : verify cfg cr clock now r2 (some b2) = .ok ())
    (n1 : NoLF r1) (n2 : NoLF r2) (hsh : (10 : UInt8) ∉ ctx.signedHeaders) (hex : cfg.excludeBody = false) :
    b1 = b2 := by
  have := (tamper_rejected cfg cr clock now r1 r2 _ _ ctx hH hM i1 i2 v1 v2 n1 n2 hsh).2
  simp only [hashBodyVerify, hex, Bool.false_eq_true, if_false] at this
  exact hH this


/-! ## 6. Non-vacuity and the two defects of the unrepaired code, on concrete data -/
section Concrete

def exClock : Clock := ⟨fun _ => b "20220101", fun _ => b "20220101T000000Z",
  fun s => if s = b "20220101T000000Z" then some 0 else none, fun _ => none⟩
/-- toy stand-ins for SHA-256 / HMAC (the theorems hold for every `Crypto`): identity except that the empty
string maps to the hard-wired constant; concatenation -/
def exCrypto : Crypto := ⟨fun x => if x = [] then sha256Empty else x, fun k x => k ++ x⟩
def exSigCfg : Signer.Cfg := ⟨defaultLiteral, [], 600, false, [(b "AKID", b "SECRET")]⟩
def exSReq : Req :=
  ⟨b "POST", b "/a b", [(b "x", [b "2", b "1"])], [(b "Content-Type", [b "a  b"]), (b "X-A", [b "1", b "2"])], b "a.com:80", [], []⟩
def exSigned (body : Option Bytes) : Req := sign exSigCfg exCrypto exClock (b "AKID") (b "SECRET") 0 [b "eu"] exSReq body
def exVEnv : Env := { exEnv true true with crypto := exCrypto, clock := exClock, now := 5 }
def exVCfg : Validator.Cfg := { headers := none, jwt := none, sig := some exSigCfg, basic := false }

-- the hypotheses of `verify_sign_complete` are satisfiable (multi-valued query, header with repeated spaces,
-- multi-valued header, host with port, body)
example : verify exSigCfg exCrypto exClock 5 (exSigned (some [1, 2])) (some [1, 2]) = .ok () :=
  verify_sign_complete exSigCfg exCrypto exClock 5 0 0 (b "AKID") (b "SECRET") [b "eu"] exSReq (some [1, 2])
    (by decide) ⟨by decide, by decide, by decide, by decide, by unfold Clean; decide⟩ defaultLiteral_ok
    (by intro _; decide) (by unfold Clean; decide) (by unfold Clean; decide)
    (by unfold HeaderOK KeyOK Clean; decide) (by decide) (by decide)

set_option maxRecDepth 100000 in
-- the model is executable: the same fact by evaluation, and the TTL / key / tamper failures
example : (verify exSigCfg exCrypto exClock 5 (exSigned (some [1, 2])) (some [1, 2])).toBool = true := by decide
set_option maxRecDepth 100000 in
example : verify exSigCfg exCrypto exClock 601000000000 (exSigned none) (some []) = .error .expired := by decide
set_option maxRecDepth 100000 in
example : verify { exSigCfg with store := [] } exCrypto exClock 5 (exSigned none) (some []) = .error .unknownKey := by decide
set_option maxRecDepth 100000 in
example : (verify exSigCfg exCrypto exClock 5 { exSigned (some [1, 2]) with method := b "PUT" } (some [1, 2])).toBool = false := by
  decide

set_option maxRecDepth 100000 in
/-- **Defect (i) of the unrepaired code** (`handleDrained`: `Verify` reads the body that `FetchPayload` already
drained): an honestly signed request with a body is rejected, and a request signed for the empty body is accepted
with any payload; the repaired `handle` accepts the first and rejects the second. -/
theorem drained_body_defect :
    handleDrained exVCfg exVEnv ⟨exSigned (some [1, 2]), [1, 2]⟩ = .invalid 401 ∧
    handleDrained exVCfg exVEnv ⟨exSigned (some []), [9, 9, 9]⟩ = .pass ∧
    handle exVCfg exVEnv ⟨exSigned (some [1, 2]), [1, 2]⟩ = .pass ∧
    handle exVCfg exVEnv ⟨exSigned (some []), [9, 9, 9]⟩ = .invalid 401 := by decide

-- the hypotheses of `tamper_rejected` are satisfiable: an injective toy hash / MAC, an accepted request and the same
-- request with an additional unsigned header
def exCrypto2 : Crypto := ⟨fun x => x, fun k x => k ++ x⟩
def exSigned2 : Req := sign exSigCfg exCrypto2 exClock (b "AKID") (b "SECRET") 0 [] exSReq (some [7])
def exCtx2 : Ctx := match initFromSignedRequest defaultLiteral exClock exSigned2 with | .ok c => c | .error _ => ⟨false, [], [], [], [], 0, 0⟩
set_option maxRecDepth 100000 in
example : covered exSigCfg exClock exCtx2 exSigned2
      = covered exSigCfg exClock exCtx2 { exSigned2 with headers := exSigned2.headers ++ [(b "X-New", [b "v"])] } ∧
      hashBodyVerify exSigCfg exCrypto2 (some [7]) = hashBodyVerify exSigCfg exCrypto2 (some [7]) :=
  tamper_rejected exSigCfg exCrypto2 exClock 5 exSigned2 { exSigned2 with headers := exSigned2.headers ++ [(b "X-New", [b "v"])] }
    (some [7]) (some [7]) exCtx2 (fun _ _ h => h) (fun _ _ _ h => List.append_cancel_left h)
    (by decide) (by decide)
    (by decide) (by decide)
    ⟨by decide, by decide, by decide, by decide⟩ ⟨by decide, by decide, by decide, by decide⟩ (by decide)

end Concrete

end EgVerif.C06
